#!/bin/bash
# tools/tvq.sh <C01|C02> '<query>' '<graph json (gm.Graph)>' — evaluates one query on one graph through the C01/C02 replay path.
ID=$1; Q=$2; G=$3
F=$(mktemp /tmp/tvq.XXXXXX.json)
python3 - "$Q" "$G" > "$F" <<'PY'
import json,sys
print(json.dumps({"property":"x","class":"adhoc","summary":"","artefact":{"query":sys.argv[1],"params":{"p":"a","q":"b","ps":["a","c"],"v":1,"s":1,"l":1},"graph":json.loads(sys.argv[2])}}))
PY
cd /verif && ./check $ID --replay "$F"; rm -f "$F"
