#!/usr/bin/env python3
"""Regenerates /verif/MANIFEST.json from the table below and validates it against the schema."""
import json, sys

ALL = ["C%02d" % i for i in range(1, 21)]

# id -> dict(level, text, note, technique, design_ref, engine)
CHECKS = {
 "C01": dict(level="translation_validation", engine="E3 enum + cyref/pgeval",
   text="Translation validation over a completely enumerated bounded space: every query text built from <= 2 (quick) / <= 3 (thorough) features of a feature grammar over the "
        "supported read fragment (5.4k / 166k texts, parsed by the real parser) is translated by the real translator and its pgsql AST is evaluated by pgeval on every "
        "property graph of the query's sliced domain (<= 2 nodes, <= 2 edges quick; <= 3/3 thorough; self loops, parallel edges, kind-less nodes, missing and mixed-type "
        "properties) and compared with the reference openCypher evaluator cyref (bag equality; sequence where ORDER BY is total; block-wise with ties; sub-bag for SKIP/LIMIT). "
        "Both models are bound to real backends at the start of every run by replaying the project's integration corpus (expectations recorded against live PostgreSQL and Neo4j). "
        "A disagreement is attributed to a known finding only if cyref reproduces the SQL rows exactly with that known deviation switched on.",
   note="There is no PostgreSQL in the sandbox: pgeval (interpreter of the emitted pgsql AST, 387 corpus expectations reproduced, 0 mismatches) and cyref (375 reproduced, 0 mismatches) "
        "are the trusted base; statements pgeval does not model (shortest-path harnesses, temporal, regex outside a common subset, collation-dependent ordering) are counted as outside, "
        "never judged. SQL run-time errors count as 'rejected with an error'. Graph bounds and the sliced attribute domains are stated in the evidence.",
   technique="bounded exhaustive translation validation (query texts x graphs) against a reference evaluator; models conformance-checked against recorded real-backend results",
   design_ref="4/C01, 10.4"),
 "C02": dict(level="translation_validation", engine="E3 enum + pgeval/cyref",
   text="For every enumerated query (as C01, plus seeds that trigger the AST rewrite rules and the lowerings the grammar does not reach) the SQL of the production translation "
        "(all optimisations) and of the unoptimised translation (a Translator that never receives a plan; reached through a verif-tagged overlay hook) are evaluated by pgeval "
        "on every graph of the query's domain and must return the same bag (cardinality only where SKIP/LIMIT cuts an order that is not total); where the optimiser rewrites the "
        "Cypher, the rewritten query is compared with the original by cyref. Single-lowering configurations are evaluated too but only as diagnostics.",
   note="Same trusted base as C01. A difference is attributed to a known finding only if both SQL results are reproduced exactly by cyref with known C01 deviations switched on and the "
        "deviation sets differ (the optimisation removes or introduces a known translation defect). Hybrid configurations (one lowering removed) are not deciders: a lowering may rely on another.",
   technique="bounded exhaustive differential translation validation (optimised vs unoptimised SQL on all enumerated graphs)",
   design_ref="4/C02, 10.4"),
 "C12": dict(level="model_checking", engine="E2 bfs",
   text="Explicit-state breadth-first search over every edit history (Set/SetAll/Delete/GetOrDefault/Clone/Merge, AddKinds/DeleteKinds/Merge) "
        "on two real tracked entities from every loaded state over keys {a,b} and kinds {K1,K2}, for bare Properties, Relationship and Node; "
        "after every transition the recorded delta must be disjoint, reproduce the current state from the loaded state, and the last edit must win.",
   note="Trusted: the stated reading of Merge (merged loaded state = receiver's overlaid with operand's; keys the operand never edited may keep "
        "either value). Entities with nil Properties are outside the alphabet. Depth-bounded (quick 4, thorough 6).",
   technique="explicit-state BFS over real objects (history replay) with delta-replay oracle",
   design_ref="4/C12"),
 "C13": dict(level="model_checking", engine="E2 bfs + E1 sched",
   text="(1) Explicit-state BFS over operation histories (Add/CheckedAdd/Remove/Clear/Clone/Or/And/AndNot/Xor and operand edits) on a receiver and an operand "
        "for every ordered pairing of {bitmap, threadSafe(bitmap)} at both widths, over value windows straddling the 2^16, 2^32 and 2^48 boundaries with dense blocks "
        "that force bitmap containers; every read of receiver and operand must equal a map-based set after every step. (2) Every interleaving (unbounded) of 2-3 "
        "thread programs over two thread-safe wrappers (binary operations take the other wrapper as operand) on the real code under a controlled scheduler; "
        "each history must be linearizable against a pair of sets, with deadlock/panic detection. (3) A free-running -race pass (sampling, reported separately).",
   note="Trusted: canonical state = serialised roaring layout + reference sets; shim fidelity to sync.Mutex. Reading made explicit: an in-place binary operation "
        "on wrappers reads one consistent operand state and then updates the receiver atomically (two instants inside the call), cross-object atomicity is not demanded. "
        "Sequential depth bound quick 4 / thorough 7.",
   technique="explicit-state BFS + stateless schedule enumeration (controlled scheduler) with brute-force linearizability oracle",
   design_ref="4/C13"),
 "C16": dict(level="model_checking", engine="E2 bfs + E1 sched",
   text="(1) Explicit-state BFS over every Put/Get/Delete history on the real SIEVE and non-expiring caches (4 keys, capacities -1..4) until the reachable "
        "state space closes, with a reference map and bound/size/queue/hand invariants in every state. (2) Every interleaving (unbounded for the quick scenarios: "
        "2 threads x 2 ops and 3 threads x 1 op over 2 colliding keys, 5 pre-populations, capacities 1..3) of the real code under a controlled scheduler whose "
        "scheduling points are the cache's own sync/atomic operations; each recorded history plus the final store must be linearizable up to eviction, "
        "with deadlock/panic detection. (3) A free-running -race pass over the same bodies (sampling, reported separately).",
   note="Trusted: canonical-state abstraction (values renamed by rank; hit/miss counters dropped); shim fidelity to sync.RWMutex/atomic semantics; "
        "sequential consistency (weak-memory effects are left to the -race pass). Overlay instrumentation is generated from /repo at check time.",
   technique="explicit-state BFS + stateless schedule enumeration (controlled scheduler) with brute-force linearizability oracle",
   design_ref="4/C16"),
 "C17": dict(level="model_checking", engine="E1 sched",
   text="Stateless exploration of the real traversal.BreadthFirst and channels.BufferedPipe under a controlled scheduler: goroutines, channels, select, "
        "context cancellation, WaitGroup, mutex and atomics of traversal/, util/channels, util/ are rewritten at build time onto scheduler shims, every select "
        "choice and rendezvous is a branch point. Pipe scenarios (0..2/3 values, slow reader, concurrent cancel) are explored over every interleaving; BreadthFirst "
        "scenarios (tree/DAG/cyclic drivers with up to 6 paths, 1..3 workers, fault plans: driver error at each path, memory limit, parent-context cancel) up to a "
        "preemption bound, with happens-before-hash state caching. Oracle: expanded paths = sequential expansion exactly once, returns, injected error comes back, "
        "no deadlock / goroutine left parked / panic. Plus a free-running -race pass.",
   note="Trusted: fidelity of the channel/select/context shims to Go semantics (CSP rendezvous, close, nil channels); state caching is sound for data-race-free code "
        "(partial-order equivalence); preemption bounds as stated per scenario in the evidence. The sequential helpers of ops/ (Traversal, TraversePaths, Acyclic*) "
        "are not yet covered by this check.",
   technique="stateless model checking of the implementation (controlled scheduler, preemption bounding, happens-before state caching)",
   design_ref="4/C17"),
 "C18": dict(level="exploration", engine="E3 enum + E4 fakedb/vos",
   text="Every small source database (<= 2/3 nodes, <= 2 relationships, ids with gaps stored out of order, kind sets, a 10-value property domain incl. 2^53+1, nested and unicode values, "
        "two-graph databases with hostile names) x codec {none,gzip,zstd} x shard x dump batch x load batch is dumped by the real retriever over an in-memory graph.Database, checked by an "
        "independent dump reader (file set, counts, bytes, SHA-256, records, schema, metrics, fingerprint), loaded into an empty fake and compared up to isomorphism under exact JSON equality; "
        "Verify must succeed, and for every single edit of the loaded database Verify must fail exactly when an independent metrics implementation differs.",
   note="Trusted: fakedb follows the graph.Database contract retriever uses (fails closed on anything else); independent reader/metrics in mc/rtk. 'Verify succeeds exactly when the graphs match' is decided relative to the metrics abstraction (property-value edits are invisible to Verify by design).",
   technique="bounded exhaustive enumeration of databases x configurations with an independent dump reader and isomorphism oracle",
   design_ref="4/C18"),
 "C19": dict(level="fault_enumeration", engine="E4 vos + fakedb",
   text="retriever's os calls are rewritten at build time onto a shim that numbers every file-system call (incl. File.Write/Close/Sync) in one sequence with the database calls. For each "
        "scenario every call index of the traced Dump is hit with crash-before, crash-after, EIO, torn writes (0, n/2, n-1 bytes), short write+EIO and a dying Fetch; from every distinct "
        "resulting directory state a clean resume, every 'must refuse' variant (changed options, changed source, stray files, damaged fragments) and again every call x mode of the resume "
        "(depth 2) are run. Oracle: a manifest exists only for a complete dump; a checkpoint always parses and names intact fragments; committed fragments survive; a resume that returns nil "
        "leaves exactly the uninterrupted dump; every variant fails.",
   note="Crash model = the process dies (dead shim: later calls have no effect), not power loss / fsync reordering. Count-preserving source replacement is reported, not judged (the snapshot check is count based by design).",
   technique="exhaustive crash/fault-point enumeration (depth 2) over intercepted file-system and database calls",
   design_ref="4/C19"),
 "C20": dict(level="fault_enumeration", engine="E4 vos + fakedb",
   text="For a two-graph dump in every codec, its TAR and its encrypted archive: every byte x {^1,^0x80,0x00,0xFF} (all 255 values in thorough), every truncation length, appended garbage, "
        "manifest field and structure edits, fragment edits, TAR entry and frame edits, ~90 hostile TAR entries (absolute, parent, volume, backslash, links, devices, GNU/PAX names, size tricks) "
        "and wrong/malformed keys are fed to Load, UnpackTar, UnpackEncryptedCollectionArchive and Unpack. Oracle: an error implies an empty target mutation log and no partial output; the "
        "sandbox outside the output directory is unchanged; success implies a result identical to the pristine run.",
   note="Four known findings (partial output after a failed UnpackTar / UnpackEncryptedCollectionArchive, UnpackTar accepting a tampered fragment, Load(VerifyMetrics) failing only after writing) are listed in known_findings.json; any other failure has a different class. Time-of-check/time-of-use changes of the input are out of scope.",
   technique="exhaustive single-fault mutation enumeration of dump inputs with mutation-log, confinement and integrity oracles",
   design_ref="4/C20"),
}

NOT_YET = "checker not built yet in this session (planned, see DESIGN.md section 4); not claimed until it runs clean"

def main():
    checks = []
    for pid in ALL:
        if pid not in CHECKS:
            continue
        c = CHECKS[pid]
        checks.append({
            "property_id": pid,
            "quick_cmd": "./check %s --tier quick" % pid,
            "thorough_cmd": "./check %s --tier thorough" % pid,
            "evidence_file": "/verif/evidence/%s.json" % pid,
            "replay_cmd_template": "./check %s --replay {path}" % pid,
            "engine": c["engine"],
            "level_claimed": {"category": c["level"], "text": c["text"], "design_ref": c["design_ref"]},
            "level_note": c["note"],
            "technique": c["technique"],
        })
    na = [{"property_id": p, "reason": NOT_YET} for p in ALL if p not in CHECKS]
    m = {
        "version": 1,
        "setup_cmd": "./setup.sh",
        "hooks": {
            "guard": "verif",
            "enable": "go build -tags verif -overlay <generated overlay.json>: instrumentation is generated from /repo's working tree "
                      "at check time (import rewrites onto scheduler/fault shims, state accessors added to packages) and passed with "
                      "-overlay; /repo carries no hook commits unless listed in source_commits",
            "baseline_off_cmd": "cd /repo && GOFLAGS=-mod=mod go test -vet=off -count=1 -timeout 25m ./...",
            "source_commits": [],
            "add_only": True,
        },
        "engines": [
            {"name": "E1 sched", "path": "mc/sched", "serves_properties": ["C05", "C13", "C16", "C17"],
             "kind_free_text": "controlled cooperative scheduler + stateless DFS over schedules with preemption bounding; real code reaches it through import-rewritten sync/atomic/channel shims"},
            {"name": "E2 bfs", "path": "mc/bfs", "serves_properties": ["C12", "C13", "C15", "C16"],
             "kind_free_text": "explicit-state BFS whose transitions call the real methods; states deduplicated by canonical implementation state"},
            {"name": "E3 enum", "path": "mc/enum", "serves_properties": ["C01", "C02", "C03", "C04", "C05", "C06", "C07", "C08", "C09", "C10", "C11", "C14", "C18", "C20"],
             "kind_free_text": "bounded exhaustive generators (graphs, grammar derivations, builder terms, AST shapes, byte mutations)"},
            {"name": "E4 crash", "path": "mc/shim/vos", "serves_properties": ["C19", "C20"],
             "kind_free_text": "crash/fault-point enumeration over every intercepted file-system and database call"},
        ],
        "checks": checks,
        "not_applicable": na,
        "notes": "See DESIGN.md. Exit code 2 = machinery failure, never a verdict.",
    }
    json.dump(m, open("/verif/MANIFEST.json", "w"), indent=1)
    try:
        import jsonschema
        jsonschema.validate(m, json.load(open("/root/.vp/MANIFEST.schema.json")))
        print("MANIFEST valid:", len(checks), "checks,", len(na), "not_applicable")
    except ImportError:
        print("jsonschema not importable; skipped validation")

if __name__ == "__main__":
    main()
