#!/usr/bin/env python3
"""Regenerates /verif/MANIFEST.json from the table below and validates it against the schema."""
import json, sys

ALL = ["C%02d" % i for i in range(1, 21)]

# id -> dict(level, text, note, technique, design_ref, engine)
CHECKS = {
 "C01": dict(level="translation_validation", engine="E3 enum + cyref/pgeval",
   text="Translation validation over completely enumerated finite families: (1) every query text built from <= 2 (quick) / <= 3 (thorough) features of a feature grammar over the supported "
        "read fragment (5.6k / 166k texts); (2) all 2- and 3-step path patterns over 8 step shapes; (3) reading clauses x projections x result modifiers; (4) a cross-clause data-flow family "
        "(11 producers x 35 consumers); (5) every read query of the repository corpora and its single-edit neighbourhood. Each text is parsed by the real parser, translated by the real "
        "translator, and its pgsql AST is evaluated by pgeval on every property graph of the query's sliced domain (<= 2 nodes / 2 edges quick, <= 3 / 3 thorough) and on every graph within a "
        "fixed edit distance of the graph obtained by instantiating the query's own patterns; the rows are compared with the reference openCypher evaluator cyref (bag equality; sequence where "
        "ORDER BY is total; block-wise with ties; sub-bag for SKIP/LIMIT). Both models are bound to real backends at the start of every run by replaying the project's integration corpus "
        "(expectations recorded against live PostgreSQL and Neo4j); if the translated SQL no longer reproduces a recorded result, that is a violation. A disagreement is attributed to a known "
        "finding only if cyref reproduces the SQL rows exactly with the smallest set (<= 3) of known-deviation switches on.",
   note="There is no PostgreSQL in the sandbox: pgeval (interpreter of the emitted pgsql AST, 387 corpus expectations reproduced, 0 mismatches) and cyref (375 reproduced, 0 mismatches) "
        "are the trusted base; statements pgeval does not model (plpgsql shortest-path harnesses, temporal types, nextval, data-modifying statements) are counted as outside, never judged. "
        "Families (2)-(5) and three-feature texts run in a tame graph regime (no self loops, no parallel relationships, one value type per key); queries with two or more variable-length "
        "steps are skipped outside family (1): outside these limits the recorded deviations combine in ways that cannot all be attributed, and what cannot be attributed is not judged. "
        "22 known findings (semantic deviations of DAWGS from openCypher, each reproduced by a cyref switch).",
   technique="bounded exhaustive translation validation (query texts x graphs) against a reference evaluator; models conformance-checked against recorded real-backend results",
   design_ref="4/C01, 10.4"),
 "C02": dict(level="translation_validation", engine="E3 enum + pgeval/cyref",
   text="For every query of C01's families (plus seeds that trigger the AST rewrite rules and the lowerings the grammar does not reach) the SQL of the production translation "
        "(all optimisations) and of the unoptimised translation (a Translator that never receives a plan; reached through a verif-tagged overlay hook) are evaluated by pgeval "
        "on every graph of the query's domain and of its witness neighbourhood and must return the same bag (cardinality only where SKIP/LIMIT cuts an order that is not total); where the "
        "optimiser rewrites the Cypher, the rewritten model (including its PathDirectionReversed flags) is compared with the original by cyref. Single-lowering configurations are evaluated "
        "in the thorough tier, as diagnostics only.",
   note="Same trusted base and regime as C01. A difference is attributed to a known finding only if both SQL results are reproduced exactly by cyref with known C01 deviations switched on and the "
        "deviation sets differ (the optimisation removes or introduces a known translation defect), or if the optimised rows equal the reference and the baseline is wrong in one of three "
        "recorded ways. Hybrid configurations (one lowering removed) are not deciders: a lowering may rely on another.",
   technique="bounded exhaustive differential translation validation (optimised vs unoptimised SQL on all enumerated graphs)",
   design_ref="4/C02, 10.4"),
 "C03": dict(level="exploration", engine="E3 enum + pgbind",
   text="Every statement the real translator emits for the feature-grammar enumeration (all feature sets with <= 2 / <= 3 features over MATCH (n) RETURN n incl. updating clauses, "
        "parameters and shortest paths: 6.9k / 230k texts, each parsed by the real parser) and for all 1012 corpus queries is bound by pgbind: an own traversal of the pgsql AST with "
        "PostgreSQL's scoping rules (CTE visibility incl. recursion, FROM items in order, LATERAL, correlated sub-queries, composite field expansion of unnest, GROUP/ORDER output names, "
        "DML targets, RETURNING, ON CONFLICT) against the schema extracted at run time from schema_up.sql. Every identifier, compound identifier, row-column reference and composite field "
        "must resolve to exactly one definition; CTE column lists, insert and set-operation arities must match; every @parameter needs a value; DML only with an updating clause.",
   note="Trusted: pgbind's scope rules match PostgreSQL's analyser; SQL text handed to the plpgsql harness functions is located but not bound (no SQL parser). Anything pgbind does not model is "
        "counted as outside, never as a violation. 16 failure classes (statements PostgreSQL would reject) are recorded as known findings by (issue, trigger shape of the Cypher query); "
        "a different defect inside an already recorded trigger shape would be attributed to the recorded class.",
   technique="bounded exhaustive enumeration of query texts; name resolution of every emitted statement against the schema",
   design_ref="4/C03, 10.5"),
 "C04": dict(level="exploration", engine="E3 enum + pglex",
   text="63 position shapes (string literals in 28 contexts, property and map keys, kind names, variable names, RETURN/WITH/UNWIND aliases, parameter names, parameter values as "
        "string/list/map key/map value, nine shortest-path shapes) x every string of length <= 2 / <= 3 over a 17-character adversarial alphabet (quotes, backslash, dollar, NUL-free "
        "controls, comment openers, semicolon, LIKE wildcards, non-ASCII) plus a 25-string pool and a 70,000-character value. The emitted statement and, recursively, every SQL text it "
        "hands to the *_harness functions are tokenised by pglex (a model of PostgreSQL's scan.l) and compared with the benign twin: identical token kinds, each differing token one "
        "string/identifier token whose decoded value equals the denoted value (LIKE patterns with wildcards escaped), bound parameters counted separately.",
   note="Trusted: pglex follows scan.l with standard_conforming_strings=on plus pgx's @name syntax; harness SQL is located syntactically by *_harness( calls.",
   technique="bounded exhaustive enumeration of hostile values x positions with a lexer-level differential oracle against a benign twin",
   design_ref="4/C04, 10.5"),
 "C05": dict(level="exploration", engine="E3 enum + E1 sched",
   text="(1) Totality and purity: every enumerated / corpus query (7.9k quick, 231k thorough) x parameter-symbol collisions x 12 parameter-map variants is translated under recover with "
        "a pointer-aware structural fingerprint of (AST, parameter map) before and after. (2) Determinism: every query translated three times; the 40 shortest structurally distinct "
        "queries in all ordered pairs against results from fresh processes (history independence). (3) Every interleaving of two and three concurrent translations sharing one kind mapper "
        "under the controlled scheduler (scheduling points: the mapper's methods), compared with the sequential result. (4) A free-running -race pass.",
   note="Hang detection is a machinery guard (60 s then three isolated re-runs), no step counter exists without editing /repo. Interleaving points are the kind mapper's methods only. Inputs also include function calls at every arity from none to two and projections that stage several paths (cyq.Calls); every query is translated eight times for the determinism part.",
   technique="bounded exhaustive enumeration + stateless schedule enumeration over a shared kind mapper",
   design_ref="4/C05, 10.5"),
 "C06": dict(level="exploration", engine="E3 enum",
   text="For every query of the enumeration / corpus (translatable or rejected) every Variable and Parameter node is renamed consistently: all symbols to fresh names, each single symbol to "
        "each identifier of the query's own SQL, to the translator's internal name pool (n0, e0, s0, i0, pi0, path, depth ...) and to fresh names, parameter<->variable name collisions, "
        "permutations, and all injective maps of <= 2 / <= 3 variables into a name pool (607k / 3.8M renamings). Oracle: the token sequence is unchanged except top-level output aliases "
        "(which must be the renamed alias), equal parameter maps up to key renaming, and the renamed query translates iff the original does.",
   note="Three failure classes are recorded as known findings (a WITH alias used as a CTE column name, a path variable named n<N>, a path variable named i<N> next to a quantifier). Legal non-injective spellings (a name re-used after a WITH dropped or replaced it) are enumerated from six templates with name slots; two of their fillings are known findings.",
   technique="bounded exhaustive enumeration of consistent renamings with a token-level differential oracle",
   design_ref="4/C06, 10.5"),
 "C07": dict(level="exploration", engine="E3 enum (g4 grammar)",
   text="Every derivation of cypher/grammar/Cypher.g4 (read from the tree under check) with <= k deviations from the cheapest derivation of every rule in its best context and <= k-1 at every "
        "other grammar position (k = 2 quick, 3 thorough; 87k derivations quick), every corpus query, every single-token mutation of both, and every map-literal position x every ordered pair of key spellings (plain, backtick-quoted, reserved word; 294 texts). Each accepted text must give a model that "
        "(a) the emitter can write, (b) whose emitted text parses to an equal model (fixed point), and (c) whose emitted text contains the content tokens of the input (identifiers, literals, "
        "operators, range bounds) per an independent token oracle; nothing the grammar accepts may be dropped, reinterpreted or replaced without an error.",
   note="Trusted: the independent token-content oracle (which tokens are content, numeric literal equivalence). 20 failure classes found here were repaired in /repo (fix: commits).",
   technique="bounded exhaustive grammar-derivation enumeration with a round-trip and token-conservation oracle",
   design_ref="4/C07, 10.5"),
 "C08": dict(level="exploration", engine="E3 enum (g4 grammar)",
   text="Every sequence of length <= 3 / <= 4 over a 30-atom lexical alphabet, every blank-only input of length <= 3, every prefix and suffix of every corpus query (token boundaries quick, every "
        "rune offset thorough), every grammar derivation with <= 1 / <= 2 deviations, and nesting / length families (n = 1, 2, 4 ... 4096, each in a child process), each under NewContext and "
        "DefaultCypherContext. Oracle: no panic or process crash; exactly one of (model, error); an accepted model is complete (the project's own emitter can write it and writes something); "
        "blank inputs rejected; along each doubling family allocation and processor time grow by less than x16 per doubling (degree < 4).",
   note="Boundedness is decided on allocation (deterministic) and on processor time of the parsing process (not wall clock; only above 50 ms, minimum of 5 repetitions). A family that hits the "
        "per-input deadline makes the run non-exhaustive, not failing.",
   technique="bounded exhaustive enumeration of byte/token sequences with totality and step-count oracles",
   design_ref="4/C08, 10.5"),
 "C09": dict(level="exploration", engine="E3 enum (g4 grammar)",
   text="Every grammar derivation (as C07) and every corpus query parsed with DefaultCypherContext: an accepted text must contain no updating clause, procedure call or parameter at any "
        "depth (checked on the model by reflection and on the ANTLR parse tree), its translation must contain no data-modifying statement, and for every accepted query every insertion of "
        "an updating clause / CALL / parameter at every grammar position that admits one must be rejected.",
   note="Trusted: the list of forbidden constructs derived from the grammar's rule names. Also explored: every order of creating two default contexts and parsing one text with each, and an unfiltered parse followed by a default-context parse of the same text.",
   technique="bounded exhaustive grammar-derivation enumeration with an insertion-closure oracle",
   design_ref="4/C09, 10.5"),
 "C10": dict(level="exploration", engine="E3 enum (builder terms)",
   text="Every term of the public query-building API inside stated bounds (leaf constructors x value domain, criteria combinators to depth 2/3, patterns, projections, order/skip/limit, "
        "updates; 74k cases quick) is emitted through every production path (format emitter, Neo4j query builder with its rewriter, v2 builder) and the text is parsed back by the real "
        "parser. Oracle: same boolean skeleton under all assignments of the leaves to {true,false,null} (grouping), equal leaves (operator, operands, literal type and value, parameters, "
        "kinds with their all-of / any-of reading), equal projections, ordering, patterns and updating clauses.",
   note="Emission refused with an error is counted, not judged. Failure classes found here were repaired in /repo (fix: commits). Every criteria value is also used for two builders in a row; the second query must equal the first.",
   technique="bounded exhaustive enumeration of builder terms with a parse-back structural-meaning oracle",
   design_ref="4/C10, 10.5"),
 "C14": dict(level="exploration", engine="E3 enum (graphs)",
   text="Every directed multigraph inside the tier's bounds (labelled nodes, every multiset of ordered pairs incl. self loops, parallel and antiparallel edges, isolated nodes) x id profiles "
        "is built into every container (adjacency map two ways, CSR two ways and through FetchDirectedGraph over a fake database, triple store, every Projection(deletedNodes, deletedEdges) "
        "and two-step projections). Node set and count and adjacent-node sets per node x {out, in, both} are compared with a naive edge-list model; then Reach, BFSTree distances, Normalize, "
        "TSBFS/TSDFS terminal segments, MarshalSegment/UnmarshalSegment and SerializedSegment.ToSegment round trips of every maximal walk, and WriteZoneBFSTree -> BFSTreeFile.ReadEach for "
        "every zone subset (49M comparisons quick). Derived computations are judged only where the primitives agree, so a failure is attributed to its cause.",
   note="Failure classes found here (DirectionBoth adjacency, BFS tree file framing and reading, SerializedSegment edge index) were repaired in /repo (fix: commits). Deletion sets that also hold ids the store does not have must give the same projection.",
   technique="bounded exhaustive enumeration of graphs x containers with a naive edge-list oracle",
   design_ref="4/C14, 10.5"),
 "C15": dict(level="model_checking", engine="E3 enum (graphs) + E2 bfs",
   text="Static: for every digraph inside the bounds x container, StronglyConnectedComponents must partition the nodes, agree with naive mutual reachability, and give an acyclic component "
        "graph. Histories: explicit-state BFS over every sequence of queries (ReachOf, ReachSliceOf, OrReach, XorReach, CanReach for all node pairs, both directions) to the depth bound on a "
        "real ReachabilityCache per graph x cache capacity; canonical state = complete state of both SIEVE caches (queue order, visited bits, hand, cached bitmaps by content and identity); "
        "every answer is compared with a plain BFS of the original graph (336k states quick).",
   note="The defect found here (incomplete reach cached) was repaired in /repo (fix: commit). Cache state is read through a verif-tagged overlay accessor. 'Reaches' is reflexive, OrReach/XorReach leave the queried node out, as documented. The quick tier adds every labelled loop-free 5-node digraph with <= 5 edges (reach queries, two deep, capacities 1..3), and every labelled 6-node DAG with <= 7 edges whose ids are in a topological order (capacities 2..3, both directions), the thorough tier every labelled 6-node digraph with <= 6 edges (capacities 2..3): the depth-first order of the reach computation follows the numeric order of ids.",
   technique="bounded exhaustive graph enumeration x explicit-state BFS over query histories against a naive BFS oracle",
   design_ref="4/C15, 10.5"),
 "C11": dict(level="exploration", engine="E3 enum",
   text="Models from two complete sources: every corpus string the real parser accepts (773 queries; 749 of them translate and feed walk.PgSQL) and synthetic instances generated by "
        "reflection from the struct definitions of cypher/models/cypher (56 node types, 113 fields; zero instance, every field over {nil, empty, one, two}, every node type as child of "
        "every Expression field, field combinations to width 2/4, typed-nil roots and nil list elements; the type list is regenerated from the tree under check, so a new field or type "
        "enlarges the enumeration). Copy: fingerprint equality incl. unexported fields, pointer/slice/map disjointness by reflection, every in-place change of copy/original invisible to "
        "the other, unknown types must fail. Walk: CypherStructural visits exactly the reflection-derived child multiset with nested Enter/Exit, Cypher's visits are a subset, nil "
        "branches are reported, and for every callback index x {Consume, SetDone, SetError} the callback sequence and returned error match the prediction exactly (also for walk.PgSQL).",
   note="Assumptions (recorded in the evidence): Literal.Value / Parameter.Value payloads are caller-owned (shared by reference is counted, not judged); graph.Kind and error values are immutable handles; a panic from Copy counts as an error path. Nil pointers stored in interface-typed child fields and slices of length 0 with spare capacity are part of the enumerated shapes.",
   technique="bounded exhaustive enumeration of model shapes (derived from the struct definitions) x visitor actions with a reflection-based oracle",
   design_ref="4/C11"),
 "C12": dict(level="model_checking", engine="E2 bfs",
   text="Explicit-state breadth-first search over every edit history (Set/SetAll/Delete/GetOrDefault/Clone/Merge, AddKinds/DeleteKinds/Merge) "
        "on two real tracked entities from every loaded state over keys {a,b} and kinds {K1,K2}, for bare Properties, Relationship and Node; "
        "after every transition the recorded delta must be disjoint, reproduce the current state from the loaded state, and the last edit must win.",
   note="Trusted: the stated reading of Merge (merged loaded state = receiver's overlaid with operand's; keys the operand never edited may keep "
        "either value). Entities with nil Properties are outside the alphabet. Depth-bounded (quick 4, thorough 6).",
   technique="explicit-state BFS over real objects (history replay) with delta-replay oracle",
   design_ref="4/C12"),
 "C13": dict(level="model_checking", engine="E2 bfs + E1 sched",
   text="(1) Explicit-state BFS over operation histories (Add/CheckedAdd/Remove/Clear/Clone/Or/And/AndNot/Xor and operand edits) on a receiver and an operand "
        "for every ordered pairing of {bitmap, threadSafe(bitmap)} at both widths, over value windows straddling the 2^16, 2^32 and 2^48 boundaries with dense blocks "
        "that force bitmap containers; every read of receiver and operand must equal a map-based set after every step. (2) Every interleaving (unbounded) of 2-3 "
        "thread programs over two thread-safe wrappers (binary operations take the other wrapper as operand) on the real code under a controlled scheduler; "
        "each history must be linearizable against a pair of sets, with deadlock/panic detection. (3) A free-running -race pass (sampling, reported separately).",
   note="Trusted: canonical state = serialised roaring layout + reference sets; shim fidelity to sync.Mutex. Reading made explicit: an in-place binary operation "
        "on wrappers reads one consistent operand state and then updates the receiver atomically (two instants inside the call), cross-object atomicity is not demanded. "
        "Sequential depth bound quick 4 / thorough 7.",
   technique="explicit-state BFS + stateless schedule enumeration (controlled scheduler) with brute-force linearizability oracle",
   design_ref="4/C13"),
 "C16": dict(level="model_checking", engine="E2 bfs + E1 sched",
   text="(1) Explicit-state BFS over every Put/Get/Delete history on the real SIEVE and non-expiring caches (4 keys, capacities -1..4) until the reachable "
        "state space closes, with a reference map and bound/size/queue/hand invariants in every state. (2) Every interleaving (unbounded for the quick scenarios: "
        "2 threads x 2 ops and 3 threads x 1 op over 2 colliding keys, 5 pre-populations, capacities 1..3) of the real code under a controlled scheduler whose "
        "scheduling points are the cache's own sync/atomic operations; each recorded history plus the final store must be linearizable up to eviction, "
        "with deadlock/panic detection. (3) A free-running -race pass over the same bodies (sampling, reported separately).",
   note="Trusted: canonical-state abstraction (values renamed by rank; hit/miss counters dropped); shim fidelity to sync.RWMutex/atomic semantics; "
        "sequential consistency (weak-memory effects are left to the -race pass). Overlay instrumentation is generated from /repo at check time.",
   technique="explicit-state BFS + stateless schedule enumeration (controlled scheduler) with brute-force linearizability oracle",
   design_ref="4/C16"),
 "C17": dict(level="model_checking", engine="E1 sched",
   text="Stateless exploration of the real traversal.BreadthFirst and channels.BufferedPipe under a controlled scheduler: goroutines, channels, select, "
        "context cancellation, WaitGroup, mutex and atomics of traversal/, util/channels, util/ are rewritten at build time onto scheduler shims, every select "
        "choice and rendezvous is a branch point. Pipe scenarios (0..2/3 values, slow reader, concurrent cancel) are explored over every interleaving; BreadthFirst "
        "scenarios (tree/DAG/cyclic drivers with up to 6 paths, 1..3 workers, fault plans: driver error at each path, memory limit, parent-context cancel) up to a "
        "preemption bound, with happens-before-hash state caching. Oracle: expanded paths = sequential expansion exactly once, returns, injected error comes back, "
        "no deadlock / goroutine left parked / panic. Plus a free-running -race pass.",
   note="Trusted: fidelity of the channel/select/context shims to Go semantics (CSP rendezvous, close, nil channels); state caching is sound for data-race-free code "
        "(partial-order equivalence); preemption bounds as stated per scenario in the evidence. The sequential helpers of ops/ (Traversal, TraversePaths, Acyclic*) "
        "are not yet covered by this check.",
   technique="stateless model checking of the implementation (controlled scheduler, preemption bounding, happens-before state caching)",
   design_ref="4/C17"),
 "C18": dict(level="exploration", engine="E3 enum + E4 fakedb/vos",
   text="Every small source database (<= 2/3 nodes, <= 2 relationships, ids with gaps stored out of order, kind sets, a 10-value property domain incl. 2^53+1, nested and unicode values, "
        "two-graph databases with hostile names) x codec {none,gzip,zstd} x shard x dump batch x load batch is dumped by the real retriever over an in-memory graph.Database, checked by an "
        "independent dump reader (file set, counts, bytes, SHA-256, records, schema, metrics, fingerprint), loaded into an empty fake and compared up to isomorphism under exact JSON equality; "
        "Verify must succeed, and for every single edit of the loaded database Verify must fail exactly when an independent metrics implementation differs.",
   note="Trusted: fakedb follows the graph.Database contract retriever uses (fails closed on anything else); independent reader/metrics in mc/rtk. 'Verify succeeds exactly when the graphs match' is decided relative to the metrics abstraction (property-value edits are invisible to Verify by design).",
   technique="bounded exhaustive enumeration of databases x configurations with an independent dump reader and isomorphism oracle",
   design_ref="4/C18"),
 "C19": dict(level="fault_enumeration", engine="E4 vos + fakedb",
   text="retriever's os calls are rewritten at build time onto a shim that numbers every file-system call (incl. File.Write/Close/Sync) in one sequence with the database calls. For each "
        "scenario every call index of the traced Dump is hit with crash-before, crash-after, EIO, torn writes (0, n/2, n-1 bytes), short write+EIO and a dying Fetch; from every distinct "
        "resulting directory state a clean resume, every 'must refuse' variant (changed options, changed source, stray files, damaged fragments) and again every call x mode of the resume "
        "(depth 2) are run. Oracle: a manifest exists only for a complete dump; a checkpoint always parses and names intact fragments; committed fragments survive; a resume that returns nil "
        "leaves exactly the uninterrupted dump; every variant fails.",
   note="Crash model = the process dies (dead shim: later calls have no effect), not power loss / fsync reordering. Count-preserving source replacement is reported, not judged (the snapshot check is count based by design). A fully scrubbed dump is crashed before every call and resumed under another salt and without scrubbing (must be refused once a checkpoint exists).",
   technique="exhaustive crash/fault-point enumeration (depth 2) over intercepted file-system and database calls",
   design_ref="4/C19"),
 "C20": dict(level="fault_enumeration", engine="E4 vos + fakedb",
   text="For a two-graph dump in every codec, its TAR and its encrypted archive: every byte x {^1,^0x80,0x00,0xFF} (all 255 values in thorough), every truncation length, appended garbage, "
        "manifest field and structure edits, fragment edits, TAR entry and frame edits, ~90 hostile TAR entries (absolute, parent, volume, backslash, links, devices, GNU/PAX names, size tricks) "
        "and wrong/malformed keys are fed to Load, UnpackTar, UnpackEncryptedCollectionArchive and Unpack. Oracle: an error implies an empty target mutation log and no partial output; the "
        "sandbox outside the output directory is unchanged; success implies a result identical to the pristine run.",
   note="Four known findings (partial output after a failed UnpackTar / UnpackEncryptedCollectionArchive, UnpackTar accepting a tampered fragment, Load(VerifyMetrics) failing only after writing) are listed in known_findings.json; any other failure has a different class. Time-of-check/time-of-use changes of the input are out of scope. Entry points include Unpack into an existing empty directory; the quick tier's byte substitutions are ^0x01, ^0x20, ^0x80, 0x00, 0xFF.",
   technique="exhaustive single-fault mutation enumeration of dump inputs with mutation-log, confinement and integrity oracles",
   design_ref="4/C20"),
}

NOT_YET = "checker not built yet in this session (planned, see DESIGN.md section 4); not claimed until it runs clean"

def main():
    checks = []
    for pid in ALL:
        if pid not in CHECKS:
            continue
        c = CHECKS[pid]
        checks.append({
            "property_id": pid,
            "quick_cmd": "./check %s --tier quick" % pid,
            "thorough_cmd": "./check %s --tier thorough" % pid,
            "evidence_file": "/verif/evidence/%s.json" % pid,
            "replay_cmd_template": "./check %s --replay {path}" % pid,
            "engine": c["engine"],
            "level_claimed": {"category": c["level"], "text": c["text"], "design_ref": c["design_ref"]},
            "level_note": c["note"],
            "technique": c["technique"],
        })
    na = [{"property_id": p, "reason": NOT_YET} for p in ALL if p not in CHECKS]
    m = {
        "version": 1,
        "setup_cmd": "./setup.sh",
        "hooks": {
            "guard": "verif",
            "enable": "go build -tags verif -overlay <generated overlay.json>: instrumentation is generated from /repo's working tree "
                      "at check time (import rewrites onto scheduler/fault shims, state accessors added to packages) and passed with "
                      "-overlay; /repo carries no hook commits unless listed in source_commits",
            "baseline_off_cmd": "cd /repo && GOFLAGS=-mod=mod go test -vet=off -count=1 -timeout 25m ./...",
            "source_commits": [],
            "add_only": True,
        },
        "engines": [
            {"name": "E1 sched", "path": "mc/sched", "serves_properties": ["C05", "C13", "C16", "C17"],
             "kind_free_text": "controlled cooperative scheduler + stateless DFS over schedules with preemption bounding; real code reaches it through import-rewritten sync/atomic/channel shims"},
            {"name": "E2 bfs", "path": "mc/bfs", "serves_properties": ["C12", "C13", "C15", "C16"],
             "kind_free_text": "explicit-state BFS whose transitions call the real methods; states deduplicated by canonical implementation state"},
            {"name": "E3 enum", "path": "mc/enum", "serves_properties": ["C01", "C02", "C03", "C04", "C05", "C06", "C07", "C08", "C09", "C10", "C11", "C14", "C18", "C20"],
             "kind_free_text": "bounded exhaustive generators (graphs, grammar derivations, builder terms, AST shapes, byte mutations)"},
            {"name": "E4 crash", "path": "mc/shim/vos", "serves_properties": ["C19", "C20"],
             "kind_free_text": "crash/fault-point enumeration over every intercepted file-system and database call"},
        ],
        "checks": checks,
        "not_applicable": na,
        "notes": "See DESIGN.md. Exit code 2 = machinery failure, never a verdict.",
    }
    json.dump(m, open("/verif/MANIFEST.json", "w"), indent=1)
    try:
        import jsonschema
        jsonschema.validate(m, json.load(open("/root/.vp/MANIFEST.schema.json")))
        print("MANIFEST valid:", len(checks), "checks,", len(na), "not_applicable")
    except ImportError:
        print("jsonschema not importable; skipped validation")

if __name__ == "__main__":
    main()
