#!/bin/bash
# tools/detect_all.sh [lanes] — regression of every deliberate change (detections/<ID>/*.diff and seeded/<ID>-*/patch.diff)
# against the current /verif and /repo: each is applied in a scratch worktree and the quick check of its property must
# report a violation (exit 1). Results go to detections/RESULTS.txt. Runs <lanes> properties at a time (default 3).
cd /verif
LANES=${1:-3}
OUT=/verif/detections/RESULTS.txt
TMP=$(mktemp -d /tmp/detect_all.XXXXXX)
ids=$(ls -d detections/C?? seeded/C??-* 2>/dev/null | sed -E 's|.*/(C[0-9]{2}).*|\1|' | sort -u)
lane() {
  for id in "$@"; do
    diffs=$(ls detections/$id/*.diff seeded/$id-*/patch.diff 2>/dev/null | sed 's|^|/verif/|')
    [ -z "$diffs" ] && continue
    SKIPTESTS=1 tools/detect.sh $id quick $diffs > $TMP/$id.log 2>&1
  done
}
i=0; declare -a groups
for id in $ids; do groups[$((i % LANES))]="${groups[$((i % LANES))]} $id"; i=$((i+1)); done
for g in "${groups[@]}"; do lane $g & done
wait
{
  echo "# regression of deliberate changes against /repo $(git -C /repo rev-parse --short HEAD), /verif $(git -C /verif rev-parse --short HEAD), $(date -u +%Y-%m-%dT%H:%MZ)"
  echo "# check-exit=1 = reported; check-exit=0 = not reported by the quick tier; CAPPED = the run met its deadline"
  for id in $ids; do grep -h "^==" $TMP/$id.log | sed 's|/verif/||'; done
} > $OUT
rm -rf $TMP
grep -c "check-exit=1" $OUT; grep "check-exit=[^1]" $OUT
