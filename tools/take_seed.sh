#!/bin/bash
# tools/take_seed.sh <ID> <suffix> <outdir> — stores an independently written change as seeded/<ID>-<suffix>, confirms it in
# a scratch worktree (demo passes clean / fails patched; build and touched-package tests pass patched) and runs the quick
# check against it through tools/detect.sh. /repo itself is never touched.
p=$1; suf=$2; out=$3
export GOFLAGS=-mod=mod GOPROXY=off
cd /verif || exit 2
mkdir -p seeded/$p-$suf; cp "$out"/patch.diff "$out"/demo_test.go "$out"/meta.json seeded/$p-$suf/ || exit 2
d=$(python3 -c "import json;print(json.load(open('seeded/$p-$suf/meta.json'))['demo_package_dir'])"); d=${d#/tmp/seed3_$p/}; d=${d#./}; d=${d%/}
WT=$(mktemp -d /tmp/confirm.XXXXXX); git -C /repo worktree add -q --detach $WT HEAD
cp seeded/$p-$suf/demo_test.go $WT/$d/demo_test.go
(cd $WT && go test -vet=off -count=1 -run 'TestSeedDemo$' ./$d/ >/dev/null 2>&1; echo "$p-$suf clean-demo rc=$?")
git -C $WT apply /verif/seeded/$p-$suf/patch.diff || echo "$p-$suf APPLY FAILED"
(cd $WT && go build ./... ; echo "$p-$suf patched-build rc=$?"; go test -vet=off -count=1 -run 'TestSeedDemo$' ./$d/ >/dev/null 2>&1; echo "$p-$suf patched-demo rc=$?"; rm $d/demo_test.go)
git -C /repo worktree remove --force $WT; rm -rf $WT
tools/detect.sh $p quick /verif/seeded/$p-$suf/patch.diff 2>&1 | cut -c1-500
