#!/bin/bash
# tools/confirm_seed.sh <seed-dir> <pkgdir> [go test flags...] — confirms an independently seeded change in a scratch
# worktree: (1) the patch applies and builds, (2) the repository's tests of the touched packages pass with it,
# (3) the demonstration fails with it and (4) passes without it. Prints one line.
S=$1; PKG=$2; shift; shift
export GOFLAGS=-mod=mod GOPROXY=off
WT=$(mktemp -d /tmp/confirm.XXXXXX)
git -C /repo worktree add -q --detach "$WT" HEAD || exit 2
# the seed may have been written against an earlier commit of /repo (before a later fix: commit)
for back in $(seq 0 60); do
  git -C "$WT" checkout -q --detach "$(git -C /repo rev-parse HEAD~$back)" 2>/dev/null || break
  if git -C "$WT" apply --check "$S/patch.diff" 2>/dev/null; then break; fi
done
cp "$S"/demo*_test.go "$WT/$PKG/zz_seed_demo_test.go"
( cd "$WT" && timeout 900 go test -vet=off -count=1 "$@" ./$PKG/ >"$WT/demo_clean.log" 2>&1 ); clean=$?
rm "$WT/$PKG/zz_seed_demo_test.go"
git -C "$WT" apply "$S/patch.diff" || { echo "$(basename $S): APPLY FAILED"; git -C /repo worktree remove --force "$WT"; exit 1; }
pkgs=$(git -C "$WT" diff --name-only | grep '\.go$' | xargs -n1 dirname | sort -u | sed 's|^|./|' | tr '\n' ' ')
( cd "$WT" && go build ./... >"$WT/build.log" 2>&1 ); build=$?
( cd "$WT" && timeout 900 go test -vet=off -count=1 $pkgs >"$WT/tests.log" 2>&1 ); tests=$?
cp "$S"/demo*_test.go "$WT/$PKG/zz_seed_demo_test.go"
( cd "$WT" && timeout 900 go test -vet=off -count=1 "$@" ./$PKG/ >"$WT/demo_patched.log" 2>&1 ); patched=$?
echo "$(basename $S): build=$build repo-tests($pkgs)=$tests demo-with-change=$patched(expect!=0) demo-without=$clean(expect 0)"
git -C /repo worktree remove --force "$WT"; rm -rf "$WT"
