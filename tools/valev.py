#!/usr/bin/env python3
import json, sys, glob, jsonschema
s = json.load(open("/root/.vp/EVIDENCE.schema.json"))
for f in sorted(glob.glob("/verif/evidence/*.json")):
    try:
        jsonschema.validate(json.load(open(f)), s); print("ok", f)
    except Exception as e:
        print("INVALID", f, str(e)[:300])
