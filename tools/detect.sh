#!/bin/bash
# tools/detect.sh <ID> [tier] — applies each deliberate property-breaking change under detections/<ID>/*.diff to /repo,
# checks that the repository's own tests of the touched packages still pass, runs the check and expects exit 1.
ID=$1; TIER=${2:-quick}
cd /repo || exit 2
if [ -n "$(git status --porcelain)" ]; then echo "repo dirty"; exit 2; fi
export GOFLAGS=-mod=mod GOPROXY=off
for d in /verif/detections/$ID/*.diff /verif/seeded/$ID*/patch.diff; do
  [ -f "$d" ] || continue
  if ! git apply "$d" 2>/tmp/apply.err; then echo "APPLY-FAILED $d: $(cat /tmp/apply.err)"; continue; fi
  pkgs=$(git diff --name-only | xargs -n1 dirname | sort -u | sed 's|^|./|' | tr '\n' ' ')
  if [ -z "${SKIPTESTS:-}" ]; then
    if go test -vet=off -count=1 $pkgs >/tmp/detect_test.log 2>&1; then t=tests-pass; else t=TESTS-FAIL; fi
  else t=tests-skipped; fi
  out=$(cd /verif && ./check $ID --tier $TIER 2>&1); rc=$?
  git checkout -- . ; git clean -fdq
  echo "== $d: $t check-exit=$rc"
  echo "$out" | grep -E "VIOLATION|class=|MACHINERY|KNOWN" | head -4
done
