#!/bin/bash
# tools/detect.sh <ID> [tier] [diff ...] — for each deliberate property-breaking change (detections/<ID>/*.diff and
# seeded/<ID>*/patch.diff, or the diffs given) makes a scratch worktree of /repo, applies the change, checks that the
# repository's own tests of the touched packages still pass, runs the check against the worktree (expects exit 1) and
# removes the worktree. /repo itself is never touched, so several of these can run at once.
ID=$1; TIER=${2:-quick}; shift; shift
export GOFLAGS=-mod=mod GOPROXY=off
DIFFS=("$@")
if [ ${#DIFFS[@]} -eq 0 ]; then DIFFS=(/verif/detections/$ID/*.diff /verif/seeded/$ID*/patch.diff); fi
for d in "${DIFFS[@]}"; do
  [ -f "$d" ] || continue
  WT=$(mktemp -d /tmp/detect.XXXXXX)
  git -C /repo worktree add -q --detach "$WT" HEAD || { echo "worktree failed"; exit 2; }
  # a change written against an earlier commit of /repo (before a later fix: commit) is tried on HEAD first, then on
  # HEAD~1, HEAD~2, ... : the check must catch it on the tree it was written for
  base=HEAD; applied=0
  for back in $(seq 0 60); do
    git -C "$WT" checkout -q --detach "HEAD~$back" 2>/dev/null || break
    if git -C "$WT" apply "$d" 2>/tmp/apply.$$.err; then applied=1; base="HEAD~$back"; break; fi
    git -C "$WT" checkout -q --detach "$(git -C /repo rev-parse HEAD)"
  done
  if [ $applied -eq 0 ]; then echo "== $d: APPLY-FAILED: $(cat /tmp/apply.$$.err)"; git -C /repo worktree remove --force "$WT"; continue; fi
  pkgs=$(git -C "$WT" diff --name-only | grep '\.go$' | xargs -n1 dirname | sort -u | sed 's|^|./|' | tr '\n' ' ')
  if [ -z "${SKIPTESTS:-}" ] && [ -n "$pkgs" ]; then
    if (cd "$WT" && go test -vet=off -count=1 $pkgs >/tmp/detect_test.$$.log 2>&1); then t=tests-pass; else t=TESTS-FAIL; fi
  else t=tests-skipped; fi
  out=$(cd /verif && VERIF_REPO="$WT" ./check $ID --tier $TIER 2>&1); rc=$?
  git -C /repo worktree remove --force "$WT"; rm -rf "$WT"
  capped=""; echo "$out" | grep -q "exhaustive=false" && capped=" CAPPED(exhaustive=false: the run met its deadline and did not check everything)"
  echo "== $d (on $base): $t check-exit=$rc$capped"
  echo "$out" | grep -E "VIOLATION|class=|MACHINERY" | head -6
done
git -C /repo worktree prune
