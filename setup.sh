#!/bin/bash
# Builds the framework offline and warms the Go build cache (plain and -race, with the overlays) for every check that
# MANIFEST.json claims, so that quick checks start fast. Everything is rebuilt from /repo's working tree by
# /verif/check at check time anyway; a warm-up build that fails is reported but does not fail the setup.
set -u
export GOFLAGS=-mod=mod GOPROXY=off
unset GOSUMDB GOTOOLCHAIN
cd /verif/mc || exit 1
cp /repo/go.sum go.sum
mkdir -p /verif/bin /verif/evidence /verif/replays /verif/.work
go build -o /verif/bin/instrument ./cmd/instrument || exit 1
(cd /repo && go build ./...) || exit 1
for id in $(jq -r '.checks[].property_id' /verif/MANIFEST.json); do
  VERIF_BUILD_ONLY=1 /verif/check "$id" >/dev/null 2>/verif/.work/setup_$id.log || { echo "setup: warm-up build of $id failed (the check will report it)"; head -5 /verif/.work/setup_$id.log; }
done
exit 0
