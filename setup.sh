#!/bin/bash
# Builds the framework offline and warms the Go build cache (plain and -race, with the overlays) so that quick checks
# start fast. Everything is rebuilt again from /repo's working tree by /verif/check at check time.
set -u
export GOFLAGS=-mod=mod GOPROXY=off
unset GOSUMDB GOTOOLCHAIN
cd /verif/mc || exit 1
cp /repo/go.sum go.sum
mkdir -p /verif/bin /verif/evidence /verif/replays /verif/.work
go build -o /verif/bin/instrument ./cmd/instrument || exit 1
(cd /repo && go build ./...) || exit 1
fail=0
for d in cmd/c[0-9][0-9]; do
  id=$(basename "$d" | tr 'a-z' 'A-Z')
  VERIF_BUILD_ONLY=1 /verif/check "$id" >/dev/null 2>/verif/.work/setup_$id.log || { echo "setup: build of $id failed"; cat /verif/.work/setup_$id.log | head -20; fail=1; }
done
exit $fail
