#!/bin/bash
# Builds the framework offline and warms the Go build cache (plain and -race) so quick checks start fast.
set -u
export GOFLAGS=-mod=mod GOPROXY=off
unset GOSUMDB GOTOOLCHAIN
cd /verif/mc || exit 1
cp /repo/go.sum go.sum
mkdir -p /verif/bin /verif/evidence /verif/replays /verif/.work
go build -o /verif/bin/instrument ./cmd/instrument || exit 1
# warm: compile every checker once (without overlays; the per-check build then only recompiles what the overlay touches)
go build -tags verif ./core/... ./bfs/... 2>/dev/null
(cd /repo && go build ./... ) || exit 1
exit 0
