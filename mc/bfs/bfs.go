// Package bfs is engine E2: explicit-state breadth-first search whose transitions call the real methods.
//
// A state is the operation history that reaches it. Live Go objects do not clone reliably, so a successor is
// produced by building a fresh instance, replaying the history and applying one more operation. The frontier is
// deduplicated by a canonical state string supplied by the problem (with its own soundness argument).
package bfs

import (
	"fmt"

	"verif/core"
)

// Instance couples one real object with its reference model.
type Instance interface {
	// Apply performs operation op on the real object and on the model and evaluates the oracle.
	// It returns nil if the oracle holds.
	Apply(op int) *core.Violation
	// Canon is the canonical state: implementation internals relevant to future behaviour + model state.
	Canon() string
}

type Problem struct {
	Name   string
	NumOps int
	OpName func(op int) string
	New    func() Instance
	// Enabled optionally restricts the alphabet in a state (nil = all enabled).
	Enabled func(inst Instance, op int) bool
	Depth   int
}

type Stats struct {
	States      int64
	Transitions int64
	MaxDepth    int
	Violations  int64
	Exhaustive  bool
}

func names(p *Problem, hist []int) []string {
	out := make([]string, len(hist))
	for i, o := range hist {
		out[i] = p.OpName(o)
	}
	return out
}

func build(p *Problem, hist []int) (Instance, *core.Violation) {
	inst := p.New()
	for _, o := range hist {
		if v := inst.Apply(o); v != nil {
			return inst, v
		}
	}
	return inst, nil
}

// Explore runs the search to p.Depth. Violating transitions are reported to run and not extended.
func Explore(run *core.Run, p *Problem) Stats {
	st := Stats{Exhaustive: true}
	root := p.New()
	seen := map[string]struct{}{root.Canon(): {}}
	st.States = 1
	frontier := [][]int{{}}
	for depth := 0; depth < p.Depth && len(frontier) > 0; depth++ {
		var next [][]int
		for _, hist := range frontier {
			if run.TimeUp() {
				run.Capped(fmt.Sprintf("%s: deadline at depth %d", p.Name, depth))
				st.Exhaustive = false
				return st
			}
			for op := 0; op < p.NumOps; op++ {
				inst, v := build(p, hist)
				if v != nil {
					core.Fatalf("%s: replay of a clean history failed: %v %s", p.Name, names(p, hist), v.Summary)
				}
				if p.Enabled != nil && !p.Enabled(inst, op) {
					continue
				}
				st.Transitions++
				var viol *core.Violation
				if pv := core.Try(func() { viol = inst.Apply(op) }); pv != nil {
					viol = &core.Violation{Class: "panic", Summary: fmt.Sprintf("panic: %v", pv)}
				}
				nh := append(append([]int{}, hist...), op)
				if viol != nil {
					st.Violations++
					viol.Summary = fmt.Sprintf("[%s] after %v: %s", p.Name, names(p, nh), viol.Summary)
					viol.Artefact = map[string]any{"problem": p.Name, "ops": names(p, nh)}
					run.Report(*viol)
					continue
				}
				k := inst.Canon()
				if _, ok := seen[k]; !ok {
					seen[k] = struct{}{}
					st.States++
					next = append(next, nh)
					if depth+1 > st.MaxDepth {
						st.MaxDepth = depth + 1
					}
				}
			}
		}
		frontier = next
	}
	return st
}

// Replay re-executes an operation list by name and returns the violation it produces, if any.
func Replay(p *Problem, opNames []string) *core.Violation {
	idx := map[string]int{}
	for i := 0; i < p.NumOps; i++ {
		idx[p.OpName(i)] = i
	}
	inst := p.New()
	for i, n := range opNames {
		op, ok := idx[n]
		if !ok {
			core.Fatalf("replay: unknown op %q for %s", n, p.Name)
		}
		var viol *core.Violation
		if pv := core.Try(func() { viol = inst.Apply(op) }); pv != nil {
			viol = &core.Violation{Class: "panic", Summary: fmt.Sprintf("panic: %v", pv)}
		}
		if viol != nil {
			viol.Summary = fmt.Sprintf("[%s] after %v: %s", p.Name, opNames[:i+1], viol.Summary)
			return viol
		}
	}
	return nil
}
