package sched

import (
	"fmt"
	"reflect"

	"verif/core"
)

// Scenario is one closed harness: New returns the body of the main thread and the oracle evaluated after the execution.
type Scenario struct {
	Name string
	// New builds fresh shared objects; main runs as thread 0 (spawn others with s.Go); check judges the finished
	// execution (it runs outside the scheduler) and may return an observation string used to count distinct outcomes.
	New func() (main func(s *Scheduler), check func(r *Result) (obs string, v *core.Violation))
	// Horizon is the step limit per execution (default 5000).
	Horizon int
	// AllowDeadlock: the scenario's oracle handles deadlock outcomes itself.
	AllowDeadlock bool
	// StateCaching prunes states (identified by their happens-before hash, see HB) that were already expanded with at
	// least the remaining preemption budget. Only sound when the oracle does not depend on the order of independent
	// operations and every shim the scenario touches maintains HB cells.
	StateCaching bool
}

type Stats struct {
	Executions  int64
	Points      int64
	MaxPoints   int
	Outcomes    map[string]int64
	Bound       int
	Exhaustive  bool
	HorizonHits int64
	MaxThreads  int
	SampleTrace []string
	States      int64 // distinct global states expanded (state caching only)
	Pruned      int64 // decision points skipped because their state was already expanded
	CacheFull   int64 // states explored without being remembered because the table had reached maxCachedStates
}

// maxCachedStates bounds the state table of one scenario (about 100 bytes per entry with the map's overhead): 16 worker
// processes stay well below the machine's memory.
const maxCachedStates = 6_000_000

func (sc *Scenario) horizon() int {
	if sc.Horizon > 0 {
		return sc.Horizon
	}
	return 5000
}

// Execute runs one schedule and evaluates the oracle.
func (sc *Scenario) Execute(prefix []int, trace bool) (*Result, string, *core.Violation) {
	main, check := sc.New()
	res, err := RunOnce(main, prefix, sc.horizon(), trace, sc.StateCaching)
	if err != nil {
		core.Fatalf("%s: %v (prefix %v)", sc.Name, err, prefix)
	}
	if len(res.Panics) > 0 {
		return res, "panic", &core.Violation{Class: "panic", Summary: "panic in explored code: " + res.Panics[0]}
	}
	if res.Outcome == Deadlock && !sc.AllowDeadlock {
		return res, "deadlock", &core.Violation{Class: "deadlock", Summary: fmt.Sprintf("deadlock: %v", res.Blocked)}
	}
	obs, v := check(res)
	return res, obs, v
}

// SelfTest replays the default schedule and one non-default schedule twice each and demands identical results.
func (sc *Scenario) SelfTest() {
	same := func(prefix []int) *Result {
		r1, o1, _ := sc.Execute(prefix, true)
		r2, o2, _ := sc.Execute(r1.Choices, true)
		if o1 != o2 || !reflect.DeepEqual(r1.Trace, r2.Trace) || r1.Outcome != r2.Outcome {
			core.Fatalf("NONDETERMINISM in scenario %s: replaying %v gave a different execution\n%v\n%v", sc.Name, r1.Choices, r1.Trace, r2.Trace)
		}
		return r1
	}
	r := same(nil)
	for i := len(r.Points) - 1; i >= 0; i-- {
		if r.Points[i].N > 1 {
			np := append(append([]int{}, r.Choices[:i]...), r.Points[i].N-1)
			same(np)
			break
		}
	}
}

// Explore enumerates every schedule of the scenario with at most bound preemptions (bound < 0: unbounded).
func Explore(run *core.Run, sc *Scenario, bound int) Stats {
	st := Stats{Outcomes: map[string]int64{}, Bound: bound, Exhaustive: true}
	sc.SelfTest()
	var rec func(prefix []int, costSoFar int)
	stop := false
	seen := map[HB]int{}
	rec = func(prefix []int, costSoFar int) {
		if stop {
			return
		}
		if run.TimeUp() {
			run.Capped(fmt.Sprintf("%s: deadline during bound %d", sc.Name, bound))
			st.Exhaustive = false
			stop = true
			return
		}
		res, obs, v := sc.Execute(prefix, false)
		st.Executions++
		st.Points += int64(len(res.Points))
		if len(res.Points) > st.MaxPoints {
			st.MaxPoints = len(res.Points)
		}
		if res.Threads > st.MaxThreads {
			st.MaxThreads = res.Threads
		}
		if res.Outcome == Horizon {
			st.HorizonHits++
			st.Exhaustive = false
			run.Capped(sc.Name + ": step horizon hit")
		}
		st.Outcomes[obs]++
		if v != nil {
			report(run, sc, res, v)
		}
		cost := costSoFar
		for i := len(prefix); i < len(res.Points); i++ {
			p := res.Points[i]
			if sc.StateCaching {
				remaining := 1 << 20
				if bound >= 0 {
					remaining = bound - cost
				}
				if had, ok := seen[res.Keys[i]]; ok && had >= remaining {
					st.Pruned++
					break // this state and everything below it was (or will be) expanded by its owner
				}
				if _, ok := seen[res.Keys[i]]; !ok {
					if len(seen) >= maxCachedStates {
						// the table is full: the state is explored without being remembered (sound, only less pruning);
						// memory stays bounded, the deadline bounds the time
						st.CacheFull++
						goto expand
					}
					st.States++
				}
				seen[res.Keys[i]] = remaining
			}
		expand:
			for alt := 1; alt < p.N; alt++ {
				c := cost + res.costOf(i, alt)
				if bound >= 0 && c > bound {
					continue
				}
				np := make([]int, i+1)
				copy(np, res.Choices[:i])
				np[i] = alt
				rec(np, c)
			}
			cost += res.costOf(i, p.Choice)
		}
	}
	rec(nil, 0)
	return st
}

func report(run *core.Run, sc *Scenario, res *Result, v *core.Violation) {
	// re-execute 5x from the recorded choice list: the same schedule must fail every time
	for k := 0; k < 5; k++ {
		r2, _, v2 := sc.Execute(res.Choices, true)
		if v2 == nil || v2.Class != v.Class {
			core.Fatalf("NONDETERMINISM: violation %q of %s did not reproduce on replay %d of %v", v.Class, sc.Name, k, res.Choices)
		}
		res = r2
	}
	v.Summary = fmt.Sprintf("[%s] %s (schedule %v, %d preemptions)", sc.Name, v.Summary, res.Choices, res.Preemptions())
	v.Artefact = map[string]any{"scenario": sc.Name, "choices": res.Choices, "trace": res.Trace}
	run.Report(*v)
}
