// Package sched is engine E1: a controlled cooperative scheduler for real goroutines plus a stateless depth-first
// explorer over schedules with preemption bounding.
//
// Every harness goroutine ("thread") runs only while it holds the baton. Intercepted synchronisation operations
// (the shims in verif/shim/...) call Park with a description of the pending operation; the scheduler then decides which
// enabled transition (thread, alternative, partner) runs next. One execution is a deterministic function of its choice
// list, so the explorer can replay a prefix and branch on every alternative.
package sched

import (
	"fmt"
	"runtime/debug"
	"sort"
	"strings"
	"sync/atomic"
)

// HB is a happens-before hash cell. Every thread and every shim object carries one. When a thread operates on an object
// both cells absorb each other (vector-clock style), so a thread's cell is a digest of its entire causal past. The
// multiset of all thread cells therefore identifies the execution's partial order of synchronisation operations:
// two executions that reach the same multiset are Mazurkiewicz-equivalent and (for data-race-free code) in the same
// global state. The explorer uses it to prune states it has already expanded (state caching).
type HB struct{ A, B uint64 }

func mix64(x uint64) uint64 {
	x ^= x >> 33
	x *= 0xff51afd7ed558ccd
	x ^= x >> 33
	x *= 0xc4ceb9fe1a85ec53
	x ^= x >> 33
	return x
}

func (h HB) absorb(o HB, code uint64) HB {
	return HB{
		A: mix64(h.A*0x9e3779b97f4a7c15 ^ o.A + code*0xd6e8feb86659fd93 + 0x2545f4914f6cdd1d),
		B: mix64(h.B*0xc2b2ae3d27d4eb4f ^ (o.B<<1 | o.B>>63) + code*0x165667b19e3779f9 + 0x27d4eb2f165667c5),
	}
}

// Alt is one alternative of a pending operation (a plain operation has one; a select has one per case).
type Alt struct {
	// Enabled reports whether the alternative can fire now without a partner.
	Enabled func() bool
	// Partners, if non-nil, lists the threads this alternative could rendezvous with; the alternative is then enabled
	// once per partner (Enabled is ignored).
	Partners func() []int
	// HB is the happens-before cell of the object this alternative operates on (nil: thread-local step).
	HB *HB
	// Reads lists further cells whose state the alternative observes without changing it (a select's default case
	// observes that none of the other channels is ready).
	Reads []*HB
}

type Op struct {
	Desc string
	Alts []Alt
	// Object is an identifier of the object operated on (for traces).
	Object any
	// Code identifies the kind of operation for happens-before hashing (must not depend on the interleaving).
	Code uint64
}

type Chosen struct {
	Alt     int
	Partner int // -1 if none
	// Resolved is true if a partner already completed this operation on the thread's behalf (rendezvous); Value then
	// carries what the partner handed over.
	Resolved bool
	Value    any
	ValueOK  bool
}

type thread struct {
	id      int
	name    string
	wake    chan struct{}
	pending *Op
	done    bool
	chosen  Chosen
	// resolved by partner while parked
	resolved      bool
	resolvedAlt   int
	resolvedValue any
	resolvedOK    bool
	panicked      any
	panicStack    string
	hb            HB
	spawned       uint64
}

type transition struct {
	th      *thread
	alt     int
	partner int
}

// Point is one scheduling decision of an execution.
type Point struct {
	N       int  // number of enabled transitions
	Threads []int // thread of each enabled transition, canonical order
	// RunningEnabled: the thread that ran last is among the enabled ones (so choosing another thread is a preemption)
	RunningEnabled bool
	Running        int
	Choice         int
	Desc           string // description of the chosen transition
}

type Outcome int

const (
	Completed Outcome = iota
	Deadlock
	Horizon
)

func (o Outcome) String() string { return [...]string{"completed", "deadlock", "horizon"}[o] }

// Result is what one execution produced.
type Result struct {
	Choices  []int
	Points   []Point
	Outcome  Outcome
	Blocked  []string // for Deadlock: the parked operations
	Panics   []string // panics raised inside threads (value + first stack lines)
	Leaked   int      // threads still parked when every non-daemon thread finished (always 0: leak = deadlock here)
	Steps    int
	Threads  int
	Trace    []string
	// Keys[i] is the global state key before decision i (only when state hashing is on).
	Keys []HB
}

type abortPanic struct{}

// Scheduler runs one execution.
type Scheduler struct {
	threads  []*thread
	running  *thread
	parkedC  chan struct{}
	prefix   []int
	res      *Result
	horizon  int
	aborting bool
	trace    bool
	locals   map[any]any
	hashing  bool
}

var current atomic.Pointer[Scheduler]

// Current returns the scheduler controlling this process right now, or nil (shims then behave natively).
func Current() *Scheduler { return current.Load() }

// Hashing reports whether happens-before state hashing (state caching) is on for this execution.
func (s *Scheduler) Hashing() bool { return s != nil && s.hashing }

// Active reports whether s is non-nil and not tearing an execution down.
func (s *Scheduler) Active() bool { return s != nil && !s.aborting }

// ThreadID of the running thread.
func (s *Scheduler) ThreadID() int { return s.running.id }

func (s *Scheduler) newThread(name string, f func()) *thread {
	th := &thread{id: len(s.threads), name: name, wake: make(chan struct{}, 1)}
	if s.running != nil {
		s.running.spawned++
		th.hb = s.running.hb.absorb(HB{A: s.running.spawned, B: ^s.running.spawned}, 0x5a17)
		s.running.hb = s.running.hb.absorb(HB{}, 0x5a18)
	} else {
		th.hb = HB{A: 0x1234567, B: 0x89abcdef}
	}
	th.pending = &Op{Desc: "start " + name, Alts: []Alt{{Enabled: func() bool { return true }}}}
	s.threads = append(s.threads, th)
	go func() {
		<-th.wake
		defer func() {
			if p := recover(); p != nil {
				if _, isAbort := p.(abortPanic); !isAbort {
					th.panicked = p
					th.panicStack = string(debug.Stack())
				}
			}
			th.done = true
			th.pending = nil
			s.parkedC <- struct{}{}
		}()
		if s.aborting {
			panic(abortPanic{})
		}
		f()
	}()
	return th
}

// Go starts a new thread; it begins parked and is scheduled like any other. Called from a running thread.
func (s *Scheduler) Go(name string, f func()) {
	if s.aborting {
		return
	}
	s.newThread(name, f)
}

// Park announces the running thread's next operation and blocks until the scheduler fires one of its alternatives.
func (s *Scheduler) Park(op *Op) Chosen {
	if s.aborting {
		panic(abortPanic{})
	}
	th := s.running
	th.pending = op
	th.resolved = false
	s.parkedC <- struct{}{}
	<-th.wake
	if s.aborting {
		panic(abortPanic{})
	}
	th.pending = nil
	return th.chosen
}

// Yield is a scheduling point with a single always-enabled alternative (atomics, lock releases that are points, ...).
func (s *Scheduler) Yield(desc string, obj any) {
	s.Park(&Op{Desc: desc, Object: obj, Alts: []Alt{{Enabled: alwaysEnabled}}})
}

// YieldOn is Yield for an operation on an object with a happens-before cell.
func (s *Scheduler) YieldOn(desc string, cell *HB, code uint64) {
	s.Park(&Op{Desc: desc, Code: code, Alts: []Alt{{Enabled: alwaysEnabled, HB: cell}}})
}

func alwaysEnabled() bool { return true }

// Touch records an operation that is performed inline (without parking) on an object: lock releases, cancellation.
func (s *Scheduler) Touch(cell *HB, code uint64) {
	if s == nil || s.running == nil || cell == nil {
		return
	}
	t := s.running
	old := *cell
	*cell = old.absorb(t.hb, code)
	t.hb = t.hb.absorb(old, code)
}

// TouchPartner lets a rendezvous absorb the partner thread as well.
func (s *Scheduler) TouchPartner(partner int, cell *HB, code uint64) {
	if s == nil || cell == nil {
		return
	}
	p := s.threads[partner]
	p.hb = p.hb.absorb(*cell, code)
}

func (s *Scheduler) stateKey() HB {
	// multiset of (thread cell, status) in canonical order + the running thread (it decides what a preemption is)
	cells := make([]HB, 0, len(s.threads))
	for _, th := range s.threads {
		c := th.hb
		if th.done {
			c = c.absorb(HB{A: 1}, 0xd07e)
		}
		if th.resolved {
			c = c.absorb(HB{A: uint64(th.resolvedAlt) + 2}, 0x7e50)
		}
		cells = append(cells, c)
	}
	sort.Slice(cells, func(i, j int) bool {
		if cells[i].A != cells[j].A {
			return cells[i].A < cells[j].A
		}
		return cells[i].B < cells[j].B
	})
	k := HB{A: 0x51a7e, B: 0xce11}
	for _, c := range cells {
		k = k.absorb(c, 1)
	}
	if s.running != nil && !s.running.done {
		k = k.absorb(s.running.hb, 2)
	}
	return k
}

// PendingOf returns the pending operation of a parked thread (nil if running/done). Used by channel shims to find
// rendezvous partners.
func (s *Scheduler) PendingOf(tid int) *Op {
	th := s.threads[tid]
	if th.done || th == s.running || th.resolved {
		return nil
	}
	return th.pending
}

func (s *Scheduler) NumThreads() int { return len(s.threads) }

// Resolve completes the parked operation of thread tid on its behalf (rendezvous): the thread becomes enabled and,
// when next scheduled, Park returns Chosen{Alt: alt, Resolved: true, Value: v, ValueOK: ok}.
func (s *Scheduler) Resolve(tid, alt int, v any, ok bool) {
	th := s.threads[tid]
	th.resolved, th.resolvedAlt, th.resolvedValue, th.resolvedOK = true, alt, v, ok
}

func (s *Scheduler) enabled() []transition {
	var out []transition
	add := func(th *thread) {
		if th.done || th.pending == nil {
			return
		}
		if th.resolved {
			out = append(out, transition{th, th.resolvedAlt, -1})
			return
		}
		for i, a := range th.pending.Alts {
			if a.Partners != nil {
				for _, p := range a.Partners() {
					out = append(out, transition{th, i, p})
				}
			} else if a.Enabled() {
				out = append(out, transition{th, i, -1})
			}
		}
	}
	if s.running != nil {
		add(s.running)
	}
	for _, th := range s.threads {
		if th != s.running {
			add(th)
		}
	}
	return out
}

// ObjName gives the objects of one execution stable names (#0, #1, ... in order of first use) for traces.
func (s *Scheduler) ObjName(obj any) string {
	ids := s.Local("objnames", func() any { return map[any]int{} }).(map[any]int)
	id, ok := ids[obj]
	if !ok {
		id = len(ids)
		ids[obj] = id
	}
	return fmt.Sprintf("#%d", id)
}

// Local gives threads of one execution a place for per-execution singletons (e.g. context bookkeeping).
func (s *Scheduler) Local(key any, mk func() any) any {
	if v, ok := s.locals[key]; ok {
		return v
	}
	v := mk()
	s.locals[key] = v
	return v
}

// ReplayDivergence is raised (as a machinery failure) when a recorded choice does not fit the execution.
type ReplayDivergence struct{ Msg string }

func (e ReplayDivergence) Error() string { return "REPLAY-DIVERGENCE: " + e.Msg }

// RunOnce executes main under the scheduler following prefix, then choice 0 at every later point.
func RunOnce(main func(s *Scheduler), prefix []int, horizon int, trace, hashing bool) (*Result, error) {
	s := &Scheduler{parkedC: make(chan struct{}), prefix: prefix, horizon: horizon, trace: trace, locals: map[any]any{}, hashing: hashing}
	s.res = &Result{}
	if !current.CompareAndSwap(nil, s) {
		return nil, fmt.Errorf("a scheduler is already active in this process")
	}
	defer current.Store(nil)

	s.newThread("main", func() { main(s) })
	var divergence error
	for {
		trans := s.enabled()
		if len(trans) == 0 {
			allDone := true
			for _, th := range s.threads {
				if !th.done {
					allDone = false
					s.res.Blocked = append(s.res.Blocked, fmt.Sprintf("T%d(%s): %s", th.id, th.name, th.pending.Desc))
				}
			}
			if !allDone {
				s.res.Outcome = Deadlock
			}
			break
		}
		if s.res.Steps >= s.horizon {
			s.res.Outcome = Horizon
			break
		}
		i := len(s.res.Points)
		choice := 0
		if i < len(prefix) {
			choice = prefix[i]
			if choice < 0 || choice >= len(trans) {
				divergence = ReplayDivergence{fmt.Sprintf("choice %d at point %d out of range (%d enabled)", choice, i, len(trans))}
				break
			}
		}
		tr := trans[choice]
		pt := Point{N: len(trans), Choice: choice, Running: -1}
		for _, t := range trans {
			pt.Threads = append(pt.Threads, t.th.id)
		}
		if s.running != nil {
			pt.Running = s.running.id
			pt.RunningEnabled = trans[0].th == s.running
		}
		if trace {
			pt.Desc = fmt.Sprintf("T%d %s", tr.th.id, tr.th.pending.Desc)
			if len(tr.th.pending.Alts) > 1 {
				pt.Desc += fmt.Sprintf(" [case %d]", tr.alt)
			}
			if tr.partner >= 0 {
				pt.Desc += fmt.Sprintf(" [with T%d]", tr.partner)
			}
			s.res.Trace = append(s.res.Trace, pt.Desc)
		}
		s.res.Points = append(s.res.Points, pt)
		s.res.Choices = append(s.res.Choices, choice)
		s.res.Steps++
		if s.hashing {
			s.res.Keys = append(s.res.Keys, s.stateKey())
		}

		th := tr.th
		if !th.resolved {
			code := th.pending.Code*31 + uint64(tr.alt) + 1
			if cell := th.pending.Alts[tr.alt].HB; cell != nil {
				old := *cell
				*cell = old.absorb(th.hb, code)
				th.hb = th.hb.absorb(old, code)
				if tr.partner >= 0 {
					p := s.threads[tr.partner]
					p.hb = p.hb.absorb(*cell, code^0xfeed)
				}
			} else {
				th.hb = th.hb.absorb(HB{}, code)
			}
			for _, cell := range th.pending.Alts[tr.alt].Reads {
				// conservative: an observation is ordered with every other operation on the object
				old := *cell
				*cell = old.absorb(th.hb, code^0x0b5e)
				th.hb = th.hb.absorb(old, code^0x0b5e)
			}
		}
		if th.resolved {
			th.chosen = Chosen{Alt: th.resolvedAlt, Partner: -1, Resolved: true, Value: th.resolvedValue, ValueOK: th.resolvedOK}
			th.resolved = false
		} else {
			th.chosen = Chosen{Alt: tr.alt, Partner: tr.partner}
		}
		s.running = th
		th.wake <- struct{}{}
		<-s.parkedC
	}
	// tear down whatever is still parked
	s.aborting = true
	for _, th := range s.threads {
		if !th.done {
			th.wake <- struct{}{}
			<-s.parkedC
		}
	}
	for _, th := range s.threads {
		if th.panicked != nil {
			s.res.Panics = append(s.res.Panics, fmt.Sprintf("T%d(%s): %v\n%s", th.id, th.name, th.panicked, firstLines(th.panicStack, 14)))
		}
	}
	s.res.Threads = len(s.threads)
	if divergence != nil {
		return s.res, divergence
	}
	return s.res, nil
}

func firstLines(s string, n int) string {
	lines := strings.Split(s, "\n")
	if len(lines) > n {
		lines = lines[:n]
	}
	return strings.Join(lines, "\n")
}

// Cost returns the number of preemptions an execution made up to (excluding) point i, and the extra cost of taking
// alternative alt at point i.
func (r *Result) costOf(i, alt int) int {
	p := r.Points[i]
	if alt != 0 && p.RunningEnabled && p.Threads[alt] != p.Running {
		return 1
	}
	return 0
}

// Preemptions counts the preemptions in the whole execution.
func (r *Result) Preemptions() int {
	n := 0
	for i, p := range r.Points {
		n += r.costOf(i, p.Choice)
	}
	return n
}
