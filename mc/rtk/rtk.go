// Package rtk holds the harness-side tools shared by the checkers of C18, C19 and C20 (package retriever): an independent
// reader of the dump format, an independent implementation of the manifest metrics, graph isomorphism under JSON
// equality, directory snapshots and sandbox handling. Nothing here calls retriever's own decoding, checksum or metrics
// code; only its exported data types are used as a description of the manifest layout.
package rtk

import (
	"bufio"
	"bytes"
	"compress/gzip"
	"crypto/sha256"
	"encoding/hex"
	"encoding/json"
	"fmt"
	"io"
	"io/fs"
	"math/big"
	"net/url"
	"os"
	"path/filepath"
	"sort"
	"strconv"
	"strings"
	"time"

	"github.com/klauspost/compress/zstd"
	"github.com/specterops/dawgs/retriever"

	"verif/fakedb"
)

// Config is one dump/load configuration.
type Config struct {
	Codec     string `json:"codec"`
	Shard     int    `json:"shard"`
	DumpBatch int    `json:"dump_batch"`
	LoadBatch int    `json:"load_batch"`
}

func (c Config) String() string {
	return fmt.Sprintf("%s/shard=%d/dbatch=%d/lbatch=%d", c.Codec, c.Shard, c.DumpBatch, c.LoadBatch)
}

const Driver = "fakedb"

func DumpOptions(dir string, c Config) retriever.DumpOptions {
	o := retriever.DefaultDumpOptions(dir)
	o.Compression = retriever.CompressionCodec(c.Codec)
	o.ShardSize = c.Shard
	o.BatchSize = c.DumpBatch
	return o
}

func Targets(s fakedb.Spec) []retriever.GraphTarget {
	t := make([]retriever.GraphTarget, len(s.Graphs))
	for i, g := range s.Graphs {
		t[i] = retriever.GraphTarget{Name: g.Name}
	}
	return t
}

// Sandbox ----------------------------------------------------------------------------------------------------------------

// NewRoot creates a private scratch root (tmpfs when available).
func NewRoot(tag string) string {
	base := os.Getenv("VERIF_SCRATCH")
	if base == "" {
		if fi, err := os.Stat("/dev/shm"); err == nil && fi.IsDir() {
			base = "/dev/shm"
		} else {
			base = os.TempDir()
		}
	}
	// safety net: scratch roots of runs that died with a machinery failure (os.Exit skips clean-up)
	if old, _ := filepath.Glob(filepath.Join(base, "verif."+tag+".*")); len(old) > 0 {
		for _, o := range old {
			if fi, err := os.Stat(o); err == nil && time.Since(fi.ModTime()) > 2*time.Hour {
				_ = os.RemoveAll(o)
			}
		}
	}
	dir, err := os.MkdirTemp(base, "verif."+tag+".")
	if err != nil {
		panic(err)
	}
	real, err := filepath.EvalSymlinks(dir)
	if err == nil {
		dir = real
	}
	return dir
}

// CopyTree copies a directory tree of regular files, directories and symlinks.
func CopyTree(src, dst string) error {
	return filepath.WalkDir(src, func(p string, d fs.DirEntry, err error) error {
		if err != nil {
			return err
		}
		rel, _ := filepath.Rel(src, p)
		target := filepath.Join(dst, rel)
		switch {
		case d.IsDir():
			return os.MkdirAll(target, 0o755)
		case d.Type()&fs.ModeSymlink != 0:
			l, err := os.Readlink(p)
			if err != nil {
				return err
			}
			return os.Symlink(l, target)
		default:
			b, err := os.ReadFile(p)
			if err != nil {
				return err
			}
			return os.WriteFile(target, b, 0o600)
		}
	})
}

// Tree is an in-memory copy of a directory (relative slash path -> entry).
type Tree map[string]TreeEntry

type TreeEntry struct {
	Dir  bool   `json:"dir,omitempty"`
	Link string `json:"link,omitempty"`
	Data []byte `json:"data,omitempty"`
}

// ReadTree loads a directory into memory. A missing root gives a nil tree.
func ReadTree(root string) Tree {
	if _, err := os.Lstat(root); err != nil {
		return nil
	}
	t := Tree{}
	err := filepath.WalkDir(root, func(p string, d fs.DirEntry, err error) error {
		if err != nil {
			return err
		}
		rel, _ := filepath.Rel(root, p)
		rel = filepath.ToSlash(rel)
		switch {
		case d.IsDir():
			t[rel] = TreeEntry{Dir: true}
		case d.Type()&fs.ModeSymlink != 0:
			l, _ := os.Readlink(p)
			t[rel] = TreeEntry{Link: l}
		case d.Type().IsRegular():
			b, err := os.ReadFile(p)
			if err != nil {
				return err
			}
			t[rel] = TreeEntry{Data: b}
		default:
			t[rel] = TreeEntry{Link: "special:" + d.Type().String()}
		}
		return nil
	})
	if err != nil {
		panic(err)
	}
	return t
}

// Write materialises the tree at root (which must not exist or be empty).
func (t Tree) Write(root string) {
	if t == nil {
		return
	}
	paths := make([]string, 0, len(t))
	for p := range t {
		paths = append(paths, p)
	}
	sort.Strings(paths)
	for _, p := range paths {
		e := t[p]
		target := filepath.Join(root, filepath.FromSlash(p))
		var err error
		switch {
		case e.Dir:
			err = os.MkdirAll(target, 0o755)
		case e.Link != "":
			_ = os.MkdirAll(filepath.Dir(target), 0o755)
			err = os.Symlink(e.Link, target)
		default:
			_ = os.MkdirAll(filepath.Dir(target), 0o755)
			err = os.WriteFile(target, e.Data, 0o600)
		}
		if err != nil {
			panic(err)
		}
	}
}

// Files lists the non-directory paths, sorted.
func (t Tree) Files() []string {
	var out []string
	for p, e := range t {
		if !e.Dir {
			out = append(out, p)
		}
	}
	sort.Strings(out)
	return out
}

// Digest is a content hash of the tree (names, types, bytes, link targets).
func (t Tree) Digest(normalise func(path string, data []byte) []byte) string {
	if t == nil {
		return "absent"
	}
	paths := make([]string, 0, len(t))
	for p := range t {
		paths = append(paths, p)
	}
	sort.Strings(paths)
	h := sha256.New()
	for _, p := range paths {
		e := t[p]
		data := e.Data
		if normalise != nil && !e.Dir && e.Link == "" {
			data = normalise(p, data)
		}
		fmt.Fprintf(h, "%q dir=%v link=%q len=%d\n", p, e.Dir, e.Link, len(data))
		h.Write(data)
	}
	return hex.EncodeToString(h.Sum(nil)[:12])
}

// Diff describes the first difference between two trees ("" when equal).
func (t Tree) Diff(o Tree) string {
	if (t == nil) != (o == nil) {
		return fmt.Sprintf("existence differs: before=%v after=%v", t != nil, o != nil)
	}
	var keys []string
	for p := range t {
		keys = append(keys, p)
	}
	for p := range o {
		if _, ok := t[p]; !ok {
			keys = append(keys, p)
		}
	}
	sort.Strings(keys)
	for _, p := range keys {
		a, okA := t[p]
		b, okB := o[p]
		switch {
		case !okA:
			return "created " + p
		case !okB:
			return "removed " + p
		case a.Dir != b.Dir || a.Link != b.Link:
			return "type/link changed " + p
		case !bytes.Equal(a.Data, b.Data):
			return "content changed " + p
		}
	}
	return ""
}

func SHA(b []byte) string {
	s := sha256.Sum256(b)
	return hex.EncodeToString(s[:])
}

// JSON equality ----------------------------------------------------------------------------------------------------------

// Canon renders a value as canonical JSON: object keys sorted, numbers as exact rationals, so that two values are
// JSON-equal iff their canonical texts are equal.
func Canon(v any) string {
	b, err := json.Marshal(v)
	if err != nil {
		return "!unmarshalable:" + err.Error()
	}
	dec := json.NewDecoder(bytes.NewReader(b))
	dec.UseNumber()
	var g any
	if err := dec.Decode(&g); err != nil {
		return "!undecodable:" + err.Error()
	}
	var sb strings.Builder
	canon(&sb, g)
	return sb.String()
}

func canon(sb *strings.Builder, v any) {
	switch t := v.(type) {
	case nil:
		sb.WriteString("null")
	case bool:
		sb.WriteString(strconv.FormatBool(t))
	case string:
		b, _ := json.Marshal(t)
		sb.Write(b)
	case json.Number:
		r, ok := new(big.Rat).SetString(string(t))
		if !ok {
			sb.WriteString("!num:" + string(t))
			return
		}
		sb.WriteString(r.RatString())
	case []any:
		sb.WriteByte('[')
		for i, x := range t {
			if i > 0 {
				sb.WriteByte(',')
			}
			canon(sb, x)
		}
		sb.WriteByte(']')
	case map[string]any:
		keys := make([]string, 0, len(t))
		for k := range t {
			keys = append(keys, k)
		}
		sort.Strings(keys)
		sb.WriteByte('{')
		for i, k := range keys {
			if i > 0 {
				sb.WriteByte(',')
			}
			b, _ := json.Marshal(k)
			sb.Write(b)
			sb.WriteByte(':')
			canon(sb, t[k])
		}
		sb.WriteByte('}')
	default:
		fmt.Fprintf(sb, "!type:%T", v)
	}
}

// CanonProps treats a nil and an empty property map alike.
func CanonProps(m map[string]any) string {
	if len(m) == 0 {
		return "{}"
	}
	return Canon(m)
}

func KindSet(kinds []string) string {
	seen := map[string]bool{}
	var out []string
	for _, k := range kinds {
		if !seen[k] {
			seen[k] = true
			out = append(out, k)
		}
	}
	sort.Strings(out)
	b, _ := json.Marshal(out)
	return string(b)
}

// Isomorphism --------------------------------------------------------------------------------------------------------------

// Isomorphic decides whether a bijection of nodes exists under which kinds (as sets), property maps (JSON-equal) and the
// multiset of relationships (endpoints, kind, properties) coincide. Brute force; meant for graphs of a few nodes.
func Isomorphic(a, b *fakedb.Graph) (bool, string) {
	if len(a.Nodes) != len(b.Nodes) {
		return false, fmt.Sprintf("node count %d vs %d", len(a.Nodes), len(b.Nodes))
	}
	if len(a.Edges) != len(b.Edges) {
		return false, fmt.Sprintf("relationship count %d vs %d", len(a.Edges), len(b.Edges))
	}
	n := len(a.Nodes)
	sigA := make([]string, n)
	sigB := make([]string, n)
	for i := range a.Nodes {
		sigA[i] = KindSet(a.Nodes[i].Kinds) + CanonProps(a.Nodes[i].Props)
		sigB[i] = KindSet(b.Nodes[i].Kinds) + CanonProps(b.Nodes[i].Props)
	}
	posA := map[uint64]int{}
	posB := map[uint64]int{}
	for i := range a.Nodes {
		posA[a.Nodes[i].ID] = i
		posB[b.Nodes[i].ID] = i
	}
	if len(posA) != n || len(posB) != n {
		return false, "duplicate node ids"
	}
	edgeKey := func(s, e int, ed *fakedb.Edge) string {
		return fmt.Sprintf("%d>%d|%q|%s", s, e, ed.Kind, CanonProps(ed.Props))
	}
	wantEdges := map[string]int{}
	for _, e := range b.Edges {
		s, ok1 := posB[e.Start]
		t, ok2 := posB[e.End]
		if !ok1 || !ok2 {
			return false, "dangling relationship in loaded graph"
		}
		wantEdges[edgeKey(s, t, e)]++
	}
	perm := make([]int, n) // perm[i] = index in b of the image of a's node i
	used := make([]bool, n)
	var try func(i int) bool
	try = func(i int) bool {
		if i == n {
			got := map[string]int{}
			for _, e := range a.Edges {
				s, ok1 := posA[e.Start]
				t, ok2 := posA[e.End]
				if !ok1 || !ok2 {
					return false
				}
				got[edgeKey(perm[s], perm[t], e)]++
			}
			if len(got) != len(wantEdges) {
				return false
			}
			for k, c := range got {
				if wantEdges[k] != c {
					return false
				}
			}
			return true
		}
		for j := 0; j < n; j++ {
			if !used[j] && sigA[i] == sigB[j] {
				used[j] = true
				perm[i] = j
				if try(i + 1) {
					return true
				}
				used[j] = false
			}
		}
		return false
	}
	if try(0) {
		return true, ""
	}
	return false, "no node correspondence preserves kinds, properties and relationships"
}

// Independent metrics ------------------------------------------------------------------------------------------------------

func keyPart(s string) string { return strconv.Itoa(len(s)) + ":" + s }

func nodeKindKey(kinds []string) string {
	seen := map[string]bool{}
	var ks []string
	for _, k := range kinds {
		if k != "" && !seen[k] {
			seen[k] = true
			ks = append(ks, k)
		}
	}
	if len(ks) == 0 {
		return "0:"
	}
	sort.Strings(ks)
	for i := range ks {
		ks[i] = keyPart(ks[i])
	}
	return strings.Join(ks, "+")
}

func edgeKindKey(kind string) string {
	if kind == "" {
		return "0:"
	}
	return keyPart(kind)
}

type histEntry struct {
	Key   string `json:"key"`
	Count int64  `json:"count"`
}

func hist(m map[string]int64) []histEntry {
	keys := make([]string, 0, len(m))
	for k := range m {
		keys = append(keys, k)
	}
	sort.Strings(keys)
	out := make([]histEntry, 0, len(keys))
	for _, k := range keys {
		out = append(out, histEntry{k, m[k]})
	}
	return out
}

// Metrics computes the documented graph metrics (kind, degree and endpoint-kind histograms plus fingerprint) of a graph
// from first principles. ok is false when a relationship endpoint is not a node of the graph.
func Metrics(g *fakedb.Graph) (m retriever.GraphMetrics, ok bool) {
	m = retriever.GraphMetrics{
		Name:                  g.Name,
		NodeCount:             int64(len(g.Nodes)),
		EdgeCount:             int64(len(g.Edges)),
		NodeKindHistogram:     map[string]int64{},
		EdgeKindHistogram:     map[string]int64{},
		InDegreeHistogram:     map[string]int64{},
		OutDegreeHistogram:    map[string]int64{},
		TotalDegreeHistogram:  map[string]int64{},
		EndpointKindHistogram: map[string]int64{},
	}
	kindOf := map[uint64]string{}
	in := map[uint64]uint64{}
	out := map[uint64]uint64{}
	for _, n := range g.Nodes {
		k := nodeKindKey(n.Kinds)
		kindOf[n.ID] = k
		m.NodeKindHistogram[k]++
	}
	for _, e := range g.Edges {
		sk, ok1 := kindOf[e.Start]
		ek, ok2 := kindOf[e.End]
		if !ok1 || !ok2 {
			return m, false
		}
		k := edgeKindKey(e.Kind)
		m.EdgeKindHistogram[k]++
		m.EndpointKindHistogram[keyPart(sk)+"|"+keyPart(k)+"|"+keyPart(ek)]++
		out[e.Start]++
		in[e.End]++
	}
	for _, n := range g.Nodes {
		m.InDegreeHistogram[strconv.FormatUint(in[n.ID], 10)]++
		m.OutDegreeHistogram[strconv.FormatUint(out[n.ID], 10)]++
		m.TotalDegreeHistogram[strconv.FormatUint(in[n.ID]+out[n.ID], 10)]++
	}
	canonical := struct {
		Name     string      `json:"name"`
		Nodes    int64       `json:"node_count"`
		Edges    int64       `json:"edge_count"`
		NodeKind []histEntry `json:"node_kind_histogram"`
		EdgeKind []histEntry `json:"edge_kind_histogram"`
		In       []histEntry `json:"in_degree_histogram"`
		Out      []histEntry `json:"out_degree_histogram"`
		Total    []histEntry `json:"total_degree_histogram"`
		Endpoint []histEntry `json:"endpoint_kind_histogram"`
	}{g.Name, m.NodeCount, m.EdgeCount, hist(m.NodeKindHistogram), hist(m.EdgeKindHistogram), hist(m.InDegreeHistogram),
		hist(m.OutDegreeHistogram), hist(m.TotalDegreeHistogram), hist(m.EndpointKindHistogram)}
	b, _ := json.Marshal(canonical)
	m.Fingerprint = "sha256:" + SHA(b)
	return m, true
}

// MetricsEqual compares two metrics entries field by field.
func MetricsEqual(a, b retriever.GraphMetrics) bool {
	eq := func(x, y map[string]int64) bool {
		for k, v := range x {
			if v != 0 && y[k] != v {
				return false
			}
		}
		for k, v := range y {
			if v != 0 && x[k] != v {
				return false
			}
		}
		return true
	}
	return a.Name == b.Name && a.NodeCount == b.NodeCount && a.EdgeCount == b.EdgeCount && a.Fingerprint == b.Fingerprint &&
		eq(a.NodeKindHistogram, b.NodeKindHistogram) && eq(a.EdgeKindHistogram, b.EdgeKindHistogram) &&
		eq(a.InDegreeHistogram, b.InDegreeHistogram) && eq(a.OutDegreeHistogram, b.OutDegreeHistogram) &&
		eq(a.TotalDegreeHistogram, b.TotalDegreeHistogram) && eq(a.EndpointKindHistogram, b.EndpointKindHistogram)
}

// Independent dump reader ------------------------------------------------------------------------------------------------

func Extension(codec string) string {
	switch codec {
	case "gzip":
		return ".gz"
	case "zstd":
		return ".zst"
	}
	return ""
}

// Decompress inflates a fragment with the codec's reference decoder.
func Decompress(raw []byte, codec string) ([]byte, error) {
	switch codec {
	case "none":
		return raw, nil
	case "gzip":
		zr, err := gzip.NewReader(bytes.NewReader(raw))
		if err != nil {
			return nil, err
		}
		zr.Multistream(false)
		out, err := io.ReadAll(zr)
		if err != nil {
			return nil, err
		}
		return out, nil
	case "zstd":
		zr, err := zstd.NewReader(nil)
		if err != nil {
			return nil, err
		}
		defer zr.Close()
		return zr.DecodeAll(raw, nil)
	}
	return nil, fmt.Errorf("unknown codec %q", codec)
}

// Lines splits JSONL text; every line must end in '\n'.
func Lines(plain []byte) ([][]byte, error) {
	var out [][]byte
	sc := bufio.NewReader(bytes.NewReader(plain))
	for {
		line, err := sc.ReadBytes('\n')
		if err == io.EOF {
			if len(line) != 0 {
				return out, fmt.Errorf("last line is not newline-terminated")
			}
			return out, nil
		}
		if err != nil {
			return out, err
		}
		out = append(out, line[:len(line)-1])
	}
}

// GraphDir is the documented directory name of a graph: the URL path escaping of its name.
func GraphDir(name string) string {
	if e := url.PathEscape(name); e != "" {
		return e
	}
	return "default"
}

type recNode struct {
	ID    string         `json:"id"`
	Kinds []string       `json:"kinds"`
	Props map[string]any `json:"properties"`
}

type recEdge struct {
	Start string         `json:"start_id"`
	End   string         `json:"end_id"`
	Kind  string         `json:"kind"`
	Props map[string]any `json:"properties"`
}

func decodeStrict(line []byte, into any) error {
	dec := json.NewDecoder(bytes.NewReader(line))
	dec.UseNumber()
	dec.DisallowUnknownFields()
	if err := dec.Decode(into); err != nil {
		return err
	}
	if dec.More() {
		return fmt.Errorf("trailing data")
	}
	return nil
}

// DumpError is a CheckDump failure with a stable code naming the kind of mismatch.
type DumpError struct{ Code, Msg string }

func (e *DumpError) Error() string { return e.Msg }

func dumpErr(code, format string, a ...any) error {
	return &DumpError{Code: code, Msg: fmt.Sprintf(format, a...)}
}

// CheckDump verifies, from the files alone, that dir is a complete dump of spec under cfg: the directory holds exactly
// manifest.json and the fragments it lists; every count, byte size and SHA-256 is what the file has; fragment names follow
// the shard numbering; the records, in file order, are exactly the source entities in ID order, each once; graph counts,
// schema kinds and metrics describe the source. It returns the parsed manifest.
func CheckDump(dir string, spec fakedb.Spec, cfg Config) (retriever.Manifest, error) {
	var m retriever.Manifest
	tree := ReadTree(dir)
	if tree == nil {
		return m, dumpErr("files", "dump directory missing")
	}
	mb, ok := tree["manifest.json"]
	if !ok {
		return m, dumpErr("files", "manifest.json missing")
	}
	dec := json.NewDecoder(bytes.NewReader(mb.Data))
	dec.DisallowUnknownFields()
	if err := dec.Decode(&m); err != nil {
		return m, dumpErr("manifest-syntax", "manifest.json does not parse: %v", err)
	}
	if string(m.Compression) != cfg.Codec {
		return m, dumpErr("manifest-header", "manifest compression %q, dumped with %q", m.Compression, cfg.Codec)
	}
	if m.Driver != Driver {
		return m, dumpErr("manifest-header", "manifest driver %q", m.Driver)
	}
	if m.Source.GraphCount != len(spec.Graphs) || len(m.Graphs) != len(spec.Graphs) {
		return m, dumpErr("graph-count", "manifest lists %d graphs (graph_count %d), source has %d", len(m.Graphs), m.Source.GraphCount, len(spec.Graphs))
	}
	if m.Metrics == nil || len(m.Metrics.Graphs) != len(spec.Graphs) || len(m.Schema.Graphs) != len(spec.Graphs) {
		return m, dumpErr("manifest-header", "manifest metrics/schema entries do not cover all graphs")
	}
	if m.Scrub.Mode != retriever.ScrubNone {
		return m, dumpErr("manifest-header", "manifest scrub mode %q", m.Scrub.Mode)
	}
	expectedFiles := map[string]bool{"manifest.json": true}
	for gi, src := range spec.Graphs {
		ge := m.Graphs[gi]
		if ge.Name != src.Name {
			return m, dumpErr("graph-name", "manifest graph %d is %q, source graph is %q", gi, ge.Name, src.Name)
		}
		nodes := append([]*fakedb.Node(nil), src.Nodes...)
		sort.Slice(nodes, func(i, j int) bool { return nodes[i].ID < nodes[j].ID })
		edges := append([]*fakedb.Edge(nil), src.Edges...)
		sort.Slice(edges, func(i, j int) bool { return edges[i].ID < edges[j].ID })
		if ge.NodeCount != int64(len(nodes)) || ge.EdgeCount != int64(len(edges)) {
			return m, dumpErr("graph-counts", "graph %q: manifest counts nodes=%d edges=%d, source has %d/%d", ge.Name, ge.NodeCount, ge.EdgeCount, len(nodes), len(edges))
		}
		nodeKinds := map[string]bool{}
		edgeKinds := map[string]bool{}
		ni, ei := 0, 0
		shard := map[retriever.Phase]int{}
		seenEdgePhase := false
		for _, fe := range ge.Files {
			shard[fe.Phase]++
			prefix := "nodes"
			if fe.Phase == retriever.PhaseEdges {
				prefix = "edges"
				seenEdgePhase = true
			} else if fe.Phase != retriever.PhaseNodes {
				return m, dumpErr("phase", "file %q has phase %q", fe.Path, fe.Phase)
			} else if seenEdgePhase {
				return m, dumpErr("phase", "node file %q listed after an edge file", fe.Path)
			}
			want := fmt.Sprintf("graphs/%s/%s-%06d.jsonl%s", GraphDir(src.Name), prefix, shard[fe.Phase], Extension(cfg.Codec))
			if fe.Path != want {
				return m, dumpErr("fragment-path", "fragment path %q, expected %q", fe.Path, want)
			}
			if expectedFiles[fe.Path] {
				return m, dumpErr("fragment-path", "fragment %q listed twice", fe.Path)
			}
			expectedFiles[fe.Path] = true
			ent, ok := tree[fe.Path]
			if !ok || ent.Dir || ent.Link != "" {
				return m, dumpErr("files", "fragment %q is not a regular file in the dump", fe.Path)
			}
			if fe.CompressedBytes != int64(len(ent.Data)) {
				return m, dumpErr("compressed-bytes", "fragment %q: manifest compressed_bytes %d, file has %d", fe.Path, fe.CompressedBytes, len(ent.Data))
			}
			if fe.SHA256 != SHA(ent.Data) {
				return m, dumpErr("sha256", "fragment %q: manifest sha256 does not match the file", fe.Path)
			}
			plain, err := Decompress(ent.Data, cfg.Codec)
			if err != nil {
				return m, dumpErr("fragment-encoding", "fragment %q does not decompress: %v", fe.Path, err)
			}
			if fe.UncompressedBytes != int64(len(plain)) {
				return m, dumpErr("uncompressed-bytes", "fragment %q: manifest uncompressed_bytes %d, content has %d", fe.Path, fe.UncompressedBytes, len(plain))
			}
			lines, err := Lines(plain)
			if err != nil {
				return m, dumpErr("fragment-encoding", "fragment %q: %v", fe.Path, err)
			}
			if fe.Count != len(lines) {
				return m, dumpErr("record-count", "fragment %q: manifest count %d, file has %d records", fe.Path, fe.Count, len(lines))
			}
			if len(lines) == 0 {
				return m, dumpErr("record-count", "fragment %q is empty", fe.Path)
			}
			for _, line := range lines {
				if fe.Phase == retriever.PhaseNodes {
					var r recNode
					if err := decodeStrict(line, &r); err != nil {
						return m, dumpErr("manifest-syntax", "fragment %q: record does not parse: %v", fe.Path, err)
					}
					if ni >= len(nodes) {
						return m, dumpErr("records", "graph %q: more node records than source nodes", src.Name)
					}
					s := nodes[ni]
					ni++
					if r.ID != strconv.FormatUint(s.ID, 10) {
						return m, dumpErr("records", "graph %q: node record %d has id %s, source node in ID order is %d", src.Name, ni, r.ID, s.ID)
					}
					if KindSet(r.Kinds) != KindSet(s.Kinds) {
						return m, dumpErr("records", "graph %q node %d: kinds %v, source %v", src.Name, s.ID, r.Kinds, s.Kinds)
					}
					if CanonProps(r.Props) != CanonProps(s.Props) {
						return m, dumpErr("records", "graph %q node %d: properties %s, source %s", src.Name, s.ID, CanonProps(r.Props), CanonProps(s.Props))
					}
					for _, k := range s.Kinds {
						nodeKinds[k] = true
					}
				} else {
					var r recEdge
					if err := decodeStrict(line, &r); err != nil {
						return m, dumpErr("manifest-syntax", "fragment %q: record does not parse: %v", fe.Path, err)
					}
					if ei >= len(edges) {
						return m, dumpErr("records", "graph %q: more relationship records than source relationships", src.Name)
					}
					s := edges[ei]
					ei++
					if r.Start != strconv.FormatUint(s.Start, 10) || r.End != strconv.FormatUint(s.End, 10) || r.Kind != s.Kind {
						return m, dumpErr("records", "graph %q: relationship record %d is (%s)-[%s]->(%s), source relationship %d is (%d)-[%s]->(%d)", src.Name, ei, r.Start, r.Kind, r.End, s.ID, s.Start, s.Kind, s.End)
					}
					if CanonProps(r.Props) != CanonProps(s.Props) {
						return m, dumpErr("records", "graph %q relationship %d: properties %s, source %s", src.Name, s.ID, CanonProps(r.Props), CanonProps(s.Props))
					}
					edgeKinds[s.Kind] = true
				}
			}
		}
		if ni != len(nodes) || ei != len(edges) {
			return m, dumpErr("records", "graph %q: fragments hold %d nodes / %d relationships, source has %d / %d", src.Name, ni, ei, len(nodes), len(edges))
		}
		se := m.Schema.Graphs[gi]
		if se.Name != src.Name || KindSet(se.NodeKinds) != KindSet(keys(nodeKinds)) || KindSet(se.EdgeKinds) != KindSet(keys(edgeKinds)) {
			return m, dumpErr("schema-kinds", "graph %q: schema entry %+v does not list exactly the kinds in use", src.Name, se)
		}
		want, _ := Metrics(src)
		if !MetricsEqual(m.Metrics.Graphs[gi], want) {
			gb, _ := json.Marshal(m.Metrics.Graphs[gi])
			wb, _ := json.Marshal(want)
			return m, dumpErr("metrics", "graph %q: manifest metrics %s, recomputed %s", src.Name, gb, wb)
		}
	}
	for _, p := range tree.Files() {
		if !expectedFiles[p] {
			return m, dumpErr("unlisted-file", "dump directory holds %q which the manifest does not list", p)
		}
	}
	return m, nil
}

func keys(m map[string]bool) []string {
	out := make([]string, 0, len(m))
	for k := range m {
		if k != "" {
			out = append(out, k)
		}
	}
	return out
}
