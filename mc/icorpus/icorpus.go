// Package icorpus loads the DAWGS integration corpus (integration/testdata/cases/*.json, templates/*.json and the named
// datasets) as plain data: every case becomes a query text, its parameters, the fixture as a gm.Graph and the recorded
// assertion. The maintainers run these cases against live PostgreSQL and Neo4j; offline the expectations are data that a
// model of either backend (pgeval, cyref) must reproduce.
//
// The loader mirrors integration/cypher_test.go, cypher_template_test.go and harness.go:
//   - a case file names a dataset (default "base"); cases without an inline fixture run on that dataset, cases with an
//     inline fixture run on the fixture alone (runWithFixture clears the graph first);
//   - template families expand {{var}} placeholders per variant and merge family and variant parameters;
//   - metamorphic families hold >= 2 queries whose comparison signatures must coincide.
package icorpus

import (
	"encoding/json"
	"fmt"
	"math"
	"os"
	"path/filepath"
	"sort"
	"strings"

	"github.com/specterops/dawgs/cypher/frontend"
	"github.com/specterops/dawgs/cypher/models/cypher"
	"github.com/specterops/dawgs/cypher/models/walk"

	"verif/gm"
)

// Case is one integration query with its fixture and expectation.
type Case struct {
	Name   string // unique: "<file>#<case name>" or "<file>#<family>/<variant>"
	File   string // path relative to the repository
	Cypher string
	Params map[string]any
	// Graph is the fixture: node i of the fixture (in file order) has id i+1, edge j has id j+1. Shared between the cases
	// of one dataset / template family - treat as read-only.
	Graph *gm.Graph
	// IDs maps fixture node ids to graph ids; Rev is the inverse.
	IDs map[string]int64
	Rev map[int64]string
	// Assert is the recorded assertion (nil for members of a metamorphic family).
	Assert *Assertion
	// Meta is set for members of a metamorphic family: the signatures of all members must be equal.
	Meta *MetaFamily
	// Updating marks queries with CREATE / DELETE / SET / REMOVE / MERGE clauses (read-only evaluators skip them).
	Updating bool
	// ParseErr is set when the real parser rejects the text (then Updating is unknown).
	ParseErr string
}

// MetaFamily is a group of queries that must produce the same comparison signature.
type MetaFamily struct {
	Name    string
	File    string
	Compare []string
	Members []*Case
}

// Assertion is a parsed "assert" value.
type Assertion struct {
	Raw         string
	ExpectError bool     // "query_error"
	Simple      string   // "non_empty" | "empty" | "no_error" | ""
	Keys        []string // sorted assertion keys of an object assertion
	obj         map[string]json.RawMessage
}

// Kinds lists the assertion kinds (for reporting).
func (a *Assertion) Kinds() []string {
	if a.ExpectError {
		return []string{"query_error"}
	}
	if a.Simple != "" {
		return []string{a.Simple}
	}
	return a.Keys
}

type fixtureNode struct {
	ID         string         `json:"id"`
	Kinds      []string       `json:"kinds"`
	Properties map[string]any `json:"properties"`
}

type fixtureEdge struct {
	StartID    string         `json:"start_id"`
	EndID      string         `json:"end_id"`
	Kind       string         `json:"kind"`
	Properties map[string]any `json:"properties"`
}

type fixtureGraph struct {
	Nodes []fixtureNode `json:"nodes"`
	Edges []fixtureEdge `json:"edges"`
}

type built struct {
	g   *gm.Graph
	ids map[string]int64
	rev map[int64]string
}

// normalise converts decoded JSON (float64 numbers) into gm property values: integral numbers that a float64 holds
// exactly become int64 (the driver marshals float64(3) as "3", so PostgreSQL stores the jsonb number 3 either way).
func normalise(v any) any {
	switch t := v.(type) {
	case float64:
		if t == math.Trunc(t) && math.Abs(t) < 1<<53 {
			return int64(t)
		}
		return t
	case []any:
		out := make([]any, len(t))
		for i, e := range t {
			out[i] = normalise(e)
		}
		return out
	case map[string]any:
		out := make(map[string]any, len(t))
		for k, e := range t {
			out[k] = normalise(e)
		}
		return out
	}
	return v
}

func normaliseProps(m map[string]any) map[string]any {
	out := make(map[string]any, len(m))
	for k, v := range m {
		out[k] = normalise(v)
	}
	return out
}

// build mirrors opengraph.WriteGraphTx / WriteGraph: nodes are created in file order (ascending database ids), then
// edges in file order. An edge with the (start, end, kind) of an earlier edge violates the schema's unique constraint in
// the transactional path and is an upsert (properties replaced) in the batch path; build keeps one edge and replaces its
// properties, which is what the batch loader of named datasets does.
func build(fg *fixtureGraph) (*built, error) {
	b := &built{g: &gm.Graph{}, ids: map[string]int64{}, rev: map[int64]string{}}
	for i, n := range fg.Nodes {
		id := int64(i + 1)
		if _, dup := b.ids[n.ID]; dup {
			// opengraph.WriteGraphTx creates a second node and the id map keeps the last one
		}
		b.ids[n.ID] = id
		b.rev[id] = n.ID
		b.g.Nodes = append(b.g.Nodes, gm.Node{ID: id, Kinds: append([]string(nil), n.Kinds...), Props: normaliseProps(n.Properties)})
	}
	type key struct {
		s, e int64
		k    string
	}
	seen := map[key]int{}
	for _, e := range fg.Edges {
		s, ok := b.ids[e.StartID]
		if !ok {
			return nil, fmt.Errorf("edge start %q not found", e.StartID)
		}
		t, ok := b.ids[e.EndID]
		if !ok {
			return nil, fmt.Errorf("edge end %q not found", e.EndID)
		}
		k := key{s, t, e.Kind}
		if idx, dup := seen[k]; dup {
			b.g.Edges[idx].Props = normaliseProps(e.Properties)
			continue
		}
		seen[k] = len(b.g.Edges)
		b.g.Edges = append(b.g.Edges, gm.Edge{ID: int64(len(b.g.Edges) + 1), Start: s, End: t, Kind: e.Kind, Props: normaliseProps(e.Properties)})
	}
	return b, nil
}

// RepoRoot is the DAWGS working tree the corpus is read from (VERIF_REPO or /repo).
func RepoRoot() string {
	if r := os.Getenv("VERIF_REPO"); r != "" {
		return r
	}
	return "/repo"
}

func sortedGlob(pattern string) []string {
	files, _ := filepath.Glob(pattern)
	sort.Strings(files)
	return files
}

// Load reads the whole corpus below <repo>/integration/testdata in a deterministic order.
func Load(repo string) ([]*Case, error) {
	dir := filepath.Join(repo, "integration", "testdata")
	datasets := map[string]*built{}
	dataset := func(name string) (*built, error) {
		if b, ok := datasets[name]; ok {
			return b, nil
		}
		raw, err := os.ReadFile(filepath.Join(dir, name+".json"))
		if err != nil {
			return nil, err
		}
		var doc struct {
			Graph fixtureGraph `json:"graph"`
		}
		if err := json.Unmarshal(raw, &doc); err != nil {
			return nil, fmt.Errorf("dataset %s: %w", name, err)
		}
		b, err := build(&doc.Graph)
		if err != nil {
			return nil, fmt.Errorf("dataset %s: %w", name, err)
		}
		datasets[name] = b
		return b, nil
	}
	rel := func(p string) string {
		if r, err := filepath.Rel(repo, p); err == nil {
			return r
		}
		return p
	}

	var out []*Case
	names := map[string]int{}
	add := func(c *Case) {
		names[c.Name]++
		if n := names[c.Name]; n > 1 {
			c.Name = fmt.Sprintf("%s (%d)", c.Name, n)
		}
		q, err := frontend.ParseCypher(frontend.NewContext(), c.Cypher)
		if err != nil {
			c.ParseErr = err.Error()
		} else {
			c.Updating = IsUpdating(q)
		}
		out = append(out, c)
	}

	for _, f := range sortedGlob(filepath.Join(dir, "cases", "*.json")) {
		raw, err := os.ReadFile(f)
		if err != nil {
			return nil, err
		}
		var cf struct {
			Dataset string `json:"dataset"`
			Cases   []struct {
				Name    string          `json:"name"`
				Cypher  string          `json:"cypher"`
				Params  map[string]any  `json:"params"`
				Assert  json.RawMessage `json:"assert"`
				Fixture *fixtureGraph   `json:"fixture"`
			} `json:"cases"`
		}
		if err := json.Unmarshal(raw, &cf); err != nil {
			return nil, fmt.Errorf("%s: %w", f, err)
		}
		ds := cf.Dataset
		if ds == "" {
			ds = "base"
		}
		for _, tc := range cf.Cases {
			var b *built
			if tc.Fixture != nil {
				if b, err = build(tc.Fixture); err != nil {
					return nil, fmt.Errorf("%s#%s: %w", f, tc.Name, err)
				}
			} else if b, err = dataset(ds); err != nil {
				return nil, err
			}
			a, err := ParseAssertion(tc.Assert)
			if err != nil {
				return nil, fmt.Errorf("%s#%s: %w", f, tc.Name, err)
			}
			add(&Case{Name: rel(f) + "#" + tc.Name, File: rel(f), Cypher: tc.Cypher, Params: normaliseParams(tc.Params),
				Graph: b.g, IDs: b.ids, Rev: b.rev, Assert: a})
		}
	}

	for _, f := range sortedGlob(filepath.Join(dir, "templates", "*.json")) {
		raw, err := os.ReadFile(f)
		if err != nil {
			return nil, err
		}
		var tf struct {
			Families []struct {
				Name     string         `json:"name"`
				Fixture  *fixtureGraph  `json:"fixture"`
				Template string         `json:"template"`
				Params   map[string]any `json:"params"`
				Variants []struct {
					Name   string            `json:"name"`
					Vars   map[string]string `json:"vars"`
					Params map[string]any    `json:"params"`
					Assert json.RawMessage   `json:"assert"`
				} `json:"variants"`
			} `json:"families"`
			Metamorphic []struct {
				Name    string          `json:"name"`
				Fixture *fixtureGraph   `json:"fixture"`
				Compare json.RawMessage `json:"compare"`
				Queries []struct {
					Name   string         `json:"name"`
					Cypher string         `json:"cypher"`
					Params map[string]any `json:"params"`
				} `json:"queries"`
			} `json:"metamorphic"`
		}
		if err := json.Unmarshal(raw, &tf); err != nil {
			return nil, fmt.Errorf("%s: %w", f, err)
		}
		for _, fam := range tf.Families {
			if fam.Fixture == nil {
				return nil, fmt.Errorf("%s#%s: template family without fixture", f, fam.Name)
			}
			b, err := build(fam.Fixture)
			if err != nil {
				return nil, fmt.Errorf("%s#%s: %w", f, fam.Name, err)
			}
			for _, v := range fam.Variants {
				text, err := render(fam.Template, v.Vars)
				if err != nil {
					return nil, fmt.Errorf("%s#%s/%s: %w", f, fam.Name, v.Name, err)
				}
				a, err := ParseAssertion(v.Assert)
				if err != nil {
					return nil, fmt.Errorf("%s#%s/%s: %w", f, fam.Name, v.Name, err)
				}
				add(&Case{Name: rel(f) + "#" + fam.Name + "/" + v.Name, File: rel(f), Cypher: text,
					Params: normaliseParams(mergeParams(fam.Params, v.Params)), Graph: b.g, IDs: b.ids, Rev: b.rev, Assert: a})
			}
		}
		for _, fam := range tf.Metamorphic {
			if fam.Fixture == nil {
				return nil, fmt.Errorf("%s#%s: metamorphic family without fixture", f, fam.Name)
			}
			b, err := build(fam.Fixture)
			if err != nil {
				return nil, fmt.Errorf("%s#%s: %w", f, fam.Name, err)
			}
			mf := &MetaFamily{Name: rel(f) + "#" + fam.Name, File: rel(f)}
			var one string
			if json.Unmarshal(fam.Compare, &one) == nil {
				mf.Compare = []string{one}
			} else if err := json.Unmarshal(fam.Compare, &mf.Compare); err != nil {
				return nil, fmt.Errorf("%s#%s: compare: %w", f, fam.Name, err)
			}
			for _, q := range fam.Queries {
				c := &Case{Name: mf.Name + "/" + q.Name, File: rel(f), Cypher: q.Cypher, Params: normaliseParams(q.Params),
					Graph: b.g, IDs: b.ids, Rev: b.rev, Meta: mf}
				mf.Members = append(mf.Members, c)
				add(c)
			}
		}
	}
	return out, nil
}

func normaliseParams(m map[string]any) map[string]any {
	if m == nil {
		return nil
	}
	// Parameters keep the JSON decoding of the Go test (float64 numbers): the translator sees exactly these Go values.
	return m
}

// render mirrors renderCypherTemplate. The Go test iterates the vars map in random order; that is only deterministic
// when no value contains a placeholder, which render checks.
func render(template string, vars map[string]string) (string, error) {
	names := make([]string, 0, len(vars))
	for n, v := range vars {
		if strings.Contains(v, "{{") {
			return "", fmt.Errorf("template variable %q contains a placeholder (order dependent rendering)", n)
		}
		names = append(names, n)
	}
	sort.Strings(names)
	out := template
	for _, n := range names {
		out = strings.ReplaceAll(out, "{{"+n+"}}", vars[n])
	}
	if strings.Contains(out, "{{") || strings.Contains(out, "}}") {
		return "", fmt.Errorf("template has unresolved placeholders: %s", out)
	}
	return out, nil
}

func mergeParams(base, overrides map[string]any) map[string]any {
	if len(base) == 0 && len(overrides) == 0 {
		return nil
	}
	merged := make(map[string]any, len(base)+len(overrides))
	for k, v := range base {
		merged[k] = v
	}
	for k, v := range overrides {
		merged[k] = v
	}
	return merged
}

// IsUpdating reports whether a parsed query contains an updating clause.
func IsUpdating(q *cypher.RegularQuery) bool {
	updating := false
	_ = walk.Cypher(q, walk.NewSimpleVisitor[cypher.SyntaxNode](func(node cypher.SyntaxNode, _ walk.VisitorHandler) {
		switch node.(type) {
		case *cypher.UpdatingClause, *cypher.Create, *cypher.Delete, *cypher.Set, *cypher.Remove, *cypher.Merge:
			updating = true
		}
	}))
	return updating
}

// ParseAssertion mirrors parseAssertion of cypher_test.go.
func ParseAssertion(raw json.RawMessage) (*Assertion, error) {
	a := &Assertion{Raw: string(raw)}
	var str string
	if err := json.Unmarshal(raw, &str); err == nil {
		switch str {
		case "non_empty", "empty", "no_error":
			a.Simple = str
		case "query_error":
			a.ExpectError = true
		default:
			return nil, fmt.Errorf("unknown string assertion %q", str)
		}
		return a, nil
	}
	if err := json.Unmarshal(raw, &a.obj); err != nil {
		return nil, fmt.Errorf("failed to parse assertion: %w", err)
	}
	if len(a.obj) == 0 {
		return nil, fmt.Errorf("empty assertion object")
	}
	for k := range a.obj {
		if !knownAssertion[k] {
			return nil, fmt.Errorf("unknown assertion key %q", k)
		}
		a.Keys = append(a.Keys, k)
	}
	sort.Strings(a.Keys)
	return a, nil
}

var knownAssertion = map[string]bool{
	"keys": true, "row_count": true, "at_least_int": true, "exact_int": true, "scalar_values": true,
	"ordered_scalar_values": true, "row_values": true, "ordered_row_values": true, "contains_node_with_prop": true,
	"contains_node_with_props": true, "contains_edge": true, "node_ids": true, "node_id_set": true,
	"ordered_node_ids": true, "node_list_ids": true, "path_node_ids": true, "path_lengths": true,
	"path_edge_kinds": true, "relationship_list_kinds": true,
}
