package icorpus

import (
	"encoding/json"
	"os"
	"testing"

	"verif/gm"
)

func testCase(t *testing.T, assert string) *Case {
	t.Helper()
	a, err := ParseAssertion(json.RawMessage(assert))
	if err != nil {
		t.Fatal(err)
	}
	g := &gm.Graph{
		Nodes: []gm.Node{
			{ID: 1, Kinds: []string{"A"}, Props: map[string]any{"name": "x", "n": int64(3)}},
			{ID: 2, Kinds: []string{"B"}, Props: map[string]any{"name": "y"}},
		},
		Edges: []gm.Edge{{ID: 1, Start: 1, End: 2, Kind: "R", Props: map[string]any{"w": int64(1)}}},
	}
	return &Case{Name: "t", Graph: g, IDs: map[string]int64{"a": 1, "b": 2}, Rev: map[int64]string{1: "a", 2: "b"}, Assert: a}
}

func rows(cols []string, rs ...[]any) *gm.Rows { return &gm.Rows{Columns: cols, Rows: rs} }

func TestCheck(t *testing.T) {
	path := gm.Path{Nodes: []int64{1, 2}, Edges: []int64{1}}
	cases := []struct {
		assert string
		rows   *gm.Rows
		err    error
		ok     bool
	}{
		{`"non_empty"`, rows([]string{"n"}, []any{gm.NodeRef{ID: 1}}), nil, true},
		{`"non_empty"`, rows([]string{"n"}), nil, false},
		{`"empty"`, rows([]string{"n"}), nil, true},
		{`"no_error"`, rows([]string{"n"}), nil, true},
		{`"no_error"`, nil, os.ErrInvalid, false},
		{`"query_error"`, nil, os.ErrInvalid, true},
		{`"query_error"`, rows([]string{"n"}), nil, false},
		{`{"row_count": 2}`, rows([]string{"n"}, []any{int64(1)}, []any{int64(2)}), nil, true},
		{`{"exact_int": 2}`, rows([]string{"n"}, []any{float64(2)}), nil, true},
		{`{"exact_int": 2}`, rows([]string{"n"}, []any{int64(2)}, []any{int64(2)}), nil, false},
		{`{"at_least_int": 2}`, rows([]string{"n"}, []any{int64(3)}), nil, true},
		{`{"keys": ["a", "b"]}`, rows([]string{"a", "b"}, []any{int64(1), int64(2)}), nil, true},
		{`{"keys": ["a", "b"]}`, rows([]string{"b", "a"}, []any{int64(1), int64(2)}), nil, false},
		{`{"keys": ["a"]}`, rows([]string{"a"}), nil, false}, // needs at least one row
		{`{"scalar_values": [1, "x", null, true, [1, 2]]}`, rows([]string{"v"}, []any{[]any{int64(1), float64(2)}}, []any{true}, []any{nil}, []any{"x"}, []any{float64(1)}), nil, true},
		{`{"ordered_scalar_values": [1, 2]}`, rows([]string{"v"}, []any{int64(2)}, []any{int64(1)}), nil, false},
		{`{"row_values": [["x", 1], ["y", null]]}`, rows([]string{"a", "b"}, []any{"y", nil}, []any{"x", int64(1)}), nil, true},
		{`{"ordered_row_values": [["x", 1], ["y", null]]}`, rows([]string{"a", "b"}, []any{"y", nil}, []any{"x", int64(1)}), nil, false},
		{`{"node_ids": ["a", "a", "b"]}`, rows([]string{"n", "m"}, []any{gm.NodeRef{ID: 1}, gm.NodeRef{ID: 2}}, []any{gm.NodeRef{ID: 1}, nil}), nil, true},
		{`{"node_id_set": ["a", "b"]}`, rows([]string{"n", "m"}, []any{gm.NodeRef{ID: 1}, gm.NodeRef{ID: 2}}, []any{gm.NodeRef{ID: 1}, nil}), nil, true},
		{`{"ordered_node_ids": ["b", "a"]}`, rows([]string{"n"}, []any{gm.NodeRef{ID: 2}}, []any{gm.NodeRef{ID: 1}}), nil, true},
		{`{"node_list_ids": [["a", "b"]]}`, rows([]string{"l"}, []any{[]any{gm.NodeRef{ID: 1}, gm.NodeRef{ID: 2}}}), nil, true},
		{`{"path_node_ids": [["a", "b"]], "path_lengths": [1], "path_edge_kinds": [["R"]]}`, rows([]string{"p"}, []any{path}), nil, true},
		// the driver maps every composite map to a path: a node column counts as an empty path
		{`{"path_node_ids": [["a", "b"], []]}`, rows([]string{"p", "n"}, []any{path, gm.NodeRef{ID: 1}}), nil, true},
		{`{"path_node_ids": [["a", "b"]]}`, rows([]string{"p", "n"}, []any{path, gm.NodeRef{ID: 1}}), nil, false},
		{`{"relationship_list_kinds": [["R"]]}`, rows([]string{"r"}, []any{[]any{gm.EdgeRef{ID: 1}}}), nil, true},
		{`{"contains_node_with_prop": ["name", "x"]}`, rows([]string{"n"}, []any{gm.NodeRef{ID: 1}}), nil, true},
		{`{"contains_node_with_prop": ["name", "x"]}`, rows([]string{"n"}, []any{gm.NodeRef{ID: 2}}), nil, false},
		{`{"contains_node_with_props": {"n": 3}}`, rows([]string{"p"}, []any{path}), nil, true},
		{`{"contains_edge": {"start": "a", "end": "b", "kind": "R", "props": {"w": 1}}}`, rows([]string{"p"}, []any{path}), nil, true},
		{`{"contains_edge": {"start": "b"}}`, rows([]string{"r"}, []any{gm.EdgeRef{ID: 1}}), nil, false},
	}
	for i, c := range cases {
		tc := testCase(t, c.assert)
		ok, why := tc.Check(c.rows, c.err)
		if ok != c.ok {
			t.Errorf("case %d (%s): ok=%v why=%q, want ok=%v", i, c.assert, ok, why, c.ok)
		}
	}
}

func TestLoad(t *testing.T) {
	if _, err := os.Stat(RepoRoot() + "/integration/testdata/cases"); err != nil {
		t.Skip("integration corpus not found")
	}
	cases, err := Load(RepoRoot())
	if err != nil {
		t.Fatal(err)
	}
	if len(cases) < 400 {
		t.Fatalf("only %d cases", len(cases))
	}
	names := map[string]bool{}
	updating, meta := 0, 0
	for _, c := range cases {
		if names[c.Name] {
			t.Errorf("duplicate case name %q", c.Name)
		}
		names[c.Name] = true
		if c.Updating {
			updating++
		}
		if c.Meta != nil {
			meta++
		} else if c.Assert == nil {
			t.Errorf("%s has no assertion", c.Name)
		}
		if c.ParseErr != "" && (c.Assert == nil || !c.Assert.ExpectError) {
			t.Errorf("%s does not parse: %s", c.Name, c.ParseErr)
		}
		for i, n := range c.Graph.Nodes {
			if n.ID != int64(i+1) {
				t.Fatalf("%s: node ids must be 1..n", c.Name)
			}
		}
	}
	t.Logf("%d cases, %d updating, %d metamorphic members", len(cases), updating, meta)
}
