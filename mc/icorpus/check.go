package icorpus

import (
	"encoding/json"
	"fmt"
	"math"
	"reflect"
	"sort"
	"strings"

	"verif/gm"
)

// Check evaluates the recorded assertion on a result the way integration/cypher_test.go does on the PostgreSQL driver's
// values, transposed to gm values:
//
//	driver value                                   gm value
//	map with id/kind_ids/properties  (node)        gm.NodeRef
//	map with id/start_id/end_id/...  (relationship) gm.EdgeRef
//	map with nodes/edges             (path)        gm.Path
//	[]any                                          []any
//	decoded jsonb / scalars                        nil, bool, int64, float64, string, []any, map[string]any
//
// One quirk of the driver's mapper is kept on purpose: pathComposite.TryMap succeeds on *every* map value (the "nodes"
// and "edges" keys are optional), so node, relationship and jsonb-object values also count as empty paths in the path
// assertions, and an empty list counts as an empty node list / relationship list.
//
// err is the query's error (parse, translation or run-time); only "query_error" accepts one.
func (c *Case) Check(rows *gm.Rows, err error) (bool, string) {
	if c.Assert == nil {
		return false, "case has no assertion (metamorphic member: use CompareMeta)"
	}
	a := c.Assert
	if a.ExpectError {
		if err != nil {
			return true, ""
		}
		return false, "expected query error but query completed successfully"
	}
	if err != nil {
		return false, "query error: " + err.Error()
	}
	if rows == nil {
		return false, "no result"
	}
	switch a.Simple {
	case "non_empty":
		if len(rows.Rows) == 0 {
			return false, "expected non-empty result set"
		}
		return true, ""
	case "empty":
		if len(rows.Rows) > 0 {
			return false, fmt.Sprintf("expected empty result set but got %d rows", len(rows.Rows))
		}
		return true, ""
	case "no_error":
		return true, ""
	}
	for _, key := range a.Keys {
		if why := c.checkKey(key, a.obj[key], rows); why != "" {
			return false, key + ": " + why
		}
	}
	return true, ""
}

func decode[T any](raw json.RawMessage) (T, error) {
	var v T
	err := json.Unmarshal(raw, &v)
	return v, err
}

func (c *Case) checkKey(key string, raw json.RawMessage, rows *gm.Rows) (why string) {
	defer func() {
		if r := recover(); r != nil {
			if f, ok := r.(failure); ok {
				why = string(f)
				return
			}
			panic(r)
		}
	}()
	switch key {
	case "keys":
		expected := must(decode[[]string](raw))
		if len(rows.Rows) == 0 {
			return "key assertion expected at least one row"
		}
		if strings.Join(rows.Columns, "\x00") != strings.Join(expected, "\x00") {
			return fmt.Sprintf("keys mismatch: got %v want %v", rows.Columns, expected)
		}
	case "row_count":
		n := must(decode[int](raw))
		if len(rows.Rows) != n {
			return fmt.Sprintf("got %d rows, want %d", len(rows.Rows), n)
		}
	case "at_least_int":
		minimum := must(decode[int64](raw))
		if len(rows.Rows) == 0 {
			return "no rows returned"
		}
		v, ok := asInt64(firstScalar(rows))
		if !ok {
			return fmt.Sprintf("expected integer, got %T: %v", firstScalar(rows), firstScalar(rows))
		}
		if v < minimum {
			return fmt.Sprintf("got %d, want >= %d", v, minimum)
		}
	case "exact_int":
		expected := must(decode[int64](raw))
		if len(rows.Rows) != 1 {
			return fmt.Sprintf("exact integer assertion expected one row, got %d", len(rows.Rows))
		}
		v, ok := asInt64(firstScalar(rows))
		if !ok {
			return fmt.Sprintf("expected integer, got %T: %v", firstScalar(rows), firstScalar(rows))
		}
		if v != expected {
			return fmt.Sprintf("got %d, want %d", v, expected)
		}
	case "scalar_values", "ordered_scalar_values":
		expected := must(decode[[]any](raw))
		got := firstScalarSignatures(rows)
		want := make([]string, len(expected))
		for i, e := range expected {
			want[i] = scalarSignature(e)
		}
		return compareSigs(got, want, key == "ordered_scalar_values")
	case "row_values", "ordered_row_values":
		expected := must(decode[[][]any](raw))
		got := rowScalarSignatures(rows)
		want := make([]string, len(expected))
		for i, e := range expected {
			want[i] = rowScalarSignature(e)
		}
		return compareSigs(got, want, key == "ordered_row_values")
	case "contains_node_with_prop":
		pair := must(decode[[2]string](raw))
		for _, row := range rows.Rows {
			for _, v := range row {
				if n, ok := v.(gm.NodeRef); ok {
					if node := c.Graph.Node(n.ID); node != nil {
						if s, isString := node.Props[pair[0]].(string); isString && s == pair[1] {
							return ""
						}
					}
				}
			}
		}
		return fmt.Sprintf("no row contains a node with %s = %q", pair[0], pair[1])
	case "contains_node_with_props":
		expected := must(decode[map[string]any](raw))
		for _, row := range rows.Rows {
			for _, v := range row {
				if n, ok := v.(gm.NodeRef); ok && c.nodePropsMatch(n.ID, expected) {
					return ""
				}
				if p, ok := asPath(v); ok {
					for _, id := range p.Nodes {
						if c.nodePropsMatch(id, expected) {
							return ""
						}
					}
				}
			}
		}
		return fmt.Sprintf("no row contains a node with properties %v", expected)
	case "contains_edge":
		type edgeExpectation struct {
			Start string         `json:"start"`
			End   string         `json:"end"`
			Kind  string         `json:"kind"`
			Props map[string]any `json:"props"`
		}
		expected := must(decode[edgeExpectation](raw))
		for _, id := range collectRelationships(rows) {
			e := c.Graph.Edge(id)
			if e == nil {
				fail("relationship %d is not in the fixture", id)
			}
			if expected.Start != "" && c.fixtureID(e.Start) != expected.Start {
				continue
			}
			if expected.End != "" && c.fixtureID(e.End) != expected.End {
				continue
			}
			if expected.Kind != "" && e.Kind != expected.Kind {
				continue
			}
			if propsMatch(e.Props, expected.Props) {
				return ""
			}
		}
		return fmt.Sprintf("no row contains an edge matching %+v", expected)
	case "node_ids", "node_id_set":
		expected := must(decode[[]string](raw))
		return multiset(c.collectNodeIDs(rows, key == "node_id_set"), expected)
	case "ordered_node_ids":
		expected := must(decode[[]string](raw))
		got := make([]string, 0, len(rows.Rows))
		for i, row := range rows.Rows {
			found := false
			for _, v := range row {
				if n, ok := v.(gm.NodeRef); ok {
					got = append(got, c.fixtureID(n.ID))
					found = true
					break
				}
			}
			if !found {
				return fmt.Sprintf("row %d did not contain a node value", i)
			}
		}
		if strings.Join(got, "\x00") != strings.Join(expected, "\x00") {
			return fmt.Sprintf("ordered node ids: got %v want %v", got, expected)
		}
	case "node_list_ids":
		expected := must(decode[[][]string](raw))
		var got []string
		for _, row := range rows.Rows {
			for _, v := range row {
				if list, ok := v.([]any); ok {
					ids := make([]string, 0, len(list))
					all := true
					for _, e := range list {
						n, isNode := e.(gm.NodeRef)
						if !isNode {
							all = false
							break
						}
						ids = append(ids, c.fixtureID(n.ID))
					}
					if all {
						got = append(got, strings.Join(ids, "->"))
					}
				}
			}
		}
		want := make([]string, len(expected))
		for i, e := range expected {
			want[i] = strings.Join(e, "->")
		}
		return multiset(got, want)
	case "path_node_ids":
		expected := must(decode[[][]string](raw))
		got := c.pathNodeIDSignatures(rows)
		want := make([]string, len(expected))
		for i, e := range expected {
			want[i] = strings.Join(e, "->")
		}
		return multiset(got, want)
	case "path_lengths":
		expected := must(decode[[]int](raw))
		var got []string
		for _, p := range collectPaths(rows) {
			got = append(got, fmt.Sprintf("%d", len(p.Edges)))
		}
		want := make([]string, len(expected))
		for i, e := range expected {
			want[i] = fmt.Sprintf("%d", e)
		}
		return multiset(got, want)
	case "path_edge_kinds":
		expected := must(decode[[][]string](raw))
		got := c.pathEdgeKindSignatures(rows)
		want := make([]string, len(expected))
		for i, e := range expected {
			want[i] = strings.Join(e, "->")
		}
		return multiset(got, want)
	case "relationship_list_kinds":
		expected := must(decode[[][]string](raw))
		var got []string
		for _, row := range rows.Rows {
			for _, v := range row {
				if list, ok := v.([]any); ok {
					kinds := make([]string, 0, len(list))
					all := true
					for _, e := range list {
						r, isEdge := e.(gm.EdgeRef)
						if !isEdge {
							all = false
							break
						}
						kinds = append(kinds, c.edgeKind(r.ID))
					}
					if all {
						got = append(got, strings.Join(kinds, "->"))
					}
				}
			}
		}
		want := make([]string, len(expected))
		for i, e := range expected {
			want[i] = strings.Join(e, "->")
		}
		return multiset(got, want)
	default:
		return "unknown assertion key"
	}
	return ""
}

type failure string

func fail(format string, a ...any) { panic(failure(fmt.Sprintf(format, a...))) }

func must[T any](v T, err error) T {
	if err != nil {
		fail("failed to decode assertion: %v", err)
	}
	return v
}

func (c *Case) fixtureID(id int64) string {
	if f, ok := c.Rev[id]; ok {
		return f
	}
	fail("database node ID %d was not found in the assertion fixture ID map", id)
	return ""
}

func (c *Case) edgeKind(id int64) string {
	if e := c.Graph.Edge(id); e != nil {
		return e.Kind
	}
	fail("relationship %d is not in the fixture", id)
	return ""
}

func (c *Case) nodePropsMatch(id int64, expected map[string]any) bool {
	n := c.Graph.Node(id)
	if n == nil {
		return false
	}
	return propsMatch(n.Props, expected)
}

func propsMatch(props map[string]any, expected map[string]any) bool {
	if len(expected) == 0 {
		return true
	}
	if props == nil {
		return false
	}
	for k, e := range expected {
		if !valuesEqual(props[k], e) {
			return false
		}
	}
	return true
}

func valuesEqual(actual, expected any) bool {
	if a, ok := asFloat64(actual); ok {
		if e, ok := asFloat64(expected); ok {
			return a == e
		}
	}
	return reflect.DeepEqual(jsonShape(actual), jsonShape(expected))
}

// jsonShape turns int64 into float64 recursively, so that DeepEqual compares what the Go test compares (decoded JSON).
func jsonShape(v any) any {
	switch t := v.(type) {
	case int64:
		return float64(t)
	case int:
		return float64(t)
	case []any:
		out := make([]any, len(t))
		for i, e := range t {
			out[i] = jsonShape(e)
		}
		return out
	case map[string]any:
		out := make(map[string]any, len(t))
		for k, e := range t {
			out[k] = jsonShape(e)
		}
		return out
	}
	return v
}

// asPath mirrors mapper.Map(value, *graph.Path): every map value (node, relationship, path, jsonb object) maps.
func asPath(v any) (gm.Path, bool) {
	switch t := v.(type) {
	case gm.Path:
		return t, true
	case gm.NodeRef, gm.EdgeRef:
		return gm.Path{}, true
	case map[string]any:
		_, hasNodes := t["nodes"]
		_, hasEdges := t["edges"]
		if hasNodes || hasEdges {
			// a jsonb object with these keys would have to hold composites; the driver fails to map it
			return gm.Path{}, false
		}
		return gm.Path{}, true
	}
	return gm.Path{}, false
}

func collectPaths(rows *gm.Rows) []gm.Path {
	var out []gm.Path
	for _, row := range rows.Rows {
		for _, v := range row {
			if p, ok := asPath(v); ok {
				out = append(out, p)
			}
		}
	}
	return out
}

func collectRelationships(rows *gm.Rows) []int64 {
	var out []int64
	for _, row := range rows.Rows {
		for _, v := range row {
			if r, ok := v.(gm.EdgeRef); ok {
				out = append(out, r.ID)
			}
			if p, ok := asPath(v); ok {
				out = append(out, p.Edges...)
			}
		}
	}
	return out
}

func (c *Case) collectNodeIDs(rows *gm.Rows, unique bool) []string {
	ids := make([]string, 0, len(rows.Rows))
	seen := map[string]bool{}
	for _, row := range rows.Rows {
		for _, v := range row {
			if n, ok := v.(gm.NodeRef); ok {
				f := c.fixtureID(n.ID)
				if unique {
					if seen[f] {
						continue
					}
					seen[f] = true
				}
				ids = append(ids, f)
			}
		}
	}
	return ids
}

func (c *Case) pathNodeIDSignatures(rows *gm.Rows) []string {
	var got []string
	for _, p := range collectPaths(rows) {
		ids := make([]string, len(p.Nodes))
		for i, id := range p.Nodes {
			ids[i] = c.fixtureID(id)
		}
		got = append(got, strings.Join(ids, "->"))
	}
	return got
}

func (c *Case) pathEdgeKindSignatures(rows *gm.Rows) []string {
	var got []string
	for _, p := range collectPaths(rows) {
		kinds := make([]string, len(p.Edges))
		for i, id := range p.Edges {
			kinds[i] = c.edgeKind(id)
		}
		got = append(got, strings.Join(kinds, "->"))
	}
	return got
}

func firstScalar(rows *gm.Rows) any {
	if len(rows.Rows) == 0 {
		fail("no rows returned")
	}
	if len(rows.Rows[0]) == 0 {
		fail("first row has no values")
	}
	return rows.Rows[0][0]
}

func firstScalarSignatures(rows *gm.Rows) []string {
	got := make([]string, 0, len(rows.Rows))
	for i, row := range rows.Rows {
		if len(row) == 0 {
			fail("row %d has no values", i)
		}
		got = append(got, scalarSignature(row[0]))
	}
	return got
}

func rowScalarSignatures(rows *gm.Rows) []string {
	got := make([]string, 0, len(rows.Rows))
	for _, row := range rows.Rows {
		got = append(got, rowScalarSignature(row))
	}
	return got
}

func rowScalarSignature(values []any) string {
	parts := make([]string, len(values))
	for i, v := range values {
		parts[i] = scalarSignature(v)
	}
	encoded, err := json.Marshal(parts)
	if err != nil {
		return strings.Join(parts, "\x00")
	}
	return string(encoded)
}

func scalarSignature(v any) string {
	if v == nil {
		return "null:"
	}
	if n, ok := asFloat64(v); ok {
		return fmt.Sprintf("number:%g", n)
	}
	switch t := v.(type) {
	case string:
		return "string:" + t
	case bool:
		return fmt.Sprintf("bool:%t", t)
	case gm.NodeRef, gm.EdgeRef, gm.Path:
		// the driver yields a composite map here; no JSON expectation can equal it
		return "entity:" + gm.Canon(t)
	default:
		if encoded, err := json.Marshal(jsonable(t)); err == nil {
			return fmt.Sprintf("json:%s", encoded)
		}
		return fmt.Sprintf("%T:%v", t, t)
	}
}

// jsonable replaces entity references nested in lists/maps by their canonical text so that Marshal never fails.
func jsonable(v any) any {
	switch t := v.(type) {
	case []any:
		out := make([]any, len(t))
		for i, e := range t {
			out[i] = jsonable(e)
		}
		return out
	case map[string]any:
		out := make(map[string]any, len(t))
		for k, e := range t {
			out[k] = jsonable(e)
		}
		return out
	case gm.NodeRef, gm.EdgeRef, gm.Path:
		return gm.Canon(t)
	case float64:
		if math.IsNaN(t) || math.IsInf(t, 0) {
			return fmt.Sprint(t)
		}
	}
	return v
}

func asInt64(v any) (int64, bool) {
	switch t := v.(type) {
	case int:
		return int64(t), true
	case int16:
		return int64(t), true
	case int32:
		return int64(t), true
	case int64:
		return t, true
	case float32:
		if math.Trunc(float64(t)) == float64(t) {
			return int64(t), true
		}
	case float64:
		if math.Trunc(t) == t {
			return int64(t), true
		}
	}
	return 0, false
}

func asFloat64(v any) (float64, bool) {
	switch t := v.(type) {
	case int:
		return float64(t), true
	case int16:
		return float64(t), true
	case int32:
		return float64(t), true
	case int64:
		return float64(t), true
	case float32:
		return float64(t), true
	case float64:
		return t, true
	}
	return 0, false
}

func compareSigs(got, want []string, ordered bool) string {
	if ordered {
		if strings.Join(got, "\x00") != strings.Join(want, "\x00") {
			return fmt.Sprintf("ordered mismatch:\n      got:  %v\n      want: %v", got, want)
		}
		return ""
	}
	return multiset(got, want)
}

func multiset(got, want []string) string {
	g := append([]string(nil), got...)
	w := append([]string(nil), want...)
	sort.Strings(g)
	sort.Strings(w)
	if len(g) != len(w) {
		return fmt.Sprintf("count: got %d, want %d\n      got:  %v\n      want: %v", len(g), len(w), g, w)
	}
	for i := range g {
		if g[i] != w[i] {
			return fmt.Sprintf("mismatch at index %d:\n      got:  %v\n      want: %v", i, g, w)
		}
	}
	return ""
}

// Signature mirrors comparisonSignature of cypher_template_test.go for one member of a metamorphic family.
func (c *Case) Signature(rows *gm.Rows) (sig []string, why string) {
	defer func() {
		if r := recover(); r != nil {
			if f, ok := r.(failure); ok {
				sig, why = nil, string(f)
				return
			}
			panic(r)
		}
	}()
	if c.Meta == nil {
		return nil, "not a metamorphic member"
	}
	if len(c.Meta.Compare) == 0 {
		return nil, "metamorphic comparison must specify at least one mode"
	}
	for _, mode := range c.Meta.Compare {
		var s []string
		switch mode {
		case "row_count":
			s = []string{fmt.Sprintf("%d", len(rows.Rows))}
		case "scalar_values":
			s = sorted(firstScalarSignatures(rows))
		case "ordered_scalar_values":
			s = firstScalarSignatures(rows)
		case "row_values":
			s = sorted(rowScalarSignatures(rows))
		case "ordered_row_values":
			s = rowScalarSignatures(rows)
		case "node_ids":
			s = sorted(c.collectNodeIDs(rows, false))
		case "node_id_set":
			s = sorted(c.collectNodeIDs(rows, true))
		case "path_node_ids":
			s = sorted(c.pathNodeIDSignatures(rows))
		case "path_edge_kinds":
			s = sorted(c.pathEdgeKindSignatures(rows))
		default:
			return nil, fmt.Sprintf("unknown metamorphic comparison mode %q", mode)
		}
		if s == nil {
			s = []string{}
		}
		encoded, _ := json.Marshal(s)
		sig = append(sig, mode+":"+string(encoded))
	}
	return sig, ""
}

func sorted(s []string) []string {
	out := append([]string(nil), s...)
	sort.Strings(out)
	return out
}
