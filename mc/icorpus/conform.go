package icorpus

import (
	"errors"
	"fmt"
	"io"
	"reflect"
	"sort"
	"strings"

	"verif/gm"
)

// OutsideError is implemented by errors that mean "the evaluator does not model this query" (pgeval.ErrOutside, the
// reference evaluator's equivalent). Such an outcome is counted, never judged.
type OutsideError interface {
	error
	OutsideEvaluator() string
}

// Outside is a ready-made OutsideError.
type Outside struct{ What string }

func (o Outside) Error() string            { return "outside evaluator: " + o.What }
func (o Outside) OutsideEvaluator() string { return o.What }

// Status of one case.
const (
	StatusReproduced = "reproduced" // the recorded real-backend expectation is reproduced
	StatusMismatch   = "MISMATCH"   // the evaluator contradicts the recorded expectation: the evaluator is wrong
	StatusOutside    = "outside"    // the evaluator declined
	StatusUpdating   = "updating"   // updating query, skipped
)

// Outcome of one case (or one metamorphic family).
type Outcome struct {
	Name   string
	Cypher string
	Status string
	// Why: mismatch explanation, or the construct that is outside.
	Why string
	// Expected is the recorded assertion (JSON); Got the canonical rows the evaluator produced (truncated).
	Expected string
	Got      []string
	Err      string
	Kinds    []string
}

// Report of a whole conformance run.
type Report struct {
	Total      int // cases + metamorphic families
	Updating   int
	Evaluated  int // evaluator answered (rows or query error) for the case / every member of the family
	Reproduced int
	Outside    int
	Mismatch   int
	Outcomes   []Outcome
	// ByKind counts reproduced assertions per assertion kind; OutsideBy counts outside outcomes per construct.
	ByKind    map[string]int
	OutsideBy map[string]int
}

// RunAll replays every non-updating case through evaluator and checks the recorded expectation. evaluator returns the
// result rows, or an error: an OutsideError means "not modelled", any other error is the query's error (what the
// integration test sees as a failed query).
func RunAll(cases []*Case, evaluator func(c *Case) (*gm.Rows, error)) Report {
	rep := Report{ByKind: map[string]int{}, OutsideBy: map[string]int{}}
	doneFamilies := map[*MetaFamily]bool{}
	record := func(o Outcome) {
		rep.Total++
		switch o.Status {
		case StatusReproduced:
			rep.Evaluated++
			rep.Reproduced++
			for _, k := range o.Kinds {
				rep.ByKind[k]++
			}
		case StatusMismatch:
			rep.Evaluated++
			rep.Mismatch++
		case StatusOutside:
			rep.Outside++
			rep.OutsideBy[o.Why]++
		case StatusUpdating:
			rep.Updating++
		}
		rep.Outcomes = append(rep.Outcomes, o)
	}
	for _, c := range cases {
		if c.Meta != nil {
			if doneFamilies[c.Meta] {
				continue
			}
			doneFamilies[c.Meta] = true
			record(runFamily(c.Meta, evaluator))
			continue
		}
		o := Outcome{Name: c.Name, Cypher: c.Cypher, Expected: c.Assert.Raw, Kinds: c.Assert.Kinds()}
		if c.Updating {
			o.Status = StatusUpdating
			record(o)
			continue
		}
		rows, err := safeEval(evaluator, c)
		var out OutsideError
		if errors.As(err, &out) {
			o.Status, o.Why = StatusOutside, out.OutsideEvaluator()
			record(o)
			continue
		}
		if err != nil {
			o.Err = err.Error()
		}
		if rows != nil {
			o.Got = truncate(rows.Seq(), 12)
		}
		ok, why := c.Check(rows, err)
		if ok {
			o.Status = StatusReproduced
		} else {
			o.Status, o.Why = StatusMismatch, why
		}
		record(o)
	}
	return rep
}

func safeEval(evaluator func(c *Case) (*gm.Rows, error), c *Case) (rows *gm.Rows, err error) {
	defer func() {
		if r := recover(); r != nil {
			rows, err = nil, fmt.Errorf("evaluator panic: %v", r)
		}
	}()
	return evaluator(c)
}

func runFamily(mf *MetaFamily, evaluator func(c *Case) (*gm.Rows, error)) Outcome {
	o := Outcome{Name: mf.Name, Expected: "metamorphic:" + strings.Join(mf.Compare, ","), Kinds: []string{"metamorphic"}}
	var texts []string
	for _, m := range mf.Members {
		texts = append(texts, m.Cypher)
	}
	o.Cypher = strings.Join(texts, "  <=>  ")
	for _, m := range mf.Members {
		if m.Updating {
			o.Status = StatusUpdating
			return o
		}
	}
	var baseline []string
	var baselineName string
	for _, m := range mf.Members {
		rows, err := safeEval(evaluator, m)
		var out OutsideError
		if errors.As(err, &out) {
			o.Status, o.Why = StatusOutside, out.OutsideEvaluator()
			return o
		}
		if err != nil {
			o.Status, o.Why, o.Err = StatusMismatch, fmt.Sprintf("query %q failed: %v", m.Name, err), err.Error()
			return o
		}
		sig, why := m.Signature(rows)
		if why != "" {
			o.Status, o.Why = StatusMismatch, fmt.Sprintf("query %q: %s", m.Name, why)
			return o
		}
		if baseline == nil {
			baseline, baselineName = sig, m.Name
			continue
		}
		if !reflect.DeepEqual(sig, baseline) {
			o.Status = StatusMismatch
			o.Why = fmt.Sprintf("query %q differs from baseline %q:\n      got:  %v\n      want: %v", m.Name, baselineName, sig, baseline)
			return o
		}
	}
	o.Status = StatusReproduced
	return o
}

func truncate(s []string, n int) []string {
	if len(s) <= n {
		return s
	}
	return append(append([]string(nil), s[:n]...), fmt.Sprintf("... (%d rows)", len(s)))
}

// Print writes the conformance table, the outside constructs and every mismatch.
func (r Report) Print(w io.Writer, title string, verbose bool) {
	fmt.Fprintf(w, "== conformance: %s ==\n", title)
	fmt.Fprintf(w, "cases total                      %5d  (integration cases + metamorphic families)\n", r.Total)
	fmt.Fprintf(w, "  updating (skipped)             %5d\n", r.Updating)
	fmt.Fprintf(w, "  read-only                      %5d\n", r.Total-r.Updating)
	fmt.Fprintf(w, "  evaluated                      %5d\n", r.Evaluated)
	fmt.Fprintf(w, "  assertion reproduced           %5d\n", r.Reproduced)
	fmt.Fprintf(w, "  outside evaluator              %5d\n", r.Outside)
	fmt.Fprintf(w, "  MISMATCH                       %5d\n", r.Mismatch)
	if len(r.OutsideBy) > 0 {
		fmt.Fprintf(w, "\noutside, by construct:\n")
		type kv struct {
			k string
			v int
		}
		var l []kv
		for k, v := range r.OutsideBy {
			l = append(l, kv{k, v})
		}
		sort.Slice(l, func(i, j int) bool {
			if l[i].v != l[j].v {
				return l[i].v > l[j].v
			}
			return l[i].k < l[j].k
		})
		for _, e := range l {
			fmt.Fprintf(w, "  %4d  %s\n", e.v, e.k)
		}
	}
	if len(r.ByKind) > 0 {
		fmt.Fprintf(w, "\nreproduced assertions, by kind:\n")
		kinds := make([]string, 0, len(r.ByKind))
		for k := range r.ByKind {
			kinds = append(kinds, k)
		}
		sort.Strings(kinds)
		for _, k := range kinds {
			fmt.Fprintf(w, "  %4d  %s\n", r.ByKind[k], k)
		}
	}
	for _, o := range r.Outcomes {
		if o.Status == StatusMismatch {
			fmt.Fprintf(w, "\nMISMATCH %s\n    query:    %s\n    expected: %s\n    why:      %s\n", o.Name, o.Cypher, o.Expected, o.Why)
			if o.Err != "" {
				fmt.Fprintf(w, "    error:    %s\n", o.Err)
			}
			if o.Got != nil {
				fmt.Fprintf(w, "    got:      %s\n", strings.Join(o.Got, "\n              "))
			}
		}
	}
	if verbose {
		for _, o := range r.Outcomes {
			if o.Status == StatusOutside {
				fmt.Fprintf(w, "\noutside %s\n    query: %s\n    what:  %s\n", o.Name, o.Cypher, o.Why)
			}
		}
	}
}
