package pgbind

import (
	"fmt"
	"sort"
	"strings"

	"github.com/specterops/dawgs/cypher/models/pgsql"
)

// Issue is one closure defect of a statement.
type Issue struct {
	Class  string `json:"class"`
	Detail string `json:"detail"`
}

// Report is what binding one statement produced.
type Report struct {
	Issues []Issue
	// Outside counts constructs the binder does not model (never a violation).
	Outside map[string]int
	// Resolved counts references resolved to exactly one definition.
	Resolved int
	// FieldRefs counts composite-field references checked against a known composite type.
	FieldRefs int
	// Params lists the distinct @parameters referenced, sorted.
	Params []string
	// DML lists data-modifying nodes in the statement (insert / update / delete / merge), in order of appearance.
	DML []string
	// Levels is the number of SELECT levels (frames) bound; CTEs the number of common table expressions.
	Levels, CTEs int
	// CTEArityChecked counts CTEs with a declared column list whose arity was compared with the body.
	CTEArityChecked int
	// HarnessText collects string literals passed to *_harness functions (SQL passed as text).
	HarnessText []string

	params map[string]bool
}

func (r *Report) outside(what string) { r.Outside[what]++ }
func (r *Report) issue(class, format string, a ...any) {
	r.Issues = append(r.Issues, Issue{Class: class, Detail: fmt.Sprintf(format, a...)})
}

type col struct{ name, typ string }

type rel struct {
	name string
	cols []col
	open bool // column set unknown: references into it cannot be decided
	// rowType is the composite type of a whole-row reference to the relation ("" unknown)
	rowType string
}

func (r *rel) find(name string) (c col, n int) {
	for _, x := range r.cols {
		if x.name == name {
			if n == 0 {
				c = x
			}
			n++
		}
	}
	return
}

type scope struct {
	parent *scope
	ctes   map[string]*rel
	items  []*rel
	// out holds the output columns of the level (visible to ORDER BY / GROUP BY only)
	out []col
}

func (s *scope) cte(name string) *rel {
	for x := s; x != nil; x = x.parent {
		if r, ok := x.ctes[name]; ok {
			return r
		}
	}
	return nil
}

type binder struct {
	schema *Schema
	rep    *Report
}

// Statement binds one emitted statement.
func Statement(schema *Schema, stmt pgsql.Statement) *Report {
	b := &binder{schema: schema, rep: &Report{Outside: map[string]int{}, params: map[string]bool{}}}
	root := &scope{}
	switch t := stmt.(type) {
	case pgsql.Query:
		b.query(t, root)
	case pgsql.Insert:
		b.insert(t, root)
	case pgsql.Update:
		b.update(t, root)
	case pgsql.Delete:
		b.delete(t, root)
	case pgsql.Merge:
		b.rep.DML = append(b.rep.DML, "merge")
		b.rep.outside("statement:merge")
	case nil:
		b.rep.issue("empty-statement", "the translation result carries no statement")
	default:
		b.rep.outside(fmt.Sprintf("statement:%T", stmt))
	}
	for p := range b.rep.params {
		b.rep.Params = append(b.rep.Params, p)
	}
	sort.Strings(b.rep.Params)
	return b.rep
}

// ---------------------------------------------------------------------------------------------------------------------
// queries

// query binds a (sub)query whose CTEs and body live in a new scope under outer. It returns the output columns.
func (b *binder) query(q pgsql.Query, outer *scope) (out []col, open bool) {
	sc := &scope{parent: outer, ctes: map[string]*rel{}}
	if q.CommonTableExpressions != nil {
		for _, cte := range q.CommonTableExpressions.Expressions {
			b.rep.CTEs++
			name := string(cte.Alias.Name)
			if _, dup := sc.ctes[name]; dup {
				b.rep.issue("duplicate-cte-name", "WITH query name %q specified more than once", name)
			}
			var self *rel
			if q.CommonTableExpressions.Recursive {
				self = &rel{name: name}
				if cte.Alias.Shape != nil {
					for _, c := range cte.Alias.Shape.Columns {
						self.cols = append(self.cols, col{name: string(c)})
					}
				} else {
					self.open = true
					b.rep.outside("recursive-cte-without-column-list")
				}
				sc.ctes[name] = self
			}
			cols, bodyOpen := b.query(cte.Query, sc)
			r := &rel{name: name, cols: cols, open: bodyOpen}
			if cte.Alias.Shape != nil {
				declared := cte.Alias.Shape.Columns
				if bodyOpen {
					b.rep.outside("cte-arity-unknown-body-shape")
					r = &rel{name: name}
					for _, c := range declared {
						r.cols = append(r.cols, col{name: string(c)})
					}
				} else {
					b.rep.CTEArityChecked++
					if len(declared) != len(cols) {
						b.rep.issue("cte-column-list-arity", "CTE %s declares %d columns %v but its body produces %d", name, len(declared), declared, len(cols))
					}
					r = &rel{name: name}
					for i, c := range declared {
						typ := ""
						if i < len(cols) {
							typ = cols[i].typ
						}
						r.cols = append(r.cols, col{name: string(c), typ: typ})
					}
					// PostgreSQL allows fewer declared names than columns; the rest keep their names
					for i := len(declared); i < len(cols); i++ {
						r.cols = append(r.cols, cols[i])
					}
				}
			}
			sc.ctes[name] = r
		}
	}
	var lvl *scope
	out, open, lvl = b.setExpression(q.Body, sc)
	// ORDER BY / OFFSET / LIMIT of the query
	for _, ob := range q.OrderBy {
		if ob == nil {
			continue
		}
		b.sortKey(ob.Expression, lvl, out, sc)
	}
	if q.Offset != nil {
		b.expr(q.Offset, sc)
	}
	if q.Limit != nil {
		b.expr(q.Limit, sc)
	}
	return out, open
}

// sortKey binds an ORDER BY / GROUP BY key: a bare name may be an output column; anything else is an expression over
// the input columns of the level (lvl may be nil for set operations: then only output names are visible).
func (b *binder) sortKey(e pgsql.Expression, lvl *scope, out []col, fallback *scope) {
	if e == nil {
		return
	}
	name := ""
	switch t := e.(type) {
	case pgsql.Identifier:
		name = string(t)
	case pgsql.CompoundIdentifier:
		if len(t) == 1 {
			name = string(t[0])
		}
	}
	if name != "" {
		n := 0
		for _, c := range out {
			if c.name == name {
				n++
			}
		}
		if n >= 1 {
			// SQL92: an output-column name; duplicates are fine when they denote the same expression, which the binder
			// cannot decide, so only count it resolved
			b.rep.Resolved++
			return
		}
	}
	if lvl != nil {
		b.expr(e, lvl)
	} else {
		b.expr(e, fallback)
	}
}

func (b *binder) setExpression(se pgsql.SetExpression, sc *scope) (out []col, open bool, lvl *scope) {
	switch t := se.(type) {
	case pgsql.Select:
		return b.selectLevel(t, sc)
	case *pgsql.Select:
		if t != nil {
			return b.selectLevel(*t, sc)
		}
	case pgsql.Query:
		o, op := b.query(t, sc)
		return o, op, nil
	case *pgsql.Query:
		if t != nil {
			o, op := b.query(*t, sc)
			return o, op, nil
		}
	case pgsql.SetOperation:
		lo, lopen, _ := b.setExpression(t.LOperand, sc)
		ro, ropen, _ := b.setExpression(t.ROperand, sc)
		if !lopen && !ropen && len(lo) != len(ro) {
			b.rep.issue("set-operation-arity", "%s operands produce %d and %d columns", t.Operator, len(lo), len(ro))
		}
		return lo, lopen, nil
	case pgsql.Values:
		for _, v := range t.Values {
			b.expr(v, sc)
		}
		for i := range t.Values {
			out = append(out, col{name: fmt.Sprintf("column%d", i+1)})
		}
		return out, false, nil
	case pgsql.Insert:
		return b.insert(t, sc), false, nil
	case pgsql.Update:
		return b.update(t, sc), false, nil
	case pgsql.Delete:
		return b.delete(t, sc), false, nil
	case nil:
		b.rep.issue("empty-query-body", "query without a body")
		return nil, true, nil
	}
	b.rep.outside(fmt.Sprintf("set-expression:%T", se))
	return nil, true, nil
}

func (b *binder) selectLevel(sel pgsql.Select, sc *scope) (out []col, open bool, lvl *scope) {
	b.rep.Levels++
	lvl = &scope{parent: sc}
	b.fromClauses(sel.From, lvl)
	for _, item := range sel.Projection {
		cols, o := b.selectItem(item, lvl)
		out = append(out, cols...)
		open = open || o
	}
	lvl.out = out
	if sel.Where != nil {
		b.expr(sel.Where, lvl)
	}
	for _, g := range sel.GroupBy {
		// GROUP BY: a bare name is an input column first, then an output column
		if name, ok := bareName(g); ok {
			if _, n, _ := b.lookupColumn(lvl, name); n == 0 {
				matched := 0
				for _, c := range out {
					if c.name == name {
						matched++
					}
				}
				if matched > 0 {
					b.rep.Resolved++
					continue
				}
			}
		}
		b.expr(g, lvl)
	}
	if sel.Having != nil {
		b.expr(sel.Having, lvl)
	}
	return out, open, lvl
}

func bareName(e pgsql.Expression) (string, bool) {
	switch t := e.(type) {
	case pgsql.Identifier:
		return string(t), true
	case pgsql.CompoundIdentifier:
		if len(t) == 1 {
			return string(t[0]), true
		}
	}
	return "", false
}

func (b *binder) addItem(lvl *scope, r *rel) {
	if r == nil {
		return
	}
	for _, o := range lvl.items {
		if o.name == r.name && r.name != "" {
			b.rep.issue("duplicate-relation-alias", "table name %q specified more than once in one FROM", r.name)
		}
	}
	lvl.items = append(lvl.items, r)
}

func (b *binder) fromClauses(from []pgsql.FromClause, lvl *scope) {
	for _, fc := range from {
		b.addItem(lvl, b.fromItem(fc.Source, lvl))
		for _, j := range fc.Joins {
			b.addItem(lvl, b.fromItem(j.Table, lvl))
			if j.JoinOperator.Constraint != nil {
				b.expr(j.JoinOperator.Constraint, lvl)
			}
		}
	}
}

// hidden returns a scope that sees the CTEs and enclosing levels of lvl but none of its FROM items (a non-LATERAL
// sub-select in FROM).
func hidden(lvl *scope) *scope { return &scope{parent: lvl.parent} }

func (b *binder) tableRelation(ref pgsql.TableReference, sc *scope) *rel {
	if len(ref.Name) == 0 {
		b.rep.issue("empty-table-reference", "FROM item without a name")
		return nil
	}
	name := string(ref.Name[len(ref.Name)-1])
	alias := name
	if ref.Binding.Set {
		alias = string(ref.Binding.Value)
	}
	if len(ref.Name) > 1 {
		b.rep.outside("schema-qualified-table")
		return &rel{name: alias, open: true}
	}
	if c := sc.cte(name); c != nil {
		b.rep.Resolved++
		return &rel{name: alias, cols: c.cols, open: c.open}
	}
	if cols, ok := b.schema.Tables[name]; ok {
		b.rep.Resolved++
		r := &rel{name: alias}
		for _, c := range cols {
			r.cols = append(r.cols, col{name: c, typ: b.columnType(name, c)})
		}
		return r
	}
	b.rep.issue("unknown-relation", "relation %q is neither a CTE in scope nor a table of the DAWGS schema", name)
	return &rel{name: alias, open: true}
}

func (b *binder) columnType(table, column string) string {
	switch column {
	case "properties":
		return "jsonb"
	case "kind_ids":
		return "int2[]"
	case "path":
		return "int8[]"
	}
	return ""
}

func (b *binder) fromItem(e pgsql.Expression, lvl *scope) *rel {
	switch t := e.(type) {
	case pgsql.TableReference:
		return b.tableRelation(t, lvl)
	case *pgsql.TableReference:
		if t != nil {
			return b.tableRelation(*t, lvl)
		}
	case pgsql.LateralSubquery:
		cols, open := b.query(t.Query, lvl)
		name := ""
		if t.Binding.Set {
			name = string(t.Binding.Value)
		}
		return &rel{name: name, cols: cols, open: open}
	case pgsql.AliasedExpression:
		alias := ""
		if t.Alias.Set {
			alias = string(t.Alias.Value)
		}
		return b.aliasedFromItem(t.Expression, alias, lvl)
	case *pgsql.AliasedExpression:
		if t != nil {
			return b.fromItem(*t, lvl)
		}
	case pgsql.FunctionCall, *pgsql.FunctionCall:
		return b.aliasedFromItem(e, "", lvl)
	case pgsql.Identifier:
		return b.tableRelation(pgsql.TableReference{Name: pgsql.CompoundIdentifier{t}}, lvl)
	case pgsql.CompoundIdentifier:
		return b.tableRelation(pgsql.TableReference{Name: t}, lvl)
	case pgsql.Subquery:
		cols, open := b.query(t.Query, hidden(lvl))
		return &rel{name: "", cols: cols, open: open}
	case pgsql.Query:
		cols, open := b.query(t, hidden(lvl))
		return &rel{name: "", cols: cols, open: open}
	case *pgsql.Query:
		if t != nil {
			cols, open := b.query(*t, hidden(lvl))
			return &rel{name: "", cols: cols, open: open}
		}
	}
	b.rep.outside(fmt.Sprintf("from-item:%T", e))
	return &rel{open: true}
}

func (b *binder) aliasedFromItem(e pgsql.Expression, alias string, lvl *scope) *rel {
	switch t := e.(type) {
	case *pgsql.FunctionCall:
		if t != nil {
			return b.aliasedFromItem(*t, alias, lvl)
		}
	case pgsql.FunctionCall:
		// a function in FROM sees the preceding FROM items (implicitly LATERAL)
		b.functionCall(t, lvl)
		fn := string(t.Function)
		name := alias
		if name == "" {
			name = fn
		}
		if sig, ok := b.schema.Funcs[fn]; ok && len(sig.Table) > 0 {
			r := &rel{name: name}
			for _, f := range sig.Table {
				r.cols = append(r.cols, col{name: f.Name, typ: f.Type})
			}
			return r
		}
		if fn == string(pgsql.FunctionUnnest) && len(t.Parameters) == 1 {
			// unnest(composite[]) expands into the composite's attributes; unnest(scalar[]) is one column named like
			// the alias; with an unknown argument type the shape is unknown
			argType := b.typeOf(t.Parameters[0], lvl)
			elem := strings.TrimSuffix(argType, "[]")
			if argType == "" || elem == argType {
				b.rep.outside("unnest-of-value-with-unknown-type")
				return &rel{name: name, open: true}
			}
			if fields, isComposite := b.schema.Types[elem]; isComposite {
				r := &rel{name: name, rowType: elem}
				for _, f := range fields {
					r.cols = append(r.cols, col{name: f.Name, typ: f.Type})
				}
				return r
			}
			return &rel{name: name, cols: []col{{name: name, typ: elem}}}
		}
		return &rel{name: name, cols: []col{{name: name}}}
	case pgsql.Subquery:
		cols, open := b.query(t.Query, hidden(lvl))
		return &rel{name: alias, cols: cols, open: open}
	case pgsql.Query:
		cols, open := b.query(t, hidden(lvl))
		return &rel{name: alias, cols: cols, open: open}
	case pgsql.TableReference:
		r := b.tableRelation(t, lvl)
		if r != nil && alias != "" {
			r.name = alias
		}
		return r
	}
	b.rep.outside(fmt.Sprintf("from-item:aliased %T", e))
	return &rel{name: alias, open: true}
}

// selectItem binds a projection item and names its output column(s).
func (b *binder) selectItem(item pgsql.SelectItem, lvl *scope) (out []col, open bool) {
	switch t := item.(type) {
	case pgsql.Wildcard:
		return b.wildcard(lvl)
	case *pgsql.AliasedExpression:
		if t != nil {
			return b.selectItem(*t, lvl)
		}
	case pgsql.AliasedExpression:
		if _, isWild := t.Expression.(pgsql.Wildcard); isWild {
			return b.wildcard(lvl)
		}
		b.expr(t.Expression, lvl)
		name := outputName(t.Expression)
		if t.Alias.Set {
			name = string(t.Alias.Value)
		}
		return []col{{name: name, typ: b.typeOf(t.Expression, lvl)}}, false
	}
	if ci, ok := item.(pgsql.CompoundIdentifier); ok && len(ci) == 2 && ci[1] == pgsql.WildcardIdentifier {
		// rel.*
		r, n := b.lookupRelation(lvl, string(ci[0]))
		if n == 0 {
			b.rep.issue("unknown-relation-qualifier", "%s.* : no FROM item %q in scope", ci[0], ci[0])
			return nil, true
		}
		b.rep.Resolved++
		return r.cols, r.open
	}
	if id, ok := item.(pgsql.Identifier); ok && id == pgsql.WildcardIdentifier {
		return b.wildcard(lvl)
	}
	b.expr(item, lvl)
	return []col{{name: outputName(item), typ: b.typeOf(item, lvl)}}, false
}

func (b *binder) wildcard(lvl *scope) (out []col, open bool) {
	if len(lvl.items) == 0 {
		b.rep.issue("wildcard-without-from", "SELECT * with no FROM items")
		return nil, true
	}
	for _, r := range lvl.items {
		out = append(out, r.cols...)
		open = open || r.open
	}
	return out, open
}

func outputName(e pgsql.Expression) string {
	switch t := e.(type) {
	case pgsql.Identifier:
		return string(t)
	case pgsql.CompoundIdentifier:
		if len(t) > 0 {
			return string(t[len(t)-1])
		}
	case pgsql.RowColumnReference:
		return string(t.Column)
	case pgsql.FunctionCall:
		return string(t.Function)
	case *pgsql.FunctionCall:
		if t != nil {
			return string(t.Function)
		}
	case pgsql.TypeCast:
		return outputName(t.Expression)
	case *pgsql.Parenthetical:
		if t != nil {
			return outputName(t.Expression)
		}
	case pgsql.Case, *pgsql.Case:
		return "case"
	case pgsql.ExistsExpression:
		return "exists"
	case pgsql.ArrayLiteral, pgsql.ArrayExpression:
		return "array"
	case pgsql.CompositeValue:
		return "row"
	}
	return "?column?"
}

// ---------------------------------------------------------------------------------------------------------------------
// name resolution

// lookupColumn finds an unqualified column: innermost level first; n is the number of candidates at the first level
// that has any (n > 1: ambiguous). maybeOpen says an open relation was passed on the way.
func (b *binder) lookupColumn(sc *scope, name string) (c col, n int, maybeOpen bool) {
	for s := sc; s != nil; s = s.parent {
		for _, r := range s.items {
			if r.open {
				maybeOpen = true
			}
			if cc, k := r.find(name); k > 0 {
				if n == 0 {
					c = cc
				}
				n += k
			}
		}
		if n > 0 {
			return c, n, maybeOpen
		}
	}
	return col{}, 0, maybeOpen
}

func (b *binder) lookupRelation(sc *scope, name string) (r *rel, n int) {
	for s := sc; s != nil; s = s.parent {
		for _, x := range s.items {
			if x.name == name {
				if n == 0 {
					r = x
				}
				n++
			}
		}
		if n > 0 {
			return r, n
		}
	}
	return nil, 0
}

// identifier resolves a bare identifier used as a value; it returns its type ("" unknown).
func (b *binder) identifier(name string, sc *scope) string {
	switch name {
	case string(pgsql.WildcardIdentifier):
		return "" // count(*) and friends
	}
	c, n, maybeOpen := b.lookupColumn(sc, name)
	switch {
	case n == 1:
		b.rep.Resolved++
		return c.typ
	case n > 1:
		b.rep.issue("ambiguous-column", "column reference %q is ambiguous (%d candidates in one FROM level)", name, n)
		return ""
	}
	if r, k := b.lookupRelation(sc, name); k == 1 {
		// whole-row reference through the relation alias
		b.rep.Resolved++
		return rowTypeOf(r)
	} else if k > 1 {
		b.rep.issue("ambiguous-relation", "table reference %q is ambiguous", name)
		return ""
	}
	if maybeOpen {
		b.rep.outside("identifier-possibly-from-unmodelled-relation")
		return ""
	}
	b.rep.issue("unresolved-identifier", "identifier %q resolves to no column or FROM item in scope", name)
	return ""
}

func rowTypeOf(r *rel) string { return r.rowType }

// compound resolves rel.column[.field...]; it returns the type.
func (b *binder) compound(ci pgsql.CompoundIdentifier, sc *scope) string {
	if len(ci) == 0 {
		b.rep.issue("empty-compound-identifier", "compound identifier with no parts")
		return ""
	}
	if len(ci) == 1 {
		return b.identifier(string(ci[0]), sc)
	}
	relName, colName := string(ci[0]), string(ci[1])
	r, n := b.lookupRelation(sc, relName)
	if n > 1 {
		b.rep.issue("ambiguous-relation", "table reference %q is ambiguous", relName)
		return ""
	}
	if n == 0 {
		// PostgreSQL also accepts column.field? No: a composite column needs parentheses. Not a definition in scope.
		b.rep.issue("unknown-relation-qualifier", "%s: no FROM item or CTE alias %q is in scope here", ci.String(), relName)
		return ""
	}
	if colName == string(pgsql.WildcardIdentifier) {
		b.rep.Resolved++
		return ""
	}
	c, k := r.find(colName)
	typ := ""
	switch {
	case k == 1:
		b.rep.Resolved++
		typ = c.typ
	case k > 1:
		b.rep.issue("ambiguous-column", "%s: relation %q has %d columns named %q", ci.String(), relName, k, colName)
		return ""
	case r.open:
		b.rep.outside("column-of-unmodelled-relation")
		return ""
	default:
		b.rep.issue("unknown-column", "%s: relation %q has no column %q (it has %v)", ci.String(), relName, colName, colNames(r))
		return ""
	}
	for _, f := range ci[2:] {
		typ = b.field(typ, string(f), ci.String())
	}
	return typ
}

func colNames(r *rel) []string {
	out := make([]string, len(r.cols))
	for i, c := range r.cols {
		out[i] = c.name
	}
	return out
}

// field checks a composite field selection on a value of type typ.
func (b *binder) field(typ, field, where string) string {
	if typ == "" {
		b.rep.outside("field-of-value-with-unknown-type")
		return ""
	}
	fields, ok := b.schema.Types[typ]
	if !ok {
		b.rep.issue("field-of-non-composite", "%s: field %q selected from a value of type %s, which is not a composite type of the schema", where, field, typ)
		return ""
	}
	b.rep.FieldRefs++
	for _, f := range fields {
		if f.Name == field {
			return f.Type
		}
	}
	b.rep.issue("unknown-composite-field", "%s: type %s has no field %q", where, typ, field)
	return ""
}

// ---------------------------------------------------------------------------------------------------------------------
// expressions

func (b *binder) exprs(es []pgsql.Expression, sc *scope) {
	for _, e := range es {
		b.expr(e, sc)
	}
}

func (b *binder) functionCall(f pgsql.FunctionCall, sc *scope) {
	b.exprs(f.Parameters, sc)
	if strings.HasSuffix(string(f.Function), "_harness") {
		for _, p := range f.Parameters {
			if lit, ok := unwrapLiteral(p); ok {
				if s, isString := lit.Value.(string); isString && s != "" {
					b.rep.HarnessText = append(b.rep.HarnessText, s)
				}
			}
		}
	}
	if f.Over != nil {
		b.exprs(f.Over.PartitionBy, sc)
		for _, ob := range f.Over.OrderBy {
			b.expr(ob.Expression, sc)
		}
	}
}

func unwrapLiteral(e pgsql.Expression) (pgsql.Literal, bool) {
	switch t := e.(type) {
	case pgsql.Literal:
		return t, true
	case pgsql.TypeCast:
		return unwrapLiteral(t.Expression)
	case *pgsql.Parenthetical:
		if t != nil {
			return unwrapLiteral(t.Expression)
		}
	}
	return pgsql.Literal{}, false
}

// expr binds every reference inside e. It mirrors format.formatNode: a node type the formatter renders but the binder
// does not know is counted outside.
func (b *binder) expr(e pgsql.SyntaxNode, sc *scope) {
	switch t := e.(type) {
	case nil:
		return
	case pgsql.Literal, pgsql.Operator, pgsql.FormattingLiteral, pgsql.DataType, pgsql.KindListLiteral, pgsql.Wildcard:
		return
	case pgsql.Identifier:
		b.identifier(string(t), sc)
	case pgsql.CompoundIdentifier:
		b.compound(t, sc)
	case pgsql.RowColumnReference:
		b.expr(t.Identifier, sc)
		b.field(b.typeOf(t.Identifier, sc), string(t.Column), renderRef(t))
	case *pgsql.RowColumnReference:
		if t != nil {
			b.expr(*t, sc)
		}
	case pgsql.Parameter:
		b.rep.params[string(t.Identifier)] = true
	case *pgsql.Parameter:
		if t == nil {
			b.rep.issue("nil-parameter", "nil *pgsql.Parameter in the statement")
		} else {
			b.rep.params[string(t.Identifier)] = true
		}
	case *pgsql.UnaryExpression:
		if t != nil {
			b.expr(t.Operand, sc)
		}
	case pgsql.UnaryExpression:
		b.expr(t.Operand, sc)
	case *pgsql.BinaryExpression:
		if t != nil {
			b.expr(*t, sc)
		}
	case pgsql.BinaryExpression:
		b.expr(t.LOperand, sc)
		b.expr(t.ROperand, sc)
	case *pgsql.Parenthetical:
		if t != nil {
			b.expr(t.Expression, sc)
		}
	case pgsql.TypeCast:
		b.expr(t.Expression, sc)
	case pgsql.FunctionCall:
		b.functionCall(t, sc)
	case *pgsql.FunctionCall:
		if t != nil {
			b.functionCall(*t, sc)
		}
	case pgsql.CompositeValue:
		b.exprs(t.Values, sc)
	case pgsql.ArrayLiteral:
		b.exprs(t.Values, sc)
	case pgsql.ArrayIndex:
		b.expr(t.Expression, sc)
		b.exprs(t.Indexes, sc)
	case *pgsql.ArrayIndex:
		if t != nil {
			b.expr(*t, sc)
		}
	case pgsql.ArraySlice:
		b.expr(t.Expression, sc)
		b.expr(t.Lower, sc)
		b.expr(t.Upper, sc)
	case *pgsql.ArraySlice:
		if t != nil {
			b.expr(*t, sc)
		}
	case *pgsql.AnyExpression:
		if t != nil {
			b.expr(t.Expression, sc)
		}
	case pgsql.AnyExpression:
		b.expr(t.Expression, sc)
	case pgsql.AllExpression:
		b.expr(t.Expression, sc)
	case pgsql.ArrayExpression:
		b.expr(t.Expression, sc)
	case pgsql.Variadic:
		b.expr(t.Expression, sc)
	case pgsql.AliasedExpression:
		b.expr(t.Expression, sc)
	case *pgsql.AliasedExpression:
		if t != nil {
			b.expr(t.Expression, sc)
		}
	case pgsql.Case:
		b.expr(t.Operand, sc)
		b.exprs(t.Conditions, sc)
		b.exprs(t.Then, sc)
		b.expr(t.Else, sc)
	case *pgsql.Case:
		if t != nil {
			b.expr(*t, sc)
		}
	case pgsql.ExistsExpression:
		b.query(t.Subquery.Query, sc)
	case pgsql.Subquery:
		b.query(t.Query, sc)
	case pgsql.Query:
		b.query(t, sc)
	case *pgsql.Query:
		if t != nil {
			b.query(*t, sc)
		}
	case pgsql.Select:
		b.selectLevel(t, sc)
	case *pgsql.EdgeArrayFromPathIDs:
		// fixed text template around one expression: (select ... from unnest(<PathIDs>) with ordinality as _path(id,
		// ordinality) join edge _edge on _edge.id = _path.id); the template's own names are checked against the schema
		if t != nil {
			b.expr(t.PathIDs, sc)
			b.edgeArrayTemplate()
		}
	case pgsql.ProjectionFrom:
		// extract(<field> from <source>): the projection holds the field keyword, the "from" holds value expressions
		for _, p := range t.Projection {
			if id, ok := p.(pgsql.Identifier); ok && pgsql.IsReservedIdentifier(id) {
				continue
			}
			b.expr(p, sc)
		}
		for _, fc := range t.From {
			b.expr(fc.Source, sc)
		}
	case *pgsql.OrderBy:
		if t != nil {
			b.expr(t.Expression, sc)
		}
	case pgsql.OrderBy:
		b.expr(t.Expression, sc)
	case pgsql.SyntaxNodeFuture:
		if !t.Satisfied() {
			b.rep.issue("unsatisfied-future", "a syntax-node future was never satisfied")
			return
		}
		b.expr(t.Unwrap(), sc)
	case pgsql.Insert:
		b.insert(t, sc)
	case pgsql.Update:
		b.update(t, sc)
	case pgsql.Delete:
		b.delete(t, sc)
	default:
		b.rep.outside(fmt.Sprintf("expression:%T", e))
	}
}

func (b *binder) edgeArrayTemplate() {
	cols := b.schema.Tables["edge"]
	for _, want := range []string{"id", "start_id", "end_id", "kind_id", "properties"} {
		found := false
		for _, c := range cols {
			found = found || c == want
		}
		if !found {
			b.rep.issue("unknown-column", "edge-array template selects _edge.%s but table edge has no such column", want)
		} else {
			b.rep.Resolved++
		}
	}
}

func renderRef(r pgsql.RowColumnReference) string {
	inner := "?"
	switch t := r.Identifier.(type) {
	case pgsql.Identifier:
		inner = string(t)
	case pgsql.CompoundIdentifier:
		inner = t.String()
	default:
		inner = fmt.Sprintf("<%T>", r.Identifier)
	}
	return "(" + inner + ")." + string(r.Column)
}

// typeOf infers the SQL type of an expression as far as composite-field resolution needs it ("" unknown). It never
// reports issues.
func (b *binder) typeOf(e pgsql.SyntaxNode, sc *scope) string {
	switch t := e.(type) {
	case pgsql.Identifier:
		if c, n, _ := b.lookupColumn(sc, string(t)); n == 1 {
			return c.typ
		} else if n == 0 {
			if r, k := b.lookupRelation(sc, string(t)); k == 1 {
				return r.rowType
			}
		}
	case pgsql.CompoundIdentifier:
		if len(t) == 1 {
			return b.typeOf(t[0], sc)
		}
		if len(t) >= 2 {
			if r, n := b.lookupRelation(sc, string(t[0])); n == 1 {
				if c, k := r.find(string(t[1])); k == 1 {
					typ := c.typ
					for _, f := range t[2:] {
						typ = b.fieldType(typ, string(f))
					}
					return typ
				}
			}
		}
	case pgsql.RowColumnReference:
		return b.fieldType(b.typeOf(t.Identifier, sc), string(t.Column))
	case pgsql.CompositeValue:
		if t.DataType.IsKnown() {
			return strings.ToLower(t.DataType.String())
		}
	case pgsql.TypeCast:
		if t.CastType.IsKnown() {
			return strings.ToLower(t.CastType.String())
		}
		return b.typeOf(t.Expression, sc)
	case *pgsql.Parenthetical:
		if t != nil {
			return b.typeOf(t.Expression, sc)
		}
	case pgsql.AliasedExpression:
		return b.typeOf(t.Expression, sc)
	case *pgsql.AliasedExpression:
		if t != nil {
			return b.typeOf(t.Expression, sc)
		}
	case *pgsql.FunctionCall:
		if t != nil {
			return b.typeOf(*t, sc)
		}
	case pgsql.FunctionCall:
		if t.CastType.IsKnown() {
			return strings.ToLower(t.CastType.String())
		}
		if sig, ok := b.schema.Funcs[string(t.Function)]; ok && sig.Returns != "" {
			return sig.Returns
		}
		switch t.Function {
		case pgsql.FunctionCoalesce:
			for _, p := range t.Parameters {
				if typ := b.typeOf(p, sc); typ != "" {
					return typ
				}
			}
		case pgsql.FunctionArrayAggregate:
			if len(t.Parameters) == 1 {
				if typ := b.typeOf(t.Parameters[0], sc); typ != "" && !strings.HasSuffix(typ, "[]") {
					return typ + "[]"
				}
			}
		}
	case pgsql.ArrayIndex:
		if typ := b.typeOf(t.Expression, sc); strings.HasSuffix(typ, "[]") {
			return strings.TrimSuffix(typ, "[]")
		}
	case *pgsql.ArrayIndex:
		if t != nil {
			return b.typeOf(*t, sc)
		}
	case pgsql.ArraySlice:
		return b.typeOf(t.Expression, sc)
	case *pgsql.ArraySlice:
		if t != nil {
			return b.typeOf(t.Expression, sc)
		}
	case pgsql.ArrayLiteral:
		if t.CastType.IsKnown() {
			if at, err := t.CastType.ToArrayType(); err == nil {
				return strings.ToLower(at.String())
			}
		}
	case pgsql.Case:
		for _, th := range t.Then {
			if typ := b.typeOf(th, sc); typ != "" && typ != "null" {
				return typ
			}
		}
		if t.Else != nil {
			return b.typeOf(t.Else, sc)
		}
	case *pgsql.Case:
		if t != nil {
			return b.typeOf(*t, sc)
		}
	case pgsql.Literal:
		if t.CastType.IsKnown() {
			return strings.ToLower(t.CastType.String())
		}
	case *pgsql.EdgeArrayFromPathIDs:
		return "edgecomposite[]"
	}
	return ""
}

func (b *binder) fieldType(typ, field string) string {
	for _, f := range b.schema.Types[typ] {
		if f.Name == field {
			return f.Type
		}
	}
	return ""
}

// ---------------------------------------------------------------------------------------------------------------------
// data-modifying statements

func (b *binder) dmlTarget(ref pgsql.TableReference, what string) *rel {
	if len(ref.Name) != 1 {
		b.rep.outside("dml-target-with-qualified-name")
		return &rel{open: true}
	}
	name := string(ref.Name[0])
	cols, ok := b.schema.Tables[name]
	if !ok {
		b.rep.issue("unknown-relation", "%s target %q is not a table of the DAWGS schema", what, name)
		return &rel{name: name, open: true}
	}
	b.rep.Resolved++
	alias := name
	if ref.Binding.Set {
		alias = string(ref.Binding.Value)
	}
	r := &rel{name: alias}
	for _, c := range cols {
		r.cols = append(r.cols, col{name: c, typ: b.columnType(name, c)})
	}
	return r
}

func (b *binder) returning(items []pgsql.SelectItem, lvl *scope) (out []col) {
	for _, item := range items {
		cols, _ := b.selectItem(item, lvl)
		out = append(out, cols...)
	}
	return out
}

func (b *binder) targetColumn(target *rel, name, what string) {
	if target.open {
		b.rep.outside("column-of-unmodelled-relation")
		return
	}
	if _, n := target.find(name); n == 1 {
		b.rep.Resolved++
	} else {
		b.rep.issue("unknown-column", "%s names column %q, which table %s does not have", what, name, target.name)
	}
}

func (b *binder) insert(ins pgsql.Insert, sc *scope) []col {
	b.rep.DML = append(b.rep.DML, "insert")
	target := b.dmlTarget(ins.Table, "insert")
	if ins.Shape != nil {
		for _, c := range ins.Shape.Columns {
			b.targetColumn(target, string(c), "insert column list")
		}
	}
	if ins.Source != nil {
		cols, open := b.query(*ins.Source, sc)
		if ins.Shape != nil && !open && len(cols) != len(ins.Shape.Columns) {
			b.rep.issue("insert-arity", "insert into %s lists %d columns but its source produces %d", target.name, len(ins.Shape.Columns), len(cols))
		}
	}
	lvl := &scope{parent: sc, items: []*rel{target}}
	if ins.OnConflict != nil {
		if ins.OnConflict.Target != nil {
			for _, c := range ins.OnConflict.Target.Columns {
				if name, ok := bareName(c); ok {
					b.targetColumn(target, name, "on conflict target")
				} else {
					b.expr(c, lvl)
				}
			}
		}
		switch act := ins.OnConflict.Action.(type) {
		case pgsql.DoUpdate:
			excluded := &rel{name: "excluded", cols: target.cols, open: target.open}
			cl := &scope{parent: sc, items: []*rel{target, excluded}}
			b.assignments(act.Assignments, target, cl)
			b.expr(act.Where, cl)
		case nil:
		default:
			b.rep.outside(fmt.Sprintf("conflict-action:%T", act))
		}
	}
	return b.returning(ins.Returning, lvl)
}

func (b *binder) assignments(as []pgsql.Assignment, target *rel, lvl *scope) {
	for _, a := range as {
		switch t := a.(type) {
		case *pgsql.BinaryExpression:
			if t != nil {
				b.assignment(*t, target, lvl)
			}
		case pgsql.BinaryExpression:
			b.assignment(t, target, lvl)
		default:
			b.rep.outside(fmt.Sprintf("assignment:%T", a))
		}
	}
}

func (b *binder) assignment(a pgsql.BinaryExpression, target *rel, lvl *scope) {
	if name, ok := bareName(a.LOperand); ok {
		b.targetColumn(target, name, "update assignment")
	} else {
		b.rep.outside(fmt.Sprintf("assignment-target:%T", a.LOperand))
	}
	b.expr(a.ROperand, lvl)
}

func (b *binder) update(u pgsql.Update, sc *scope) []col {
	b.rep.DML = append(b.rep.DML, "update")
	target := b.dmlTarget(u.Table, "update")
	lvl := &scope{parent: sc, items: []*rel{target}}
	b.fromClauses(u.From, lvl)
	b.assignments(u.Assignments, target, lvl)
	b.expr(u.Where, lvl)
	return b.returning(u.Returning, lvl)
}

func (b *binder) delete(d pgsql.Delete, sc *scope) []col {
	b.rep.DML = append(b.rep.DML, "delete")
	lvl := &scope{parent: sc}
	for _, ref := range d.From {
		b.addItem(lvl, b.dmlTarget(ref, "delete"))
	}
	b.fromClauses(d.Using, lvl)
	b.expr(d.Where, lvl)
	return b.returning(d.Returning, lvl)
}
