// Package pgbind is a name/arity binder for the pgsql AST the translator emits (check C03): it resolves every table,
// CTE, alias, column, composite-field and parameter reference against SQL scoping rules and the DAWGS schema. It does
// not type-check expressions beyond what is needed to resolve composite fields.
package pgbind

import (
	"fmt"
	"os"
	"path/filepath"
	"regexp"
	"strings"
)

// Schema is the part of drivers/pg/query/sql/schema_up.sql the binder needs, extracted from the file itself.
type Schema struct {
	Tables map[string][]string // table -> columns (includes the harness' temporary tables)
	Types  map[string][]Field  // composite type (lower case) -> fields
	Funcs  map[string]Func     // function -> result shape
}

type Field struct{ Name, Type string }

type Func struct {
	Table   []Field // returns table (...)
	Returns string  // scalar / composite result type, lower case ("" unknown)
}

var (
	reCreateTable = regexp.MustCompile(`(?is)create\s+(?:temporary\s+)?table\s+(?:if\s+not\s+exists\s+)?([a-z_][a-z0-9_]*)\s*\(`)
	reCreateType  = regexp.MustCompile(`(?is)create\s+type\s+([a-z_][a-z0-9_]*)\s+as\s*\(`)
	reCreateFunc  = regexp.MustCompile(`(?is)create\s+(?:or\s+replace\s+)?function\s+(?:public\.)?([a-z_][a-z0-9_]*)\s*\(`)
	reReturns     = regexp.MustCompile(`(?is)^\s*returns\s+(table\s*\(|setof\s+)?`)
	reLineComment = regexp.MustCompile(`(?m)--.*$`)
)

// LoadSchema parses <repo>/drivers/pg/query/sql/schema_up.sql.
func LoadSchema(repo string) (*Schema, error) {
	b, err := os.ReadFile(filepath.Join(repo, "drivers/pg/query/sql/schema_up.sql"))
	if err != nil {
		return nil, err
	}
	return ParseSchema(string(b))
}

func ParseSchema(text string) (*Schema, error) {
	text = reLineComment.ReplaceAllString(text, "")
	s := &Schema{Tables: map[string][]string{}, Types: map[string][]Field{}, Funcs: map[string]Func{}}
	for _, m := range reCreateTable.FindAllStringSubmatchIndex(text, -1) {
		name := strings.ToLower(text[m[2]:m[3]])
		body, _ := balanced(text, m[1]-1)
		var cols []string
		for _, part := range splitTop(body) {
			f := strings.Fields(part)
			if len(f) < 2 {
				continue
			}
			switch strings.ToLower(f[0]) {
			case "primary", "foreign", "unique", "constraint", "check", "exclude", "like":
				continue
			}
			cols = append(cols, strings.ToLower(f[0]))
		}
		if old, dup := s.Tables[name]; dup && strings.Join(old, ",") != strings.Join(cols, ",") {
			// the same temporary table name with two shapes in different harnesses: keep the union (a reference is then
			// resolvable if any definition has the column; the binder reports such tables as "multi-shape")
			seen := map[string]bool{}
			for _, c := range old {
				seen[c] = true
			}
			for _, c := range cols {
				if !seen[c] {
					old = append(old, c)
				}
			}
			s.Tables[name] = old
			continue
		}
		s.Tables[name] = cols
	}
	for _, m := range reCreateType.FindAllStringSubmatchIndex(text, -1) {
		name := strings.ToLower(text[m[2]:m[3]])
		body, _ := balanced(text, m[1]-1)
		s.Types[name] = parseFields(body)
	}
	for _, m := range reCreateFunc.FindAllStringSubmatchIndex(text, -1) {
		name := strings.ToLower(text[m[2]:m[3]])
		_, end := balanced(text, m[1]-1)
		rest := text[end:]
		rm := reReturns.FindStringSubmatchIndex(rest)
		if rm == nil {
			continue
		}
		fn := s.Funcs[name]
		if rm[2] >= 0 && strings.HasPrefix(strings.ToLower(rest[rm[2]:rm[3]]), "table") {
			body, _ := balanced(rest, rm[1]-1)
			fields := parseFields(body)
			if len(fn.Table) > 0 && fmt.Sprint(fn.Table) != fmt.Sprint(fields) {
				return nil, fmt.Errorf("function %s is overloaded with different result tables", name)
			}
			fn.Table = fields
		} else {
			f := strings.Fields(rest[rm[1]:])
			if len(f) > 0 {
				fn.Returns = strings.ToLower(f[0])
			}
		}
		s.Funcs[name] = fn
	}
	if len(s.Tables["node"]) == 0 || len(s.Tables["edge"]) == 0 || len(s.Types["nodecomposite"]) == 0 {
		return nil, fmt.Errorf("schema_up.sql: node/edge/nodecomposite not found")
	}
	return s, nil
}

func parseFields(body string) []Field {
	var out []Field
	for _, part := range splitTop(body) {
		f := strings.Fields(part)
		if len(f) < 2 {
			continue
		}
		out = append(out, Field{Name: strings.ToLower(f[0]), Type: normType(strings.Join(f[1:], " "))})
	}
	return out
}

func normType(t string) string {
	t = strings.ToLower(strings.TrimSpace(t))
	switch t {
	case "bigint":
		return "int8"
	case "smallint":
		return "int2"
	case "smallint[]":
		return "int2[]"
	case "bigint[]":
		return "int8[]"
	case "integer":
		return "int4"
	}
	return t
}

// balanced returns the text between the parenthesis at text[open] and its match, and the index after the match.
func balanced(text string, open int) (string, int) {
	depth := 0
	for i := open; i < len(text); i++ {
		switch text[i] {
		case '(':
			depth++
		case ')':
			depth--
			if depth == 0 {
				return text[open+1 : i], i + 1
			}
		}
	}
	return text[open+1:], len(text)
}

func splitTop(body string) []string {
	var out []string
	depth, start := 0, 0
	for i := 0; i < len(body); i++ {
		switch body[i] {
		case '(':
			depth++
		case ')':
			depth--
		case ',':
			if depth == 0 {
				out = append(out, strings.TrimSpace(body[start:i]))
				start = i + 1
			}
		}
	}
	out = append(out, strings.TrimSpace(body[start:]))
	return out
}
