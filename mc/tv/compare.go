package tv

import (
	"fmt"
	"sort"
	"strings"

	"verif/cyref"
	"verif/gm"
)

// CompareToReference judges SQL rows against the reference result. It returns "" if they agree, else a description.
//
//   - ORDER BY with a total order: the row sequences must be equal.
//   - ORDER BY with ties: rows must come block-wise (rows with equal sort keys form a block; inside a block any order).
//   - SKIP/LIMIT over a result whose order is not total: any sub-bag of the full result with the right cardinality.
//   - otherwise: equal bags.
func CompareToReference(ref *cyref.Result, sql *gm.Rows) string {
	if len(ref.Rows.Columns) != len(sql.Columns) && len(sql.Rows) > 0 && len(ref.Rows.Rows) > 0 {
		if len(sql.Rows[0]) != len(ref.Rows.Rows[0]) {
			return fmt.Sprintf("column count differs: reference %d, SQL %d", len(ref.Rows.Rows[0]), len(sql.Rows[0]))
		}
	}
	if ref.Truncated {
		if len(sql.Rows) != len(ref.Rows.Rows) {
			return fmt.Sprintf("row count differs: reference %d (of %d before SKIP/LIMIT), SQL %d", len(ref.Rows.Rows), len(ref.Full.Rows), len(sql.Rows))
		}
		full := map[string]int{}
		for _, r := range ref.Full.Bag() {
			full[r]++
		}
		for _, r := range sql.Bag() {
			if full[r] == 0 {
				return fmt.Sprintf("SQL row %s is not in the full reference result (or too often): %v", r, ref.Full.Bag())
			}
			full[r]--
		}
		return ""
	}
	refBag, sqlBag := ref.Rows.Bag(), sql.Bag()
	if !equalStrings(refBag, sqlBag) {
		return fmt.Sprintf("row bags differ: reference %s, SQL %s", brief(refBag), brief(sqlBag))
	}
	if ref.Ordered {
		refSeq, sqlSeq := ref.Rows.Seq(), sql.Seq()
		if ref.OrderTotal {
			if !equalStrings(refSeq, sqlSeq) {
				return fmt.Sprintf("row order differs: reference %s, SQL %s", brief(refSeq), brief(sqlSeq))
			}
			return ""
		}
		// blocks of equal sort keys
		for lo := 0; lo < len(refSeq); {
			hi := lo + 1
			for hi < len(refSeq) && ref.SortKeys[hi] == ref.SortKeys[lo] {
				hi++
			}
			a := append([]string{}, refSeq[lo:hi]...)
			b := append([]string{}, sqlSeq[lo:hi]...)
			sort.Strings(a)
			sort.Strings(b)
			if !equalStrings(a, b) {
				return fmt.Sprintf("row order differs (rows %d..%d share sort key %s): reference %s, SQL %s", lo, hi-1, ref.SortKeys[lo], brief(refSeq), brief(sqlSeq))
			}
			lo = hi
		}
	}
	return ""
}

// CompareBags judges two SQL results of different translation configurations of the same query (C02). ordered says
// whether the query's final ORDER BY fixes the order; with ties or SKIP/LIMIT the same sub-bag rule as above cannot be
// applied without the reference, so the caller supplies it when available.
func CompareBags(a, b *gm.Rows) string {
	x, y := a.Bag(), b.Bag()
	if !equalStrings(x, y) {
		return fmt.Sprintf("row bags differ: %s vs %s", brief(x), brief(y))
	}
	return ""
}

func equalStrings(a, b []string) bool {
	if len(a) != len(b) {
		return false
	}
	for i := range a {
		if a[i] != b[i] {
			return false
		}
	}
	return true
}

func brief(rows []string) string {
	if len(rows) > 8 {
		return fmt.Sprintf("[%s ... (%d rows)]", strings.Join(rows[:8], "; "), len(rows))
	}
	return "[" + strings.Join(rows, "; ") + "]"
}
