package tv

import (
	"sync"

	"verif/pgbind"

	"context"
	"errors"
	"fmt"
	"sort"
	"strings"

	"github.com/specterops/dawgs/cypher/models/cypher"
	"github.com/specterops/dawgs/cypher/models/pgsql/optimize"
	"github.com/specterops/dawgs/cypher/models/pgsql/translate"
	"github.com/specterops/dawgs/drivers/pg/pgutil"
	"github.com/specterops/dawgs/graph"

	"verif/core"
	"verif/cyref"
	"verif/enum/cyq"
	"verif/gm"
)

// SQLBackend is how the checks execute emitted SQL: the pgsql-AST evaluator (there is no PostgreSQL in the sandbox).
type SQLBackend struct {
	// Prepare compiles a translated statement once; the returned function evaluates it on a graph. kindIDs maps kind
	// names to the ids the kind mapper assigned.
	Prepare func(res translate.Result) (run func(g *gm.Graph, kindIDs map[string]int16) (*gm.Rows, error), err error)
	// IsOutside: the evaluator does not implement a construct of this statement (never a verdict).
	IsOutside func(err error) bool
	// IsRuntime: PostgreSQL would raise a run-time error (the query is "rejected with an error").
	IsRuntime func(err error) bool
}

// Query is one query under test.
type Query struct {
	Text     string
	Features []string
	Params   map[string]any
	Source   string // "enum" | "pattern-family" | "corpus" | "corpus-neighbourhood" | "optimizer-seed"
	// MaxEdges / Budget override the tier's bounds for this query (0 = tier default).
	MaxEdges int
	Budget   int
	// ExtraNodes raises the node bound for this query (three-step patterns need three or four distinct nodes on tame graphs).
	ExtraNodes int
}

// domains derives the graph domains of a query: the text-sliced domain of the feature grammar for enumerated texts, the
// model-derived domain (kinds, keys and literals of the query itself) for everything else.
//
// Enumerated texts with up to two features are evaluated in the full regime (self loops, parallel relationships, values
// of mixed types) on all graphs with <= 2 nodes / <= 2 relationships, in both tiers: that is the scope in which every
// disagreement of the unchanged tree is attributed to a recorded deviation. Larger graphs (thorough) and texts with
// three features are evaluated in the tame regime only: outside it the recorded deviations of DAWGS combine in ways
// that cannot all be attributed, and what cannot be attributed is not judged.
func (q Query) domains(m *cypher.RegularQuery, b Bounds) []Domain {
	maxEdges, budget := b.MaxEdges, b.Budget
	if q.MaxEdges > 0 {
		maxEdges = q.MaxEdges
	}
	if q.Budget > 0 {
		budget = q.Budget
	}
	if q.Source == "enum" {
		if len(q.Features) >= 3 {
			if budget > 400 {
				budget = 400
			}
			return []Domain{DomainFor(q.Text, b.MaxNodes, maxEdges, budget, true)}
		}
		out := []Domain{DomainFor(q.Text, 2, 2, 600, false)}
		if b.MaxNodes > 2 || maxEdges > 2 {
			out = append(out, DomainFor(q.Text, b.MaxNodes, maxEdges, budget, true))
		}
		return out
	}
	return []Domain{DomainForModel(m, q.Params, b.MaxNodes+q.ExtraNodes, maxEdges, budget, q.Source != "optimizer-seed")}
}

// withParams gives every $parameter of the query a value (both evaluators receive the same map).
func (q Query) withParams(m *cypher.RegularQuery) Query {
	params := map[string]any{}
	for k, v := range DefaultParams {
		params[k] = v
	}
	for k, v := range q.Params {
		params[k] = v
	}
	cyref.WalkModel(m, func(n cypher.Expression) {
		if p, ok := n.(*cypher.Parameter); ok {
			if _, has := params[p.Symbol]; !has {
				if p.Value != nil {
					params[p.Symbol] = cyref.Normalize(p.Value)
				} else if strings.Contains(strings.ToLower(p.Symbol), "id") {
					params[p.Symbol] = int64(1)
				} else {
					params[p.Symbol] = "a"
				}
			}
		}
	})
	q.Params = params
	return q
}

// Params used for the enumerated texts' $parameters.
var DefaultParams = map[string]any{"p": "a", "q": "b", "ps": []any{"a", "c"}, "v": int64(1), "s": int64(1), "l": int64(1)}

// Queries returns the query set of a tier: every enumerated text with at most k features plus the corpus queries.
func Queries(k int) []Query {
	var out []Query
	seen := map[string]bool{}
	for _, q := range cyq.Enumerate(k) {
		if !seen[q.Text] {
			seen[q.Text] = true
			out = append(out, Query{Text: q.Text, Features: q.Features, Params: DefaultParams, Source: "enum"})
		}
	}
	return out
}

var kindNames = []string{"NodeKind1", "NodeKind2", "EdgeKind1", "EdgeKind2", "OtherKind", "OtherEdgeKind"}

// NewKindMapper returns the kind mapper used for every translation: the golden corpus' mapper (same ids as the
// repository's translation tests).
func NewKindMapper() (*pgutil.InMemoryKindMapper, map[string]int16) {
	km := cyq.KindMapper()
	ids := map[string]int16{}
	for k, id := range km.KindToID {
		ids[k.String()] = id
	}
	for _, n := range kindNames {
		if _, ok := ids[n]; !ok {
			id, err := km.AssertKinds(context.Background(), graph.Kinds{graph.StringKind(n)})
			if err != nil {
				core.Fatalf("kind mapper: %v", err)
			}
			ids[n] = id[0]
		}
	}
	return km, ids
}

// ensureKinds gives every kind of a graph domain an id in the kind mapper (the corpus queries name kinds the golden
// mapper does not know).
func ensureKinds(km *pgutil.InMemoryKindMapper, ids map[string]int16, d Domain) {
	need := append([]string{}, d.EdgeKinds...)
	for _, ks := range d.NodeKindSets {
		need = append(need, ks...)
	}
	for _, n := range need {
		if _, ok := ids[n]; !ok {
			id, err := km.AssertKinds(context.Background(), graph.Kinds{graph.StringKind(n)})
			if err != nil {
				core.Fatalf("kind mapper: %v", err)
			}
			ids[n] = id[0]
		}
	}
}

// Config is one translation configuration of C02.
type Config struct {
	Name string
	// Configure edits the optimisation plan; nil = the production path translate.Translate.
	Configure func(plan *optimize.Plan) (unoptimized bool)
	// Applies reports whether the configuration differs from production for this plan (else it is skipped).
	Applies func(plan *optimize.Plan) bool
}

// loweringFields lists the lowering families of optimize.LoweringPlan by clearing / keeping closures.
type lowering struct {
	name  string
	has   func(p *optimize.LoweringPlan) bool
	clear func(p *optimize.LoweringPlan)
}

var lowerings = []lowering{
	{"ProjectionPruning", func(p *optimize.LoweringPlan) bool { return len(p.ProjectionPruning) > 0 }, func(p *optimize.LoweringPlan) { p.ProjectionPruning = nil }},
	{"LatePathMaterialization", func(p *optimize.LoweringPlan) bool { return len(p.LatePathMaterialization) > 0 }, func(p *optimize.LoweringPlan) { p.LatePathMaterialization = nil }},
	{"ExpandInto", func(p *optimize.LoweringPlan) bool { return len(p.ExpandInto) > 0 }, func(p *optimize.LoweringPlan) { p.ExpandInto = nil }},
	{"TraversalDirection", func(p *optimize.LoweringPlan) bool { return len(p.TraversalDirection) > 0 }, func(p *optimize.LoweringPlan) { p.TraversalDirection = nil }},
	{"ShortestPathStrategy", func(p *optimize.LoweringPlan) bool { return len(p.ShortestPathStrategy) > 0 }, func(p *optimize.LoweringPlan) { p.ShortestPathStrategy = nil }},
	{"ShortestPathFilter", func(p *optimize.LoweringPlan) bool { return len(p.ShortestPathFilter) > 0 }, func(p *optimize.LoweringPlan) { p.ShortestPathFilter = nil }},
	{"LimitPushdown", func(p *optimize.LoweringPlan) bool { return len(p.LimitPushdown) > 0 }, func(p *optimize.LoweringPlan) { p.LimitPushdown = nil }},
	{"ExpansionSuffixPushdown", func(p *optimize.LoweringPlan) bool { return len(p.ExpansionSuffixPushdown) > 0 }, func(p *optimize.LoweringPlan) { p.ExpansionSuffixPushdown = nil }},
	{"PredicatePlacement", func(p *optimize.LoweringPlan) bool { return len(p.PredicatePlacement) > 0 }, func(p *optimize.LoweringPlan) { p.PredicatePlacement = nil }},
	{"PatternPredicate", func(p *optimize.LoweringPlan) bool { return len(p.PatternPredicate) > 0 }, func(p *optimize.LoweringPlan) { p.PatternPredicate = nil }},
	{"CountStoreFastPath", func(p *optimize.LoweringPlan) bool { return len(p.CountStoreFastPath) > 0 }, func(p *optimize.LoweringPlan) { p.CountStoreFastPath = nil }},
	{"ExactRangeExpansion", func(p *optimize.LoweringPlan) bool { return len(p.ExactRangeExpansion) > 0 }, func(p *optimize.LoweringPlan) { p.ExactRangeExpansion = nil }},
	{"PathRelationshipPredicate", func(p *optimize.LoweringPlan) bool { return len(p.PathRelationshipPredicate) > 0 }, func(p *optimize.LoweringPlan) { p.PathRelationshipPredicate = nil }},
	{"AggregateTraversalCount", func(p *optimize.LoweringPlan) bool { return len(p.AggregateTraversalCount) > 0 }, func(p *optimize.LoweringPlan) { p.AggregateTraversalCount = nil }},
}

// LoweringNames lists the lowering families.
func LoweringNames() []string {
	var out []string
	for _, l := range lowerings {
		out = append(out, l.name)
	}
	return out
}

// Configs returns the configuration matrix of C02: all lowerings off but AST rewrites on, each lowering off, each
// lowering alone. (The fully unoptimised baseline is separate.)
func Configs() []Config {
	out := []Config{{
		Name: "rewrites-only",
		Configure: func(plan *optimize.Plan) bool {
			plan.LoweringPlan = optimize.LoweringPlan{}
			return false
		},
		Applies: func(plan *optimize.Plan) bool { return !plan.LoweringPlan.Empty() },
	}}
	for _, l := range lowerings {
		l := l
		out = append(out, Config{
			Name:      "without-" + l.name,
			Configure: func(plan *optimize.Plan) bool { l.clear(&plan.LoweringPlan); return false },
			Applies: func(plan *optimize.Plan) bool {
				if !l.has(&plan.LoweringPlan) {
					return false
				}
				// only interesting if something else is planned as well
				cp := plan.LoweringPlan
				l.clear(&cp)
				return !cp.Empty()
			},
		})
		out = append(out, Config{
			Name: "only-" + l.name,
			Configure: func(plan *optimize.Plan) bool {
				for _, o := range lowerings {
					if o.name != l.name {
						o.clear(&plan.LoweringPlan)
					}
				}
				return false
			},
			Applies: func(plan *optimize.Plan) bool { return l.has(&plan.LoweringPlan) },
		})
	}
	return out
}

// Outcome of evaluating one (statement, graph).
type Outcome struct {
	Rows    *gm.Rows
	Err     error
	Outside bool
	Runtime bool
	// Internal: the evaluator itself failed (a bug in the machinery, never a verdict).
	Internal bool
}

// Statement is a prepared translation.
type Statement struct {
	b    *SQLBackend
	run  func(g *gm.Graph, kindIDs map[string]int16) (*gm.Rows, error)
	perr error
}

var (
	bindSchemaOnce sync.Once
	bindSchema     *pgbind.Schema
)

// notClosed reports whether the statement leaves a name unresolved (PostgreSQL would reject it when it is analysed): such
// a statement has no result to compare, it is property C03's business.
func notClosed(res translate.Result) bool {
	bindSchemaOnce.Do(func() {
		sc, err := pgbind.LoadSchema(cyq.RepoRoot())
		if err != nil {
			core.Fatalf("schema: %v", err)
		}
		bindSchema = sc
	})
	closed := true
	if p := core.Try(func() { closed = len(pgbind.Statement(bindSchema, res.Statement).Issues) == 0 }); p != nil {
		return false
	}
	return !closed
}

func (b *SQLBackend) prepare(res translate.Result) *Statement {
	st := &Statement{b: b}
	func() {
		defer func() {
			if p := recover(); p != nil {
				st.perr = fmt.Errorf("evaluator panic while preparing: %v", p)
			}
		}()
		st.run, st.perr = b.Prepare(res)
	}()
	return st
}

func (st *Statement) eval(g *gm.Graph, kindIDs map[string]int16) (o Outcome) {
	if st.perr != nil {
		return st.classify(st.perr)
	}
	defer func() {
		if p := recover(); p != nil {
			o = Outcome{Err: fmt.Errorf("evaluator panic: %v", p), Internal: true}
		}
	}()
	rows, err := st.run(g, kindIDs)
	if err != nil {
		return st.classify(err)
	}
	return Outcome{Rows: rows}
}

func (st *Statement) classify(err error) Outcome {
	o := Outcome{Err: err, Outside: st.b.IsOutside(err), Runtime: st.b.IsRuntime(err)}
	o.Internal = !o.Outside && !o.Runtime
	return o
}

// refEval runs the reference evaluator, classifying its refusals.
func refEval(q *cypher.RegularQuery, g *gm.Graph, params map[string]any) (res *cyref.Result, unknown bool, runtime bool, err error) {
	defer func() {
		if p := recover(); p != nil {
			res, unknown, err = nil, true, fmt.Errorf("reference panic: %v", p)
		}
	}()
	res, err = cyref.New(g, params).Run(q)
	if err != nil {
		var u cyref.ErrUnknown
		var r cyref.ErrRuntime
		switch {
		case errors.As(err, &u):
			return nil, true, false, err
		case errors.As(err, &r):
			return nil, false, true, err
		}
		return nil, true, false, err
	}
	return res, false, false, nil
}

// featureClass names the failure class of an unexplained disagreement by the query's features (stable and specific:
// another feature combination failing is another class).
func featureClass(prefix string, q Query) string {
	fs := append([]string{}, q.Features...)
	sort.Strings(fs)
	if len(fs) == 0 {
		return prefix + ":" + q.Source
	}
	return prefix + ":" + strings.Join(fs, "+")
}
