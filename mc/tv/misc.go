package tv

import (
	"context"
	"os"
	"strings"
	"verif/enum/cyq"

	"github.com/specterops/dawgs/cypher/models/cypher"
	"github.com/specterops/dawgs/cypher/models/pgsql/optimize"
)

var bg = context.Background()

type optPlan = optimize.Plan

func optimizeQuery(m *cypher.RegularQuery) (optimize.Plan, error) { return optimize.Optimize(m) }

// QueriesC02 is the query set of C02: the enumerated texts plus seeds that trigger the optimiser's AST rewrite rules
// and the lowerings the feature grammar does not reach (taken from the repository's corpora; kinds reduced to the
// four kinds of the graph domain).
// AllQueries is the query set of both checks: the feature-grammar texts, the pattern family, the corpus queries and
// (thorough, or quick with a smaller budget) their single-edit neighbourhood, plus the optimiser seeds.
func AllQueries(tier string, k int) []Query {
	out := QueriesC02(k)
	seen := map[string]bool{}
	for _, q := range out {
		seen[q.Text] = true
	}
	add := func(qs []Query, extraNodes, maxEdges, budget int) {
		for _, q := range qs {
			if !seen[q.Text] {
				seen[q.Text] = true
				q.ExtraNodes, q.MaxEdges, q.Budget = extraNodes, maxEdges, budget
				out = append(out, q)
			}
		}
	}
	var flow []Query
	for _, q := range cyq.Dataflow(cyq.Options{}) {
		flow = append(flow, Query{Text: q.Text, Params: DefaultParams, Source: "dataflow", Features: q.Features})
	}
	if tier == "thorough" {
		add(flow, 1, 4, 3000)
		add(PatternFamily(3), 1, 4, 3000)
		add(TailFamily(), 1, 4, 3000)
		add(ReversalFamily(), 1, 4, 3000)
		add(CorpusQueries(true), 0, 3, 2000)
	} else {
		add(flow, 1, 3, 400)
		add(PatternFamily(3), 1, 3, 400)
		add(TailFamily(), 1, 3, 400)
		add(ReversalFamily(), 1, 3, 400)
		add(CorpusQueries(true), 1, 3, 200)
	}
	if only := os.Getenv("VERIF_ONLY_QUERY"); only != "" { // debugging aid: keep the queries containing this text
		var kept []Query
		for _, q := range out {
			if strings.Contains(q.Text, only) {
				kept = append(kept, q)
			}
		}
		return kept
	}
	return out
}

func QueriesC02(k int) []Query {
	out := Queries(k)
	seen := map[string]bool{}
	for _, q := range out {
		seen[q.Text] = true
	}
	for _, t := range optimizerSeeds {
		if !seen[t] {
			seen[t] = true
			out = append(out, Query{Text: t, Params: DefaultParams, Source: "optimizer-seed", Features: []string{"seed:" + t}})
		}
	}
	return out
}

// optimizerSeeds: shapes for which ConservativePatternReordering / InboundTraversalReversal apply or which plan
// ExpandInto, PathRelationshipPredicate, AggregateTraversalCount (measured on the corpora with cmd/o2probe).
var optimizerSeeds = []string{
	"match p = (s:NodeKind1)-[:EdgeKind1*0..]->(g:NodeKind2)-[:EdgeKind2]->(d:NodeKind1) where d.name = 'a' return p",
	"match p = (s:NodeKind1)-[:EdgeKind1*1..]->(g:NodeKind2)-[:EdgeKind2]->(d:NodeKind1) where d.name = 'a' return p",
	"match p = (s:NodeKind1)-[:EdgeKind1*0..]->(g:NodeKind2)-[:EdgeKind2]->(d:NodeKind1) where d.name contains 'a' with p return p",
	"match p = (src:NodeKind1)-[:EdgeKind1*1..]->(mid)-[:EdgeKind1]-(dst:NodeKind1) where src.name = 'a' and dst.name = 'a' return p",
	"match (x) match (y:NodeKind2 {name: 'a'}) match p = (x)-[:EdgeKind1]->(y) return p",
	"match (x) match (y:NodeKind2 {name: 'a'}) match (x)-[:EdgeKind1]->(y) return x, y",
	"match (s:NodeKind1)-[:EdgeKind1*1..]->(g:NodeKind2)-[:EdgeKind2]->(d:NodeKind1) where d.name = 'a' return s, d",
	"match (a:NodeKind1), (b:NodeKind2) match (a)-[r:EdgeKind1]->(b) return a, b, r",
	"match (a:NodeKind1 {name: 'a'}), (b:NodeKind2 {name: 'b'}) match p = (a)-[:EdgeKind1*1..]->(b) return p",
	"match (a), (b) where a.name = 'a' and b.name = 'b' match p = (a)-[:EdgeKind1]->(b) return p",
	"match p = (n)-[rels:EdgeKind1*1..]->(m) where all(r in relationships(p) where type(r) = 'EdgeKind1') return p",
	"match p = (n)-[*1..]->(m) where none(r in relationships(p) where type(r) = 'EdgeKind2') return p",
	"match p = (n:NodeKind1)-[*1..]->(m) where all(r in relationships(p) where r.v = 1) return m",
	"match (n:NodeKind1)-[:EdgeKind1*1..]->(m:NodeKind2) return count(m)",
	"match (n:NodeKind1)-[:EdgeKind1*1..]->(m:NodeKind2) return n, count(m)",
	"match (n)-[:EdgeKind1]->(m) return count(*)",
	"match (n:NodeKind1) return count(n)",
	"match ()-[r:EdgeKind1]->() return count(r)",
}
