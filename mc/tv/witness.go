package tv

import (
	"fmt"
	"strings"

	"github.com/specterops/dawgs/cypher/models/cypher"
	"github.com/specterops/dawgs/graph"

	"verif/cyref"
	"verif/gm"
)

// The small-scope domain (graphs.go) enumerates every graph up to a size. For a query with several constrained
// positions (a three-step pattern whose end nodes carry kinds and property predicates) almost all of those graphs give
// an empty result on both sides. WitnessGraphs complements it: it instantiates the query's own patterns as a graph
// (one node per node pattern with the kinds and property values the query asks for, one relationship per step, a chain
// for a variable-length step) and then enumerates every graph within a fixed edit distance of that witness: one
// relationship removed, one node stripped of its kinds or properties, and every way of adding at most one node (with
// any attribute set of the query's domain) and at most two relationships (tame: no self loops, no parallel ones).

type witnessNode struct {
	kinds []string
	props map[string]any
}

type witnessEdge struct {
	s, e  int
	kind  string
	props map[string]any
}

type witness struct {
	nodes []witnessNode
	edges []witnessEdge
}

var witnessIDs = []int64{1, 3, 4, 9, 12, 14, 19, 21, 26, 28, 33, 35}

func (w *witness) graph() *gm.Graph {
	g := &gm.Graph{}
	for i, n := range w.nodes {
		if i >= len(witnessIDs) {
			return nil
		}
		kinds := append([]string{}, n.kinds...)
		g.Nodes = append(g.Nodes, gm.Node{ID: witnessIDs[i], Kinds: kinds, Props: cloneProps(n.props)})
	}
	for i, e := range w.edges {
		g.Edges = append(g.Edges, gm.Edge{ID: int64(10 + 3*i), Start: witnessIDs[e.s], End: witnessIDs[e.e], Kind: e.kind, Props: cloneProps(e.props)})
	}
	return g
}

// buildWitness instantiates the patterns of the query.
func buildWitness(m *cypher.RegularQuery, params map[string]any, d Domain) *witness {
	w := &witness{}
	byVar := map[string]int{}
	relVars := map[string]bool{}
	literal := func(x cypher.Expression) (any, bool) {
		switch t := x.(type) {
		case *cypher.Literal:
			if t.Null {
				return nil, false
			}
			if s, ok := t.Value.(string); ok && len(s) >= 2 && (s[0] == '\'' || s[0] == '"') {
				if dec, err := cyref.DecodeString(s); err == nil {
					return dec, true
				}
				return nil, false
			}
			return cyref.Normalize(t.Value), true
		case *cypher.Parameter:
			if v, ok := params[t.Symbol]; ok {
				return cyref.Normalize(v), true
			}
		case *cypher.ListLiteral:
			if len(*t) > 0 {
				if l, ok := (*t)[0].(*cypher.Literal); ok && !l.Null {
					if s, ok := l.Value.(string); ok && len(s) >= 2 && (s[0] == '\'' || s[0] == '"') {
						if dec, err := cyref.DecodeString(s); err == nil {
							return dec, true
						}
						return nil, false
					}
					return cyref.Normalize(l.Value), true
				}
			}
		}
		return nil, false
	}
	propsOf := func(x cypher.Expression) map[string]any {
		out := map[string]any{}
		if p, ok := x.(*cypher.Properties); ok && p != nil {
			for k, vx := range p.Map {
				if v, ok := literal(vx); ok {
					out[k] = v
				}
			}
		}
		return out
	}
	defaultEdgeKind := "EdgeKind1"
	if len(d.EdgeKinds) > 0 {
		defaultEdgeKind = d.EdgeKinds[0]
	}
	node := func(np *cypher.NodePattern) int {
		if np.Variable != nil {
			if i, ok := byVar[np.Variable.Symbol]; ok {
				for _, k := range np.Kinds {
					w.nodes[i].kinds = addKind(w.nodes[i].kinds, k.String())
				}
				return i
			}
		}
		n := witnessNode{props: map[string]any{}}
		for _, k := range np.Kinds {
			n.kinds = addKind(n.kinds, k.String())
		}
		if np.Properties != nil {
			for k, v := range propsOf(np.Properties) {
				n.props[k] = v
			}
		}
		w.nodes = append(w.nodes, n)
		if np.Variable != nil {
			byVar[np.Variable.Symbol] = len(w.nodes) - 1
		}
		return len(w.nodes) - 1
	}
	relByVar := map[string][]int{}
	cyref.WalkModel(m, func(x cypher.Expression) {
		part, ok := x.(*cypher.PatternPart)
		if !ok {
			return
		}
		last := -1
		var pending *cypher.RelationshipPattern
		for _, el := range part.PatternElements {
			if np, ok := el.AsNodePattern(); ok {
				cur := node(np)
				if pending != nil && last >= 0 {
					hops := 1
					if pending.Range != nil && pending.Range.StartIndex != nil && *pending.Range.StartIndex > 1 {
						hops = int(*pending.Range.StartIndex)
					}
					kind := defaultEdgeKind
					if len(pending.Kinds) > 0 {
						kind = pending.Kinds[0].String()
					}
					props := map[string]any{}
					if pending.Properties != nil {
						props = propsOf(pending.Properties)
					}
					from := last
					for h := 0; h < hops; h++ {
						to := cur
						if h < hops-1 {
							w.nodes = append(w.nodes, witnessNode{props: map[string]any{}})
							to = len(w.nodes) - 1
						}
						s, e := from, to
						if pending.Direction == graph.DirectionInbound {
							s, e = to, from
						}
						w.edges = append(w.edges, witnessEdge{s, e, kind, cloneProps(props)})
						if pending.Variable != nil {
							relVars[pending.Variable.Symbol] = true
							relByVar[pending.Variable.Symbol] = append(relByVar[pending.Variable.Symbol], len(w.edges)-1)
						}
						from = to
					}
				}
				last, pending = cur, nil
			} else if rp, ok := el.AsRelationshipPattern(); ok {
				pending = rp
			}
		}
	})
	// predicates: var.key <op> literal gives the node (or relationship) that value; var:Kind gives it the kind
	cyref.WalkModel(m, func(x cypher.Expression) {
		switch t := x.(type) {
		case *cypher.KindMatcher:
			if v, ok := t.Reference.(*cypher.Variable); ok {
				if i, ok := byVar[v.Symbol]; ok && len(t.Kinds) > 0 {
					w.nodes[i].kinds = addKind(w.nodes[i].kinds, t.Kinds[0].String())
				}
				for _, ei := range relByVar[v.Symbol] {
					if len(t.Kinds) > 0 {
						w.edges[ei].kind = t.Kinds[0].String()
					}
				}
			}
		case *cypher.Comparison:
			left := t.Left
			for _, p := range t.Partials {
				for _, pair := range [][2]cypher.Expression{{left, p.Right}, {p.Right, left}} {
					pl, ok := pair[0].(*cypher.PropertyLookup)
					if !ok {
						continue
					}
					v, ok := pl.Atom.(*cypher.Variable)
					if !ok {
						continue
					}
					val, ok := literal(pair[1])
					if !ok {
						continue
					}
					if p.Operator == cypher.OperatorIn && pair[0] == p.Right {
						val = []any{val} // <literal> IN n.key
					}
					if i, ok := byVar[v.Symbol]; ok {
						if _, has := w.nodes[i].props[pl.Symbol]; !has {
							w.nodes[i].props[pl.Symbol] = val
						}
					}
					for _, ei := range relByVar[v.Symbol] {
						if _, has := w.edges[ei].props[pl.Symbol]; !has {
							w.edges[ei].props[pl.Symbol] = val
						}
					}
				}
				left = p.Right
			}
		}
	})
	return w
}

func addKind(ks []string, k string) []string {
	for _, x := range ks {
		if x == k {
			return ks
		}
	}
	return append(ks, k)
}

func (w *witness) clone() *witness {
	o := &witness{}
	for _, n := range w.nodes {
		o.nodes = append(o.nodes, witnessNode{append([]string{}, n.kinds...), cloneProps(n.props)})
	}
	for _, e := range w.edges {
		o.edges = append(o.edges, witnessEdge{e.s, e.e, e.kind, cloneProps(e.props)})
	}
	return o
}

// WitnessGraphs yields the witness of the query and every graph of its edit neighbourhood, at most budget graphs
// (truncated reports that the budget cut the enumeration short). Graphs are distinct up to their canonical text.
func WitnessGraphs(m *cypher.RegularQuery, params map[string]any, d Domain, budget int, yield func(g *gm.Graph) bool) (count int, truncated bool) {
	w := buildWitness(m, params, d)
	if len(w.nodes) == 0 || len(w.nodes) > 6 {
		return 0, false
	}
	seen := map[string]bool{}
	stop := false
	emit := func(x *witness) {
		if stop {
			return
		}
		if d.Tame {
			for i, e := range x.edges {
				if e.s == e.e {
					return // self loop
				}
				for _, f := range x.edges[:i] {
					if f.s == e.s && f.e == e.e {
						return // parallel relationship
					}
				}
			}
		}
		g := x.graph()
		if g == nil {
			return
		}
		key := fmt.Sprint(g.Nodes, g.Edges)
		if seen[key] {
			return
		}
		seen[key] = true
		if count >= budget {
			truncated, stop = true, true
			return
		}
		count++
		if !yield(g) {
			stop = true
		}
	}
	emit(w)
	for i := range w.edges {
		x := w.clone()
		x.edges = append(x.edges[:i], x.edges[i+1:]...)
		emit(x)
	}
	for i := range w.nodes {
		x := w.clone()
		x.nodes[i].kinds = nil
		emit(x)
		for k := range w.nodes[i].props {
			x = w.clone()
			delete(x.nodes[i].props, k)
			emit(x)
			x = w.clone()
			x.nodes[i].props[k] = otherValue(x.nodes[i].props[k])
			emit(x)
		}
	}
	for i := range w.edges {
		for _, k := range d.EdgeKinds {
			if k != w.edges[i].kind {
				x := w.clone()
				x.edges[i].kind = k
				emit(x)
			}
		}
		x := w.clone()
		x.edges[i].s, x.edges[i].e = x.edges[i].e, x.edges[i].s
		emit(x)
	}
	// additions: optionally one more node, then up to two more relationships anywhere
	var extras []*witnessNode
	extras = append(extras, nil)
	nodeProps := propCombos(d.NodeProps)
	for _, ks := range d.NodeKindSets {
		for _, p := range nodeProps {
			extras = append(extras, &witnessNode{append([]string{}, ks...), p})
		}
	}
	// copies of the witness' own nodes: a second candidate for every position of the pattern
	for _, n := range w.nodes {
		n := n
		extras = append(extras, &witnessNode{append([]string{}, n.kinds...), cloneProps(n.props)})
	}
	for _, extra := range extras {
		base := w.clone()
		if extra != nil {
			base.nodes = append(base.nodes, *extra)
		}
		n := len(base.nodes)
		type slot struct {
			s, e int
			kind string
		}
		var slots []slot
		for s := 0; s < n; s++ {
			for e := 0; e < n; e++ {
				if s == e {
					continue
				}
				occupied := false
				for _, we := range base.edges {
					occupied = occupied || (we.s == s && we.e == e)
				}
				if occupied {
					continue
				}
				for _, k := range d.EdgeKinds {
					slots = append(slots, slot{s, e, k})
				}
			}
		}
		if extra != nil {
			emit(base)
		}
		for i := 0; i < len(slots) && !stop; i++ {
			x := base.clone()
			x.edges = append(x.edges, witnessEdge{slots[i].s, slots[i].e, slots[i].kind, map[string]any{}})
			emit(x)
			for j := i + 1; j < len(slots) && !stop; j++ {
				if slots[j].s == slots[i].s && slots[j].e == slots[i].e {
					continue
				}
				y := x.clone()
				y.edges = append(y.edges, witnessEdge{slots[j].s, slots[j].e, slots[j].kind, map[string]any{}})
				emit(y)
			}
		}
	}
	return count, truncated
}

func otherValue(v any) any {
	switch t := v.(type) {
	case string:
		if strings.HasSuffix(t, "zz") {
			return "a"
		}
		return t + "zz"
	case int64:
		return t + 1
	case float64:
		return t + 1
	case bool:
		return !t
	}
	return "zz"
}
