package tv

import (
	"context"
	"fmt"
	"sort"
	"strings"

	"github.com/specterops/dawgs/cypher/models/cypher"

	cyfmt "github.com/specterops/dawgs/cypher/models/cypher/format"
	"github.com/specterops/dawgs/cypher/models/pgsql/optimize"
	"github.com/specterops/dawgs/cypher/models/pgsql/translate"

	"verif/core"
	"verif/cyref"
	"verif/gm"
)

// compareConfigs judges the rows of one configuration against the unoptimised baseline. ref (may be nil) tells how
// much of the order the query fixes.
func compareConfigs(ref *cyref.Result, base, cfg *gm.Rows) string {
	if ref != nil && ref.Truncated {
		// SKIP/LIMIT over an order that is not total: the configurations may return different sub-bags
		if len(base.Rows) != len(cfg.Rows) {
			return fmt.Sprintf("row count differs: %d vs %d", len(base.Rows), len(cfg.Rows))
		}
		// which rows survive is not determined; membership in the full result is C01's business (the reference may
		// disagree with the SQL for known reasons), here only the cardinality is compared
		return ""
	}
	if why := CompareBags(base, cfg); why != "" {
		return why
	}
	if ref != nil && ref.Ordered {
		// judge the configuration's order with the reference's sort keys (ties may come in any order)
		tmp := *ref
		tmp.Rows = ref.Rows
		if why := CompareToReference(&tmp, cfg); why != "" && CompareToReference(&tmp, base) == "" {
			return why
		}
	}
	return ""
}

// RunC02 is the body of check C02 for this process' share of the queries.
func RunC02(run *core.Run, backend *SQLBackend, queries []Query, b Bounds) {
	km, kindIDs := NewKindMapper()
	ctx := context.Background()
	configs := Configs()
	exercised := map[string]int64{}
	rulesApplied := map[string]int64{}
	for qi, q := range queries {
		if !run.Mine(qi) {
			continue
		}
		if run.TimeUp() {
			run.Capped("deadline: not every query was evaluated")
			break
		}
		m, err := parse(q.Text)
		if err != nil {
			continue
		}
		q = q.withParams(m)
		if (q.Source != "enum" || len(q.Features) >= 3) && countExpansions(m) >= 2 {
			run.Add("queries_skipped_two_or_more_expansions", 1)
			continue
		}
		plan, err := optimize.Optimize(m)
		if err != nil || plan.Query == nil {
			run.Add("queries_rejected_by_optimizer", 1)
			continue
		}
		var prod, base translate.Result
		var errProd, errBase error
		if pv := core.Try(func() {
			prod, errProd = translate.Translate(ctx, m, km, q.Params, 0)
			base, errBase = translate.VerifTranslate(ctx, m, km, q.Params, 0, func(*optimize.Plan) bool { return true })
		}); pv != nil {
			run.Add("translator_panics_left_to_C05", 1)
			continue
		}
		if (errProd == nil) != (errBase == nil) {
			run.Add("disagreements_checked", 1)
			run.Report(core.Violation{
				Class:    featureClass("translatability-differs", q),
				Summary:  fmt.Sprintf("%s: optimised translation error=%v, unoptimised translation error=%v", q.Text, errProd, errBase),
				Artefact: artefact{Query: q.Text, Params: q.Params, Detail: fmt.Sprintf("optimised: %v / unoptimised: %v", errProd, errBase)},
			})
			continue
		}
		if errProd != nil {
			run.Add("queries_rejected_by_translator", 1)
			continue
		}
		if notClosed(prod) || notClosed(base) {
			run.Add("statements_not_closed_left_to_C03", 1)
			continue
		}
		run.Add("programs", 1)
		gm.SortLists = strings.Contains(strings.ToLower(q.Text), "collect(")

		type variant struct {
			name string
			res  translate.Result
			stmt *Statement
		}
		variants := []variant{{"optimised", prod, backend.prepare(prod)}}
		baseStmt := backend.prepare(base)
		origText0, _ := cyfmt.RegularQuery(m, false)
		optText0, _ := cyfmt.RegularQuery(plan.Query, false)
		for _, c := range configs {
			// single-lowering configurations are only meaningful on an AST the rewrite rules left alone: a rewritten
			// pattern order may rely on a lowering (production never runs one without the other)
			if origText0 != optText0 || !c.Applies(&plan) || run.Tier != "thorough" {
				continue // (diagnostic only, see below: left to the thorough tier)
			}
			var res translate.Result
			var err error
			if pv := core.Try(func() { res, err = translate.VerifTranslate(ctx, m, km, q.Params, 0, c.Configure) }); pv != nil {
				err = fmt.Errorf("panic: %v", pv)
			}
			if err != nil {
				run.Add("disagreements_checked", 1)
				run.Report(core.Violation{
					Class:    featureClass("configuration-fails-to-translate:"+c.Name, q),
					Summary:  fmt.Sprintf("%s translates with all optimisations but not with configuration %s: %v", q.Text, c.Name, err),
					Artefact: artefact{Query: q.Text, Params: q.Params, Config: c.Name, Detail: err.Error()},
				})
				continue
			}
			variants = append(variants, variant{c.Name, res, backend.prepare(res)})
		}
		for _, l := range prod.Optimization.Lowerings {
			exercised[l.Name]++
		}
		for _, r := range plan.Rules {
			if r.Applied {
				rulesApplied[r.Name]++
			}
		}
		// has the optimiser rewritten the Cypher? then the rewritten text must mean the same (reference evaluator)
		origText, _ := cyfmt.RegularQuery(m, false)
		optText, _ := cyfmt.RegularQuery(plan.Query, false)
		rewritten := origText != optText
		if rewritten {
			run.Add("programs_with_rewritten_cypher", 1)
		}

		ds := q.domains(m, b)
		d := ds[len(ds)-1]
		for _, dd := range ds {
			ensureKinds(km, kindIDs, dd)
		}
		var evals, nonEmpty, compared int64
		unexplained := 0
		outside := false
		judge := func(g *gm.Graph) bool {
			evals++
			ob := baseStmt.eval(g, kindIDs)
			if ob.Outside || ob.Internal {
				outside = true
				return false
			}
			ref, unk, rt, _ := refEval(m, g, q.Params)
			if unk || rt {
				ref = nil
			}
			if rewritten && ref != nil {
				if ref2, unk2, rt2, _ := refEval(plan.Query, g, q.Params); !unk2 && !rt2 {
					run.Add("rewritten_cypher_evaluations", 1)
					if why := CompareToReference(ref, ref2.Rows); why != "" {
						run.Add("disagreements_checked", 1)
						run.Report(core.Violation{
							Class:    featureClass("rewritten-cypher-differs", q),
							Summary:  fmt.Sprintf("%s was rewritten to %s, which means something else: %s", origText, optText, why),
							Artefact: artefact{Query: q.Text, Params: q.Params, Graph: CloneGraph(g), Detail: optText + " :: " + why},
						})
					}
				}
			}
			if ob.Err != nil {
				run.Add("sql_runtime_errors", 1)
				return true // predicate order is not defined in SQL: a run-time error on one side is not compared
			}
			if len(ob.Rows.Rows) > 0 {
				nonEmpty++
			}
			for _, v := range variants {
				ov := v.stmt.eval(g, kindIDs)
				if ov.Outside || ov.Internal {
					run.Add("variant_outside_sql_evaluator", 1)
					continue
				}
				if ov.Err != nil {
					run.Add("sql_runtime_errors", 1)
					continue
				}
				compared++
				if why := compareConfigs(ref, ob.Rows, ov.Rows); why != "" {
					if v.name != "optimised" {
						// A configuration that production cannot reach (a plan with one lowering removed) localises a
						// difference but does not decide the property: a lowering may rely on another one.
						run.Add("diagnostic_hybrid_configuration_differences", 1)
						continue
					}
					run.Add("disagreements_checked", 1)
					generic := featureClass("configuration-changes-result:"+v.name, q)
					var classes []string
					if unexplained >= 3 {
						// the class of this query is settled (see RunC01): skip the search for an explanation
						classes = []string{generic}
						run.Add("disagreements_not_searched_after_three_unexplained", 1)
					} else {
						classes = classifyC02(m, q, g, ref, ob.Rows, ov.Rows, v.name, appliedLowerings(v.res, &plan))
						if len(classes) == 1 && classes[0] == generic {
							unexplained++
						}
					}
					for _, class := range classes {
						run.Report(core.Violation{
							Class:    class,
							Summary:  fmt.Sprintf("%s: configuration %s vs unoptimised on a graph with %d nodes / %d edges: %s", q.Text, v.name, len(g.Nodes), len(g.Edges), why),
							Artefact: artefact{Query: q.Text, Params: q.Params, Graph: CloneGraph(g), Config: v.name, SQL: sqlText(v.res) + "  ||| unoptimised: " + sqlText(base), Detail: why},
						})
					}
				}
			}
			return true
		}
		for _, dd := range ds {
			dd.Enumerate(judge)
		}
		if q.Source != "enum" {
			budget := b.Budget
			if q.Budget > 0 {
				budget = q.Budget
			}
			n, truncated := WitnessGraphs(m, q.Params, d, budget, judge)
			run.Add("witness_neighbourhood_graphs", int64(n))
			if truncated {
				run.Add("witness_neighbourhoods_cut_by_budget", 1)
			}
		}
		run.Add("evaluations", evals)
		run.Add("configuration_comparisons", compared)
		if outside {
			run.Add("programs_outside_sql_evaluator", 1)
		} else if nonEmpty > 0 && len(variants) > 0 {
			run.Add("distinct_nontrivial", 1)
		}
		if qi%(len(queries)/10+1) == 0 {
			names := []string{}
			for _, v := range variants {
				names = append(names, v.name)
			}
			run.Sample(map[string]any{"query": q.Text, "configurations": names, "graphs": evals, "comparisons": compared, "domain": d.String()})
		}
	}
	em := map[string]any{}
	for k, v := range exercised {
		em[k] = v
	}
	run.Set("lowerings_applied", em)
	rm := map[string]any{}
	for k, v := range rulesApplied {
		rm[k] = v
	}
	run.Set("rewrite_rules_applied", rm)
}

// classifyC02 names the failure class of a disagreement between a configuration and the unoptimised baseline. If both
// results are explained by the reference evaluator with known translation deviations (the known findings of C01)
// switched on, the optimisation changes the result only because it removes or introduces one of those known defects:
// the class names the deviations that differ. Anything else is an unexplained change of the result.
func classifyC02(m *cypher.RegularQuery, q Query, g *gm.Graph, ref *cyref.Result, base, cfg *gm.Rows, config string, applied string) []string {
	baselineWrong := ref != nil && CompareToReference(ref, cfg) == "" && CompareToReference(ref, base) != ""
	if strings.Contains(applied, "ExpandIntoDetection") && (baselineWrong || sameDistinctRows(base, cfg) && subBag(cfg, base)) {
		// One recorded defect of the baseline: a step between two bound nodes is translated, without the ExpandInto
		// lowering, with an unconstrained join of the node table (rows are multiplied, pattern predicates are not
		// correlated to the current row). Recognised by the lowering having been applied and the optimised rows being
		// the reference's, or the same rows with smaller multiplicities (never larger: an optimisation that multiplies
		// rows is not this defect).
		return []string{"unoptimised-baseline-wrong:step-between-bound-nodes-without-ExpandInto"}
	}
	cb, okb := Explain(m, q, g, base, 0)
	cc, okc := Explain(m, q, g, cfg, 0)
	if okb && okc {
		in := func(cs []string, c string) bool {
			for _, x := range cs {
				if x == c {
					return true
				}
			}
			return false
		}
		var out []string
		for _, c := range cb {
			if !in(cc, c) {
				out = append(out, "differs-by-known-translation-deviation:"+c)
			}
		}
		for _, c := range cc {
			if !in(cb, c) {
				out = append(out, "differs-by-known-translation-deviation:"+c)
			}
		}
		if len(out) > 0 {
			return out
		}
	}
	// The production (optimised) rows are what openCypher prescribes and the rows of the translation without any
	// optimisation are not: the optimisation changes the result, to the right one. The class names the rewrite rules and
	// lowerings that were applied (what the baseline lacks). A defect of an optimisation cannot end up here: it makes the
	// optimised rows differ from the reference.
	if baselineWrong {
		return []string{"unoptimised-baseline-wrong:corrected-by:" + applied}
	}
	return []string{featureClass("configuration-changes-result:"+config, q)}
}

// appliedLowerings names the rewrite rules and lowerings that took part in a translation, sorted.
func appliedLowerings(res translate.Result, plan *optimize.Plan) string {
	set := map[string]bool{}
	for _, l := range res.Optimization.Lowerings {
		set[l.Name] = true
	}
	for _, r := range plan.Rules {
		if r.Applied {
			set[r.Name] = true
		}
	}
	var names []string
	for n := range set {
		names = append(names, n)
	}
	sort.Strings(names)
	if len(names) == 0 {
		return "nothing-recorded"
	}
	return strings.Join(names, "+")
}

// sameDistinctRows reports whether two results hold the same rows when multiplicities are ignored.
func sameDistinctRows(a, b *gm.Rows) bool {
	set := func(r *gm.Rows) map[string]bool {
		m := map[string]bool{}
		for _, row := range r.Rows {
			m[gm.CanonRow(row)] = true
		}
		return m
	}
	sa, sb := set(a), set(b)
	if len(sa) != len(sb) {
		return false
	}
	for k := range sa {
		if !sb[k] {
			return false
		}
	}
	return true
}

// subBag reports whether every row of a occurs in b at least as often.
func subBag(a, b *gm.Rows) bool {
	count := map[string]int{}
	for _, row := range b.Rows {
		count[gm.CanonRow(row)]++
	}
	for _, row := range a.Rows {
		k := gm.CanonRow(row)
		if count[k] == 0 {
			return false
		}
		count[k]--
	}
	return true
}
