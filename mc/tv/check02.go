package tv

import (
	"context"
	"fmt"
	"strings"

	"github.com/specterops/dawgs/cypher/models/cypher"

	cyfmt "github.com/specterops/dawgs/cypher/models/cypher/format"
	"github.com/specterops/dawgs/cypher/models/pgsql/optimize"
	"github.com/specterops/dawgs/cypher/models/pgsql/translate"

	"verif/core"
	"verif/cyref"
	"verif/gm"
)

// compareConfigs judges the rows of one configuration against the unoptimised baseline. ref (may be nil) tells how
// much of the order the query fixes.
func compareConfigs(ref *cyref.Result, base, cfg *gm.Rows) string {
	if ref != nil && ref.Truncated {
		// SKIP/LIMIT over an order that is not total: the configurations may return different sub-bags
		if len(base.Rows) != len(cfg.Rows) {
			return fmt.Sprintf("row count differs: %d vs %d", len(base.Rows), len(cfg.Rows))
		}
		// which rows survive is not determined; membership in the full result is C01's business (the reference may
		// disagree with the SQL for known reasons), here only the cardinality is compared
		return ""
	}
	if why := CompareBags(base, cfg); why != "" {
		return why
	}
	if ref != nil && ref.Ordered {
		// judge the configuration's order with the reference's sort keys (ties may come in any order)
		tmp := *ref
		tmp.Rows = ref.Rows
		if why := CompareToReference(&tmp, cfg); why != "" && CompareToReference(&tmp, base) == "" {
			return why
		}
	}
	return ""
}

// RunC02 is the body of check C02 for this process' share of the queries.
func RunC02(run *core.Run, backend *SQLBackend, queries []Query, b Bounds) {
	km, kindIDs := NewKindMapper()
	ctx := context.Background()
	configs := Configs()
	exercised := map[string]int64{}
	rulesApplied := map[string]int64{}
	for qi, q := range queries {
		if !run.Mine(qi) {
			continue
		}
		if run.TimeUp() {
			run.Capped("deadline: not every query was evaluated")
			break
		}
		m, err := parse(q.Text)
		if err != nil {
			continue
		}
		q = q.withParams(m)
		if q.Source != "enum" && countExpansions(m) >= 2 {
			run.Add("queries_skipped_two_or_more_expansions", 1)
			continue
		}
		plan, err := optimize.Optimize(m)
		if err != nil || plan.Query == nil {
			run.Add("queries_rejected_by_optimizer", 1)
			continue
		}
		var prod, base translate.Result
		var errProd, errBase error
		if pv := core.Try(func() {
			prod, errProd = translate.Translate(ctx, m, km, q.Params, 0)
			base, errBase = translate.VerifTranslate(ctx, m, km, q.Params, 0, func(*optimize.Plan) bool { return true })
		}); pv != nil {
			run.Add("translator_panics_left_to_C05", 1)
			continue
		}
		if (errProd == nil) != (errBase == nil) {
			run.Add("disagreements_checked", 1)
			run.Report(core.Violation{
				Class:    featureClass("translatability-differs", q),
				Summary:  fmt.Sprintf("%s: optimised translation error=%v, unoptimised translation error=%v", q.Text, errProd, errBase),
				Artefact: artefact{Query: q.Text, Params: q.Params, Detail: fmt.Sprintf("optimised: %v / unoptimised: %v", errProd, errBase)},
			})
			continue
		}
		if errProd != nil {
			run.Add("queries_rejected_by_translator", 1)
			continue
		}
		run.Add("programs", 1)
		gm.SortLists = strings.Contains(strings.ToLower(q.Text), "collect(")

		type variant struct {
			name string
			res  translate.Result
			stmt *Statement
		}
		variants := []variant{{"optimised", prod, backend.prepare(prod)}}
		baseStmt := backend.prepare(base)
		origText0, _ := cyfmt.RegularQuery(m, false)
		optText0, _ := cyfmt.RegularQuery(plan.Query, false)
		for _, c := range configs {
			// single-lowering configurations are only meaningful on an AST the rewrite rules left alone: a rewritten
			// pattern order may rely on a lowering (production never runs one without the other)
			if origText0 != optText0 || !c.Applies(&plan) || run.Tier != "thorough" {
				continue // (diagnostic only, see below: left to the thorough tier)
			}
			var res translate.Result
			var err error
			if pv := core.Try(func() { res, err = translate.VerifTranslate(ctx, m, km, q.Params, 0, c.Configure) }); pv != nil {
				err = fmt.Errorf("panic: %v", pv)
			}
			if err != nil {
				run.Add("disagreements_checked", 1)
				run.Report(core.Violation{
					Class:    featureClass("configuration-fails-to-translate:"+c.Name, q),
					Summary:  fmt.Sprintf("%s translates with all optimisations but not with configuration %s: %v", q.Text, c.Name, err),
					Artefact: artefact{Query: q.Text, Params: q.Params, Config: c.Name, Detail: err.Error()},
				})
				continue
			}
			variants = append(variants, variant{c.Name, res, backend.prepare(res)})
		}
		for _, l := range prod.Optimization.Lowerings {
			exercised[l.Name]++
		}
		for _, r := range plan.Rules {
			if r.Applied {
				rulesApplied[r.Name]++
			}
		}
		// has the optimiser rewritten the Cypher? then the rewritten text must mean the same (reference evaluator)
		origText, _ := cyfmt.RegularQuery(m, false)
		optText, _ := cyfmt.RegularQuery(plan.Query, false)
		rewritten := origText != optText
		if rewritten {
			run.Add("programs_with_rewritten_cypher", 1)
		}

		d := q.domain(m, b)
		ensureKinds(km, kindIDs, d)
		var evals, nonEmpty, compared int64
		outside := false
		judge := func(g *gm.Graph) bool {
			evals++
			ob := baseStmt.eval(g, kindIDs)
			if ob.Outside || ob.Internal {
				outside = true
				return false
			}
			ref, unk, rt, _ := refEval(m, g, q.Params)
			if unk || rt {
				ref = nil
			}
			if rewritten && ref != nil {
				if ref2, unk2, rt2, _ := refEval(plan.Query, g, q.Params); !unk2 && !rt2 {
					run.Add("rewritten_cypher_evaluations", 1)
					if why := CompareToReference(ref, ref2.Rows); why != "" {
						run.Add("disagreements_checked", 1)
						run.Report(core.Violation{
							Class:    featureClass("rewritten-cypher-differs", q),
							Summary:  fmt.Sprintf("%s was rewritten to %s, which means something else: %s", origText, optText, why),
							Artefact: artefact{Query: q.Text, Params: q.Params, Graph: CloneGraph(g), Detail: optText + " :: " + why},
						})
					}
				}
			}
			if ob.Err != nil {
				run.Add("sql_runtime_errors", 1)
				return true // predicate order is not defined in SQL: a run-time error on one side is not compared
			}
			if len(ob.Rows.Rows) > 0 {
				nonEmpty++
			}
			for _, v := range variants {
				ov := v.stmt.eval(g, kindIDs)
				if ov.Outside || ov.Internal {
					run.Add("variant_outside_sql_evaluator", 1)
					continue
				}
				if ov.Err != nil {
					run.Add("sql_runtime_errors", 1)
					continue
				}
				compared++
				if why := compareConfigs(ref, ob.Rows, ov.Rows); why != "" {
					if v.name != "optimised" {
						// A configuration that production cannot reach (a plan with one lowering removed) localises a
						// difference but does not decide the property: a lowering may rely on another one.
						run.Add("diagnostic_hybrid_configuration_differences", 1)
						continue
					}
					run.Add("disagreements_checked", 1)
					for _, class := range classifyC02(m, q, g, ref, ob.Rows, ov.Rows, v.name) {
						run.Report(core.Violation{
							Class:    class,
							Summary:  fmt.Sprintf("%s: configuration %s vs unoptimised on a graph with %d nodes / %d edges: %s", q.Text, v.name, len(g.Nodes), len(g.Edges), why),
							Artefact: artefact{Query: q.Text, Params: q.Params, Graph: CloneGraph(g), Config: v.name, SQL: sqlText(v.res) + "  ||| unoptimised: " + sqlText(base), Detail: why},
						})
					}
				}
			}
			return true
		}
		d.Enumerate(judge)
		if q.Source != "enum" {
			budget := b.Budget
			if q.Budget > 0 {
				budget = q.Budget
			}
			n, truncated := WitnessGraphs(m, q.Params, d, budget, judge)
			run.Add("witness_neighbourhood_graphs", int64(n))
			if truncated {
				run.Add("witness_neighbourhoods_cut_by_budget", 1)
			}
		}
		run.Add("evaluations", evals)
		run.Add("configuration_comparisons", compared)
		if outside {
			run.Add("programs_outside_sql_evaluator", 1)
		} else if nonEmpty > 0 && len(variants) > 0 {
			run.Add("distinct_nontrivial", 1)
		}
		if qi%(len(queries)/10+1) == 0 {
			names := []string{}
			for _, v := range variants {
				names = append(names, v.name)
			}
			run.Sample(map[string]any{"query": q.Text, "configurations": names, "graphs": evals, "comparisons": compared, "domain": d.String()})
		}
	}
	em := map[string]any{}
	for k, v := range exercised {
		em[k] = v
	}
	run.Set("lowerings_applied", em)
	rm := map[string]any{}
	for k, v := range rulesApplied {
		rm[k] = v
	}
	run.Set("rewrite_rules_applied", rm)
}

// classifyC02 names the failure class of a disagreement between a configuration and the unoptimised baseline. If both
// results are explained by the reference evaluator with known translation deviations (the known findings of C01)
// switched on, the optimisation changes the result only because it removes or introduces one of those known defects:
// the class names the deviations that differ. Anything else is an unexplained change of the result.
func classifyC02(m *cypher.RegularQuery, q Query, g *gm.Graph, ref *cyref.Result, base, cfg *gm.Rows, config string) []string {
	cb, okb := Explain(m, q, g, base, 0)
	cc, okc := Explain(m, q, g, cfg, 0)
	if okb && okc {
		in := func(cs []string, c string) bool {
			for _, x := range cs {
				if x == c {
					return true
				}
			}
			return false
		}
		var out []string
		for _, c := range cb {
			if !in(cc, c) {
				out = append(out, "differs-by-known-translation-deviation:"+c)
			}
		}
		for _, c := range cc {
			if !in(cb, c) {
				out = append(out, "differs-by-known-translation-deviation:"+c)
			}
		}
		if len(out) > 0 {
			return out
		}
	}
	// The production (optimised) rows are what openCypher prescribes and the unoptimised baseline is not: the difference
	// is a defect of the translation without lowerings. Two such defects are recorded, each recognised by the shape of
	// the query; any other one is reported under its own class.
	if ref != nil && CompareToReference(ref, cfg) == "" && CompareToReference(ref, base) != "" {
		hasPatternPredicate, zeroLengthBeforeStep := false, false
		cyref.WalkModel(m, func(x cypher.Expression) {
			switch t := x.(type) {
			case *cypher.PatternPredicate:
				hasPatternPredicate = true
			case *cypher.PatternPart:
				seenZero := false
				for _, el := range t.PatternElements {
					if rp, ok := el.AsRelationshipPattern(); ok {
						if seenZero {
							zeroLengthBeforeStep = true
						}
						if rp.Range != nil && rp.Range.StartIndex != nil && *rp.Range.StartIndex == 0 {
							seenZero = true
						}
					}
				}
			}
		})
		switch {
		case hasPatternPredicate:
			return []string{"unoptimised-baseline-wrong:pattern-predicate-between-bound-nodes-is-not-correlated"}
		case zeroLengthBeforeStep:
			return []string{"unoptimised-baseline-wrong:zero-length-expansion-followed-by-step"}
		}
		return []string{featureClass("unoptimised-baseline-wrong", q)}
	}
	return []string{featureClass("configuration-changes-result:"+config, q)}
}
