// Package tv holds what the translation-validation checks C01 and C02 share: the property-graph enumerator, the
// query families, the configuration matrix and the result comparison.
package tv

import (
	"fmt"
	"sort"
	"strconv"
	"strings"

	"github.com/specterops/dawgs/cypher/models/cypher"
	"github.com/specterops/dawgs/graph"

	"verif/cyref"
	"verif/gm"
)

// PropDomain is the value alphabet of one property key; Values[0] is Absent.
type PropDomain struct {
	Key    string
	Values []any
}

// Domain is the attribute alphabet of the graphs enumerated for one query. It is sliced to what the query can observe:
// a kind or property key the query never mentions does not vary (both evaluators are independent of unmentioned
// attributes by construction).
type Domain struct {
	NodeKindSets [][]string
	NodeProps    []PropDomain
	EdgeKinds    []string
	EdgeProps    []PropDomain
	MaxNodes     int
	MaxEdges     int
	// Tame restricts the enumeration to graphs without self loops and without parallel relationships, and the value
	// alphabets to one type per key: the regime in which DAWGS has no recorded deviation from openCypher, used for the
	// query families whose disagreements are not attributed to known findings (pattern family, corpus neighbourhood).
	Tame bool
}

type absent struct{}

// Absent marks "property not set" in a domain.
var Absent = absent{}

// DomainFor derives the sliced domain of an enumerated query text (the feature grammar only uses the kinds
// NodeKind1/2, EdgeKind1/2 and the keys name, v, list, b).
func DomainFor(text string, maxNodes, maxEdges int, budget int, tame bool) Domain {
	has := func(s string) bool { return strings.Contains(text, s) }
	d := Domain{MaxNodes: maxNodes, MaxEdges: maxEdges, Tame: tame}
	k1, k2 := has("NodeKind1"), has("NodeKind2")
	observesLabels := has("labels(")
	switch {
	case (k1 && k2) || observesLabels:
		d.NodeKindSets = [][]string{{}, {"NodeKind1"}, {"NodeKind2"}, {"NodeKind1", "NodeKind2"}}
	case k1:
		d.NodeKindSets = [][]string{{}, {"NodeKind1"}, {"NodeKind1", "NodeKind2"}}
	case k2:
		d.NodeKindSets = [][]string{{}, {"NodeKind2"}, {"NodeKind1", "NodeKind2"}}
	default:
		d.NodeKindSets = [][]string{{"NodeKind1"}}
	}
	if has("name") {
		d.NodeProps = append(d.NodeProps, PropDomain{"name", []any{Absent, "a", "b"}})
	}
	if has(".v") || has("v:") {
		if tame {
			d.NodeProps = append(d.NodeProps, PropDomain{"v", []any{Absent, int64(1), int64(2)}})
		} else {
			d.NodeProps = append(d.NodeProps, PropDomain{"v", []any{Absent, int64(1), int64(2), "1"}})
		}
	}
	if has("list") {
		d.NodeProps = append(d.NodeProps, PropDomain{"list", []any{Absent, []any{"a"}, []any{"b", "a"}, []any{}}})
	}
	if has(".b") || has("b:") {
		d.NodeProps = append(d.NodeProps, PropDomain{"b", []any{Absent, true, false}})
	}
	e1, e2 := has("EdgeKind1"), has("EdgeKind2")
	switch {
	case e1 || has("type("):
		d.EdgeKinds = []string{"EdgeKind1", "EdgeKind2"}
	case e2:
		d.EdgeKinds = []string{"EdgeKind2", "EdgeKind1"}
	default:
		d.EdgeKinds = []string{"EdgeKind1"}
	}
	if has("r.v") || has("r.name") || has("[r") && has(".v") || has("{v:") {
		d.EdgeProps = append(d.EdgeProps, PropDomain{"v", []any{Absent, int64(1)}})
	}
	d.shrink(budget)
	return d
}

// DomainForModel derives the domain from the parsed query itself: the kinds its patterns and kind predicates mention,
// the property keys it looks up, and for each key the literals (and parameter values) it is compared with plus one
// value of another type and one other value of the same type. Used for corpus queries and their neighbourhood.
func DomainForModel(m *cypher.RegularQuery, params map[string]any, maxNodes, maxEdges, budget int, tame bool) Domain {
	d := Domain{MaxNodes: maxNodes, MaxEdges: maxEdges, Tame: tame}
	relVars := map[string]bool{}
	nodeKinds, edgeKinds := map[string]bool{}, map[string]bool{}
	type keyInfo struct {
		onRel, onNode bool
		values        []any
		listValued    bool
	}
	keys := map[string]*keyInfo{}
	key := func(k string) *keyInfo {
		if keys[k] == nil {
			keys[k] = &keyInfo{}
		}
		return keys[k]
	}
	addKinds := func(dst map[string]bool, ks graph.Kinds) {
		for _, k := range ks {
			dst[k.String()] = true
		}
	}
	literal := func(x cypher.Expression) (any, bool) {
		switch t := x.(type) {
		case *cypher.Literal:
			if t.Null {
				return nil, false
			}
			if s, ok := t.Value.(string); ok && len(s) >= 2 && (s[0] == '\'' || s[0] == '"') {
				if dec, err := cyref.DecodeString(s); err == nil {
					return dec, true
				}
				return nil, false
			}
			return cyref.Normalize(t.Value), true
		case *cypher.Parameter:
			if v, ok := params[t.Symbol]; ok {
				return cyref.Normalize(v), true
			}
		}
		return nil, false
	}
	// pass 1: which variables are relationships
	cyref.WalkModel(m, func(n cypher.Expression) {
		if rp, ok := n.(*cypher.RelationshipPattern); ok {
			if rp.Variable != nil {
				relVars[rp.Variable.Symbol] = true
			}
			addKinds(edgeKinds, rp.Kinds)
		}
		if np, ok := n.(*cypher.NodePattern); ok {
			addKinds(nodeKinds, np.Kinds)
		}
	})
	propOf := func(x cypher.Expression) (*keyInfo, bool) {
		pl, ok := x.(*cypher.PropertyLookup)
		if !ok {
			return nil, false
		}
		ki := key(pl.Symbol)
		if v, isVar := pl.Atom.(*cypher.Variable); isVar && relVars[v.Symbol] {
			ki.onRel = true
		} else {
			ki.onNode = true
			if _, isVar := pl.Atom.(*cypher.Variable); !isVar {
				ki.onRel = true // startNode(r).x and the like: be generous
			}
		}
		return ki, true
	}
	addValue := func(ki *keyInfo, v any) {
		switch t := v.(type) {
		case []any:
			for _, e := range t {
				ki.values = append(ki.values, e)
			}
		case nil:
		default:
			ki.values = append(ki.values, v)
		}
	}
	cyref.WalkModel(m, func(n cypher.Expression) {
		switch t := n.(type) {
		case *cypher.KindMatcher:
			if v, ok := t.Reference.(*cypher.Variable); ok && relVars[v.Symbol] {
				addKinds(edgeKinds, t.Kinds)
			} else {
				addKinds(nodeKinds, t.Kinds)
			}
		case *cypher.PropertyLookup:
			propOf(t)
		case *cypher.Properties:
			for k, vx := range t.Map {
				ki := key(k)
				ki.onNode, ki.onRel = true, true
				if v, ok := literal(vx); ok {
					addValue(ki, v)
				}
			}
		case *cypher.Comparison:
			left := t.Left
			for _, p := range t.Partials {
				for _, pair := range [][2]cypher.Expression{{left, p.Right}, {p.Right, left}} {
					if ki, ok := propOf(pair[0]); ok {
						if ll, isList := pair[1].(*cypher.ListLiteral); isList {
							for _, e := range *ll {
								if v, ok := literal(e); ok {
									addValue(ki, v)
								}
							}
						} else if v, ok := literal(pair[1]); ok {
							if p.Operator == cypher.OperatorIn && pair[0] == p.Right {
								ki.listValued = true // <literal> IN n.key
							}
							addValue(ki, v)
						}
					}
					// type(r) = 'K' / 'K' IN labels(n)
					if f, ok := pair[0].(*cypher.FunctionInvocation); ok {
						if v, ok := literal(pair[1]); ok {
							if s, isS := v.(string); isS {
								switch strings.ToLower(f.Name) {
								case "type":
									edgeKinds[s] = true
								case "labels":
									nodeKinds[s] = true
								}
							}
						}
						if ll, isList := pair[1].(*cypher.ListLiteral); isList {
							for _, e := range *ll {
								if v, ok := literal(e); ok {
									if s, isS := v.(string); isS {
										switch strings.ToLower(f.Name) {
										case "type":
											edgeKinds[s] = true
										case "labels":
											nodeKinds[s] = true
										}
									}
								}
							}
						}
					}
				}
				left = p.Right
			}
		case *cypher.IDInCollection:
			if ki, ok := propOf(t.Expression); ok {
				ki.listValued = true
			}
		case *cypher.Unwind:
			if ki, ok := propOf(t.Expression); ok {
				ki.listValued = true
			}
		}
	})

	// kinds
	nk := sortedSet(nodeKinds)
	switch {
	case len(nk) == 0:
		d.NodeKindSets = [][]string{{"NodeKind1"}}
	case len(nk) == 1:
		d.NodeKindSets = [][]string{{}, {nk[0]}, {nk[0], "OtherKind"}}
	case len(nk) == 2:
		d.NodeKindSets = [][]string{{}, {nk[0]}, {nk[1]}, {nk[0], nk[1]}}
	default:
		d.NodeKindSets = [][]string{{}}
		for _, k := range nk {
			d.NodeKindSets = append(d.NodeKindSets, []string{k})
		}
		d.NodeKindSets = append(d.NodeKindSets, []string{nk[0], nk[1]})
	}
	ek := sortedSet(edgeKinds)
	switch {
	case len(ek) == 0:
		d.EdgeKinds = []string{"EdgeKind1"}
	case len(ek) == 1:
		d.EdgeKinds = []string{ek[0], "OtherEdgeKind"}
	default:
		d.EdgeKinds = ek
		if len(d.EdgeKinds) > 3 {
			d.EdgeKinds = d.EdgeKinds[:3]
		}
	}
	// properties
	var ks []string
	for k := range keys {
		ks = append(ks, k)
	}
	sort.Strings(ks)
	for _, k := range ks {
		ki := keys[k]
		vals := []any{Absent}
		seen := map[string]bool{}
		add := func(v any) {
			c := gm.Canon(v)
			if !seen[c] {
				seen[c] = true
				vals = append(vals, v)
			}
		}
		scalars := dedupeScalars(ki.values)
		if ki.listValued {
			switch len(scalars) {
			case 0:
				add([]any{"a"})
				add([]any{})
			default:
				add([]any{scalars[0]})
				add([]any{"zz", scalars[0]})
				add([]any{})
			}
		} else {
			for i, v := range scalars {
				if i < 2 {
					add(v)
				}
			}
			switch {
			case len(scalars) == 0:
				add("a")
				if !tame {
					add(int64(1))
				}
			default:
				// one other value of the same type and the "same" value in another type
				switch t := scalars[0].(type) {
				case string:
					add("zz")
					if _, err := strconv.ParseInt(t, 10, 64); err == nil && !tame {
						n, _ := strconv.ParseInt(t, 10, 64)
						add(n)
					}
				case int64:
					add(t + 1)
					if !tame {
						add(strconv.FormatInt(t, 10))
					}
				case float64:
					add(t + 1)
				case bool:
					add(!t)
				}
			}
		}
		pd := PropDomain{Key: k, Values: vals}
		if ki.onNode {
			d.NodeProps = append(d.NodeProps, pd)
		}
		if ki.onRel {
			d.EdgeProps = append(d.EdgeProps, pd)
		}
	}
	d.shrink(budget)
	return d
}

func sortedSet(m map[string]bool) []string {
	out := make([]string, 0, len(m))
	for k := range m {
		out = append(out, k)
	}
	sort.Strings(out)
	return out
}

func dedupeScalars(vals []any) []any {
	var out []any
	seen := map[string]bool{}
	for _, v := range vals {
		switch v.(type) {
		case string, int64, float64, bool:
			c := gm.Canon(v)
			if !seen[c] {
				seen[c] = true
				out = append(out, v)
			}
		}
	}
	return out
}

// shrink reduces the domain deterministically until the number of graphs fits the budget.
func (d *Domain) shrink(budget int) {
	largest := func(ps []PropDomain) int {
		best, idx := 0, -1
		for i, p := range ps {
			if len(p.Values) > best {
				best, idx = len(p.Values), i
			}
		}
		return idx
	}
	for d.Count() > budget {
		ni, ei := largest(d.NodeProps), largest(d.EdgeProps)
		switch {
		case ni >= 0 && len(d.NodeProps[ni].Values) > 3:
			d.NodeProps[ni].Values = d.NodeProps[ni].Values[:len(d.NodeProps[ni].Values)-1]
		case ei >= 0 && len(d.EdgeProps[ei].Values) > 2:
			d.EdgeProps[ei].Values = d.EdgeProps[ei].Values[:len(d.EdgeProps[ei].Values)-1]
		case len(d.NodeKindSets) > 3:
			d.NodeKindSets = d.NodeKindSets[:len(d.NodeKindSets)-1]
		case ni >= 0 && len(d.NodeProps[ni].Values) > 2:
			d.NodeProps[ni].Values = d.NodeProps[ni].Values[:len(d.NodeProps[ni].Values)-1]
		case len(d.EdgeProps) > 1:
			d.EdgeProps = d.EdgeProps[:len(d.EdgeProps)-1]
		case len(d.EdgeKinds) > 2:
			d.EdgeKinds = d.EdgeKinds[:len(d.EdgeKinds)-1]
		case len(d.NodeProps) > 2:
			d.NodeProps = d.NodeProps[:len(d.NodeProps)-1]
		case d.MaxEdges > 1 && d.MaxEdges >= d.MaxNodes:
			d.MaxEdges--
		case len(d.NodeKindSets) > 2:
			d.NodeKindSets = d.NodeKindSets[:len(d.NodeKindSets)-1]
		case d.MaxNodes > 1:
			d.MaxNodes--
		case d.MaxEdges > 0:
			d.MaxEdges--
		default:
			return
		}
	}
}

func (d Domain) nodeAttrs() int {
	n := len(d.NodeKindSets)
	for _, p := range d.NodeProps {
		n *= len(p.Values)
		if n > 1<<30 {
			return 1 << 30
		}
	}
	return n
}

func (d Domain) edgeAttrs() int {
	n := len(d.EdgeKinds)
	for _, p := range d.EdgeProps {
		n *= len(p.Values)
	}
	return n
}

// Count is the number of graphs Enumerate yields.
func (d Domain) Count() int {
	total := 0
	for n := 1; n <= d.MaxNodes; n++ {
		attrs := 1
		for i := 0; i < n; i++ {
			attrs *= d.nodeAttrs()
			if attrs > 1<<40 {
				return 1 << 40
			}
		}
		tuples := n * n * d.edgeAttrs()
		ms := 0
		c := 1
		for m := 0; m <= d.MaxEdges; m++ {
			if m > 0 {
				c = c * (tuples + m - 1) / m
			}
			ms += c
			if ms > 1<<40 {
				return 1 << 40
			}
		}
		total += attrs * ms
		if total > 1<<40 {
			return 1 << 40
		}
	}
	return total + 1 // the empty graph
}

func (d Domain) String() string {
	var np, ep []string
	for _, p := range d.NodeProps {
		np = append(np, fmt.Sprintf("%s:%d", p.Key, len(p.Values)))
	}
	for _, p := range d.EdgeProps {
		ep = append(ep, fmt.Sprintf("%s:%d", p.Key, len(p.Values)))
	}
	return fmt.Sprintf("nodes<=%d edges<=%d kindsets=%v nodeprops=%v edgekinds=%v edgeprops=%v graphs=%d",
		d.MaxNodes, d.MaxEdges, d.NodeKindSets, np, d.EdgeKinds, ep, d.Count())
}

var nodeIDs = []int64{1, 3, 4, 9}

func propCombos(ps []PropDomain) []map[string]any {
	out := []map[string]any{{}}
	for _, p := range ps {
		var next []map[string]any
		for _, base := range out {
			for _, v := range p.Values {
				m := make(map[string]any, len(base)+1)
				for k, x := range base {
					m[k] = x
				}
				if v != Absent {
					m[p.Key] = v
				}
				next = append(next, m)
			}
		}
		out = next
	}
	return out
}

// Enumerate yields every graph of the domain: the empty graph, then by number of nodes, node attribute assignment and
// edge multiset (parallel edges, antiparallel edges and self loops included). The graph handed to yield is reused.
func (d Domain) Enumerate(yield func(g *gm.Graph) bool) {
	g := &gm.Graph{}
	if !yield(g) {
		return
	}
	type attr struct {
		kinds []string
		props map[string]any
	}
	var attrs []attr
	nodeProps := propCombos(d.NodeProps)
	for _, ks := range d.NodeKindSets {
		for _, p := range nodeProps {
			attrs = append(attrs, attr{ks, p})
		}
	}
	type shape struct {
		s, e  int
		kind  string
		props map[string]any
	}
	edgeProps := propCombos(d.EdgeProps)
	for n := 1; n <= d.MaxNodes; n++ {
		var shapes []shape
		for s := 0; s < n; s++ {
			for e := 0; e < n; e++ {
				for _, k := range d.EdgeKinds {
					for _, p := range edgeProps {
						shapes = append(shapes, shape{s, e, k, p})
					}
				}
			}
		}
		assign := make([]int, n)
		for {
			g.Nodes = g.Nodes[:0]
			for i := 0; i < n; i++ {
				a := attrs[assign[i]]
				g.Nodes = append(g.Nodes, gm.Node{ID: nodeIDs[i], Kinds: a.kinds, Props: a.props})
			}
			var pick func(start int, chosen []int) bool
			pick = func(start int, chosen []int) bool {
				g.Edges = g.Edges[:0]
				for i, si := range chosen {
					sh := shapes[si]
					g.Edges = append(g.Edges, gm.Edge{ID: int64(10 + 3*i), Start: nodeIDs[sh.s], End: nodeIDs[sh.e], Kind: sh.kind, Props: sh.props})
				}
				if !yield(g) {
					return false
				}
				if len(chosen) == d.MaxEdges {
					return true
				}
				for si := start; si < len(shapes); si++ {
					if d.Tame {
						if shapes[si].s == shapes[si].e {
							continue // self loop
						}
						dup := false
						for _, c := range chosen {
							dup = dup || (shapes[c].s == shapes[si].s && shapes[c].e == shapes[si].e)
						}
						if dup {
							continue // parallel relationship
						}
					}
					if !pick(si, append(chosen, si)) {
						return false
					}
				}
				return true
			}
			if !pick(0, nil) {
				return
			}
			i := 0
			for ; i < n; i++ {
				assign[i]++
				if assign[i] < len(attrs) {
					break
				}
				assign[i] = 0
			}
			if i == n {
				break
			}
		}
	}
}

// CloneGraph makes a deep copy (Enumerate reuses its graph).
func CloneGraph(g *gm.Graph) *gm.Graph {
	o := &gm.Graph{}
	for _, n := range g.Nodes {
		o.Nodes = append(o.Nodes, gm.Node{ID: n.ID, Kinds: append([]string{}, n.Kinds...), Props: cloneProps(n.Props)})
	}
	for _, e := range g.Edges {
		o.Edges = append(o.Edges, gm.Edge{ID: e.ID, Start: e.Start, End: e.End, Kind: e.Kind, Props: cloneProps(e.Props)})
	}
	return o
}

func cloneProps(p map[string]any) map[string]any {
	o := make(map[string]any, len(p))
	for k, v := range p {
		o[k] = v
	}
	return o
}
