// Package tv holds what the translation-validation checks C01 and C02 share: the property-graph enumerator, the
// configuration matrix and the result comparison.
package tv

import (
	"fmt"
	"strings"

	"verif/gm"
)

// Domain is the attribute alphabet of the graphs enumerated for one query. It is sliced to what the query text can
// observe: a kind, property key or edge kind the query never mentions keeps a single value (both evaluators are
// independent of unmentioned attributes by construction; a non-sliced baseline pass guards the assumption).
type Domain struct {
	NodeKindSets [][]string
	Names        []any // nil = absent
	Vs           []any
	Lists        []any
	Bs           []any
	EdgeKinds    []string
	EdgeVs       []any
	MaxNodes     int
	MaxEdges     int
}

type absent struct{}

// Absent marks "property not set" in a domain.
var Absent = absent{}

// DomainFor derives the sliced domain of a query text.
func DomainFor(text string, maxNodes, maxEdges int, budget int) Domain {
	has := func(s string) bool { return strings.Contains(text, s) }
	d := Domain{MaxNodes: maxNodes, MaxEdges: maxEdges}
	k1, k2 := has("NodeKind1"), has("NodeKind2")
	observesLabels := has("labels(")
	switch {
	case (k1 && k2) || observesLabels:
		d.NodeKindSets = [][]string{{}, {"NodeKind1"}, {"NodeKind2"}, {"NodeKind1", "NodeKind2"}}
	case k1:
		d.NodeKindSets = [][]string{{}, {"NodeKind1"}, {"NodeKind1", "NodeKind2"}}
	case k2:
		d.NodeKindSets = [][]string{{}, {"NodeKind2"}, {"NodeKind1", "NodeKind2"}}
	default:
		d.NodeKindSets = [][]string{{"NodeKind1"}}
	}
	d.Names = []any{Absent}
	if has("name") {
		d.Names = []any{Absent, "a", "b"}
	}
	d.Vs = []any{Absent}
	if has(".v") || has("v:") {
		d.Vs = []any{Absent, int64(1), int64(2), "1"}
	}
	d.Lists = []any{Absent}
	if has("list") {
		d.Lists = []any{Absent, []any{"a"}, []any{"b", "a"}, []any{}}
	}
	d.Bs = []any{Absent}
	if has(".b") || has("b:") {
		d.Bs = []any{Absent, true, false}
	}
	e1, e2 := has("EdgeKind1"), has("EdgeKind2")
	observesType := has("type(")
	switch {
	case (e1 && e2) || observesType:
		d.EdgeKinds = []string{"EdgeKind1", "EdgeKind2"}
	case e1:
		d.EdgeKinds = []string{"EdgeKind1", "EdgeKind2"}
	case e2:
		d.EdgeKinds = []string{"EdgeKind2", "EdgeKind1"}
	default:
		d.EdgeKinds = []string{"EdgeKind1"}
	}
	d.EdgeVs = []any{Absent}
	if has("r.v") || has("r.name") || has("[r") && has(".v") || has("{v:") {
		d.EdgeVs = []any{Absent, int64(1)}
	}
	// shrink deterministically until the number of graphs fits the budget
	for d.Count() > budget {
		switch {
		case len(d.Vs) > 3:
			d.Vs = d.Vs[:3]
		case len(d.Lists) > 3:
			d.Lists = d.Lists[:3]
		case len(d.NodeKindSets) > 3:
			d.NodeKindSets = d.NodeKindSets[:3]
		case len(d.Names) > 2 && len(d.Vs) > 2:
			d.Vs = d.Vs[:2]
		case len(d.Bs) > 2:
			d.Bs = d.Bs[:2]
		case len(d.Lists) > 2:
			d.Lists = d.Lists[:2]
		case d.MaxEdges > 1 && d.MaxNodes > 1 && d.MaxEdges >= d.MaxNodes:
			d.MaxEdges--
		case len(d.Vs) > 2:
			d.Vs = d.Vs[:2]
		case len(d.NodeKindSets) > 2:
			d.NodeKindSets = d.NodeKindSets[:2]
		case d.MaxNodes > 1:
			d.MaxNodes--
		case d.MaxEdges > 0:
			d.MaxEdges--
		default:
			return d
		}
	}
	return d
}

func (d Domain) nodeAttrs() int {
	return len(d.NodeKindSets) * len(d.Names) * len(d.Vs) * len(d.Lists) * len(d.Bs)
}

// Count is the number of graphs Enumerate yields.
func (d Domain) Count() int {
	total := 0
	for n := 1; n <= d.MaxNodes; n++ {
		attrs := 1
		for i := 0; i < n; i++ {
			attrs *= d.nodeAttrs()
			if attrs > 1<<40 {
				return 1 << 40
			}
		}
		tuples := n * n * len(d.EdgeKinds) * len(d.EdgeVs)
		// multisets of size <= MaxEdges over `tuples` edge shapes
		ms := 0
		c := 1
		for m := 0; m <= d.MaxEdges; m++ {
			if m > 0 {
				c = c * (tuples + m - 1) / m
			}
			ms += c
		}
		total += attrs * ms
		if total > 1<<40 {
			return 1 << 40
		}
	}
	return total + 1 // the empty graph
}

func (d Domain) String() string {
	return fmt.Sprintf("nodes<=%d edges<=%d kindsets=%d names=%d vs=%d lists=%d bs=%d edgekinds=%d edgevs=%d graphs=%d",
		d.MaxNodes, d.MaxEdges, len(d.NodeKindSets), len(d.Names), len(d.Vs), len(d.Lists), len(d.Bs), len(d.EdgeKinds), len(d.EdgeVs), d.Count())
}

var nodeIDs = []int64{1, 3, 4, 9}

// Enumerate yields every graph of the domain: the empty graph, then by number of nodes, node attribute assignment and
// edge multiset (parallel edges, antiparallel edges and self loops included). The graph handed to yield is reused.
func (d Domain) Enumerate(yield func(g *gm.Graph) bool) {
	g := &gm.Graph{}
	if !yield(g) {
		return
	}
	type attr struct {
		kinds []string
		props map[string]any
	}
	var attrs []attr
	for _, ks := range d.NodeKindSets {
		for _, nm := range d.Names {
			for _, v := range d.Vs {
				for _, l := range d.Lists {
					for _, b := range d.Bs {
						p := map[string]any{}
						if nm != Absent {
							p["name"] = nm
						}
						if v != Absent {
							p["v"] = v
						}
						if l != Absent {
							p["list"] = l
						}
						if b != Absent {
							p["b"] = b
						}
						attrs = append(attrs, attr{ks, p})
					}
				}
			}
		}
	}
	type shape struct {
		s, e  int
		kind  string
		props map[string]any
	}
	for n := 1; n <= d.MaxNodes; n++ {
		var shapes []shape
		for s := 0; s < n; s++ {
			for e := 0; e < n; e++ {
				for _, k := range d.EdgeKinds {
					for _, v := range d.EdgeVs {
						p := map[string]any{}
						if v != Absent {
							p["v"] = v
						}
						shapes = append(shapes, shape{s, e, k, p})
					}
				}
			}
		}
		assign := make([]int, n)
		for {
			g.Nodes = g.Nodes[:0]
			for i := 0; i < n; i++ {
				a := attrs[assign[i]]
				g.Nodes = append(g.Nodes, gm.Node{ID: nodeIDs[i], Kinds: a.kinds, Props: a.props})
			}
			// edge multisets: non-decreasing index sequences of length 0..MaxEdges
			var pick func(start int, chosen []int) bool
			pick = func(start int, chosen []int) bool {
				g.Edges = g.Edges[:0]
				for i, si := range chosen {
					sh := shapes[si]
					g.Edges = append(g.Edges, gm.Edge{ID: int64(10 + 3*i), Start: nodeIDs[sh.s], End: nodeIDs[sh.e], Kind: sh.kind, Props: sh.props})
				}
				if !yield(g) {
					return false
				}
				if len(chosen) == d.MaxEdges {
					return true
				}
				for si := start; si < len(shapes); si++ {
					if !pick(si, append(chosen, si)) {
						return false
					}
				}
				return true
			}
			if !pick(0, nil) {
				return
			}
			// next assignment
			i := 0
			for ; i < n; i++ {
				assign[i]++
				if assign[i] < len(attrs) {
					break
				}
				assign[i] = 0
			}
			if i == n {
				break
			}
		}
	}
}

// CloneGraph makes a deep copy (Enumerate reuses its graph).
func CloneGraph(g *gm.Graph) *gm.Graph {
	o := &gm.Graph{}
	for _, n := range g.Nodes {
		o.Nodes = append(o.Nodes, gm.Node{ID: n.ID, Kinds: append([]string{}, n.Kinds...), Props: cloneProps(n.Props)})
	}
	for _, e := range g.Edges {
		o.Edges = append(o.Edges, gm.Edge{ID: e.ID, Start: e.Start, End: e.End, Kind: e.Kind, Props: cloneProps(e.Props)})
	}
	return o
}

func cloneProps(p map[string]any) map[string]any {
	o := make(map[string]any, len(p))
	for k, v := range p {
		o[k] = v
	}
	return o
}
