package tv

import (
	"fmt"
	"regexp"
	"sort"
	"strings"

	"verif/enum/cyq"
)

// PatternFamily enumerates path patterns with up to maxHops relationship steps, every step drawn from a fixed set of
// step shapes (the three directions and variable-length ranges in both directions), optionally decorated with one kind
// on one node or one relationship position. The feature grammar of enum/cyq only has two steps and one variable-length
// shape in the second position; defects of the translator that need a third step, or a particular range/direction in
// a later position, live here.
func PatternFamily(maxHops int) []Query {
	steps := []struct{ name, text string }{
		{"-->", "-[%s]->"}, {"<--", "<-[%s]-"}, {"--", "-[%s]-"},
		{"->[*1..]", "-[%s*1..]->"}, {"<-[*1..]", "<-[%s*1..]-"},
		{"->[*2..2]", "-[%s*2..2]->"}, {"<-[*2..2]", "<-[%s*2..2]-"},
		{"->[*0..1]", "-[%s*0..1]->"},
	}
	vars := []string{"a", "b", "c", "d"}
	var out []Query
	var rec func(hops []int)
	emit := func(hops []int) {
		n := len(hops)
		build := func(nodeKindAt, edgeKindAt int, edgeKind string) string {
			var sb strings.Builder
			sb.WriteString("MATCH ")
			for i := 0; i <= n; i++ {
				sb.WriteString("(" + vars[i])
				if nodeKindAt == i {
					sb.WriteString(":NodeKind2")
				}
				sb.WriteString(")")
				if i < n {
					k := ""
					if edgeKindAt == i {
						k = ":" + edgeKind
					}
					sb.WriteString(fmt.Sprintf(steps[hops[i]].text, k))
				}
			}
			sb.WriteString(" RETURN " + vars[0] + ", " + vars[n])
			return sb.String()
		}
		var names []string
		for i, h := range hops {
			names = append(names, fmt.Sprintf("step%d:%s", i+1, steps[h].name))
		}
		add := func(text string, extra ...string) {
			out = append(out, Query{Text: text, Params: DefaultParams, Source: "pattern-family", Features: append(append([]string{}, names...), extra...)})
		}
		add(build(-1, -1, ""))
		for i := 0; i <= n; i++ {
			add(build(i, -1, ""), fmt.Sprintf("kind@node%d", i))
		}
		for i := 0; i < n; i++ {
			add(build(-1, i, "EdgeKind1"), fmt.Sprintf("kind@step%d", i+1))
		}
	}
	rec = func(hops []int) {
		if len(hops) >= 2 {
			emit(hops)
		}
		if len(hops) == maxHops {
			return
		}
		for s := range steps {
			rec(append(append([]int{}, hops...), s))
		}
	}
	rec(nil)
	return out
}

var (
	reArrowOut = regexp.MustCompile(`-\[([^\]]*)\]->`)
	reArrowIn  = regexp.MustCompile(`<-\[([^\]]*)\]-`)
	reRange    = regexp.MustCompile(`\*(\d*)(\.\.)?(\d*)`)
	reOrderKey = regexp.MustCompile(`(?i)(order by [^,]+?)( asc| desc)?( skip| limit|,|$)`)
)

// Neighbourhood returns the single-edit variants of a query text from a fixed edit alphabet: sort direction flipped,
// one relationship step's direction flipped or made undirected, one variable-length range replaced, DISTINCT toggled,
// LIMIT 1 / SKIP 1 appended or the limit changed, count(x) -> count(DISTINCT x), one AND <-> OR, one = <-> <>.
// Variants the parser or translator rejects are dropped later.
func Neighbourhood(text string) []string {
	seen := map[string]bool{text: true}
	var out []string
	add := func(v string) {
		if v != "" && !seen[v] {
			seen[v] = true
			out = append(out, v)
		}
	}
	lower := strings.ToLower(text)
	replaceNth := func(re *regexp.Regexp, n int, f func(m []string) string) string {
		idx := re.FindAllStringSubmatchIndex(text, -1)
		if n >= len(idx) {
			return ""
		}
		loc := idx[n]
		var groups []string
		for g := 0; g < len(loc)/2; g++ {
			if loc[2*g] >= 0 {
				groups = append(groups, text[loc[2*g]:loc[2*g+1]])
			} else {
				groups = append(groups, "")
			}
		}
		return text[:loc[0]] + f(groups) + text[loc[1]:]
	}
	// directions
	for n := 0; n < 4; n++ {
		add(replaceNth(reArrowOut, n, func(m []string) string { return "<-[" + m[1] + "]-" }))
		add(replaceNth(reArrowOut, n, func(m []string) string { return "-[" + m[1] + "]-" }))
		add(replaceNth(reArrowIn, n, func(m []string) string { return "-[" + m[1] + "]->" }))
	}
	add(strings.Replace(text, "-->", "<--", 1))
	add(strings.Replace(text, "<--", "-->", 1))
	// ranges
	for n := 0; n < 3; n++ {
		for _, r := range []string{"*1..", "*2..", "*0..", "*..2", "*2..2", "*1..1", "*1..2"} {
			r := r
			add(replaceNth(reRange, n, func(m []string) string { return r }))
		}
	}
	// sort direction
	if i := strings.Index(lower, " desc"); i >= 0 {
		add(text[:i] + " asc" + text[i+5:])
	}
	if i := strings.Index(lower, " asc"); i >= 0 && !strings.HasPrefix(lower[i:], " ascending") {
		add(text[:i] + " desc" + text[i+4:])
	}
	if strings.Contains(lower, "order by") && !strings.Contains(lower, " desc") && !strings.Contains(lower, " asc") {
		add(reOrderKey.ReplaceAllString(text, "$1 desc$3"))
	}
	// distinct
	for _, kw := range []string{"return ", "with "} {
		if i := strings.Index(lower, kw+"distinct "); i >= 0 {
			add(text[:i+len(kw)] + text[i+len(kw)+len("distinct "):])
		} else if i := strings.LastIndex(lower, kw); i >= 0 {
			add(text[:i+len(kw)] + "distinct " + text[i+len(kw):])
		}
	}
	// limit / skip
	if !strings.Contains(lower, " limit ") {
		add(text + " limit 1")
	} else {
		add(regexp.MustCompile(`(?i) limit \d+`).ReplaceAllString(text, " limit 1"))
		add(regexp.MustCompile(`(?i) limit \d+`).ReplaceAllString(text, ""))
	}
	if !strings.Contains(lower, " skip ") {
		if i := strings.LastIndex(lower, " limit "); i >= 0 {
			add(text[:i] + " skip 1" + text[i:])
		} else {
			add(text + " skip 1")
		}
	}
	// aggregates
	if i := strings.Index(lower, "count("); i >= 0 && !strings.HasPrefix(lower[i:], "count(distinct") && !strings.HasPrefix(lower[i:], "count(*") {
		add(text[:i+6] + "distinct " + text[i+6:])
	}
	// connectives and comparison
	if i := strings.Index(lower, " and "); i >= 0 {
		add(text[:i] + " or " + text[i+5:])
	}
	if i := strings.Index(lower, " or "); i >= 0 {
		add(text[:i] + " and " + text[i+4:])
	}
	if i := strings.Index(text, " = "); i >= 0 {
		add(text[:i] + " <> " + text[i+3:])
	}
	if i := strings.Index(text, " <> "); i >= 0 {
		add(text[:i] + " = " + text[i+4:])
	}
	return out
}

// CorpusQueries returns the read queries of the repository's corpora (golden translation cases, integration cases,
// parser cases) that parse, and optionally their single-edit neighbourhood.
func CorpusQueries(withNeighbourhood bool) []Query {
	seen := map[string]bool{}
	var out []Query
	var texts []string
	for _, c := range cyq.Corpus() {
		texts = append(texts, c.Text)
	}
	sort.Strings(texts)
	for _, t := range texts {
		if seen[t] {
			continue
		}
		seen[t] = true
		if _, err := parse(t); err != nil {
			continue
		}
		out = append(out, Query{Text: t, Source: "corpus", Features: []string{"corpus:" + t}})
		if withNeighbourhood {
			for _, v := range Neighbourhood(t) {
				if !seen[v] {
					seen[v] = true
					if _, err := parse(v); err == nil {
						out = append(out, Query{Text: v, Source: "corpus-neighbourhood", Features: []string{"neighbour-of:" + t, "edit:" + v}})
					}
				}
			}
		}
	}
	return out
}
