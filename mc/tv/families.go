package tv

import (
	"fmt"
	"regexp"
	"sort"
	"strings"

	"verif/enum/cyq"
)

// PatternFamily enumerates path patterns with up to maxHops relationship steps, every step drawn from a fixed set of
// step shapes (the three directions and variable-length ranges in both directions), optionally decorated with one kind
// on one node or one relationship position. The feature grammar of enum/cyq only has two steps and one variable-length
// shape in the second position; defects of the translator that need a third step, or a particular range/direction in
// a later position, live here.
func PatternFamily(maxHops int) []Query {
	steps := []struct{ name, text string }{
		{"-->", "-[%s]->"}, {"<--", "<-[%s]-"}, {"--", "-[%s]-"},
		{"->[*1..]", "-[%s*1..]->"}, {"<-[*1..]", "<-[%s*1..]-"},
		{"->[*2..2]", "-[%s*2..2]->"}, {"<-[*2..2]", "<-[%s*2..2]-"},
		{"->[*0..1]", "-[%s*0..1]->"},
	}
	vars := []string{"a", "b", "c", "d"}
	var out []Query
	var rec func(hops []int)
	emit := func(hops []int) {
		n := len(hops)
		build := func(nodeKindAt, edgeKindAt int, edgeKind string) string {
			var sb strings.Builder
			sb.WriteString("MATCH ")
			for i := 0; i <= n; i++ {
				sb.WriteString("(" + vars[i])
				if nodeKindAt == i {
					sb.WriteString(":NodeKind2")
				}
				sb.WriteString(")")
				if i < n {
					k := ""
					if edgeKindAt == i {
						k = ":" + edgeKind
					}
					sb.WriteString(fmt.Sprintf(steps[hops[i]].text, k))
				}
			}
			sb.WriteString(" RETURN " + vars[0] + ", " + vars[n])
			return sb.String()
		}
		var names []string
		for i, h := range hops {
			names = append(names, fmt.Sprintf("step%d:%s", i+1, steps[h].name))
		}
		add := func(text string, extra ...string) {
			out = append(out, Query{Text: text, Params: DefaultParams, Source: "pattern-family", Features: append(append([]string{}, names...), extra...)})
		}
		add(build(-1, -1, ""))
		for i := 0; i <= n; i++ {
			add(build(i, -1, ""), fmt.Sprintf("kind@node%d", i))
		}
		for i := 0; i < n; i++ {
			add(build(-1, i, "EdgeKind1"), fmt.Sprintf("kind@step%d", i+1))
		}
	}
	rec = func(hops []int) {
		if len(hops) >= 2 {
			emit(hops)
		}
		if len(hops) == maxHops {
			return
		}
		for s := range steps {
			rec(append(append([]int{}, hops...), s))
		}
	}
	rec(nil)
	return out
}

var (
	reArrowOut = regexp.MustCompile(`-\[([^\]]*)\]->`)
	reArrowIn  = regexp.MustCompile(`<-\[([^\]]*)\]-`)
	reRange    = regexp.MustCompile(`\*(\d*)(\.\.)?(\d*)`)
	reOrderKey = regexp.MustCompile(`(?i)(order by [^,]+?)( asc| desc)?( skip| limit|,|$)`)
)

// Neighbourhood returns the single-edit variants of a query text from a fixed edit alphabet: sort direction flipped,
// one relationship step's direction flipped or made undirected, one variable-length range replaced, DISTINCT toggled,
// LIMIT 1 / SKIP 1 appended or the limit changed, count(x) -> count(DISTINCT x), one AND <-> OR, one = <-> <>.
// Variants the parser or translator rejects are dropped later.
func Neighbourhood(text string) []string {
	seen := map[string]bool{text: true}
	var out []string
	add := func(v string) {
		if v != "" && !seen[v] {
			seen[v] = true
			out = append(out, v)
		}
	}
	lower := strings.ToLower(text)
	replaceNth := func(re *regexp.Regexp, n int, f func(m []string) string) string {
		idx := re.FindAllStringSubmatchIndex(text, -1)
		if n >= len(idx) {
			return ""
		}
		loc := idx[n]
		var groups []string
		for g := 0; g < len(loc)/2; g++ {
			if loc[2*g] >= 0 {
				groups = append(groups, text[loc[2*g]:loc[2*g+1]])
			} else {
				groups = append(groups, "")
			}
		}
		return text[:loc[0]] + f(groups) + text[loc[1]:]
	}
	// directions
	for n := 0; n < 4; n++ {
		add(replaceNth(reArrowOut, n, func(m []string) string { return "<-[" + m[1] + "]-" }))
		add(replaceNth(reArrowOut, n, func(m []string) string { return "-[" + m[1] + "]-" }))
		add(replaceNth(reArrowIn, n, func(m []string) string { return "-[" + m[1] + "]->" }))
	}
	add(strings.Replace(text, "-->", "<--", 1))
	add(strings.Replace(text, "<--", "-->", 1))
	// ranges
	for n := 0; n < 3; n++ {
		for _, r := range []string{"*1..", "*2..", "*0..", "*..2", "*2..2", "*1..1", "*1..2"} {
			r := r
			add(replaceNth(reRange, n, func(m []string) string { return r }))
		}
	}
	// sort direction
	if i := strings.Index(lower, " desc"); i >= 0 {
		add(text[:i] + " asc" + text[i+5:])
	}
	if i := strings.Index(lower, " asc"); i >= 0 && !strings.HasPrefix(lower[i:], " ascending") {
		add(text[:i] + " desc" + text[i+4:])
	}
	if strings.Contains(lower, "order by") && !strings.Contains(lower, " desc") && !strings.Contains(lower, " asc") {
		add(reOrderKey.ReplaceAllString(text, "$1 desc$3"))
	}
	// distinct
	for _, kw := range []string{"return ", "with "} {
		if i := strings.Index(lower, kw+"distinct "); i >= 0 {
			add(text[:i+len(kw)] + text[i+len(kw)+len("distinct "):])
		} else if i := strings.LastIndex(lower, kw); i >= 0 {
			add(text[:i+len(kw)] + "distinct " + text[i+len(kw):])
		}
	}
	// limit / skip
	if !strings.Contains(lower, " limit ") {
		add(text + " limit 1")
	} else {
		add(regexp.MustCompile(`(?i) limit \d+`).ReplaceAllString(text, " limit 1"))
		add(regexp.MustCompile(`(?i) limit \d+`).ReplaceAllString(text, ""))
	}
	if !strings.Contains(lower, " skip ") {
		if i := strings.LastIndex(lower, " limit "); i >= 0 {
			add(text[:i] + " skip 1" + text[i:])
		} else {
			add(text + " skip 1")
		}
	}
	// aggregates
	if i := strings.Index(lower, "count("); i >= 0 && !strings.HasPrefix(lower[i:], "count(distinct") && !strings.HasPrefix(lower[i:], "count(*") {
		add(text[:i+6] + "distinct " + text[i+6:])
	}
	// connectives and comparison
	if i := strings.Index(lower, " and "); i >= 0 {
		add(text[:i] + " or " + text[i+5:])
	}
	if i := strings.Index(lower, " or "); i >= 0 {
		add(text[:i] + " and " + text[i+4:])
	}
	if i := strings.Index(text, " = "); i >= 0 {
		add(text[:i] + " <> " + text[i+3:])
	}
	if i := strings.Index(text, " <> "); i >= 0 {
		add(text[:i] + " = " + text[i+4:])
	}
	return out
}

// CorpusQueries returns the read queries of the repository's corpora (golden translation cases, integration cases,
// parser cases) that parse, and optionally their single-edit neighbourhood.
func CorpusQueries(withNeighbourhood bool) []Query {
	seen := map[string]bool{}
	var out []Query
	var texts []string
	for _, c := range cyq.Corpus() {
		texts = append(texts, c.Text)
	}
	sort.Strings(texts)
	for _, t := range texts {
		if seen[t] {
			continue
		}
		seen[t] = true
		if _, err := parse(t); err != nil {
			continue
		}
		out = append(out, Query{Text: t, Source: "corpus", Features: []string{"corpus:" + t}})
		if withNeighbourhood {
			for _, v := range Neighbourhood(t) {
				if !seen[v] {
					seen[v] = true
					if _, err := parse(v); err == nil {
						out = append(out, Query{Text: v, Source: "corpus-neighbourhood", Features: []string{"neighbour-of:" + t, "edit:" + v}})
					}
				}
			}
		}
	}
	return out
}

// TailFamily crosses a few reading clauses with projections (plain, aggregating, aggregates nested in expressions,
// path functions) and result modifiers (DISTINCT, ORDER BY, SKIP, LIMIT): the shapes the projection side of the
// translator and its fast paths (count store, limit pushdown, aggregate traversal counts, collect membership) decide on.
func TailFamily() []Query {
	type base struct {
		name, text string
		path       bool
	}
	bases := []base{
		{"node", "MATCH (m)", false},
		{"kind-node", "MATCH (m:NodeKind1)", false},
		{"out", "MATCH (n)-[r]->(m)", false},
		{"in", "MATCH (n)<-[r]-(m)", false},
		{"undirected", "MATCH (n)-[r]-(m)", false},
		{"anonymous-out", "MATCH ()-[r]->()", false},
		{"anonymous-undirected", "MATCH ()-[r]-()", false},
		{"anonymous-undirected-kind", "MATCH ()-[r:EdgeKind1]-()", false},
		{"kinds", "MATCH (n:NodeKind1)-[r:EdgeKind1]->(m)", false},
		{"expansion", "MATCH (n)-[:EdgeKind1*1..]->(m)", false},
		{"two-matches", "MATCH (n:NodeKind1) MATCH (n)-[:EdgeKind1*1..]->(m:NodeKind2)", false},
		{"path", "MATCH p = (n)-[r]->(m)", true},
		{"path-two-steps", "MATCH p = (n)-[:EdgeKind1*0..]->(:NodeKind2)-[:EdgeKind2]->(m:NodeKind1) WHERE m.name = 'a'", true},
		{"path-expansion", "MATCH p = (n)-[:EdgeKind1*1..2]->(m)", true},
	}
	type proj struct {
		name, text string
		orderKey   string // an ORDER BY key that makes sense for this projection ("" = none)
		needs      string // variables the projection mentions besides m
	}
	projs := []proj{
		{"m", "m", "id(m)", ""},
		{"m.name", "m.name", "m.name", ""},
		{"n,m", "n, m", "id(n), id(m)", "n"},
		{"count(m)", "count(m)", "", ""},
		{"count(r)", "count(r)", "", "r"},
		{"count(*)", "count(*)", "", ""},
		{"count(distinct m)", "count(DISTINCT m)", "", ""},
		{"count(m)+1", "count(m) + 1", "", ""},
		{"collect(m.name)", "collect(m.name)", "", ""},
		{"size(collect(m.name))", "size(collect(m.name))", "", ""},
		{"sum(m.v)", "sum(m.v)", "", ""},
		{"min-max", "min(m.v), max(m.v)", "", ""},
		{"n,count(m)", "n, count(m) AS c", "c, id(n)", "n"},
		{"n,count(m) by count", "n, count(m) AS c", "c", "n"},
		{"n.name,collect", "n.name, collect(m.name)", "n.name", "n"},
		{"length(p)", "length(p)", "length(p)", "p"},
		{"relationships(p)", "relationships(p)", "", "p"},
		{"nodes(p)", "nodes(p)", "", "p"},
		{"p", "p", "", "p"},
	}
	tails := []struct{ name, text string }{
		{"", ""}, {"limit", " LIMIT 1"}, {"skip", " SKIP 1"},
		{"order", " ORDER BY %s"}, {"order-desc", " ORDER BY %s DESC"},
		{"order-limit", " ORDER BY %s LIMIT 1"}, {"order-desc-limit", " ORDER BY %s DESC LIMIT 1"},
		{"order-skip", " ORDER BY %s SKIP 1"},
	}
	var out []Query
	for _, b := range bases {
		for _, p := range projs {
			if p.needs == "p" && !b.path {
				continue
			}
			if (p.needs == "n" || p.needs == "r") && !strings.Contains(b.text, "("+p.needs) && !strings.Contains(b.text, "["+p.needs) {
				continue
			}
			if !strings.Contains(b.text, "(m") && p.text != "count(*)" && p.text != "count(r)" {
				continue
			}
			for _, t := range tails {
				if strings.Contains(t.text, "%s") && p.orderKey == "" {
					continue
				}
				for _, distinct := range []string{"", "DISTINCT "} {
					if distinct != "" && (t.name != "" || strings.Contains(p.text, "(")) {
						continue
					}
					tail := t.text
					if strings.Contains(tail, "%s") {
						keys := strings.Split(p.orderKey, ", ")
						if strings.Contains(tail, "DESC") {
							for i := range keys {
								keys[i] += " DESC"
							}
							tail = strings.Replace(tail, "%s DESC", strings.Join(keys, ", "), 1)
						} else {
							tail = fmt.Sprintf(tail, strings.Join(keys, ", "))
						}
					}
					text := b.text + " RETURN " + distinct + p.text + tail
					feats := []string{"base:" + b.name, "projection:" + p.name}
					if t.name != "" {
						feats = append(feats, "tail:"+t.name)
					}
					if distinct != "" {
						feats = append(feats, "distinct")
					}
					out = append(out, Query{Text: text, Params: DefaultParams, Source: "tail-family", Features: feats})
				}
			}
		}
	}
	// aggregation carried through WITH, then ordered and limited; collections carried through WITH and tested with IN
	for _, t := range []string{
		"MATCH (n:NodeKind1) MATCH (n)-[:EdgeKind1*1..]->(m:NodeKind2) WITH n, count(m) AS c RETURN n, c ORDER BY c ASC LIMIT 1",
		"MATCH (n:NodeKind1) MATCH (n)-[:EdgeKind1*1..]->(m:NodeKind2) WITH n, count(m) AS c RETURN n, c ORDER BY c DESC LIMIT 1",
		"MATCH (n:NodeKind1) MATCH (n)-[:EdgeKind1*1..]->(m:NodeKind2) WITH n, count(m) AS c RETURN n, c ORDER BY c DESC",
		"MATCH (n:NodeKind1) MATCH (n)-[:EdgeKind1*1..]->(m:NodeKind2) WITH n, count(m) AS c RETURN n, c ORDER BY c",
		"MATCH (n:NodeKind1) MATCH (n)-[:EdgeKind1*1..]->(m:NodeKind2) WITH n, count(m) AS c WHERE c > 1 RETURN n, c",
		"MATCH (n:NodeKind1) MATCH (n)-[:EdgeKind1*0..]->(m:NodeKind1) WITH n, count(m) AS c RETURN n, c ORDER BY c DESC LIMIT 3",
		"MATCH (n:NodeKind1) MATCH (n)-[:EdgeKind1*0..]->(m:NodeKind1) WITH n, count(m) AS c RETURN n, c ORDER BY c DESC",
		"MATCH (n:NodeKind1) MATCH (n)-[:EdgeKind1*0..]->(m) WITH n, count(m) AS c RETURN n, c ORDER BY c DESC LIMIT 1",
		"MATCH (n:NodeKind1) MATCH (n)-[:EdgeKind1*2..]->(m:NodeKind2) WITH n, count(m) AS c RETURN n, c ORDER BY c DESC LIMIT 3",
		"MATCH (n:NodeKind1) MATCH (n)-[:EdgeKind1*1..2]->(m:NodeKind2) WITH n, count(m) AS c RETURN n, c ORDER BY c DESC LIMIT 3",
		"MATCH (n:NodeKind1) MATCH (n)<-[:EdgeKind1*1..]-(m:NodeKind2) WITH n, count(m) AS c RETURN n, c ORDER BY c DESC LIMIT 3",
		"MATCH (n:NodeKind1) MATCH (n)-[:EdgeKind1|EdgeKind2*1..]->(m:NodeKind2) WITH DISTINCT n, count(m) AS c RETURN n ORDER BY c DESC LIMIT 3",
		"MATCH (n:NodeKind1) WITH collect(n) AS ns MATCH (m:NodeKind2) WHERE m IN ns RETURN m",
		"MATCH (n:NodeKind1) WITH collect(n) AS ns MATCH (m:NodeKind2) WHERE m IN ns RETURN m, ns",
		"MATCH (n:NodeKind1) WITH collect(n) AS ns MATCH (m:NodeKind2) WHERE NOT m IN ns RETURN m, size(ns)",
		"MATCH (n:NodeKind1) WITH collect(n) AS ns MATCH (m:NodeKind2) WHERE m IN ns WITH m, ns RETURN ns, m.name",
		"MATCH (n:NodeKind1) WITH collect(n) AS ns MATCH (m)-[:EdgeKind1]->(o) WHERE m IN ns RETURN o, ns",
	} {
		out = append(out, Query{Text: t, Params: DefaultParams, Source: "tail-family", Features: []string{"with:" + t}})
	}
	// string predicates over literals that contain the characters LIKE and the SQL string syntax treat specially; the
	// second literal of each query puts a near miss into the graph domain (the value with the special character replaced)
	for _, pred := range []string{"CONTAINS", "STARTS WITH", "ENDS WITH", "="} {
		for _, lit := range [][2]string{{`a\\b`, "ab"}, {"a%b", "axb"}, {"a_b", "axb"}, {`a\\%b`, `a\\xb`}, {`a\'b`, "ab"}, {`\\`, "x"}, {"%", "x"}, {"_", "x"}} {
			text := fmt.Sprintf("MATCH (n) WHERE n.name %s '%s' OR n.v = '%s' RETURN n.name", pred, lit[0], lit[1])
			out = append(out, Query{Text: text, Params: DefaultParams, Source: "tail-family", Features: []string{"string-predicate:" + pred, "literal:" + lit[0]}})
			text = fmt.Sprintf("MATCH (n) WHERE NOT n.name %s '%s' AND n.name <> '%s' RETURN n.name", pred, lit[0], lit[1])
			out = append(out, Query{Text: text, Params: DefaultParams, Source: "tail-family", Features: []string{"not-string-predicate:" + pred, "literal:" + lit[0]}})
		}
	}
	return out
}

// ReversalFamily: patterns the optimiser's traversal-reversal rule qualifies (two steps, leading unbounded expansion,
// constrained terminal node) with the pattern's source unbound or bound beforehand in each of the ways a node can be
// bound (MATCH, OPTIONAL MATCH, through a relationship, carried through WITH), crossed with the projections that observe
// the direction of the path.
func ReversalFamily() []Query {
	prefixes := []struct{ name, text string }{
		{"unbound", ""},
		{"match", "MATCH (s:NodeKind1) "},
		{"optional-match", "OPTIONAL MATCH (s:NodeKind1) "},
		{"match-step", "MATCH (u:NodeKind1)-[:EdgeKind2]->(s) "},
		{"match-optional-step", "MATCH (u:NodeKind1 {name: 'a'}) OPTIONAL MATCH (u)-[:EdgeKind2]->(s:NodeKind2) "},
		{"match-with", "MATCH (s:NodeKind1) WITH s "},
		{"same-match-earlier-part", "MATCH (s:NodeKind1), "},
	}
	patterns := []struct{ name, text string }{
		{"*0..", "(s)-[:EdgeKind1*0..]->(g:NodeKind2)-[:EdgeKind2]->(d:NodeKind1)"},
		{"*1..", "(s)-[:EdgeKind1*1..]->(g:NodeKind2)-[:EdgeKind2]->(d:NodeKind1)"},
		{"*1..+undirected", "(s)-[:EdgeKind1*1..]->(g)-[:EdgeKind2]-(d:NodeKind1)"},
	}
	projections := []struct{ name, text string }{
		{"endpoints", "RETURN s, d"}, {"path", "RETURN p"}, {"relationships", "RETURN relationships(p)"}, {"nodes", "RETURN nodes(p)"}, {"count", "RETURN count(p)"},
	}
	var out []Query
	for _, pre := range prefixes {
		for _, pat := range patterns {
			for _, pr := range projections {
				lead := "MATCH p = "
				prefix := pre.text
				if pre.name == "same-match-earlier-part" {
					lead = "p = "
				}
				text := prefix + lead + pat.text + " WHERE d.name = 'a' " + pr.text
				out = append(out, Query{Text: text, Params: DefaultParams, Source: "reversal-family", Features: []string{"source:" + pre.name, "pattern:" + pat.name, "projection:" + pr.name}})
			}
		}
	}
	return out
}
