package tv

import (
	"context"
	"fmt"
	"os"
	"strconv"
	"strings"
	"sync"

	"github.com/specterops/dawgs/cypher/frontend"
	"github.com/specterops/dawgs/cypher/models/cypher"
	"github.com/specterops/dawgs/cypher/models/pgsql/translate"

	"verif/core"
	"verif/cyref"
	"verif/gm"
)

// KnownDeviation couples a deviation switch of the reference with the scope string of its known finding.
type KnownDeviation struct {
	Scope string
	Dev   cyref.Deviations
}

// KnownDeviations lists the semantic deviations of DAWGS from openCypher that are recorded as known findings of C01.
// A disagreement is attributed to one of them iff the SQL result equals the reference result computed with exactly
// that deviation switched on; any other disagreement is a new violation.
var KnownDeviations = []KnownDeviation{
	{Scope: "undirected-step-never-matches-self-loop", Dev: cyref.Deviations{UndirectedSkipsSelfLoops: true}},
	{Scope: "expansion-not-extended-after-initial-self-loop", Dev: cyref.Deviations{ExpansionStopsAfterInitialSelfLoop: true}},
	{Scope: "sum-of-no-rows-is-null", Dev: cyref.Deviations{SumOfNoRowsIsNull: true}},
	{Scope: "ordering-comparison-coerces-property-through-text", Dev: cyref.Deviations{OrderingCoercesProperty: true}},
	{Scope: "no-relationship-uniqueness-across-pattern-parts", Dev: cyref.Deviations{NoRelUniquenessAcrossPatternParts: true}},
	{Scope: "no-relationship-uniqueness-between-expansions", Dev: cyref.Deviations{NoRelUniquenessBetweenExpansions: true}},
	{Scope: "where-string-predicate-reads-missing-property-as-empty-string", Dev: cyref.Deviations{WherePredicateCoalescesNullString: true}},
	{Scope: "quantifier-over-null-list-is-false", Dev: cyref.Deviations{QuantifierOverNullListIsFalse: true}},
	{Scope: "expansion-not-extended-after-initial-self-loop", Dev: cyref.Deviations{ExpansionStopsAfterSelfLoopAtEnd: true}},
	{Scope: "undirected-continuation-step-binds-either-endpoint", Dev: cyref.Deviations{UndirectedContinuationReturnsBothEndpoints: true}},
	{Scope: "repeated-variable-undirected-step-ignores-far-end", Dev: cyref.Deviations{RepeatedVariableUndirectedIgnoresFarEnd: true}},
	{Scope: "optional-match-multiplies-duplicate-rows", Dev: cyref.Deviations{OptionalMatchMultipliesDuplicateRows: true}},
	{Scope: "optional-match-multiplies-duplicate-rows", Dev: cyref.Deviations{OptionalMatchMultipliesDuplicateRows: true, OptionalMatchJoinsOnAllBindings: true}},
	{Scope: "exact-range-expansion-with-repeated-variable-cross-joins-node-table", Dev: cyref.Deviations{ExactRangeRepeatedVariableCrossJoinsNodes: true}},
	{Scope: "with-clause-order-skip-limit-dropped", Dev: cyref.Deviations{WithDropsOrderSkipLimit: true}},
	{Scope: "list-concatenation-reads-null-as-empty-list", Dev: cyref.Deviations{ListConcatenationReadsNullAsEmpty: true}},
	{Scope: "leading-optional-match-without-match-yields-no-row", Dev: cyref.Deviations{LeadingOptionalMatchYieldsNoRow: true}},
	{Scope: "optional-match-after-null-binding-loses-its-matches", Dev: cyref.Deviations{OptionalMatchNullBindingLosesMatch: true}},
	{Scope: "multi-step-optional-match-inner-joins-leading-steps", Dev: cyref.Deviations{OptionalMatchInnerJoinsLeadingSteps: true}},
	{Scope: "multi-step-optional-match-is-plain-match", Dev: cyref.Deviations{MultiStepOptionalMatchIsPlainMatch: true}},
	{Scope: "expansion-from-unbound-node-is-cross-joined-with-earlier-rows", Dev: cyref.Deviations{ExpansionSeedCrossJoinsEarlierFrame: true}},
	{Scope: "predicate-over-both-ends-of-an-expansion-dropped-when-the-pattern-continues", Dev: cyref.Deviations{PredicateOverBothExpansionEndsDropped: true}},
	{Scope: "regular-expression-match-is-unanchored", Dev: cyref.Deviations{RegexMatchIsUnanchored: true}},
	{Scope: "quantifier-counts-null-predicate-as-false", Dev: cyref.Deviations{QuantifierPredicateNullCountsAsFalse: true}},
	{Scope: "arithmetic-and-sum-coerce-property-through-text", Dev: cyref.Deviations{ArithmeticAndSumCoerceProperty: true}},
}

// merge combines deviation switches.
func merge(a, b cyref.Deviations) cyref.Deviations {
	return cyref.Deviations{
		UndirectedSkipsSelfLoops:                   a.UndirectedSkipsSelfLoops || b.UndirectedSkipsSelfLoops,
		ExpansionStopsAfterInitialSelfLoop:         a.ExpansionStopsAfterInitialSelfLoop || b.ExpansionStopsAfterInitialSelfLoop,
		SumOfNoRowsIsNull:                          a.SumOfNoRowsIsNull || b.SumOfNoRowsIsNull,
		OrderingCoercesProperty:                    a.OrderingCoercesProperty || b.OrderingCoercesProperty,
		NoRelUniquenessAcrossPatternParts:          a.NoRelUniquenessAcrossPatternParts || b.NoRelUniquenessAcrossPatternParts,
		NoRelUniquenessBetweenExpansions:           a.NoRelUniquenessBetweenExpansions || b.NoRelUniquenessBetweenExpansions,
		WherePredicateCoalescesNullString:          a.WherePredicateCoalescesNullString || b.WherePredicateCoalescesNullString,
		QuantifierOverNullListIsFalse:              a.QuantifierOverNullListIsFalse || b.QuantifierOverNullListIsFalse,
		ExpansionStopsAfterSelfLoopAtEnd:           a.ExpansionStopsAfterSelfLoopAtEnd || b.ExpansionStopsAfterSelfLoopAtEnd,
		UndirectedContinuationReturnsBothEndpoints: a.UndirectedContinuationReturnsBothEndpoints || b.UndirectedContinuationReturnsBothEndpoints,
		RepeatedVariableUndirectedIgnoresFarEnd:    a.RepeatedVariableUndirectedIgnoresFarEnd || b.RepeatedVariableUndirectedIgnoresFarEnd,
		OptionalMatchMultipliesDuplicateRows:       a.OptionalMatchMultipliesDuplicateRows || b.OptionalMatchMultipliesDuplicateRows,
		ArithmeticAndSumCoerceProperty:             a.ArithmeticAndSumCoerceProperty || b.ArithmeticAndSumCoerceProperty,
		OptionalMatchJoinsOnAllBindings:            a.OptionalMatchJoinsOnAllBindings || b.OptionalMatchJoinsOnAllBindings,
		WithDropsOrderSkipLimit:                    a.WithDropsOrderSkipLimit || b.WithDropsOrderSkipLimit,
		ListConcatenationReadsNullAsEmpty:          a.ListConcatenationReadsNullAsEmpty || b.ListConcatenationReadsNullAsEmpty,
		LeadingOptionalMatchYieldsNoRow:            a.LeadingOptionalMatchYieldsNoRow || b.LeadingOptionalMatchYieldsNoRow,
		RegexMatchIsUnanchored:                     a.RegexMatchIsUnanchored || b.RegexMatchIsUnanchored,
		PredicateOverBothExpansionEndsDropped:      a.PredicateOverBothExpansionEndsDropped || b.PredicateOverBothExpansionEndsDropped,
		ExpansionSeedCrossJoinsEarlierFrame:        a.ExpansionSeedCrossJoinsEarlierFrame || b.ExpansionSeedCrossJoinsEarlierFrame,
		MultiStepOptionalMatchIsPlainMatch:         a.MultiStepOptionalMatchIsPlainMatch || b.MultiStepOptionalMatchIsPlainMatch,
		OptionalMatchInnerJoinsLeadingSteps:        a.OptionalMatchInnerJoinsLeadingSteps || b.OptionalMatchInnerJoinsLeadingSteps,
		OptionalMatchNullBindingLosesMatch:         a.OptionalMatchNullBindingLosesMatch || b.OptionalMatchNullBindingLosesMatch,
		QuantifierPredicateNullCountsAsFalse:       a.QuantifierPredicateNullCountsAsFalse || b.QuantifierPredicateNullCountsAsFalse,
		ExactRangeRepeatedVariableCrossJoinsNodes:  a.ExactRangeRepeatedVariableCrossJoinsNodes || b.ExactRangeRepeatedVariableCrossJoinsNodes,
	}
}

// Bounds of one tier.
type Bounds struct {
	Features int // max features per enumerated query
	MaxNodes int
	MaxEdges int
	Budget   int // max graphs per query
}

func BoundsFor(tier core.Tier) Bounds {
	if k := os.Getenv("VERIF_K"); k != "" { // debugging aid: restrict the number of features
		n, _ := strconv.Atoi(k)
		return Bounds{Features: n, MaxNodes: 2, MaxEdges: 2, Budget: 600}
	}
	if tier == core.Thorough {
		return Bounds{Features: 3, MaxNodes: 3, MaxEdges: 3, Budget: 4000}
	}
	return Bounds{Features: 2, MaxNodes: 2, MaxEdges: 2, Budget: 600}
}

type artefact struct {
	Query  string         `json:"query"`
	Params map[string]any `json:"params"`
	Graph  *gm.Graph      `json:"graph"`
	Config string         `json:"config,omitempty"`
	SQL    string         `json:"sql,omitempty"`
	Detail string         `json:"detail,omitempty"`
}

func parse(text string) (*cypher.RegularQuery, error) {
	return frontend.ParseCypher(frontend.NewContext(), text)
}

func sqlText(res translate.Result) string {
	s, err := translate.Translated(res)
	if err != nil {
		return "(format error: " + err.Error() + ")"
	}
	return s
}

// JudgeC01 compares SQL and reference for one (query, graph). It returns ("", "") when they agree or cannot be
// compared, else (class, detail).
func JudgeC01(m *cypher.RegularQuery, q Query, g *gm.Graph, ref *cyref.Result, sql *gm.Rows) (classes []string, detail string) {
	why := CompareToReference(ref, sql)
	if why == "" {
		return nil, ""
	}
	if scopes, ok := Explain(m, q, g, sql, 1); ok {
		return scopes, why
	}
	return []string{featureClass("rows-differ", q)}, why
}

// Explain searches the smallest set of known deviations (at least minSize, at most 3) under which the reference
// evaluator reproduces the given SQL rows exactly. ok=false: no such set.
func Explain(m *cypher.RegularQuery, q Query, g *gm.Graph, sql *gm.Rows, minSize int) (scopes []string, ok bool) {
	n := len(KnownDeviations)
	for size := minSize; size <= n && size <= 3; size++ {
		for mask := 0; mask < 1<<n; mask++ {
			if popcount(mask) != size {
				continue
			}
			var dev cyref.Deviations
			var names []string
			for i, kd := range KnownDeviations {
				if mask&(1<<i) != 0 {
					dev = merge(dev, kd.Dev)
					dupScope := false
					for _, sc := range names {
						dupScope = dupScope || sc == kd.Scope
					}
					if !dupScope {
						names = append(names, kd.Scope)
					}
				}
			}
			ev := cyref.New(g, q.Params)
			ev.Dev = dev
			alt, err := func() (r *cyref.Result, err error) {
				defer func() {
					if p := recover(); p != nil {
						err = fmt.Errorf("panic: %v", p)
					}
				}()
				return ev.Run(m)
			}()
			if err == nil && CompareToReference(alt, sql) == "" {
				return names, true
			}
		}
	}
	return nil, false
}

func popcount(x int) int {
	n := 0
	for ; x != 0; x &= x - 1 {
		n++
	}
	return n
}

// RunC01 is the body of check C01 for this process' share of the queries.
func RunC01(run *core.Run, backend *SQLBackend, queries []Query, b Bounds) {
	km, kindIDs := NewKindMapper()
	ctx := context.Background()
	var mu sync.Mutex
	lowered := map[string]int64{}
	for qi, q := range queries {
		if !run.Mine(qi) {
			continue
		}
		if run.TimeUp() {
			run.Capped("deadline: not every query was evaluated")
			break
		}
		m, err := parse(q.Text)
		if err != nil {
			run.Add("queries_rejected_by_parser", 1)
			continue
		}
		q = q.withParams(m)
		if (q.Source != "enum" || len(q.Features) >= 3) && countExpansions(m) >= 2 {
			run.Add("queries_skipped_two_or_more_expansions", 1)
			continue
		}
		var res translate.Result
		if pv := core.Try(func() { res, err = translate.Translate(ctx, m, km, q.Params, 0) }); pv != nil {
			run.Add("translator_panics_left_to_C05", 1)
			continue
		}
		if err != nil {
			run.Add("queries_rejected_by_translator", 1)
			continue
		}
		run.Add("programs", 1)
		for _, l := range res.Optimization.Lowerings {
			mu.Lock()
			lowered[l.Name]++
			mu.Unlock()
		}
		if notClosed(res) {
			run.Add("statements_not_closed_left_to_C03", 1)
			continue
		}
		stmt := backend.prepare(res)
		gm.SortLists = strings.Contains(strings.ToLower(q.Text), "collect(")
		ds := q.domains(m, b)
		d := ds[len(ds)-1]
		for _, dd := range ds {
			ensureKinds(km, kindIDs, dd)
		}
		var evals, agree, outside, sqlErr, refUnknown, refErr, nonEmpty int64
		unexplained := 0
		firstOutside := ""
		judge := func(g *gm.Graph) bool {
			evals++
			o := stmt.eval(g, kindIDs)
			if o.Internal {
				run.Add("sql_evaluator_internal_failures", 1)
				outside++
				if firstOutside == "" {
					firstOutside = "INTERNAL: " + o.Err.Error()
				}
				return outside < 3
			}
			if o.Outside {
				outside++
				if firstOutside == "" {
					firstOutside = o.Err.Error()
				}
				return outside < 3 // the statement is outside the evaluator: no point in more graphs
			}
			if o.Err != nil {
				if o.Runtime {
					sqlErr++
					return true
				}
				return true
			}
			ref, unk, rt, _ := refEval(m, g, q.Params)
			if unk {
				refUnknown++
				return refUnknown < 5 || ref != nil
			}
			if rt {
				refErr++
				return true
			}
			if len(ref.Rows.Rows) > 0 {
				nonEmpty++
			}
			var classes []string
			var detail string
			if unexplained >= 3 {
				// this query already has three disagreements no set of recorded deviations explains: its class is settled
				// (it depends on the query, not on the graph), the expensive search for an explanation is skipped
				if detail = CompareToReference(ref, o.Rows); detail != "" {
					classes = []string{featureClass("rows-differ", q)}
					run.Add("disagreements_not_searched_after_three_unexplained", 1)
				}
			} else {
				classes, detail = JudgeC01(m, q, g, ref, o.Rows)
				if len(classes) == 1 && classes[0] == featureClass("rows-differ", q) {
					unexplained++
				}
			}
			if len(classes) == 0 {
				agree++
				return true
			}
			run.Add("disagreements_checked", 1)
			for _, class := range classes {
				run.Report(core.Violation{
					Class:    class,
					Summary:  fmt.Sprintf("%s on a graph with %d nodes / %d edges: %s", q.Text, len(g.Nodes), len(g.Edges), detail),
					Artefact: artefact{Query: q.Text, Params: q.Params, Graph: CloneGraph(g), SQL: sqlText(res), Detail: detail},
				})
			}
			return true
		}
		for _, dd := range ds {
			dd.Enumerate(judge)
		}
		if q.Source != "enum" {
			budget := b.Budget
			if q.Budget > 0 {
				budget = q.Budget
			}
			n, truncated := WitnessGraphs(m, q.Params, d, budget, judge)
			run.Add("witness_neighbourhood_graphs", int64(n))
			if truncated {
				run.Add("witness_neighbourhoods_cut_by_budget", 1)
			}
		}
		run.Add("evaluations", evals)
		run.Add("agreeing_evaluations", agree)
		run.Add("evaluations_with_nonempty_result", nonEmpty)
		run.Add("sql_runtime_errors", sqlErr)
		run.Add("reference_unknown", refUnknown)
		run.Add("reference_runtime_errors", refErr)
		if outside > 0 {
			run.Add("programs_outside_sql_evaluator", 1)
			mu.Lock()
			outsideWhy[firstOutside]++
			mu.Unlock()
		} else if nonEmpty > 0 {
			run.Add("distinct_nontrivial", 1)
		}
		if qi%(len(queries)/10+1) == 0 {
			run.Sample(map[string]any{"query": q.Text, "features": q.Features, "graphs": evals, "agree": agree, "domain": d.String()})
		}
	}
	lm := map[string]any{}
	for k, v := range lowered {
		lm[k] = v
	}
	run.Set("lowerings_applied", lm)
	ow := map[string]any{}
	mu.Lock()
	for k, v := range outsideWhy {
		ow[k] = v
	}
	mu.Unlock()
	run.Set("outside_sql_evaluator_reasons", ow)
}

var outsideWhy = map[string]int64{}

// countExpansions counts the variable-length relationship patterns of a query. Outside the feature grammar (whose
// two-expansion shapes are attributed to known findings) patterns with two or more expansions are not judged: the
// translator enforces relationship uniqueness between expansions only partly, and the exact rule is not modelled.
func countExpansions(m *cypher.RegularQuery) int {
	n := 0
	cyref.WalkModel(m, func(x cypher.Expression) {
		if rp, ok := x.(*cypher.RelationshipPattern); ok && rp.Range != nil {
			n++
		}
	})
	return n
}
