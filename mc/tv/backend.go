package tv

import (
	"encoding/json"
	"errors"
	"fmt"
	"os"
	"strings"

	"github.com/specterops/dawgs/cypher/frontend"
	"github.com/specterops/dawgs/cypher/models/pgsql/translate"

	"verif/core"
	"verif/cyref"
	"verif/gm"
	"verif/icorpus"
	"verif/pgeval"
	"verif/pgeval/pgconform"
)

// Backend returns the SQL backend: pgeval.
func Backend() *SQLBackend {
	return &SQLBackend{
		Prepare: func(res translate.Result) (func(g *gm.Graph, kindIDs map[string]int16) (*gm.Rows, error), error) {
			p, err := pgeval.Prepare(res.Statement)
			if err != nil {
				return nil, err
			}
			return func(g *gm.Graph, kindIDs map[string]int16) (*gm.Rows, error) {
				return p.Run(pgeval.New(g, kindIDs), res.Parameters)
			}, nil
		},
		IsOutside: pgeval.IsOutside,
		IsRuntime: pgeval.IsRuntime,
	}
}

// ConfigNames lists the configuration matrix (for evidence).
func ConfigNames() []string {
	var out []string
	for _, c := range Configs() {
		out = append(out, c.Name)
	}
	return out
}

// Conformance replays the project's integration corpus (expectations the maintainers run against live PostgreSQL and
// Neo4j) through both models. A mismatch of the reference evaluator is a bug of the model, i.e. a machinery failure
// (exit 2), never a verdict.
//
// The SQL evaluator is fixed (it lives in /verif) and reproduces every expectation it models on the tree it was bound
// to; if the SQL translated from the tree under check no longer yields a recorded result, the translation has changed
// the result of that query. With decides (C01) that is a violation of the property; otherwise (C02 compares two
// translations under the same evaluator) it is recorded and the check goes on.
func Conformance(run *core.Run, decides bool) {
	rep, err := pgconform.Run("")
	if err != nil {
		core.Fatalf("MODEL-CONFORMANCE: pgeval corpus run failed: %v", err)
	}
	if rep.Mismatch > 0 {
		for _, o := range rep.Outcomes {
			if o.Status != icorpus.StatusMismatch {
				continue
			}
			if !decides {
				run.Add("integration_expectations_not_reproduced_by_translated_sql", 1)
				continue
			}
			run.Report(core.Violation{
				Class:    "integration-expectation-not-reproduced:" + o.Name,
				Summary:  fmt.Sprintf("%s: the translated SQL no longer returns the result recorded for the real backends in the integration corpus: %s (expected %s, got %v %s)", o.Cypher, o.Why, o.Expected, o.Got, o.Err),
				Artefact: artefact{Query: o.Cypher, Detail: o.Name + ": " + o.Why + " expected " + o.Expected},
			})
		}
	}
	cases, err := icorpus.Load(icorpus.RepoRoot())
	if err != nil {
		core.Fatalf("MODEL-CONFORMANCE: %v", err)
	}
	var reproduced, unknown int64
	for _, c := range cases {
		if c.ParseErr != "" || c.Updating || c.Assert == nil {
			continue
		}
		q, err := frontend.ParseCypher(frontend.NewContext(), c.Cypher)
		if err != nil {
			continue
		}
		res, err := cyref.New(c.Graph, c.Params).Run(q)
		var unk cyref.ErrUnknown
		if errors.As(err, &unk) {
			unknown++
			continue
		}
		var ok bool
		var why string
		if err != nil {
			ok, why = c.Check(nil, err)
		} else {
			ok, why = c.Check(res.Rows, nil)
		}
		if !ok {
			core.Fatalf("MODEL-CONFORMANCE: cyref disagrees with the recorded real-backend expectation of %s (%s): %s", c.Name, c.Cypher, why)
		}
		reproduced++
	}
	run.Set("traces_validated_against_impl", int64(rep.Reproduced)+reproduced)
	run.Set("conformance", map[string]any{
		"pgeval_expectations_reproduced": int64(rep.Reproduced), "pgeval_outside": int64(rep.Outside), "pgeval_mismatch": int64(rep.Mismatch),
		"cyref_expectations_reproduced": reproduced, "cyref_declined": unknown, "cyref_mismatch": int64(0),
	})
	run.Assume("cyref (reference openCypher evaluator) and pgeval (evaluator of the emitted pgsql AST; no PostgreSQL exists in the sandbox) are trusted only as far as they reproduce the integration corpus' recorded real-backend expectations, re-checked at the start of every run")
}

// Replay re-evaluates a C01/C02 artefact and prints both sides.
func Replay(run *core.Run, backend *SQLBackend) {
	var art artefact
	core.LoadArtefact(run.Replay, &art)
	if art.Graph == nil {
		fmt.Println("artefact has no graph (translation-level finding):", art.Detail)
		os.Exit(1)
	}
	for i := range art.Graph.Nodes {
		art.Graph.Nodes[i].Props, _ = cyref.Normalize(art.Graph.Nodes[i].Props).(map[string]any)
		if art.Graph.Nodes[i].Props == nil {
			art.Graph.Nodes[i].Props = map[string]any{}
		}
	}
	for i := range art.Graph.Edges {
		art.Graph.Edges[i].Props, _ = cyref.Normalize(art.Graph.Edges[i].Props).(map[string]any)
		if art.Graph.Edges[i].Props == nil {
			art.Graph.Edges[i].Props = map[string]any{}
		}
	}
	params := map[string]any{}
	for k, v := range art.Params {
		params[k] = normalizeJSON(v)
	}
	gj, _ := json.Marshal(art.Graph)
	fmt.Println("query: ", art.Query)
	fmt.Println("graph: ", string(gj))
	q := Query{Text: art.Query, Params: params, Source: "replay"}
	gm.SortLists = strings.Contains(strings.ToLower(art.Query), "collect(")
	violations := replayOne(run, backend, q, art.Graph, art.Config)
	if violations == 0 {
		fmt.Println("replay: no violation")
	}
	run.Finish()
}

func normalizeJSON(v any) any {
	switch t := v.(type) {
	case float64:
		if t == float64(int64(t)) {
			return int64(t)
		}
	case []any:
		for i := range t {
			t[i] = normalizeJSON(t[i])
		}
	}
	return v
}

// replayOne evaluates one (query, graph) the way the checks do and reports what they would report.
func replayOne(run *core.Run, backend *SQLBackend, q Query, g *gm.Graph, config string) int {
	n := 0
	m, err := parse(q.Text)
	if err != nil {
		fmt.Println("parse error:", err)
		return 0
	}
	km, kindIDs := NewKindMapper()
	ref, unk, rt, rerr := refEval(m, g, q.Params)
	switch {
	case unk || rt:
		fmt.Println("reference: ", rerr)
		ref = nil
	default:
		fmt.Println("reference: ", ref.Rows.Seq(), "ordered:", ref.Ordered, "total:", ref.OrderTotal, "truncated:", ref.Truncated)
	}
	show := func(name string, res translate.Result) *gm.Rows {
		fmt.Printf("-- %s SQL: %s\n", name, sqlText(res))
		o := backend.prepare(res).eval(g, kindIDs)
		if o.Err != nil {
			fmt.Printf("   %s result: error: %v\n", name, o.Err)
			return nil
		}
		fmt.Printf("   %s result: %v\n", name, o.Rows.Seq())
		return o.Rows
	}
	prod, err := translate.Translate(bg, m, km, q.Params, 0)
	if err != nil {
		fmt.Println("translation error:", err)
		return 0
	}
	rows := show("optimised", prod)
	if run.Property == "C01" {
		if rows != nil && ref != nil {
			classes, detail := JudgeC01(m, q, g, ref, rows)
			for _, class := range classes {
				run.Report(core.Violation{Class: class, Summary: q.Text + ": " + detail, Artefact: artefact{Query: q.Text, Params: q.Params, Graph: g, Detail: detail}})
				n++
			}
		}
		return n
	}
	base, err := translate.VerifTranslate(bg, m, km, q.Params, 0, func(*optPlan) bool { return true })
	if err != nil {
		fmt.Println("unoptimised translation error:", err)
		return 0
	}
	baseRows := show("unoptimised", base)
	plan, _ := optimizeQuery(m)
	for _, c := range Configs() {
		if config != "" && c.Name != config && config != "optimised" {
			continue
		}
		if !c.Applies(&plan) {
			continue
		}
		res, err := translate.VerifTranslate(bg, m, km, q.Params, 0, c.Configure)
		if err != nil {
			fmt.Println(c.Name, "translation error:", err)
			continue
		}
		if r := show(c.Name, res); r != nil && baseRows != nil {
			if why := compareConfigs(ref, baseRows, r); why != "" {
				run.Report(core.Violation{Class: featureClass("configuration-changes-result:"+c.Name, q), Summary: q.Text + ": " + why, Artefact: artefact{Query: q.Text, Params: q.Params, Graph: g, Config: c.Name, Detail: why}})
				n++
			}
		}
	}
	if rows != nil && baseRows != nil {
		if why := compareConfigs(ref, baseRows, rows); why != "" {
			run.Report(core.Violation{Class: featureClass("configuration-changes-result:optimised", q), Summary: q.Text + ": " + why, Artefact: artefact{Query: q.Text, Params: q.Params, Graph: g, Config: "optimised", Detail: why}})
			n++
		}
	}
	return n
}
