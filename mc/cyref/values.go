// Package cyref is a reference evaluator for the read fragment of openCypher over the parsed DAWGS query model. It is the
// oracle of C01: boring, direct, close to the openCypher 9 specification, no optimisation. Wherever the specification (or
// the behaviour pinned by the project's integration corpus, which is run against a real Neo4j) leaves a question open,
// evaluation stops with ErrUnknown instead of guessing; the checker never compares such cases.
package cyref

import (
	"fmt"
	"math"
	"sort"
	"strings"

	"verif/gm"
)

// ErrUnknown: the reference declines to define the result.
type ErrUnknown struct{ What string }

func (e ErrUnknown) Error() string { return "cyref: semantics not defined by the reference: " + e.What }

func unknown(format string, a ...any) error { return ErrUnknown{fmt.Sprintf(format, a...)} }

// ErrRuntime: openCypher defines the query to fail at run time (type error etc.).
type ErrRuntime struct{ What string }

func (e ErrRuntime) Error() string { return "cyref: runtime error: " + e.What }

// tri is Cypher's three-valued logic.
type tri int8

const (
	triFalse tri = iota
	triTrue
	triNull
)

func triOf(v any) (tri, error) {
	switch t := v.(type) {
	case nil:
		return triNull, nil
	case bool:
		if t {
			return triTrue, nil
		}
		return triFalse, nil
	}
	return triNull, ErrRuntime{fmt.Sprintf("expected a boolean, got %s", gm.Canon(v))}
}

func (t tri) value() any {
	switch t {
	case triTrue:
		return true
	case triFalse:
		return false
	}
	return nil
}

func triNot(a tri) tri {
	switch a {
	case triTrue:
		return triFalse
	case triFalse:
		return triTrue
	}
	return triNull
}

func triAnd(a, b tri) tri {
	if a == triFalse || b == triFalse {
		return triFalse
	}
	if a == triNull || b == triNull {
		return triNull
	}
	return triTrue
}

func triOr(a, b tri) tri {
	if a == triTrue || b == triTrue {
		return triTrue
	}
	if a == triNull || b == triNull {
		return triNull
	}
	return triFalse
}

func triXor(a, b tri) tri {
	if a == triNull || b == triNull {
		return triNull
	}
	if a != b {
		return triTrue
	}
	return triFalse
}

func isNumber(v any) bool {
	switch v.(type) {
	case int64, float64:
		return true
	}
	return false
}

func toFloat(v any) float64 {
	switch t := v.(type) {
	case int64:
		return float64(t)
	case float64:
		return t
	}
	return math.NaN()
}

// normalize brings Go values from JSON fixtures / parameters into the value domain (int64, float64, []any, ...).
func Normalize(v any) any {
	switch t := v.(type) {
	case int:
		return int64(t)
	case int32:
		return int64(t)
	case int16:
		return int64(t)
	case uint32:
		return int64(t)
	case uint64:
		return int64(t)
	case float32:
		return float64(t)
	case []any:
		out := make([]any, len(t))
		for i, e := range t {
			out[i] = Normalize(e)
		}
		return out
	case []string:
		out := make([]any, len(t))
		for i, e := range t {
			out[i] = e
		}
		return out
	case []int64:
		out := make([]any, len(t))
		for i, e := range t {
			out[i] = e
		}
		return out
	case []int:
		out := make([]any, len(t))
		for i, e := range t {
			out[i] = int64(e)
		}
		return out
	case map[string]any:
		out := make(map[string]any, len(t))
		for k, e := range t {
			out[k] = Normalize(e)
		}
		return out
	}
	return v
}

// equal is Cypher's `=`: null if either side is null (also inside lists/maps), false across different types.
func equal(a, b any) tri {
	if a == nil || b == nil {
		return triNull
	}
	if isNumber(a) && isNumber(b) {
		ai, aInt := a.(int64)
		bi, bInt := b.(int64)
		if aInt && bInt {
			return boolTri(ai == bi)
		}
		return boolTri(toFloat(a) == toFloat(b))
	}
	switch x := a.(type) {
	case string:
		if y, ok := b.(string); ok {
			return boolTri(x == y)
		}
	case bool:
		if y, ok := b.(bool); ok {
			return boolTri(x == y)
		}
	case gm.NodeRef:
		if y, ok := b.(gm.NodeRef); ok {
			return boolTri(x.ID == y.ID)
		}
	case gm.EdgeRef:
		if y, ok := b.(gm.EdgeRef); ok {
			return boolTri(x.ID == y.ID)
		}
	case gm.Path:
		if y, ok := b.(gm.Path); ok {
			return boolTri(gm.Canon(x) == gm.Canon(y))
		}
	case []any:
		if y, ok := b.([]any); ok {
			if len(x) != len(y) {
				return triFalse
			}
			res := triTrue
			for i := range x {
				switch equal(x[i], y[i]) {
				case triFalse:
					return triFalse
				case triNull:
					res = triNull
				}
			}
			return res
		}
	case map[string]any:
		if y, ok := b.(map[string]any); ok {
			if len(x) != len(y) {
				return triFalse
			}
			res := triTrue
			for k, xv := range x {
				yv, has := y[k]
				if !has {
					return triFalse
				}
				switch equal(xv, yv) {
				case triFalse:
					return triFalse
				case triNull:
					res = triNull
				}
			}
			return res
		}
	}
	return triFalse
}

func boolTri(b bool) tri {
	if b {
		return triTrue
	}
	return triFalse
}

// compare is Cypher's ordering for <, <=, >, >=: defined within numbers, within strings and within booleans; null when
// either side is null or the types are not comparable. ok=false means "incomparable -> null".
func compare(a, b any) (c int, ok bool) {
	if a == nil || b == nil {
		return 0, false
	}
	if isNumber(a) && isNumber(b) {
		ai, aInt := a.(int64)
		bi, bInt := b.(int64)
		if aInt && bInt {
			switch {
			case ai < bi:
				return -1, true
			case ai > bi:
				return 1, true
			}
			return 0, true
		}
		af, bf := toFloat(a), toFloat(b)
		if math.IsNaN(af) || math.IsNaN(bf) {
			return 0, false
		}
		switch {
		case af < bf:
			return -1, true
		case af > bf:
			return 1, true
		}
		return 0, true
	}
	switch x := a.(type) {
	case string:
		if y, ok := b.(string); ok {
			return strings.Compare(x, y), true
		}
	case bool:
		if y, ok := b.(bool); ok {
			switch {
			case !x && y:
				return -1, true
			case x && !y:
				return 1, true
			}
			return 0, true
		}
	}
	return 0, false
}

// typeRank is the global sort order of ORDER BY across types (openCypher 9, "Ordering and comparison of values"):
// MAP < NODE < RELATIONSHIP < LIST < PATH < STRING < BOOLEAN < NUMBER < null.
func typeRank(v any) int {
	switch v.(type) {
	case map[string]any:
		return 0
	case gm.NodeRef:
		return 1
	case gm.EdgeRef:
		return 2
	case []any:
		return 3
	case gm.Path:
		return 4
	case string:
		return 5
	case bool:
		return 6
	case int64, float64:
		return 7
	case nil:
		return 8
	}
	return 9
}

// orderCompare is the total order used by ORDER BY (ascending).
func orderCompare(a, b any) int {
	ra, rb := typeRank(a), typeRank(b)
	if ra != rb {
		if ra < rb {
			return -1
		}
		return 1
	}
	switch x := a.(type) {
	case nil:
		return 0
	case string, bool, int64, float64:
		c, _ := compare(a, b)
		return c
	case gm.NodeRef:
		return cmpInt(x.ID, b.(gm.NodeRef).ID)
	case gm.EdgeRef:
		return cmpInt(x.ID, b.(gm.EdgeRef).ID)
	case []any:
		y := b.([]any)
		for i := 0; i < len(x) && i < len(y); i++ {
			if c := orderCompare(x[i], y[i]); c != 0 {
				return c
			}
		}
		return cmpInt(int64(len(x)), int64(len(y)))
	}
	return strings.Compare(gm.Canon(a), gm.Canon(b))
}

func cmpInt(a, b int64) int {
	switch {
	case a < b:
		return -1
	case a > b:
		return 1
	}
	return 0
}

// mixedOrderTypes reports whether a sort key column holds values of more than one non-null type rank, or types whose
// relative order is implementation specific (entities, maps, paths): the checker then only compares bags.
func mixedOrderTypes(vals []any) bool {
	rank := -1
	for _, v := range vals {
		if v == nil {
			continue
		}
		r := typeRank(v)
		if r <= 4 {
			return true
		}
		if rank >= 0 && r != rank {
			return true
		}
		rank = r
	}
	return false
}

func sortedKeys(m map[string]any) []string {
	ks := make([]string, 0, len(m))
	for k := range m {
		ks = append(ks, k)
	}
	sort.Strings(ks)
	return ks
}
