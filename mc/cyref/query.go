package cyref

import (
	"fmt"
	"sort"
	"strings"

	"github.com/specterops/dawgs/cypher/models/cypher"
	cyfmt "github.com/specterops/dawgs/cypher/models/cypher/format"

	"verif/gm"
)

// Result of a query: rows, and how much of their order the query fixes.
type Result struct {
	Rows *gm.Rows
	// Ordered: the final projection has an ORDER BY. OrderTotal: its keys are pairwise distinct over the result and
	// of one comparable scalar type, so the row order is completely determined.
	Ordered    bool
	OrderTotal bool
	// SortKeys[i] is the canonical sort key of row i (rows with equal keys may appear in any order).
	SortKeys []string
	// Truncated: SKIP/LIMIT cut a result whose order is not total: any sub-bag of Full with Rows' cardinality is right.
	Truncated bool
	Full      *gm.Rows
}

// Run evaluates a read query.
func (e *Evaluator) Run(q *cypher.RegularQuery) (*Result, error) {
	if q == nil || q.SingleQuery == nil {
		return nil, unknown("empty query")
	}
	if e.Dev.OptionalMatchMultipliesDuplicateRows && !e.Dev.OptionalMatchJoinsOnAllBindings {
		e.carried = referencedOutsideFirstUse(q)
	}
	rows := []Env{{}}
	var err error
	sq := q.SingleQuery
	var final *cypher.SinglePartQuery
	if sq.MultiPartQuery != nil {
		for _, part := range sq.MultiPartQuery.Parts {
			if len(part.UpdatingClauses) > 0 {
				return nil, unknown("updating clause")
			}
			if rows, err = e.reading(part.ReadingClauses, rows); err != nil {
				return nil, err
			}
			if part.With == nil {
				return nil, unknown("multi-part query part without WITH")
			}
			withProjection := part.With.Projection
			if e.Dev.WithDropsOrderSkipLimit && withProjection != nil && (withProjection.Order != nil || withProjection.Skip != nil || withProjection.Limit != nil) {
				cp := *withProjection
				cp.Order, cp.Skip, cp.Limit = nil, nil, nil
				withProjection = &cp
			}
			res, err := e.project(withProjection, rows)
			if err != nil {
				return nil, err
			}
			if res.truncatedUnordered {
				return nil, unknown("WITH ... SKIP/LIMIT without a total order: intermediate result is not determined")
			}
			rows = res.envs
			if part.With.Where != nil {
				var kept []Env
				for _, r := range rows {
					v, err := e.Eval(part.With.Where, r)
					if err != nil {
						return nil, err
					}
					if v == true {
						kept = append(kept, r)
					}
				}
				rows = kept
			}
		}
		final = sq.MultiPartQuery.SinglePartQuery
	} else {
		final = sq.SinglePartQuery
	}
	if final == nil {
		return nil, unknown("query without a final part")
	}
	if len(final.UpdatingClauses) > 0 {
		return nil, unknown("updating clause")
	}
	if rows, err = e.reading(final.ReadingClauses, rows); err != nil {
		return nil, err
	}
	if final.Return == nil {
		return nil, unknown("query without RETURN")
	}
	res, err := e.project(final.Return.Projection, rows)
	if err != nil {
		return nil, err
	}
	out := &Result{Rows: &gm.Rows{Columns: res.columns}, Ordered: res.ordered, OrderTotal: res.orderTotal, SortKeys: res.sortKeys}
	for _, r := range res.envs {
		row := make([]any, len(res.columns))
		for i, c := range res.columns {
			row[i] = r[c]
		}
		out.Rows.Rows = append(out.Rows.Rows, row)
	}
	if res.truncatedUnordered {
		out.Truncated = true
		out.Full = &gm.Rows{Columns: res.columns}
		for _, r := range res.fullEnvs {
			row := make([]any, len(res.columns))
			for i, c := range res.columns {
				row[i] = r[c]
			}
			out.Full.Rows = append(out.Full.Rows, row)
		}
	}
	return out, nil
}

// envKey renders the bindings of a row restricted to the carried variables (nil = all).
func envKey(r Env, carried map[string]bool) string {
	names := make([]string, 0, len(r))
	for k := range r {
		if carried == nil || carried[k] {
			names = append(names, k)
		}
	}
	sort.Strings(names)
	vals := make([]any, 0, 2*len(names))
	for _, k := range names {
		vals = append(vals, k, r[k])
	}
	return gm.CanonRow(vals)
}

func (e *Evaluator) reading(clauses []*cypher.ReadingClause, rows []Env) ([]Env, error) {
	for _, rc := range clauses {
		switch {
		case rc.Match != nil:
			var next []Env
			m := rc.Match
			// deviation: the left join of OPTIONAL MATCH pairs every incoming row with the matches of all incoming
			// rows that carry the same bindings
			dup := map[string]int{}
			if m.Optional && e.Dev.OptionalMatchMultipliesDuplicateRows {
				for _, r := range rows {
					dup[envKey(r, e.carried)]++
				}
			}
			if e.Dev.PredicateOverBothExpansionEndsDropped {
				m = withoutCrossExpansionPredicates(m)
			}
			if _, _, ok := splitOptional(m); ok && e.Dev.MultiStepOptionalMatchIsPlainMatch {
				cp := *m
				cp.Optional = false
				m = &cp
			}
			if e.Dev.ExpansionSeedCrossJoinsEarlierFrame && expansionFromUnboundNode(m, rows) {
				out, err := e.crossJoinedExpansion(m, rows)
				if err != nil {
					return nil, err
				}
				rows = out
				e.matchSeen = true
				continue
			}
			if named, prefix, ok := splitOptional(m); ok && e.Dev.OptionalMatchInnerJoinsLeadingSteps {
				out, err := e.optionalLastStepOnly(m, named, prefix, rows)
				if err != nil {
					return nil, err
				}
				rows = out
				e.matchSeen = true
				continue
			}
			for _, r := range rows {
				matched := false
				times := 1
				if n := dup[envKey(r, e.carried)]; n > 1 {
					times = n
				}
				var innerErr error
				pattern := m.Pattern
				if m.Optional && e.Dev.OptionalMatchNullBindingLosesMatch {
					for k, v := range r {
						if v == nil && (e.carried == nil || e.carried[k]) {
							pattern = nil
						}
					}
				}
				err := e.matchPattern(pattern, r, func(env Env) bool {
					if pattern == nil {
						return false
					}
					if m.Where != nil {
						v, err := e.Eval(m.Where, env)
						if err != nil {
							innerErr = err
							return false
						}
						if v != true {
							return true
						}
					}
					matched = true
					for k := 0; k < times; k++ {
						next = append(next, env)
					}
					return true
				})
				if err == nil {
					err = innerErr
				}
				if err != nil {
					return nil, err
				}
				if !matched && m.Optional && e.Dev.LeadingOptionalMatchYieldsNoRow && !e.matchSeen {
					continue // no MATCH before it (only UNWIND / WITH of values): there is no frame to left-join to
				}
				if !matched && m.Optional {
					ext := r.clone()
					for _, v := range patternVariables(m.Pattern) {
						if _, bound := ext[v]; !bound {
							ext[v] = nil
						}
					}
					next = append(next, ext)
				}
			}
			rows = next
			e.matchSeen = true
		case rc.Unwind != nil:
			var next []Env
			for _, r := range rows {
				v, err := e.Eval(rc.Unwind.Expression, r)
				if err != nil {
					return nil, err
				}
				switch t := v.(type) {
				case nil:
					// UNWIND null produces no rows
				case []any:
					if _, bound := r[rc.Unwind.Variable.Symbol]; bound {
						return nil, ErrRuntime{"variable " + rc.Unwind.Variable.Symbol + " already declared"}
					}
					for _, it := range t {
						ext := r.clone()
						ext[rc.Unwind.Variable.Symbol] = it
						next = append(next, ext)
					}
				default:
					return nil, unknown("UNWIND of a non-list value")
				}
			}
			rows = next
		default:
			return nil, unknown("reading clause without MATCH or UNWIND")
		}
	}
	return rows, nil
}

type projected struct {
	columns            []string
	envs               []Env
	ordered            bool
	orderTotal         bool
	sortKeys           []string
	truncatedUnordered bool
	fullEnvs           []Env
}

func exprText(x cypher.Expression) string {
	var sb stringsBuilder
	if err := cyfmt.NewCypherEmitter(false).WriteExpression(&sb, x); err != nil {
		return fmt.Sprintf("%T", x)
	}
	return sb.String()
}

func (e *Evaluator) nonNil(rows []Env) []Env {
	if rows == nil {
		return []Env{}
	}
	return rows
}

// implicitKeys returns the maximal aggregate-free sub-expressions of an aggregating expression that mention a variable.
func implicitKeys(x cypher.Expression) []cypher.Expression {
	if !containsAggregate(x) {
		mentions := false
		walkExpr(x, func(n cypher.Expression) {
			if _, ok := n.(*cypher.Variable); ok {
				mentions = true
			}
		})
		if mentions {
			return []cypher.Expression{x}
		}
		return nil
	}
	var out []cypher.Expression
	switch t := x.(type) {
	case *cypher.FunctionInvocation:
		if isAggregate(t) {
			return nil
		}
		for _, a := range t.Arguments {
			out = append(out, implicitKeys(a)...)
		}
	case *cypher.ArithmeticExpression:
		out = append(out, implicitKeys(t.Left)...)
		for _, p := range t.Partials {
			out = append(out, implicitKeys(p.Right)...)
		}
	case *cypher.Parenthetical:
		out = append(out, implicitKeys(t.Expression)...)
	case *cypher.Comparison:
		out = append(out, implicitKeys(t.Left)...)
		for _, p := range t.Partials {
			out = append(out, implicitKeys(p.Right)...)
		}
	case *cypher.UnaryAddOrSubtractExpression:
		out = append(out, implicitKeys(t.Right)...)
	case *cypher.Negation:
		out = append(out, implicitKeys(t.Expression)...)
	case *cypher.ProjectionItem:
		out = append(out, implicitKeys(t.Expression)...)
	}
	return out
}

func containsAggregate(x cypher.Expression) bool {
	found := false
	walkExpr(x, func(n cypher.Expression) {
		if f, ok := n.(*cypher.FunctionInvocation); ok && isAggregate(f) {
			found = true
		}
	})
	return found
}

// project implements WITH / RETURN: projection items, implicit grouping, DISTINCT, ORDER BY, SKIP, LIMIT.
func (e *Evaluator) project(p *cypher.Projection, rows []Env) (*projected, error) {
	if p == nil {
		return nil, unknown("missing projection")
	}
	type item struct {
		name string
		expr cypher.Expression
		agg  bool
	}
	var items []item
	if p.All {
		// RETURN * : every variable in scope, in name order
		names := map[string]bool{}
		for _, r := range rows {
			for k := range r {
				names[k] = true
			}
		}
		var sorted []string
		for k := range names {
			sorted = append(sorted, k)
		}
		sort.Strings(sorted)
		for _, k := range sorted {
			items = append(items, item{name: k, expr: &cypher.Variable{Symbol: k}})
		}
		if len(rows) == 0 {
			return nil, unknown("RETURN * over an empty input (column set not derivable here)")
		}
	}
	for _, it := range p.Items {
		pi, ok := it.(*cypher.ProjectionItem)
		if !ok {
			return nil, unknown("projection item %T", it)
		}
		name := ""
		if pi.Alias != nil {
			name = pi.Alias.Symbol
		} else if v, ok := pi.Expression.(*cypher.Variable); ok {
			name = v.Symbol
		} else {
			name = exprText(pi.Expression)
		}
		items = append(items, item{name: name, expr: pi.Expression, agg: containsAggregate(pi.Expression)})
	}
	for i := range items {
		for j := i + 1; j < len(items); j++ {
			if items[i].name == items[j].name {
				return nil, ErrRuntime{"duplicate column name " + items[i].name}
			}
		}
	}
	res := &projected{}
	for _, it := range items {
		res.columns = append(res.columns, it.name)
	}
	anyAgg := false
	for _, it := range items {
		anyAgg = anyAgg || it.agg
	}

	type outRow struct {
		env   Env   // projected columns
		base  Env   // a source row (for ORDER BY expressions over pre-projection variables / grouping keys)
		group []Env // the rows of the group (aggregating projections), for aggregates inside ORDER BY
	}
	var out []outRow
	if anyAgg {
		type group struct {
			key  []any
			rows []Env
		}
		var groups []*group
		index := map[string]*group{}
		// openCypher: in an aggregating item, the maximal sub-expressions that contain no aggregate but mention a
		// variable are grouping keys too (RETURN toInteger(n.value) + count(n) groups by toInteger(n.value)).
		var implicit []cypher.Expression
		for _, it := range items {
			if it.agg {
				implicit = append(implicit, implicitKeys(it.expr)...)
			}
		}
		for _, r := range rows {
			var key []any
			for _, it := range items {
				if it.agg {
					continue
				}
				v, err := e.Eval(it.expr, r)
				if err != nil {
					return nil, err
				}
				key = append(key, v)
			}
			for _, ix := range implicit {
				v, err := e.Eval(ix, r)
				if err != nil {
					return nil, err
				}
				key = append(key, v)
			}
			k := gm.CanonRow(key)
			g := index[k]
			if g == nil {
				g = &group{key: key}
				index[k] = g
				groups = append(groups, g)
			}
			g.rows = append(g.rows, r)
		}
		hasKeys := false
		for _, it := range items {
			hasKeys = hasKeys || !it.agg
		}
		if len(groups) == 0 && !hasKeys {
			groups = append(groups, &group{}) // aggregation without grouping keys over no rows yields one row
		}
		if len(groups) == 0 && hasKeys && len(implicit) == 0 {
			constantKeys := true
			for _, it := range items {
				if !it.agg {
					mentions := false
					walkExpr(it.expr, func(n cypher.Expression) {
						if _, ok := n.(*cypher.Variable); ok {
							mentions = true
						}
					})
					constantKeys = constantKeys && !mentions
				}
			}
			if constantKeys {
				return nil, unknown("aggregation whose only grouping keys are constants over no rows")
			}
		}
		for _, g := range groups {
			env := Env{}
			ki := 0
			var base Env
			if len(g.rows) > 0 {
				base = g.rows[0]
			} else {
				base = Env{}
			}
			for _, it := range items {
				if !it.agg {
					env[it.name] = g.key[ki]
					ki++
					continue
				}
				e.group = g.rows
				if e.group == nil {
					e.group = []Env{}
				}
				v, err := e.Eval(it.expr, base)
				e.group = nil
				if err != nil {
					return nil, err
				}
				env[it.name] = v
			}
			out = append(out, outRow{env: env, base: base, group: e.nonNil(g.rows)})
		}
	} else {
		for _, r := range rows {
			env := Env{}
			for _, it := range items {
				v, err := e.Eval(it.expr, r)
				if err != nil {
					return nil, err
				}
				env[it.name] = v
			}
			out = append(out, outRow{env: env, base: r})
		}
	}

	if p.Distinct {
		seen := map[string]bool{}
		var kept []outRow
		for _, o := range out {
			row := make([]any, len(res.columns))
			for i, c := range res.columns {
				row[i] = o.env[c]
			}
			k := gm.CanonRow(row)
			if !seen[k] {
				seen[k] = true
				kept = append(kept, o) // ORDER BY may repeat a projected expression: it is evaluated on the first source row
			}
		}
		out = kept
	}

	if p.Order != nil && len(p.Order.Items) > 0 {
		res.ordered = true
		keys := make([][]any, len(out))
		for i, o := range out {
			scope := Env{}
			for k, v := range o.base {
				scope[k] = v
			}
			for k, v := range o.env {
				scope[k] = v
			}
			for _, si := range p.Order.Items {
				if o.group != nil {
					e.group = o.group
				}
				v, err := e.Eval(si.Expression, scope)
				e.group = nil
				if err != nil {
					return nil, err
				}
				keys[i] = append(keys[i], v)
			}
		}
		for c := range p.Order.Items {
			col := make([]any, len(out))
			for i := range out {
				col[i] = keys[i][c]
			}
			if mixedOrderTypes(col) {
				return nil, unknown("ORDER BY over values of different or non-scalar types")
			}
		}
		idx := make([]int, len(out))
		for i := range idx {
			idx[i] = i
		}
		sort.SliceStable(idx, func(a, b int) bool {
			for c, si := range p.Order.Items {
				cmp := orderCompare(keys[idx[a]][c], keys[idx[b]][c])
				if cmp == 0 {
					continue
				}
				if si.Ascending {
					return cmp < 0
				}
				return cmp > 0
			}
			return false
		})
		sorted := make([]outRow, len(out))
		res.orderTotal = true
		seenKey := map[string]bool{}
		for i, j := range idx {
			sorted[i] = out[j]
			k := gm.CanonRow(keys[j])
			res.sortKeys = append(res.sortKeys, k)
			if seenKey[k] {
				res.orderTotal = false
			}
			seenKey[k] = true
		}
		out = sorted
	}

	full := out
	skip, limit := int64(0), int64(-1)
	if p.Skip != nil {
		v, err := e.Eval(p.Skip.Value, Env{})
		if err != nil {
			return nil, err
		}
		n, ok := v.(int64)
		if !ok || n < 0 {
			return nil, ErrRuntime{"SKIP expects a non-negative integer"}
		}
		skip = n
	}
	if p.Limit != nil {
		v, err := e.Eval(p.Limit.Value, Env{})
		if err != nil {
			return nil, err
		}
		n, ok := v.(int64)
		if !ok || n < 0 {
			return nil, ErrRuntime{"LIMIT expects a non-negative integer"}
		}
		limit = n
	}
	if skip > 0 || limit >= 0 {
		lo := skip
		if lo > int64(len(out)) {
			lo = int64(len(out))
		}
		hi := int64(len(out))
		if limit >= 0 && lo+limit < hi {
			hi = lo + limit
		}
		cut := out[lo:hi]
		if len(cut) != len(out) && !(res.ordered && res.orderTotal) {
			res.truncatedUnordered = true
			for _, o := range full {
				res.fullEnvs = append(res.fullEnvs, o.env)
			}
		}
		if res.sortKeys != nil {
			res.sortKeys = res.sortKeys[lo:hi]
		}
		out = cut
	}
	for _, o := range out {
		res.envs = append(res.envs, o.env)
	}
	return res, nil
}

// referencedOutsideFirstUse approximates the bindings the translator carries between query frames: variables that are
// mentioned at least twice in the query (projection pruning drops bindings that are introduced and never used again).
func referencedOutsideFirstUse(q *cypher.RegularQuery) map[string]bool {
	count := map[string]int{}
	walkExpr(q, func(n cypher.Expression) {
		if v, ok := n.(*cypher.Variable); ok {
			count[v.Symbol]++
		}
	})
	out := map[string]bool{}
	for k, c := range count {
		if c >= 2 {
			out[k] = true
		}
	}
	return out
}

const syntheticPrefix = " anon"

// splitOptional prepares the emulation of OptionalMatchInnerJoinsLeadingSteps for an OPTIONAL MATCH of one pattern
// part with at least two relationship steps: named is the part with every anonymous node and relationship pattern
// given a synthetic variable, prefix is named without its last step.
func splitOptional(m *cypher.Match) (named, prefix *cypher.PatternPart, ok bool) {
	if !m.Optional || len(m.Pattern) != 1 {
		return nil, nil, false
	}
	part := m.Pattern[0]
	if part.ShortestPathPattern || part.AllShortestPathsPattern || len(part.PatternElements) < 5 {
		return nil, nil, false
	}
	named, ok = nameAnonymous(part)
	if !ok {
		return nil, nil, false
	}
	cp := *named
	pre := cp
	pre.Variable = nil
	pre.PatternElements = cp.PatternElements[:len(cp.PatternElements)-2]
	return named, &pre, true
}

// optionalLastStepOnly evaluates OPTIONAL MATCH the way the translator emits a multi-step one: the leading steps are
// joined to the incoming rows with an inner join and only the last step with a left join. A row whose leading steps
// do not match disappears; every match of the leading steps that the last step cannot extend yields a row with the
// last step's variables null.
func (e *Evaluator) optionalLastStepOnly(m *cypher.Match, named, prefix *cypher.PatternPart, rows []Env) ([]Env, error) {
	prefixVars := map[string]bool{}
	for _, v := range patternVariables([]*cypher.PatternPart{prefix}) {
		prefixVars[v] = true
	}
	strip := func(env Env) Env {
		out := Env{}
		for k, v := range env {
			if !strings.HasPrefix(k, syntheticPrefix) {
				out[k] = v
			}
		}
		return out
	}
	var next []Env
	for _, r := range rows {
		restrict := map[string]bool{}
		for k := range r {
			restrict[k] = true
		}
		for k := range prefixVars {
			restrict[k] = true
		}
		extended := map[string]bool{}
		var innerErr error
		err := e.matchPattern([]*cypher.PatternPart{named}, r, func(env Env) bool {
			if m.Where != nil {
				v, err := e.Eval(m.Where, env)
				if err != nil {
					innerErr = err
					return false
				}
				if v != true {
					return true
				}
			}
			extended[envKey(env, restrict)] = true
			next = append(next, strip(env))
			return true
		})
		if err == nil {
			err = innerErr
		}
		if err != nil {
			return nil, err
		}
		err = e.matchPattern([]*cypher.PatternPart{prefix}, r, func(env Env) bool {
			if extended[envKey(env, restrict)] {
				return true
			}
			ext := env.clone()
			for _, v := range patternVariables([]*cypher.PatternPart{named}) {
				if _, bound := ext[v]; !bound {
					ext[v] = nil
				}
			}
			next = append(next, strip(ext))
			return true
		})
		if err != nil {
			return nil, err
		}
	}
	return next, nil
}

// expansionFromUnboundNode: a MATCH of one pattern part that starts with a variable-length step from a node that the
// incoming rows do not bind, with at least one binding carried in.
func expansionFromUnboundNode(m *cypher.Match, rows []Env) bool {
	if m.Optional || len(m.Pattern) != 1 || len(rows) == 0 || len(rows[0]) == 0 {
		return false
	}
	els := m.Pattern[0].PatternElements
	if len(els) < 3 || m.Pattern[0].ShortestPathPattern || m.Pattern[0].AllShortestPathsPattern {
		return false
	}
	first, ok := els[0].AsNodePattern()
	if !ok {
		return false
	}
	rel, ok := els[1].AsRelationshipPattern()
	if !ok || rel.Range == nil {
		return false
	}
	if first.Variable != nil {
		if _, bound := rows[0][first.Variable.Symbol]; bound {
			return false
		}
	}
	return true
}

// crossJoinedExpansion evaluates such a MATCH the way the translator emits it: the seed of the recursive expansion is
// every node that satisfies the predicates for SOME incoming row, and the expansion's rows are cross-joined with ALL
// incoming rows (the frame is not correlated to the seed).
func (e *Evaluator) crossJoinedExpansion(m *cypher.Match, rows []Env) ([]Env, error) {
	seen := map[string]bool{}
	var found []Env
	pattern := m.Pattern
	if named, ok := nameAnonymous(m.Pattern[0]); ok {
		pattern = []*cypher.PatternPart{named}
	}
	for _, r := range rows {
		var innerErr error
		err := e.matchPattern(pattern, r, func(env Env) bool {
			if m.Where != nil {
				v, err := e.Eval(m.Where, env)
				if err != nil {
					innerErr = err
					return false
				}
				if v != true {
					return true
				}
			}
			fresh := Env{}
			for k, v := range env {
				if _, carried := r[k]; !carried {
					fresh[k] = v
				}
			}
			if k := envKey(fresh, nil); !seen[k] {
				seen[k] = true
				found = append(found, fresh)
			}
			return true
		})
		if err == nil {
			err = innerErr
		}
		if err != nil {
			return nil, err
		}
	}
	var out []Env
	for _, r := range rows {
		for _, f := range found {
			ext := r.clone()
			for k, v := range f {
				if !strings.HasPrefix(k, syntheticPrefix) {
					ext[k] = v
				}
			}
			out = append(out, ext)
		}
	}
	return out, nil
}

// nameAnonymous returns a copy of the pattern part in which every anonymous node and relationship pattern carries a
// synthetic variable (so that two matches that differ only in an anonymous element are told apart).
func nameAnonymous(part *cypher.PatternPart) (*cypher.PatternPart, bool) {
	cp := *part
	cp.PatternElements = nil
	for i, el := range part.PatternElements {
		ne := &cypher.PatternElement{}
		switch t := el.Element.(type) {
		case *cypher.NodePattern:
			c := *t
			if c.Variable == nil {
				c.Variable = &cypher.Variable{Symbol: fmt.Sprintf("%s%d", syntheticPrefix, i)}
			}
			ne.Element = &c
		case *cypher.RelationshipPattern:
			c := *t
			if c.Variable == nil {
				c.Variable = &cypher.Variable{Symbol: fmt.Sprintf("%s%d", syntheticPrefix, i)}
			}
			ne.Element = &c
		default:
			return nil, false
		}
		cp.PatternElements = append(cp.PatternElements, ne)
	}
	return &cp, true
}

// withoutCrossExpansionPredicates emulates PredicateOverBothExpansionEndsDropped: of the top-level AND of the WHERE clause
// every conjunct that mentions both end nodes of a variable-length step which is followed by a further step of the same
// pattern is removed.
func withoutCrossExpansionPredicates(m *cypher.Match) *cypher.Match {
	if m.Where == nil {
		return m
	}
	type pair struct{ a, b string }
	var pairs []pair
	for _, part := range m.Pattern {
		els := part.PatternElements
		for i := 1; i+1 < len(els); i += 2 {
			rel, ok := els[i].AsRelationshipPattern()
			if !ok || rel.Range == nil || i+2 > len(els)-2 {
				continue
			}
			l, lok := els[i-1].AsNodePattern()
			r, rok := els[i+1].AsNodePattern()
			if lok && rok && l.Variable != nil && r.Variable != nil {
				pairs = append(pairs, pair{l.Variable.Symbol, r.Variable.Symbol})
			}
		}
	}
	if len(pairs) == 0 {
		return m
	}
	var conjuncts []cypher.Expression
	var flatten func(x cypher.Expression)
	flatten = func(x cypher.Expression) {
		switch t := x.(type) {
		case *cypher.Conjunction:
			for _, y := range t.Expressions {
				flatten(y)
			}
		case *cypher.Parenthetical:
			if c, ok := t.Expression.(*cypher.Conjunction); ok {
				flatten(c)
				return
			}
			conjuncts = append(conjuncts, x)
		default:
			conjuncts = append(conjuncts, x)
		}
	}
	for _, x := range m.Where.Expressions {
		flatten(x)
	}
	kept := cypher.NewWhere()
	dropped := false
	for _, c := range conjuncts {
		vars := map[string]bool{}
		walkExpr(c, func(n cypher.Expression) {
			if v, ok := n.(*cypher.Variable); ok {
				vars[v.Symbol] = true
			}
		})
		drop := false
		for _, p := range pairs {
			if vars[p.a] && vars[p.b] {
				drop = true
			}
		}
		if drop {
			dropped = true
			continue
		}
		kept.Add(c)
	}
	if !dropped {
		return m
	}
	cp := *m
	if kept.Len() == 0 {
		cp.Where = nil
	} else {
		cp.Where = kept
	}
	return &cp
}
