package cyref

import (
	"fmt"

	"github.com/specterops/dawgs/cypher/models/cypher"
	"github.com/specterops/dawgs/graph"

	"verif/gm"
)

// matchPattern enumerates all matches of the pattern parts of one MATCH clause under relationship isomorphism: no
// relationship is bound twice within the clause. yield returns false to stop.
func (e *Evaluator) matchPattern(parts []*cypher.PatternPart, env Env, yield func(Env) bool) error {
	used := map[int64]int{}
	var rec func(i int, env Env) (bool, error)
	rec = func(i int, env Env) (bool, error) {
		if i == len(parts) {
			return yield(env), nil
		}
		part := parts[i]
		if part.ShortestPathPattern || part.AllShortestPathsPattern {
			return false, unknown("shortestPath / allShortestPaths")
		}
		cont := true
		var innerErr error
		partUsed := used
		if e.Dev.NoRelUniquenessAcrossPatternParts {
			partUsed = map[int64]int{}
		}
		err := e.matchElements(part.PatternElements, env, partUsed, func(m Env, p gm.Path) bool {
			next := m
			if part.Variable != nil {
				if prev, bound := env[part.Variable.Symbol]; bound {
					if equal(prev, p) != triTrue {
						return true
					}
				} else {
					next = m.clone()
					if e.Dev.UndirectedContinuationReturnsBothEndpoints {
						p = e.rewalk(p)
					}
					if part.PathDirectionReversed {
						// the optimiser wrote the pattern backwards and flagged it: the path keeps the order of the
						// pattern as the user wrote it
						r := gm.Path{}
						for i := len(p.Nodes) - 1; i >= 0; i-- {
							r.Nodes = append(r.Nodes, p.Nodes[i])
						}
						for i := len(p.Edges) - 1; i >= 0; i-- {
							r.Edges = append(r.Edges, p.Edges[i])
						}
						p = r
					}
					next[part.Variable.Symbol] = p
				}
			}
			c, err := rec(i+1, next)
			if err != nil {
				innerErr = err
				return false
			}
			cont = c
			return c
		})
		if err == nil {
			err = innerErr
		}
		return cont, err
	}
	_, err := rec(0, env)
	return err
}

func (e *Evaluator) nodeMatches(np *cypher.NodePattern, id int64, env Env) (bool, error) {
	n := e.nodes[id]
	for _, k := range np.Kinds {
		found := false
		for _, h := range n.Kinds {
			if h == k.String() {
				found = true
			}
		}
		if !found {
			return false, nil
		}
	}
	return e.propsMatch(np.Properties, n.Props, env)
}

func (e *Evaluator) propsMatch(px cypher.Expression, have map[string]any, env Env) (bool, error) {
	if px == nil {
		return true, nil
	}
	var want map[string]any
	switch t := px.(type) {
	case *cypher.Properties:
		if t.Parameter != nil {
			v, err := e.Eval(t.Parameter, env)
			if err != nil {
				return false, err
			}
			m, ok := v.(map[string]any)
			if !ok {
				return false, ErrRuntime{"pattern properties parameter is not a map"}
			}
			want = m
		} else {
			v, err := e.Eval(t.Map, env)
			if err != nil {
				return false, err
			}
			want = v.(map[string]any)
		}
	case cypher.MapLiteral:
		v, err := e.Eval(t, env)
		if err != nil {
			return false, err
		}
		want = v.(map[string]any)
	default:
		return false, unknown("pattern properties %T", px)
	}
	for k, w := range want {
		h, has := have[k]
		if !has {
			return false, nil
		}
		if equal(Normalize(h), w) != triTrue {
			return false, nil
		}
	}
	return true, nil
}

func (e *Evaluator) edgeMatches(rp *cypher.RelationshipPattern, ed *gm.Edge, env Env) (bool, error) {
	if len(rp.Kinds) > 0 {
		found := false
		for _, k := range rp.Kinds {
			if k.String() == ed.Kind {
				found = true
			}
		}
		if !found {
			return false, nil
		}
	}
	return e.propsMatch(rp.Properties, ed.Props, env)
}

type hop struct {
	edge *gm.Edge
	to   int64
}

// hops lists the edges that leave node `from` in the pattern's direction (left to right). An undirected step matches
// an edge in either orientation; a self loop matches once.
func (e *Evaluator) hops(from int64, dir graph.Direction, fixed bool) []hop {
	var out []hop
	if dir == graph.DirectionOutbound || dir == graph.DirectionBoth {
		for _, ed := range e.out[from] {
			if fixed && dir == graph.DirectionBoth && ed.Start == ed.End && e.Dev.UndirectedSkipsSelfLoops {
				continue
			}
			out = append(out, hop{ed, ed.End})
		}
	}
	if dir == graph.DirectionInbound || dir == graph.DirectionBoth {
		for _, ed := range e.in[from] {
			if dir == graph.DirectionBoth && ed.Start == ed.End {
				continue // already listed as outbound
			}
			out = append(out, hop{ed, ed.Start})
		}
	}
	return out
}

// matchElements enumerates the matches of one path pattern. used is the set of relationships already bound in the
// enclosing MATCH clause; it is extended while descending and restored on the way back.
// used maps a bound relationship to its owner: fixedOwner for a fixed-length step, the element index for a
// variable-length step.
const fixedOwner = -1

func (e *Evaluator) matchElements(elems []*cypher.PatternElement, env Env, used map[int64]int, yield func(Env, gm.Path) bool) error {
	if len(elems) == 0 || len(elems)%2 == 0 {
		return unknown("pattern with %d elements", len(elems))
	}
	first, ok := elems[0].Element.(*cypher.NodePattern)
	if !ok {
		return unknown("pattern does not start with a node")
	}
	stop := false
	var walk func(i int, at int64, env Env, path gm.Path) error
	walk = func(i int, at int64, env Env, path gm.Path) error {
		if stop {
			return nil
		}
		if i >= len(elems) {
			if !yield(env, path) {
				stop = true
			}
			return nil
		}
		rp, ok1 := elems[i].Element.(*cypher.RelationshipPattern)
		np, ok2 := elems[i+1].Element.(*cypher.NodePattern)
		if !ok1 || !ok2 {
			return unknown("pattern elements out of order")
		}
		// bindNode checks the node pattern at `to` and continues
		bindNode := func(to int64, env Env, path gm.Path) error {
			ok, err := e.nodeMatches(np, to, env)
			if err != nil || !ok {
				return err
			}
			next := env
			if np.Variable != nil {
				if prev, bound := env[np.Variable.Symbol]; bound {
					if r, isNode := prev.(gm.NodeRef); !isNode || r.ID != to {
						return nil
					}
				} else {
					next = env.clone()
					next[np.Variable.Symbol] = gm.NodeRef{ID: to}
				}
			}
			return walk(i+2, to, next, path)
		}
		if rp.Range == nil {
			var boundEdge *int64
			if rp.Variable != nil {
				if prev, bound := env[rp.Variable.Symbol]; bound {
					r, isEdge := prev.(gm.EdgeRef)
					if !isEdge {
						return nil
					}
					boundEdge = &r.ID
				}
			}
			for _, h := range e.hops(at, rp.Direction, i == 1) {
				if stop {
					return nil
				}
				if _, taken := used[h.edge.ID]; taken {
					continue
				}
				if boundEdge != nil && *boundEdge != h.edge.ID {
					continue
				}
				ok, err := e.edgeMatches(rp, h.edge, env)
				if err != nil {
					return err
				}
				if !ok {
					continue
				}
				next := env
				if rp.Variable != nil && boundEdge == nil {
					next = env.clone()
					next[rp.Variable.Symbol] = gm.EdgeRef{ID: h.edge.ID}
				}
				used[h.edge.ID] = fixedOwner
				targets := []int64{h.to}
				if rp.Direction == graph.DirectionBoth && i > 1 && e.Dev.UndirectedContinuationReturnsBothEndpoints && h.edge.Start != h.edge.End {
					targets = []int64{h.edge.Start, h.edge.End}
				}
				if rp.Direction == graph.DirectionBoth && i == 1 && e.Dev.RepeatedVariableUndirectedIgnoresFarEnd && np.Variable != nil && first.Variable != nil && np.Variable.Symbol == first.Variable.Symbol {
					targets = []int64{at}
				}
				for _, to := range targets {
					pathNode := to
					if len(targets) > 1 && len(path.Nodes) > 0 {
						// the translator derives a path's nodes by walking its relationships from the start node
						switch prev := path.Nodes[len(path.Nodes)-1]; prev {
						case h.edge.Start:
							pathNode = h.edge.End
						case h.edge.End:
							pathNode = h.edge.Start
						}
					}
					np2 := gm.Path{Nodes: append(append([]int64{}, path.Nodes...), pathNode), Edges: append(append([]int64{}, path.Edges...), h.edge.ID)}
					if err = bindNode(to, next, np2); err != nil {
						break
					}
				}
				delete(used, h.edge.ID)
				if err != nil {
					return err
				}
			}
			return nil
		}
		// variable length
		if rp.Variable != nil {
			if _, bound := env[rp.Variable.Symbol]; bound {
				return unknown("re-use of a bound variable-length relationship variable")
			}
		}
		min, max := int64(1), int64(len(e.G.Edges))
		if rp.Range.StartIndex != nil {
			min = *rp.Range.StartIndex
		}
		if rp.Range.EndIndex != nil && *rp.Range.EndIndex < max {
			max = *rp.Range.EndIndex
		}
		var expand func(cur int64, depth int64, rels []any, path gm.Path) error
		expand = func(cur int64, depth int64, rels []any, path gm.Path) error {
			if stop {
				return nil
			}
			dropped := false
			if depth > 1 && e.Dev.ExpansionStopsAfterSelfLoopAtEnd {
				if last := e.edges[path.Edges[len(path.Edges)-1]]; last.Start == last.End {
					dropped = true
				}
			}
			if depth >= min && !dropped {
				next := env
				if rp.Variable != nil {
					next = env.clone()
					next[rp.Variable.Symbol] = append([]any{}, rels...)
				}
				times := 1
				if e.Dev.ExactRangeRepeatedVariableCrossJoinsNodes && min == max && np.Variable != nil && first.Variable != nil && np.Variable.Symbol == first.Variable.Symbol && i == 1 {
					times = len(e.G.Nodes)
				}
				for k := 0; k < times; k++ {
					if err := bindNode(cur, next, path); err != nil {
						return err
					}
				}
			}
			if depth >= max {
				return nil
			}
			if depth == 1 && e.Dev.ExpansionStopsAfterInitialSelfLoop {
				if first := e.edges[path.Edges[len(path.Edges)-1]]; first.Start == first.End {
					return nil
				}
			}
			for _, h := range e.hops(cur, rp.Direction, false) {
				if stop {
					return nil
				}
				prevOwner, taken := used[h.edge.ID]
				if taken && !(e.Dev.NoRelUniquenessBetweenExpansions && prevOwner != fixedOwner && prevOwner != i) {
					continue
				}
				ok, err := e.edgeMatches(rp, h.edge, env)
				if err != nil {
					return err
				}
				if !ok {
					continue
				}
				used[h.edge.ID] = i
				np2 := gm.Path{Nodes: append(append([]int64{}, path.Nodes...), h.to), Edges: append(append([]int64{}, path.Edges...), h.edge.ID)}
				err = expand(h.to, depth+1, append(rels, gm.EdgeRef{ID: h.edge.ID}), np2)
				if taken {
					used[h.edge.ID] = prevOwner
				} else {
					delete(used, h.edge.ID)
				}
				if err != nil {
					return err
				}
			}
			return nil
		}
		return expand(at, 0, nil, path)
	}

	start := func(id int64) error {
		ok, err := e.nodeMatches(first, id, env)
		if err != nil || !ok {
			return err
		}
		next := env
		if first.Variable != nil {
			if _, bound := env[first.Variable.Symbol]; !bound {
				next = env.clone()
				next[first.Variable.Symbol] = gm.NodeRef{ID: id}
			}
		}
		return walk(1, id, next, gm.Path{Nodes: []int64{id}})
	}
	if first.Variable != nil {
		if prev, bound := env[first.Variable.Symbol]; bound {
			switch r := prev.(type) {
			case gm.NodeRef:
				return start(r.ID)
			case nil:
				return nil // a null binding (from OPTIONAL MATCH) matches nothing
			default:
				return ErrRuntime{fmt.Sprintf("variable %s is bound to a non-node", first.Variable.Symbol)}
			}
		}
	}
	for i := range e.G.Nodes {
		if stop {
			break
		}
		if err := start(e.G.Nodes[i].ID); err != nil {
			return err
		}
	}
	return nil
}

// patternVariables lists the variables a MATCH pattern introduces (for null extension by OPTIONAL MATCH).
func patternVariables(parts []*cypher.PatternPart) []string {
	var out []string
	for _, p := range parts {
		if p.Variable != nil {
			out = append(out, p.Variable.Symbol)
		}
		for _, el := range p.PatternElements {
			switch t := el.Element.(type) {
			case *cypher.NodePattern:
				if t.Variable != nil {
					out = append(out, t.Variable.Symbol)
				}
			case *cypher.RelationshipPattern:
				if t.Variable != nil {
					out = append(out, t.Variable.Symbol)
				}
			}
		}
	}
	return out
}

// rewalk derives the node list of a path the way the translator's ordered_edges_to_path does: it walks the
// relationships from the first node and stops at the first relationship that does not touch the node reached so far.
func (e *Evaluator) rewalk(p gm.Path) gm.Path {
	if len(p.Nodes) == 0 {
		return p
	}
	out := gm.Path{Nodes: []int64{p.Nodes[0]}}
	cur := p.Nodes[0]
	for _, id := range p.Edges {
		var edge *gm.Edge
		for i := range e.G.Edges {
			if e.G.Edges[i].ID == id {
				edge = &e.G.Edges[i]
			}
		}
		if edge == nil {
			break
		}
		switch cur {
		case edge.Start:
			cur = edge.End
		case edge.End:
			cur = edge.Start
		default:
			return out
		}
		out.Nodes = append(out.Nodes, cur)
		out.Edges = append(out.Edges, id)
	}
	return out
}
