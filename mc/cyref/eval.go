package cyref

import (
	"fmt"
	"math"
	"regexp"
	"strconv"
	"strings"
	"unicode/utf8"

	"github.com/specterops/dawgs/cypher/models/cypher"
	"github.com/specterops/dawgs/graph"

	"verif/gm"
)

// Env binds variable names to values.
type Env map[string]any

func (e Env) clone() Env {
	o := make(Env, len(e)+2)
	for k, v := range e {
		o[k] = v
	}
	return o
}

// Evaluator evaluates queries on one graph.
type Evaluator struct {
	matchSeen bool // a MATCH clause has been evaluated (the deviation LeadingOptionalMatchYieldsNoRow looks at it)
	G         *gm.Graph
	Params    map[string]any
	// Dev switches on documented semantic deviations of DAWGS from openCypher. The C01 checker attributes a
	// disagreement to a known finding iff the SQL result equals the reference result with exactly that deviation on.
	Dev Deviations
	// group is set while a projection with aggregation evaluates one group.
	group []Env
	// inWhere is set while a WHERE predicate is evaluated.
	inWhere bool
	// carried: the bindings the translator keeps between frames (only used by a deviation switch).
	carried map[string]bool
	// adjacency
	out, in map[int64][]*gm.Edge
	nodes   map[int64]*gm.Node
	edges   map[int64]*gm.Edge
}

// Deviations are the known semantic deviations (each corresponds to one entry of known_findings.json).
type Deviations struct {
	// UndirectedSkipsSelfLoops: an undirected fixed-length step never matches a self-loop relationship (the emitted
	// SQL carries `n0.id <> n1.id`).
	UndirectedSkipsSelfLoops bool
	// ExpansionStopsAfterInitialSelfLoop: a variable-length path whose first relationship is a self loop is never
	// extended (the recursive CTE's primer marks it is_cycle and the recursion skips cycles).
	ExpansionStopsAfterInitialSelfLoop bool
	// SumOfNoRowsIsNull: sum() over no (non-null) values yields null instead of 0 (PostgreSQL's sum).
	SumOfNoRowsIsNull bool
	// OrderingCoercesProperty: in <, <=, >, >= a property operand is read as text (jsonb ->>) and cast to the type of
	// the other operand, so a numeric-looking string compares as a number and a number compares as its text.
	OrderingCoercesProperty bool
	// NoRelUniquenessAcrossPatternParts: relationship isomorphism is not enforced between the comma-separated pattern
	// parts of one MATCH clause.
	NoRelUniquenessAcrossPatternParts bool
	// NoRelUniquenessBetweenExpansions: a variable-length step may re-use relationships bound by another
	// variable-length step of the same pattern.
	NoRelUniquenessBetweenExpansions bool
	// WherePredicateCoalescesNullString: in a WHERE clause, STARTS WITH / ENDS WITH / CONTAINS read a missing property
	// as the empty string (coalesce(.., '')).
	WherePredicateCoalescesNullString bool
	// QuantifierOverNullListIsFalse: any / none / single over a null list yield false instead of null.
	QuantifierOverNullListIsFalse bool
	// ExpansionStopsAfterSelfLoopAtEnd: the same defect as ExpansionStopsAfterInitialSelfLoop when the translator
	// drives the expansion from the pattern's right end: a path whose last relationship is a self loop has no longer
	// version.
	ExpansionStopsAfterSelfLoopAtEnd bool
	// UndirectedContinuationReturnsBothEndpoints: an undirected fixed step that is not the first step of its pattern
	// binds its far node to either endpoint of the relationship (the near node included).
	UndirectedContinuationReturnsBothEndpoints bool
	// RepeatedVariableUndirectedIgnoresFarEnd: (n)--(n) yields every endpoint of every relationship.
	RepeatedVariableUndirectedIgnoresFarEnd bool
	// OptionalMatchMultipliesDuplicateRows: OPTIONAL MATCH is a left join on the carried bindings, so k identical
	// incoming rows each receive the matches of all k of them.
	OptionalMatchMultipliesDuplicateRows bool
	// OptionalMatchJoinsOnAllBindings selects the join key of the above: every binding in scope instead of only the
	// bindings that are referenced again (projection pruning keeps expansion endpoints).
	OptionalMatchJoinsOnAllBindings bool
	// ExactRangeRepeatedVariableCrossJoinsNodes: (n)-[*k..k]->(n) joins the node table without a condition, so every
	// match appears once per node of the graph.
	ExactRangeRepeatedVariableCrossJoinsNodes bool
	// WithDropsOrderSkipLimit: ORDER BY, SKIP and LIMIT of a WITH clause are not emitted.
	WithDropsOrderSkipLimit bool
	// ListConcatenationReadsNullAsEmpty: null + list (and list + null) yield the list instead of null.
	ListConcatenationReadsNullAsEmpty bool
	// LeadingOptionalMatchYieldsNoRow: an OPTIONAL MATCH that no MATCH precedes (the query starts with it, or with UNWIND /
	// WITH of values) and that matches nothing yields no row
	// instead of one row of nulls.
	LeadingOptionalMatchYieldsNoRow bool
	// OptionalMatchNullBindingLosesMatch: the left join of OPTIONAL MATCH compares every carried binding with =, so a
	// row in which an earlier OPTIONAL MATCH left a null never joins its matches and is extended with nulls.
	OptionalMatchNullBindingLosesMatch bool
	// OptionalMatchInnerJoinsLeadingSteps: of an OPTIONAL MATCH with several relationship steps only the last step is
	// left-joined; the leading steps are inner-joined to the incoming rows.
	OptionalMatchInnerJoinsLeadingSteps bool
	// MultiStepOptionalMatchIsPlainMatch: an OPTIONAL MATCH with several relationship steps behaves like MATCH (the
	// translation without lowerings filters the leading expansion on the existence of the last step).
	MultiStepOptionalMatchIsPlainMatch bool
	// ExpansionSeedCrossJoinsEarlierFrame: a MATCH that starts with a variable-length step from an unbound node is not
	// correlated to the incoming rows: its seed is every node satisfying the predicates for some incoming row and its
	// rows are cross-joined with all incoming rows.
	ExpansionSeedCrossJoinsEarlierFrame bool
	// PredicateOverBothExpansionEndsDropped: a WHERE conjunct that mentions both end nodes of a variable-length step is
	// not emitted at all when the pattern continues after that step.
	PredicateOverBothExpansionEndsDropped bool
	// RegexMatchIsUnanchored: =~ succeeds when the pattern matches anywhere in the string (PostgreSQL's ~) instead of
	// the whole string.
	RegexMatchIsUnanchored bool
	// QuantifierPredicateNullCountsAsFalse: inside any / all / none / single an element whose predicate is null counts
	// as not satisfying it (count(*) filter (where ..)), so the quantifier never yields null for a non-null list.
	QuantifierPredicateNullCountsAsFalse bool
	// ArithmeticAndSumCoerceProperty: a property operand of + - * / % and the argument of sum()/avg() are read as text
	// and cast to a number.
	ArithmeticAndSumCoerceProperty bool
}

func New(g *gm.Graph, params map[string]any) *Evaluator {
	e := &Evaluator{G: g, Params: map[string]any{}, out: map[int64][]*gm.Edge{}, in: map[int64][]*gm.Edge{}, nodes: map[int64]*gm.Node{}, edges: map[int64]*gm.Edge{}}
	for k, v := range params {
		e.Params[k] = Normalize(v)
	}
	for i := range g.Nodes {
		e.nodes[g.Nodes[i].ID] = &g.Nodes[i]
	}
	for i := range g.Edges {
		ed := &g.Edges[i]
		e.edges[ed.ID] = ed
		e.out[ed.Start] = append(e.out[ed.Start], ed)
		e.in[ed.End] = append(e.in[ed.End], ed)
	}
	return e
}

// DecodeString decodes a Cypher string literal (with its quotes) per the openCypher escape rules.
func DecodeString(raw string) (string, error) {
	if len(raw) < 2 || (raw[0] != '\'' && raw[0] != '"') || raw[len(raw)-1] != raw[0] {
		return "", fmt.Errorf("not a quoted string literal: %q", raw)
	}
	body := raw[1 : len(raw)-1]
	var sb strings.Builder
	for i := 0; i < len(body); i++ {
		c := body[i]
		if c != '\\' {
			sb.WriteByte(c)
			continue
		}
		i++
		if i >= len(body) {
			return "", fmt.Errorf("dangling backslash")
		}
		switch body[i] {
		case '\\':
			sb.WriteByte('\\')
		case '\'':
			sb.WriteByte('\'')
		case '"':
			sb.WriteByte('"')
		case 'b', 'B':
			sb.WriteByte('\b')
		case 'f', 'F':
			sb.WriteByte('\f')
		case 'n', 'N':
			sb.WriteByte('\n')
		case 'r', 'R':
			sb.WriteByte('\r')
		case 't', 'T':
			sb.WriteByte('\t')
		case 'u', 'U':
			n := 4
			if body[i] == 'U' {
				n = 8
			}
			if i+n >= len(body) {
				return "", fmt.Errorf("short unicode escape")
			}
			cp, err := strconv.ParseUint(body[i+1:i+1+n], 16, 32)
			if err != nil {
				return "", err
			}
			sb.WriteRune(rune(cp))
			i += n
		default:
			return "", fmt.Errorf("unknown escape \\%c", body[i])
		}
	}
	return sb.String(), nil
}

func (e *Evaluator) literal(l *cypher.Literal) (any, error) {
	if l.Null {
		return nil, nil
	}
	switch v := l.Value.(type) {
	case string:
		if len(v) >= 2 && (v[0] == '\'' || v[0] == '"') {
			s, err := DecodeString(v)
			if err != nil {
				return nil, unknown("string literal %q: %v", v, err)
			}
			return s, nil
		}
		return v, nil
	case nil:
		return nil, nil
	default:
		return Normalize(v), nil
	}
}

func (e *Evaluator) props(v any) (map[string]any, bool) {
	switch t := v.(type) {
	case gm.NodeRef:
		if n := e.nodes[t.ID]; n != nil {
			return n.Props, true
		}
	case gm.EdgeRef:
		if ed := e.edges[t.ID]; ed != nil {
			return ed.Props, true
		}
	case map[string]any:
		return t, true
	}
	return nil, false
}

// Eval evaluates an expression to a value (nil = null).
func (e *Evaluator) Eval(x cypher.Expression, env Env) (any, error) {
	switch t := x.(type) {
	case nil:
		return nil, nil
	case *cypher.Literal:
		return e.literal(t)
	case *cypher.Parameter:
		if v, ok := e.Params[t.Symbol]; ok {
			return v, nil
		}
		if t.Value != nil {
			return Normalize(t.Value), nil
		}
		return nil, ErrRuntime{"missing parameter $" + t.Symbol}
	case *cypher.Variable:
		v, ok := env[t.Symbol]
		if !ok {
			return nil, ErrRuntime{"variable " + t.Symbol + " is not defined"}
		}
		return v, nil
	case *cypher.Parenthetical:
		return e.Eval(t.Expression, env)
	case *cypher.PropertyLookup:
		base, err := e.Eval(t.Atom, env)
		if err != nil {
			return nil, err
		}
		if base == nil {
			return nil, nil
		}
		if p, ok := e.props(base); ok {
			if v, has := p[t.Symbol]; has {
				return Normalize(v), nil
			}
			return nil, nil
		}
		return nil, ErrRuntime{fmt.Sprintf("property access on %s", gm.Canon(base))}
	case *cypher.ListLiteral:
		out := make([]any, 0, len(*t))
		for _, it := range *t {
			v, err := e.Eval(it, env)
			if err != nil {
				return nil, err
			}
			out = append(out, v)
		}
		return out, nil
	case cypher.MapLiteral:
		out := map[string]any{}
		for k, it := range t {
			v, err := e.Eval(it, env)
			if err != nil {
				return nil, err
			}
			out[k] = v
		}
		return out, nil
	case *cypher.Negation:
		v, err := e.Eval(t.Expression, env)
		if err != nil {
			return nil, err
		}
		b, err := triOf(v)
		if err != nil {
			return nil, err
		}
		return triNot(b).value(), nil
	case *cypher.Conjunction:
		return e.logic(t.Expressions, env, triTrue, triAnd)
	case *cypher.Disjunction:
		return e.logic(t.Expressions, env, triFalse, triOr)
	case *cypher.ExclusiveDisjunction:
		return e.logic(t.Expressions, env, triFalse, triXor)
	case *cypher.Where:
		saved := e.inWhere
		e.inWhere = true
		v, err := e.logic(t.Expressions, env, triTrue, triAnd)
		e.inWhere = saved
		return v, err
	case *cypher.Comparison:
		return e.comparison(t, env)
	case *cypher.ArithmeticExpression:
		return e.arithmetic(t, env)
	case *cypher.UnaryAddOrSubtractExpression:
		v, err := e.Eval(t.Right, env)
		if err != nil || v == nil {
			return nil, err
		}
		if !isNumber(v) {
			return nil, ErrRuntime{"unary " + t.Operator.String() + " on a non-number"}
		}
		if t.Operator == cypher.OperatorSubtract {
			if i, ok := v.(int64); ok {
				return -i, nil
			}
			return -v.(float64), nil
		}
		return v, nil
	case *cypher.KindMatcher:
		ref, err := e.Eval(t.Reference, env)
		if err != nil || ref == nil {
			return nil, err
		}
		return e.kindMatch(ref, t.Kinds, t.IsExclusive)
	case *cypher.FunctionInvocation:
		return e.function(t, env)
	case *cypher.Quantifier:
		return e.quantifier(t, env)
	case *cypher.PatternPredicate:
		found := false
		err := e.matchElements(t.PatternElements, env, map[int64]int{}, func(Env, gm.Path) bool { found = true; return false })
		return found, err
	case *cypher.ProjectionItem:
		return e.Eval(t.Expression, env)
	case *cypher.FilterExpression, *cypher.IDInCollection:
		return nil, unknown("bare filter expression")
	}
	return nil, unknown("expression node %T", x)
}

func (e *Evaluator) logic(xs []cypher.Expression, env Env, unit tri, op func(a, b tri) tri) (any, error) {
	acc := unit
	first := true
	for _, x := range xs {
		v, err := e.Eval(x, env)
		if err != nil {
			return nil, err
		}
		b, err := triOf(v)
		if err != nil {
			return nil, err
		}
		if first {
			acc, first = b, false
			if len(xs) == 1 {
				return acc.value(), nil
			}
			continue
		}
		acc = op(acc, b)
	}
	return acc.value(), nil
}

func (e *Evaluator) kindMatch(ref any, kinds graph.Kinds, exclusive bool) (any, error) {
	var have []string
	switch t := ref.(type) {
	case gm.NodeRef:
		have = e.nodes[t.ID].Kinds
	case gm.EdgeRef:
		have = []string{e.edges[t.ID].Kind}
	default:
		return nil, ErrRuntime{"label predicate on " + gm.Canon(ref)}
	}
	has := func(k string) bool {
		for _, h := range have {
			if h == k {
				return true
			}
		}
		return false
	}
	if _, isEdge := ref.(gm.EdgeRef); isEdge || !exclusive {
		// any-of (relationship types are alternatives; non-exclusive matchers are overlap tests)
		for _, k := range kinds {
			if has(k.String()) {
				return true, nil
			}
		}
		return false, nil
	}
	for _, k := range kinds {
		if !has(k.String()) {
			return false, nil
		}
	}
	return true, nil
}

func (e *Evaluator) comparison(c *cypher.Comparison, env Env) (any, error) {
	left, err := e.Eval(c.Left, env)
	if err != nil {
		return nil, err
	}
	// a chain a < b < c means (a < b) and (b < c)
	acc := triTrue
	for i, p := range c.Partials {
		right, err := e.Eval(p.Right, env)
		if err != nil {
			return nil, err
		}
		l2, r2 := left, right
		if e.Dev.OrderingCoercesProperty {
			switch p.Operator {
			case cypher.OperatorLessThan, cypher.OperatorLessThanOrEqualTo, cypher.OperatorGreaterThan, cypher.OperatorGreaterThanOrEqualTo:
				lx := cypher.Expression(c.Left)
				if i > 0 {
					lx = c.Partials[i-1].Right
				}
				if l2, r2, err = coerceOrdering(lx, p.Right, left, right); err != nil {
					return nil, err
				}
			}
		}
		r, err := e.compareOp(p.Operator, l2, r2)
		if err != nil {
			return nil, err
		}
		if i == 0 {
			acc = r
		} else {
			acc = triAnd(acc, r)
		}
		left = right
	}
	return acc.value(), nil
}

// coerceOrdering models `(props ->> 'k')::T op literal`: the property side is read as text and cast to the other
// side's type; a failing cast is a run-time error.
func coerceOrdering(lx, rx cypher.Expression, l, r any) (any, any, error) {
	_, lProp := lx.(*cypher.PropertyLookup)
	_, rProp := rx.(*cypher.PropertyLookup)
	coerce := func(prop, other any) (any, error) {
		if prop == nil || other == nil {
			return prop, nil
		}
		text := ""
		switch t := prop.(type) {
		case string:
			text = t
		case int64:
			text = strconv.FormatInt(t, 10)
		case float64:
			text = strconv.FormatFloat(t, 'g', -1, 64)
		case bool:
			text = strconv.FormatBool(t)
		default:
			return nil, ErrRuntime{"cast of a container to a scalar"}
		}
		switch other.(type) {
		case int64:
			i, err := strconv.ParseInt(strings.TrimSpace(text), 10, 64)
			if err != nil {
				return nil, ErrRuntime{"invalid input syntax for type bigint"}
			}
			return i, nil
		case float64:
			f, err := strconv.ParseFloat(strings.TrimSpace(text), 64)
			if err != nil {
				return nil, ErrRuntime{"invalid input syntax for type double precision"}
			}
			return f, nil
		case string:
			return text, nil
		}
		return prop, nil
	}
	var err error
	if lProp && !rProp {
		l, err = coerce(l, r)
	} else if rProp && !lProp {
		r, err = coerce(r, l)
	}
	return l, r, err
}

func (e *Evaluator) compareOp(op cypher.Operator, l, r any) (tri, error) {
	switch op {
	case cypher.OperatorEquals:
		return equal(l, r), nil
	case cypher.OperatorNotEquals:
		return triNot(equal(l, r)), nil
	case cypher.OperatorLessThan, cypher.OperatorLessThanOrEqualTo, cypher.OperatorGreaterThan, cypher.OperatorGreaterThanOrEqualTo:
		c, ok := compare(l, r)
		if !ok {
			return triNull, nil
		}
		switch op {
		case cypher.OperatorLessThan:
			return boolTri(c < 0), nil
		case cypher.OperatorLessThanOrEqualTo:
			return boolTri(c <= 0), nil
		case cypher.OperatorGreaterThan:
			return boolTri(c > 0), nil
		default:
			return boolTri(c >= 0), nil
		}
	case cypher.OperatorIs:
		if r == nil {
			return boolTri(l == nil), nil
		}
		return triNull, unknown("IS with a non-null right side")
	case cypher.OperatorIsNot:
		if r == nil {
			return boolTri(l != nil), nil
		}
		return triNull, unknown("IS NOT with a non-null right side")
	case cypher.OperatorStartsWith, cypher.OperatorEndsWith, cypher.OperatorContains:
		if l == nil && r != nil && e.inWhere && e.Dev.WherePredicateCoalescesNullString {
			l = ""
		}
		if l == nil || r == nil {
			return triNull, nil
		}
		ls, lok := l.(string)
		rs, rok := r.(string)
		if !lok || !rok {
			return triNull, nil // openCypher: null when either operand is not a string
		}
		switch op {
		case cypher.OperatorStartsWith:
			return boolTri(strings.HasPrefix(ls, rs)), nil
		case cypher.OperatorEndsWith:
			return boolTri(strings.HasSuffix(ls, rs)), nil
		default:
			return boolTri(strings.Contains(ls, rs)), nil
		}
	case cypher.OperatorIn:
		if r == nil {
			return triNull, nil
		}
		list, ok := r.([]any)
		if !ok {
			return triNull, ErrRuntime{"IN expects a list on the right"}
		}
		res := triFalse
		for _, it := range list {
			switch equal(l, it) {
			case triTrue:
				return triTrue, nil
			case triNull:
				res = triNull
			}
		}
		if l == nil && len(list) > 0 {
			return triNull, nil
		}
		return res, nil
	case cypher.OperatorRegexMatch:
		if l == nil || r == nil {
			return triNull, nil
		}
		ls, lok := l.(string)
		rs, rok := r.(string)
		if !lok || !rok {
			return triNull, nil
		}
		// only patterns on which Java regular expressions (Neo4j), PostgreSQL AREs and RE2 agree
		for _, c := range rs {
			if !(c >= 'a' && c <= 'z' || c >= 'A' && c <= 'Z' || c >= '0' && c <= '9' || c == '.' || c == '*' || c == ' ') {
				return triNull, unknown("regular expression outside the common subset")
			}
		}
		anchored := "^(?:" + rs + ")$"
		if e.Dev.RegexMatchIsUnanchored {
			anchored = rs
		}
		re, err := regexp.Compile(anchored)
		if err != nil {
			return triNull, unknown("regular expression")
		}
		return boolTri(re.MatchString(ls)), nil
	}
	return triNull, unknown("comparison operator %q", op)
}

func (e *Evaluator) arithmetic(a *cypher.ArithmeticExpression, env Env) (any, error) {
	acc, err := e.Eval(a.Left, env)
	if err != nil {
		return nil, err
	}
	accExpr := a.Left
	for _, p := range a.Partials {
		r, err := e.Eval(p.Right, env)
		if err != nil {
			return nil, err
		}
		if e.Dev.ArithmeticAndSumCoerceProperty {
			if acc, r, err = coerceOrdering(accExpr, p.Right, acc, r); err != nil {
				return nil, err
			}
		}
		accExpr = nil
		if e.Dev.ListConcatenationReadsNullAsEmpty && p.Operator == cypher.OperatorAdd {
			if _, isList := r.([]any); isList && acc == nil {
				acc = []any{}
			}
			if _, isList := acc.([]any); isList && r == nil {
				r = []any{}
			}
		}
		acc, err = arith(p.Operator, acc, r)
		if err != nil {
			return nil, err
		}
	}
	return acc, nil
}

func arith(op cypher.Operator, l, r any) (any, error) {
	if l == nil || r == nil {
		return nil, nil
	}
	if op == cypher.OperatorAdd {
		// string concatenation and list concatenation
		ls, lIsS := l.(string)
		rs, rIsS := r.(string)
		if lIsS && rIsS {
			return ls + rs, nil
		}
		ll, lIsL := l.([]any)
		rl, rIsL := r.([]any)
		switch {
		case lIsL && rIsL:
			return append(append([]any{}, ll...), rl...), nil
		case lIsL:
			return append(append([]any{}, ll...), r), nil
		case rIsL:
			return append([]any{l}, rl...), nil
		}
		if lIsS || rIsS {
			// string + number concatenates (openCypher: "+" on a string and a number yields a string)
			other := r
			if rIsS {
				other = l
			}
			var txt string
			switch t := other.(type) {
			case int64:
				txt = strconv.FormatInt(t, 10)
			case float64:
				return nil, unknown("string + float (spelling is implementation specific)")
			default:
				return nil, ErrRuntime{"string + " + gm.Canon(other)}
			}
			if lIsS {
				return ls + txt, nil
			}
			return txt + rs, nil
		}
	}
	if !isNumber(l) || !isNumber(r) {
		return nil, ErrRuntime{fmt.Sprintf("arithmetic %s on %s and %s", op, gm.Canon(l), gm.Canon(r))}
	}
	li, lInt := l.(int64)
	ri, rInt := r.(int64)
	if lInt && rInt {
		switch op {
		case cypher.OperatorAdd:
			return li + ri, nil
		case cypher.OperatorSubtract:
			return li - ri, nil
		case cypher.OperatorMultiply:
			return li * ri, nil
		case cypher.OperatorDivide:
			if ri == 0 {
				return nil, ErrRuntime{"division by zero"}
			}
			return li / ri, nil
		case cypher.OperatorModulo:
			if ri == 0 {
				return nil, ErrRuntime{"division by zero"}
			}
			return li % ri, nil
		case cypher.OperatorPowerOf:
			return math.Pow(float64(li), float64(ri)), nil
		}
	}
	lf, rf := toFloat(l), toFloat(r)
	switch op {
	case cypher.OperatorAdd:
		return lf + rf, nil
	case cypher.OperatorSubtract:
		return lf - rf, nil
	case cypher.OperatorMultiply:
		return lf * rf, nil
	case cypher.OperatorDivide:
		return lf / rf, nil
	case cypher.OperatorModulo:
		return math.Mod(lf, rf), nil
	case cypher.OperatorPowerOf:
		return math.Pow(lf, rf), nil
	}
	return nil, unknown("arithmetic operator %q", op)
}

func (e *Evaluator) quantifier(q *cypher.Quantifier, env Env) (any, error) {
	if q.Filter == nil || q.Filter.Specifier == nil {
		return nil, unknown("quantifier without a specifier")
	}
	listV, err := e.Eval(q.Filter.Specifier.Expression, env)
	if err != nil {
		return nil, err
	}
	if listV == nil {
		if e.Dev.QuantifierOverNullListIsFalse && q.Type != cypher.QuantifierTypeAll {
			return false, nil
		}
		return nil, nil
	}
	list, ok := listV.([]any)
	if !ok {
		return nil, ErrRuntime{"quantifier over a non-list"}
	}
	var nTrue, nNull int
	inner := env.clone()
	for _, it := range list {
		inner[q.Filter.Specifier.Variable.Symbol] = it
		r := triTrue
		if q.Filter.Where != nil {
			v, err := e.Eval(q.Filter.Where, inner)
			if err != nil {
				return nil, err
			}
			if r, err = triOf(v); err != nil {
				return nil, err
			}
		}
		switch r {
		case triTrue:
			nTrue++
		case triNull:
			nNull++
		}
	}
	n := len(list)
	if e.Dev.QuantifierPredicateNullCountsAsFalse {
		nNull = 0
	}
	switch q.Type {
	case cypher.QuantifierTypeAny:
		if nTrue > 0 {
			return true, nil
		}
		if nNull > 0 {
			return nil, nil
		}
		return false, nil
	case cypher.QuantifierTypeAll:
		if nTrue == n {
			return true, nil
		}
		if nTrue+nNull == n {
			return nil, nil
		}
		return false, nil
	case cypher.QuantifierTypeNone:
		if nTrue > 0 {
			return false, nil
		}
		if nNull > 0 {
			return nil, nil
		}
		return true, nil
	case cypher.QuantifierTypeSingle:
		if nTrue > 1 {
			return false, nil
		}
		if nNull > 0 {
			return nil, nil
		}
		return nTrue == 1, nil
	}
	return nil, unknown("quantifier %q", q.Type)
}

var aggregates = map[string]bool{"count": true, "collect": true, "sum": true, "avg": true, "min": true, "max": true}

func isAggregate(f *cypher.FunctionInvocation) bool {
	return len(f.Namespace) == 0 && aggregates[strings.ToLower(f.Name)]
}

func (e *Evaluator) function(f *cypher.FunctionInvocation, env Env) (any, error) {
	name := strings.ToLower(f.Name)
	if len(f.Namespace) > 0 {
		return nil, unknown("namespaced function %v.%s", f.Namespace, f.Name)
	}
	if isAggregate(f) {
		if e.group == nil {
			return nil, ErrRuntime{"aggregate " + name + " outside a projection"}
		}
		return e.aggregate(name, f)
	}
	args := make([]any, len(f.Arguments))
	for i, a := range f.Arguments {
		v, err := e.Eval(a, env)
		if err != nil {
			return nil, err
		}
		args[i] = v
	}
	need := func(n int) error {
		if len(args) != n {
			return ErrRuntime{fmt.Sprintf("%s expects %d argument(s)", name, n)}
		}
		return nil
	}
	switch name {
	case "id":
		if err := need(1); err != nil {
			return nil, err
		}
		switch t := args[0].(type) {
		case nil:
			return nil, nil
		case gm.NodeRef:
			return t.ID, nil
		case gm.EdgeRef:
			return t.ID, nil
		}
		return nil, ErrRuntime{"id() of a non-entity"}
	case "type":
		if err := need(1); err != nil {
			return nil, err
		}
		switch t := args[0].(type) {
		case nil:
			return nil, nil
		case gm.EdgeRef:
			return e.edges[t.ID].Kind, nil
		}
		return nil, ErrRuntime{"type() of a non-relationship"}
	case "labels":
		if err := need(1); err != nil {
			return nil, err
		}
		switch t := args[0].(type) {
		case nil:
			return nil, nil
		case gm.NodeRef:
			out := []any{}
			for _, k := range e.nodes[t.ID].Kinds {
				out = append(out, k)
			}
			return out, nil
		}
		return nil, ErrRuntime{"labels() of a non-node"}
	case "startnode", "endnode":
		if err := need(1); err != nil {
			return nil, err
		}
		switch t := args[0].(type) {
		case nil:
			return nil, nil
		case gm.EdgeRef:
			if name == "startnode" {
				return gm.NodeRef{ID: e.edges[t.ID].Start}, nil
			}
			return gm.NodeRef{ID: e.edges[t.ID].End}, nil
		}
		return nil, ErrRuntime{name + "() of a non-relationship"}
	case "nodes", "relationships", "length":
		if err := need(1); err != nil {
			return nil, err
		}
		switch t := args[0].(type) {
		case nil:
			return nil, nil
		case gm.Path:
			switch name {
			case "nodes":
				out := []any{}
				for _, id := range t.Nodes {
					out = append(out, gm.NodeRef{ID: id})
				}
				return out, nil
			case "relationships":
				out := []any{}
				for _, id := range t.Edges {
					out = append(out, gm.EdgeRef{ID: id})
				}
				return out, nil
			default:
				return int64(len(t.Edges)), nil
			}
		case []any:
			if name == "length" {
				return nil, unknown("length() of a list")
			}
		case string:
			if name == "length" {
				return nil, unknown("length() of a string")
			}
		}
		return nil, ErrRuntime{name + "() of a non-path"}
	case "size":
		if err := need(1); err != nil {
			return nil, err
		}
		switch t := args[0].(type) {
		case nil:
			return nil, nil
		case []any:
			return int64(len(t)), nil
		case string:
			return int64(utf8.RuneCountInString(t)), nil
		}
		return nil, ErrRuntime{"size() of " + gm.Canon(args[0])}
	case "head", "last":
		if err := need(1); err != nil {
			return nil, err
		}
		switch t := args[0].(type) {
		case nil:
			return nil, nil
		case []any:
			if len(t) == 0 {
				return nil, nil
			}
			if name == "head" {
				return t[0], nil
			}
			return t[len(t)-1], nil
		}
		return nil, ErrRuntime{name + "() of a non-list"}
	case "tail":
		if err := need(1); err != nil {
			return nil, err
		}
		switch t := args[0].(type) {
		case nil:
			return nil, nil
		case []any:
			if len(t) == 0 {
				return []any{}, nil
			}
			return append([]any{}, t[1:]...), nil
		}
		return nil, ErrRuntime{"tail() of a non-list"}
	case "coalesce":
		for _, a := range args {
			if a != nil {
				return a, nil
			}
		}
		return nil, nil
	case "tolower", "toupper":
		if err := need(1); err != nil {
			return nil, err
		}
		switch t := args[0].(type) {
		case nil:
			return nil, nil
		case string:
			if name == "tolower" {
				return strings.ToLower(t), nil
			}
			return strings.ToUpper(t), nil
		}
		return nil, ErrRuntime{name + "() of a non-string"}
	case "tostring":
		if err := need(1); err != nil {
			return nil, err
		}
		switch t := args[0].(type) {
		case nil:
			return nil, nil
		case string:
			return t, nil
		case int64:
			return strconv.FormatInt(t, 10), nil
		case bool:
			return strconv.FormatBool(t), nil
		case float64:
			return nil, unknown("toString of a float (spelling is implementation specific)")
		}
		return nil, ErrRuntime{"toString() of " + gm.Canon(args[0])}
	case "tointeger", "toint":
		if err := need(1); err != nil {
			return nil, err
		}
		switch t := args[0].(type) {
		case nil:
			return nil, nil
		case int64:
			return t, nil
		case float64:
			return int64(t), nil
		case string:
			if i, err := strconv.ParseInt(strings.TrimSpace(t), 10, 64); err == nil {
				return i, nil
			}
			if fl, err := strconv.ParseFloat(strings.TrimSpace(t), 64); err == nil {
				return int64(fl), nil
			}
			return nil, nil
		}
		return nil, ErrRuntime{"toInteger() of " + gm.Canon(args[0])}
	case "split":
		if err := need(2); err != nil {
			return nil, err
		}
		if args[0] == nil || args[1] == nil {
			return nil, nil
		}
		s, ok1 := args[0].(string)
		d, ok2 := args[1].(string)
		if !ok1 || !ok2 {
			return nil, ErrRuntime{"split() of non-strings"}
		}
		out := []any{}
		for _, p := range strings.Split(s, d) {
			out = append(out, p)
		}
		return out, nil
	case "exists":
		if err := need(1); err != nil {
			return nil, err
		}
		return args[0] != nil, nil
	case "keys":
		if err := need(1); err != nil {
			return nil, err
		}
		if args[0] == nil {
			return nil, nil
		}
		if p, ok := e.props(args[0]); ok {
			out := []any{}
			for _, k := range sortedKeys(p) {
				out = append(out, k)
			}
			return out, unknown("keys() order is implementation specific")
		}
		return nil, ErrRuntime{"keys() of " + gm.Canon(args[0])}
	case "abs":
		if err := need(1); err != nil {
			return nil, err
		}
		switch t := args[0].(type) {
		case nil:
			return nil, nil
		case int64:
			if t < 0 {
				return -t, nil
			}
			return t, nil
		case float64:
			return math.Abs(t), nil
		}
		return nil, ErrRuntime{"abs() of a non-number"}
	}
	return nil, unknown("function %s", name)
}

// aggregate computes an aggregate over the current group.
func (e *Evaluator) aggregate(name string, f *cypher.FunctionInvocation) (any, error) {
	rows := e.group
	saved := e.group
	e.group = nil // arguments are evaluated per row, aggregates do not nest
	defer func() { e.group = saved }()

	if name == "count" && len(f.Arguments) == 1 {
		if rq, ok := f.Arguments[0].(*cypher.RangeQuantifier); ok && rq.Value == "*" {
			return int64(len(rows)), nil
		}
	}
	if len(f.Arguments) != 1 {
		return nil, ErrRuntime{name + " expects one argument"}
	}
	var vals []any
	seen := map[string]bool{}
	for _, r := range rows {
		v, err := e.Eval(f.Arguments[0], r)
		if err != nil {
			return nil, err
		}
		if v == nil {
			continue
		}
		if e.Dev.ArithmeticAndSumCoerceProperty && (name == "sum" || name == "avg") {
			if _, isProp := f.Arguments[0].(*cypher.PropertyLookup); isProp {
				switch t := v.(type) {
				case string:
					fl, perr := strconv.ParseFloat(strings.TrimSpace(t), 64)
					if perr != nil {
						return nil, ErrRuntime{"invalid input syntax for type double precision"}
					}
					if fl == float64(int64(fl)) {
						v = int64(fl)
					} else {
						v = fl
					}
				case bool:
					return nil, ErrRuntime{"invalid input syntax for type double precision"}
				}
			}
		}
		if f.Distinct {
			k := gm.Canon(v)
			if seen[k] {
				continue
			}
			seen[k] = true
		}
		vals = append(vals, v)
	}
	switch name {
	case "count":
		return int64(len(vals)), nil
	case "collect":
		if vals == nil {
			vals = []any{}
		}
		return vals, nil
	case "sum":
		if len(vals) == 0 && e.Dev.SumOfNoRowsIsNull {
			return nil, nil
		}
		var si int64
		var sf float64
		isFloat := false
		for _, v := range vals {
			switch t := v.(type) {
			case int64:
				si += t
				sf += float64(t)
			case float64:
				isFloat = true
				sf += t
			default:
				return nil, ErrRuntime{"sum() of a non-number"}
			}
		}
		if isFloat {
			return sf, nil
		}
		return si, nil
	case "avg":
		if len(vals) == 0 {
			return nil, nil
		}
		var sf float64
		for _, v := range vals {
			if !isNumber(v) {
				return nil, ErrRuntime{"avg() of a non-number"}
			}
			sf += toFloat(v)
		}
		return sf / float64(len(vals)), nil
	case "min", "max":
		if len(vals) == 0 {
			return nil, nil
		}
		if mixedOrderTypes(vals) && !onlyStringsAndNumbers(vals) {
			return nil, unknown("min/max over values of different types")
		}
		best := vals[0]
		for _, v := range vals[1:] {
			c := orderCompare(v, best)
			if (name == "min" && c < 0) || (name == "max" && c > 0) {
				best = v
			}
		}
		return best, nil
	}
	return nil, unknown("aggregate %s", name)
}

// onlyStringsAndNumbers: openCypher's orderability (STRING < BOOLEAN < NUMBER) and PostgreSQL's jsonb order
// (String < Number < Boolean) agree on strings versus numbers.
func onlyStringsAndNumbers(vals []any) bool {
	for _, v := range vals {
		switch v.(type) {
		case string, int64, float64:
		default:
			return false
		}
	}
	return true
}
