package cyref

import (
	"reflect"
	"strings"

	"github.com/specterops/dawgs/cypher/models/cypher"
)

type stringsBuilder = strings.Builder

// walkExpr visits every syntax node below x (reflection walk over the model's exported and embedded fields).
func walkExpr(x cypher.Expression, visit func(cypher.Expression)) {
	seen := map[uintptr]bool{}
	var rec func(v reflect.Value)
	rec = func(v reflect.Value) {
		if !v.IsValid() {
			return
		}
		switch v.Kind() {
		case reflect.Interface:
			if !v.IsNil() {
				rec(v.Elem())
			}
		case reflect.Ptr:
			if v.IsNil() {
				return
			}
			if seen[v.Pointer()] {
				return
			}
			seen[v.Pointer()] = true
			if v.CanInterface() {
				visit(v.Interface())
			}
			rec(v.Elem())
		case reflect.Struct:
			for i := 0; i < v.NumField(); i++ {
				rec(v.Field(i))
			}
		case reflect.Slice, reflect.Array:
			for i := 0; i < v.Len(); i++ {
				rec(v.Index(i))
			}
		case reflect.Map:
			if v.CanInterface() {
				if _, ok := v.Interface().(cypher.MapLiteral); ok {
					visit(v.Interface())
				}
			}
			for _, k := range v.MapKeys() {
				rec(v.MapIndex(k))
			}
		}
	}
	rec(reflect.ValueOf(x))
}

// WalkModel visits every syntax node below x (exported for the checkers' query analysis).
func WalkModel(x any, visit func(cypher.Expression)) { walkExpr(x, visit) }
