//go:build verif

package algo

import (
	"github.com/specterops/dawgs/cache"
	"github.com/specterops/dawgs/cardinality"
)

// VerifCaches exposes the two bounded component-reach caches of a ReachabilityCache to the explicit-state search of
// /verif (their full internal state is then read through cache.(*Sieve).VerifState of the cache overlay).
func (s *ReachabilityCache) VerifCaches() (inbound, outbound cache.Cache[uint64, cardinality.Duplex[uint64]]) {
	return s.inboundComponentReach, s.outboundComponentReach
}

// VerifComponents exposes the component graph the cache answers from.
func (s *ReachabilityCache) VerifComponents() ComponentGraph {
	return s.components
}
