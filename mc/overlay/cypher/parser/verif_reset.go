//go:build verif

package parser

import "github.com/antlr4-go/antlr/v4"

// VerifResetPredictionCaches throws away the DFA and prediction-context caches ANTLR keeps per grammar for the life of the process.
// They only memoise adaptive prediction; parsing results do not depend on them. The parser checkers (C07, C08, C09) feed millions
// of distinct texts through one process, and without this the caches grow without bound (measured: ~3 GiB per worker). Must not be
// called while a parser or lexer of this package is running in another goroutine.
func VerifResetPredictionCaches() {
	CypherParserInit()
	CypherLexerInit()

	p := &CypherParserStaticData
	for index, state := range p.atn.DecisionToState {
		p.decisionToDFA[index] = antlr.NewDFA(state, index)
	}
	p.PredictionContextCache = antlr.NewPredictionContextCache()

	l := &CypherLexerLexerStaticData
	for index, state := range l.atn.DecisionToState {
		l.decisionToDFA[index] = antlr.NewDFA(state, index)
	}
	l.PredictionContextCache = antlr.NewPredictionContextCache()
}
