//go:build verif

package translate

import (
	"context"

	"github.com/specterops/dawgs/cypher/models/cypher"
	"github.com/specterops/dawgs/cypher/models/pgsql"
	"github.com/specterops/dawgs/cypher/models/pgsql/optimize"
	"github.com/specterops/dawgs/cypher/models/walk"
)

// VerifTranslate is Translate with a caller-controlled optimisation plan (property C02 needs translation configurations
// that Translate does not expose: everything off, one lowering off, one lowering alone).
//
// configure receives the plan computed by optimize.Optimize for a private copy of the query and may edit it. If it
// returns unoptimized=true the query is translated with an empty plan (no AST rewrite rule, no lowering decision, no
// fast path) - the baseline every other configuration is compared with. Otherwise the body below is the
// body of Translate with the edited plan.
func VerifTranslate(ctx context.Context, cypherQuery *cypher.RegularQuery, kindMapper pgsql.KindMapper, parameters map[string]any, graphID int32, configure func(plan *optimize.Plan) (unoptimized bool)) (Result, error) {
	optimizedPlan, err := optimize.Optimize(cypherQuery)
	if err != nil {
		return Result{}, err
	}

	if configure != nil && configure(&optimizedPlan) {
		// All optimisation disabled: no rewrite rule runs and the lowering plan is empty. The translator still receives a
		// plan, because without one it falls back to its own unconditional limit and suffix pushdown (a Translator that
		// never sees a plan is not an unoptimised one).
		emptyPlan, err := optimize.NewOptimizer().Optimize(cypherQuery)
		if err != nil {
			return Result{}, err
		}
		emptyPlan.LoweringPlan = optimize.LoweringPlan{}
		emptyPlan.PredicateAttachments = nil
		translator := NewTranslator(ctx, kindMapper, parameters, graphID)
		translator.SetOptimizationPlan(emptyPlan)
		if err := walk.Cypher(emptyPlan.Query, translator); err != nil {
			return Result{}, err
		}
		return translator.translation, nil
	}

	translator := NewTranslator(ctx, kindMapper, parameters, graphID)
	if membershipAliases, err := collectIDMembershipAliases(optimizedPlan.Query); err != nil {
		return Result{}, err
	} else {
		translator.collectIDMembershipAliases = membershipAliases
	}
	translator.SetOptimizationPlan(optimizedPlan)
	translator.translation.Optimization.Rules = optimizedPlan.Rules
	translator.translation.Optimization.PredicateAttachments = optimizedPlan.PredicateAttachments
	if !optimizedPlan.LoweringPlan.Empty() {
		loweringPlan := optimizedPlan.LoweringPlan
		translator.translation.Optimization.LoweringPlan = &loweringPlan
		translator.translation.Optimization.PlannedLowerings = loweringPlan.Decisions()
	}

	if translated, err := translator.translateCountStoreFastPath(optimizedPlan.Query, optimizedPlan.LoweringPlan); err != nil {
		return Result{}, err
	} else if translated {
		translator.recordSkippedLowerings()
		return translator.translation, nil
	}

	if translated, err := translator.translateAggregateTraversalCount(optimizedPlan.Query, optimizedPlan.LoweringPlan); err != nil {
		return Result{}, err
	} else if translated {
		translator.recordSkippedLowerings()
		return translator.translation, nil
	}

	if err := walk.Cypher(optimizedPlan.Query, translator); err != nil {
		return Result{}, err
	}

	translator.recordSkippedLowerings()
	return translator.translation, nil
}
