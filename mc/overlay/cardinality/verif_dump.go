//go:build verif

package cardinality

// VerifBytes returns the serialised form of the roaring bitmap behind a duplex provider (unwrapping thread-safe
// wrappers without taking their lock), so the explicit-state search of /verif can key states by the implementation's
// container layout rather than by set contents alone. ok is false for providers it does not know.
func VerifBytes[T uint32 | uint64](d Duplex[T]) (b []byte, ok bool) {
	switch typed := any(d).(type) {
	case threadSafeDuplex[T]:
		return VerifBytes[T](typed.provider)
	case bitmap32:
		b, err := typed.bitmap.ToBytes()
		return b, err == nil
	case bitmap64:
		b, err := typed.bitmap.ToBytes()
		return b, err == nil
	}
	return nil, false
}
