//go:build verif

package neo4j

// VerifRewriteQuery exposes the driver's text rewrite (parse -> rewrite -> re-emit) to checker C10.
func VerifRewriteQuery(query string, parameters map[string]any) (string, map[string]any, error) {
	return rewriteQuery(query, parameters)
}
