//go:build verif

package cache

// VerifSieveState is the complete internal state of a Sieve, for the explicit-state search of /verif.
type VerifSieveState[K comparable, V any] struct {
	Queue    []K // front (most recent) to back
	Visited  []bool
	Hand     int // index into Queue, -1 = nil, -2 = dangling (points at an element not in the queue)
	Store    map[K]V
	Size     int64
	Capacity int
	// QueueStoreAgree is false if some queue key has no store entry, an entry's element does not carry its key,
	// or the store has an entry that is not in the queue.
	QueueStoreAgree bool
}

func (s *Sieve[K, V]) VerifState() VerifSieveState[K, V] {
	st := VerifSieveState[K, V]{Hand: -1, Store: map[K]V{}, Size: s.stats.Size(), Capacity: s.stats.Capacity, QueueStoreAgree: true}
	if s.hand != nil {
		st.Hand = -2
	}
	i := 0
	for e := s.queue.Front(); e != nil; e = e.Next() {
		k := e.Value.(K)
		st.Queue = append(st.Queue, k)
		ent, ok := s.store[k]
		if !ok || ent.element != e || ent.key != k {
			st.QueueStoreAgree = false
			st.Visited = append(st.Visited, false)
		} else {
			st.Visited = append(st.Visited, ent.visited.Load())
		}
		if e == s.hand {
			st.Hand = i
		}
		i++
	}
	for k, ent := range s.store {
		st.Store[k] = ent.value
	}
	if len(s.store) != len(st.Queue) {
		st.QueueStoreAgree = false
	}
	return st
}

type VerifMapState[K comparable, V any] struct {
	Store    map[K]V
	Size     int64
	Capacity int
}

func (s *NonExpiringMapCache[K, V]) VerifState() VerifMapState[K, V] {
	st := VerifMapState[K, V]{Store: map[K]V{}, Size: s.stats.Size(), Capacity: s.stats.Capacity}
	for k, v := range s.store {
		st.Store[k] = v
	}
	return st
}
