// Package gm is the small property-graph and result-value model shared by the reference Cypher evaluator (cyref), the
// evaluator of emitted SQL (pgeval) and the checkers of C01/C02.
package gm

import (
	"encoding/json"
	"fmt"
	"math"
	"sort"
	"strconv"
	"strings"
)

// Node / Edge / Graph: a finite property multigraph. Property values are JSON-like: nil, bool, int64, float64, string,
// []any, map[string]any.
type Node struct {
	ID    int64          `json:"id"`
	Kinds []string       `json:"kinds"`
	Props map[string]any `json:"props"`
}

type Edge struct {
	ID    int64          `json:"id"`
	Start int64          `json:"start"`
	End   int64          `json:"end"`
	Kind  string         `json:"kind"`
	Props map[string]any `json:"props"`
}

type Graph struct {
	Nodes []Node `json:"nodes"`
	Edges []Edge `json:"edges"`
}

func (g *Graph) Node(id int64) *Node {
	for i := range g.Nodes {
		if g.Nodes[i].ID == id {
			return &g.Nodes[i]
		}
	}
	return nil
}

func (g *Graph) Edge(id int64) *Edge {
	for i := range g.Edges {
		if g.Edges[i].ID == id {
			return &g.Edges[i]
		}
	}
	return nil
}

// Result values. Scalars are nil, bool, int64, float64, string; containers are []any (list) and map[string]any;
// entities are NodeRef, EdgeRef and Path (identified by ids: the evaluators work on the same graph).
type NodeRef struct{ ID int64 }
type EdgeRef struct{ ID int64 }
type Path struct {
	Nodes []int64
	Edges []int64
}

// Rows is a query result: a bag of rows unless Ordered is set (the query's ORDER BY fixes a total order) .
type Rows struct {
	Columns []string
	Rows    [][]any
}

// SortLists makes Canon render every list as a sorted bag. The checks switch it on (per process) for queries whose
// lists come from collect(): the element order of an aggregated list is not defined without an ORDER BY.
var SortLists = false

// Canon renders a value canonically: integers and integral floats coincide (Cypher and JSON equality), map keys
// sorted, floats rounded to 12 significant digits (float8 output and numeric division do not agree beyond that).
func Canon(v any) string {
	var sb strings.Builder
	canon(&sb, v)
	return sb.String()
}

func canon(sb *strings.Builder, v any) {
	switch t := v.(type) {
	case nil:
		sb.WriteString("null")
	case bool:
		sb.WriteString(strconv.FormatBool(t))
	case int:
		sb.WriteString(strconv.FormatInt(int64(t), 10))
	case int64:
		sb.WriteString(strconv.FormatInt(t, 10))
	case int32:
		sb.WriteString(strconv.FormatInt(int64(t), 10))
	case int16:
		sb.WriteString(strconv.FormatInt(int64(t), 10))
	case uint64:
		sb.WriteString(strconv.FormatUint(t, 10))
	case float64:
		if t == math.Trunc(t) && math.Abs(t) < 1e15 {
			sb.WriteString(strconv.FormatInt(int64(t), 10))
		} else {
			sb.WriteString(strconv.FormatFloat(t, 'g', 12, 64))
		}
	case json.Number:
		if i, err := t.Int64(); err == nil {
			sb.WriteString(strconv.FormatInt(i, 10))
		} else if f, err := t.Float64(); err == nil {
			canon(sb, f)
		} else {
			sb.WriteString(t.String())
		}
	case string:
		sb.WriteString(strconv.Quote(t))
	case []any:
		if SortLists {
			parts := make([]string, len(t))
			for i, e := range t {
				parts[i] = Canon(e)
			}
			sort.Strings(parts)
			sb.WriteString("bag[" + strings.Join(parts, ",") + "]")
			return
		}
		sb.WriteString("[")
		for i, e := range t {
			if i > 0 {
				sb.WriteString(",")
			}
			canon(sb, e)
		}
		sb.WriteString("]")
	case map[string]any:
		keys := make([]string, 0, len(t))
		for k := range t {
			keys = append(keys, k)
		}
		sort.Strings(keys)
		sb.WriteString("{")
		for i, k := range keys {
			if i > 0 {
				sb.WriteString(",")
			}
			sb.WriteString(strconv.Quote(k))
			sb.WriteString(":")
			canon(sb, t[k])
		}
		sb.WriteString("}")
	case NodeRef:
		fmt.Fprintf(sb, "node#%d", t.ID)
	case EdgeRef:
		fmt.Fprintf(sb, "rel#%d", t.ID)
	case Path:
		fmt.Fprintf(sb, "path%v%v", t.Nodes, t.Edges)
	default:
		fmt.Fprintf(sb, "?%T(%v)", v, v)
	}
}

// CanonRow renders one row.
func CanonRow(row []any) string {
	parts := make([]string, len(row))
	for i, v := range row {
		parts[i] = Canon(v)
	}
	return strings.Join(parts, " | ")
}

// Bag returns the sorted canonical rows.
func (r *Rows) Bag() []string {
	out := make([]string, len(r.Rows))
	for i, row := range r.Rows {
		out[i] = CanonRow(row)
	}
	sort.Strings(out)
	return out
}

// Seq returns the canonical rows in result order.
func (r *Rows) Seq() []string {
	out := make([]string, len(r.Rows))
	for i, row := range r.Rows {
		out[i] = CanonRow(row)
	}
	return out
}
