// Package fakedb is an in-memory graph.Database implementing exactly the surface package retriever uses: counted and
// keyset-ordered reads for Dump and Verify, schema assertion, correlated bulk node creation and relationship creation for
// Load. Every other method panics with "fakedb: unsupported" (machinery failure, never a verdict).
//
// Created entities get fresh IDs (different from any source ID), every write attempt is appended to the mutation log at
// call time, and every call is numbered through vos.DBPoint so that database calls are crash/fault points in the same
// sequence as the file-system calls.
package fakedb

import (
	"bytes"
	"context"
	"encoding/json"
	"fmt"
	"sort"
	"strconv"

	cy "github.com/specterops/dawgs/cypher/models/cypher"
	"github.com/specterops/dawgs/graph"

	"verif/shim/vos"
)

// Spec types (JSON-serialisable; used in replay artefacts) ------------------------------------------------------------------

type Node struct {
	ID    uint64         `json:"id"`
	Kinds []string       `json:"kinds"`
	Props map[string]any `json:"props,omitempty"`
}

type Edge struct {
	ID    uint64         `json:"id"`
	Start uint64         `json:"start"`
	End   uint64         `json:"end"`
	Kind  string         `json:"kind"`
	Props map[string]any `json:"props,omitempty"`
}

type Graph struct {
	Name  string  `json:"name"`
	Nodes []*Node `json:"nodes"`
	Edges []*Edge `json:"edges"`
}

// Spec is a whole database.
type Spec struct {
	Graphs []*Graph `json:"graphs"`
}

func (s Spec) Clone() Spec {
	b, err := json.Marshal(s)
	if err != nil {
		panic(err)
	}
	var out Spec
	if err := json.Unmarshal(b, &out); err != nil {
		panic(err)
	}
	return out
}

// UnmarshalJSON keeps integers exact: numbers are read as json.Number and turned into int64 when integral, float64
// otherwise (the value types a driver hands out), so that replay artefacts reproduce the original database.
func (s *Spec) UnmarshalJSON(b []byte) error {
	type plain Spec
	var out plain
	dec := json.NewDecoder(bytes.NewReader(b))
	dec.UseNumber()
	if err := dec.Decode(&out); err != nil {
		return err
	}
	for _, g := range out.Graphs {
		for _, n := range g.Nodes {
			n.Props = denumber(n.Props).(map[string]any)
		}
		for _, e := range g.Edges {
			e.Props = denumber(e.Props).(map[string]any)
		}
	}
	*s = Spec(out)
	return nil
}

// denumber turns json.Number back into int64 (when integral and in range) or float64, the value types a driver returns.
func denumber(v any) any {
	switch t := v.(type) {
	case map[string]any:
		if t == nil {
			return map[string]any(nil)
		}
		for k, x := range t {
			t[k] = denumber(x)
		}
		return t
	case []any:
		for i, x := range t {
			t[i] = denumber(x)
		}
		return t
	case json.Number:
		if i, err := t.Int64(); err == nil {
			return i
		}
		if u, err := strconv.ParseUint(string(t), 10, 64); err == nil {
			return u
		}
		f, _ := t.Float64()
		return f
	}
	return v
}

// Mutation is one write attempt seen by the database.
type Mutation struct {
	Op    string `json:"op"`
	Graph string `json:"graph"`
	N     int    `json:"n"`
}

// DB --------------------------------------------------------------------------------------------------------------------

type DB struct {
	graphs   map[string]*Graph
	order    []string
	nextNode uint64
	nextEdge uint64
	Log      []Mutation // node / relationship write attempts, in call order
	Schemas  []graph.Schema
}

// New builds a database holding a deep copy of spec. Created IDs start at firstNewID.
func New(spec Spec, firstNewID uint64) *DB {
	db := &DB{graphs: map[string]*Graph{}, nextNode: firstNewID, nextEdge: firstNewID + 500}
	for _, g := range spec.Clone().Graphs {
		db.graphs[g.Name] = g
		db.order = append(db.order, g.Name)
	}
	return db
}

// Snapshot returns a deep copy of the current contents (graphs in creation order).
func (db *DB) Snapshot() Spec {
	var s Spec
	for _, name := range db.order {
		s.Graphs = append(s.Graphs, db.graphs[name])
	}
	return s.Clone()
}

// Graph returns the live graph (creating it when absent) for harness-side mutation.
func (db *DB) Graph(name string) *Graph { return db.graph(name, true) }

func (db *DB) graph(name string, create bool) *Graph {
	g := db.graphs[name]
	if g == nil {
		g = &Graph{Name: name}
		if create {
			db.graphs[name] = g
			db.order = append(db.order, name)
		}
	}
	return g
}

func unsupported(what string) { panic("fakedb: unsupported: " + what) }

func (db *DB) SetWriteFlushSize(int)                              {}
func (db *DB) SetBatchWriteSize(int)                              {}
func (db *DB) Close(context.Context) error                        { return nil }
func (db *DB) RefreshKinds(context.Context) error                 { return nil }
func (db *DB) OptimizeStorage(context.Context) error              { return nil }
func (db *DB) SetDefaultGraph(context.Context, graph.Graph) error { return nil }
func (db *DB) FetchKinds(context.Context) (graph.Kinds, error) {
	unsupported("FetchKinds")
	return nil, nil
}
func (db *DB) Run(context.Context, string, map[string]any) error { unsupported("Run"); return nil }

func (db *DB) AssertSchema(_ context.Context, s graph.Schema) error {
	if a := vos.DBPoint("db.AssertSchema", s.DefaultGraph.Name, 0); a.Err != nil {
		return a.Err
	} else if a.CrashAtEnd {
		defer vos.CrashNow()
	}
	db.Schemas = append(db.Schemas, s)
	for _, g := range s.Graphs {
		db.graph(g.Name, true)
	}
	return nil
}

func (db *DB) ReadTransaction(ctx context.Context, d graph.TransactionDelegate, _ ...graph.TransactionOption) error {
	if err := ctx.Err(); err != nil {
		return err
	}
	return d(&tx{db: db})
}

func (db *DB) WriteTransaction(ctx context.Context, d graph.TransactionDelegate, _ ...graph.TransactionOption) error {
	unsupported("WriteTransaction")
	return nil
}

func (db *DB) BatchOperation(ctx context.Context, d graph.BatchDelegate, _ ...graph.BatchOption) error {
	if err := ctx.Err(); err != nil {
		return err
	}
	if a := vos.DBPoint("db.BatchOperation", "", 0); a.Err != nil {
		return a.Err
	} else if a.CrashAtEnd {
		defer vos.CrashNow()
	}
	return d(&batch{db: db})
}

// Transaction (reads only) ------------------------------------------------------------------------------------------------

type tx struct {
	graph.Transaction
	db    *DB
	gname string
	has   bool
}

func (t *tx) WithGraph(g graph.Graph) graph.Transaction {
	return &tx{db: t.db, gname: g.Name, has: true}
}
func (t *tx) Commit() error { return nil }

func (t *tx) target() *Graph {
	if !t.has {
		unsupported("read without WithGraph")
	}
	return t.db.graph(t.gname, false)
}

func (t *tx) Nodes() graph.NodeQuery                 { return &nodeQuery{g: t.target()} }
func (t *tx) Relationships() graph.RelationshipQuery { return &relQuery{g: t.target()} }

type scan struct {
	ordered bool
	limit   int
	after   *uint64
	bad     error
}

func idOf(expr any, symbol string) bool {
	f, ok := expr.(*cy.FunctionInvocation)
	if !ok || f.Name != "id" || len(f.Arguments) != 1 {
		return false
	}
	v, ok := f.Arguments[0].(*cy.Variable)
	return ok && v.Symbol == symbol
}

func (s *scan) orderBy(symbol string, criteria []graph.Criteria) {
	if len(criteria) == 1 && idOf(criteria[0], symbol) {
		s.ordered = true
		return
	}
	s.bad = fmt.Errorf("fakedb: unsupported ORDER BY criteria %T", criteria)
}

func (s *scan) filter(symbol string, c graph.Criteria) {
	cmp, ok := c.(*cy.Comparison)
	if ok && idOf(cmp.Left, symbol) && len(cmp.Partials) == 1 && cmp.Partials[0].Operator == cy.OperatorGreaterThan {
		if p, ok := cmp.Partials[0].Right.(*cy.Parameter); ok {
			var v uint64
			switch t := p.Value.(type) {
			case graph.ID:
				v = t.Uint64()
			case uint64:
				v = t
			case int64:
				v = uint64(t)
			case int:
				v = uint64(t)
			default:
				s.bad = fmt.Errorf("fakedb: unsupported id parameter %T", p.Value)
				return
			}
			if s.after == nil || v > *s.after {
				s.after = &v
			}
			return
		}
	}
	s.bad = fmt.Errorf("fakedb: unsupported filter criteria %T", c)
}

// pick applies filter, order and limit to ids given in storage order.
func (s *scan) pick(ids []uint64) []int {
	idx := make([]int, 0, len(ids))
	for i, id := range ids {
		if s.after == nil || id > *s.after {
			idx = append(idx, i)
		}
	}
	if s.ordered {
		sort.SliceStable(idx, func(a, b int) bool { return ids[idx[a]] < ids[idx[b]] })
	}
	if s.limit > 0 && len(idx) > s.limit {
		idx = idx[:s.limit]
	}
	return idx
}

type cursor[T any] struct {
	c   chan T
	act vos.DBAction
}

func newCursor[T any](values []T, act vos.DBAction) *cursor[T] {
	if act.Deliver < len(values) {
		values = values[:act.Deliver]
	}
	c := make(chan T, len(values))
	for _, v := range values {
		c <- v
	}
	close(c)
	return &cursor[T]{c: c, act: act}
}

func (c *cursor[T]) Chan() chan T { return c.c }
func (c *cursor[T]) Close()       {}
func (c *cursor[T]) Error() error {
	if c.act.CrashAtEnd {
		vos.CrashNow()
		return vos.ErrDead
	}
	return c.act.Err
}

type nodeQuery struct {
	graph.NodeQuery
	g *Graph
	s scan
}

func (q *nodeQuery) OrderBy(c ...graph.Criteria) graph.NodeQuery { q.s.orderBy("n", c); return q }
func (q *nodeQuery) Limit(n int) graph.NodeQuery                 { q.s.limit = n; return q }
func (q *nodeQuery) Filter(c graph.Criteria) graph.NodeQuery     { q.s.filter("n", c); return q }

func (q *nodeQuery) ids() []uint64 {
	ids := make([]uint64, len(q.g.Nodes))
	for i, n := range q.g.Nodes {
		ids[i] = n.ID
	}
	return ids
}

func (q *nodeQuery) Count() (int64, error) {
	if q.s.bad != nil {
		return 0, q.s.bad
	}
	a := vos.DBPoint("nodes.Count", q.g.Name, 0)
	if a.Err != nil {
		return 0, a.Err
	}
	if a.CrashAtEnd {
		vos.CrashNow()
		return 0, vos.ErrDead
	}
	return int64(len(q.s.pick(q.ids()))), nil
}

func (q *nodeQuery) Fetch(d func(graph.Cursor[*graph.Node]) error, _ ...graph.Criteria) error {
	if q.s.bad != nil {
		return q.s.bad
	}
	idx := q.s.pick(q.ids())
	values := make([]*graph.Node, len(idx))
	for i, j := range idx {
		n := q.g.Nodes[j]
		values[i] = graph.NewNode(graph.ID(n.ID), graph.AsProperties(cloneMap(n.Props)), graph.StringsToKinds(n.Kinds)...)
	}
	a := vos.DBPoint("nodes.Fetch", q.g.Name, len(values))
	if a.Err != nil && a.Deliver == 0 {
		return a.Err
	}
	return d(newCursor(values, a))
}

type relQuery struct {
	graph.RelationshipQuery
	g *Graph
	s scan
}

func (q *relQuery) OrderBy(c ...graph.Criteria) graph.RelationshipQuery {
	q.s.orderBy("r", c)
	return q
}
func (q *relQuery) Limit(n int) graph.RelationshipQuery             { q.s.limit = n; return q }
func (q *relQuery) Filter(c graph.Criteria) graph.RelationshipQuery { q.s.filter("r", c); return q }

func (q *relQuery) ids() []uint64 {
	ids := make([]uint64, len(q.g.Edges))
	for i, e := range q.g.Edges {
		ids[i] = e.ID
	}
	return ids
}

func (q *relQuery) Count() (int64, error) {
	if q.s.bad != nil {
		return 0, q.s.bad
	}
	a := vos.DBPoint("rels.Count", q.g.Name, 0)
	if a.Err != nil {
		return 0, a.Err
	}
	if a.CrashAtEnd {
		vos.CrashNow()
		return 0, vos.ErrDead
	}
	return int64(len(q.s.pick(q.ids()))), nil
}

func (q *relQuery) Fetch(d func(graph.Cursor[*graph.Relationship]) error) error {
	if q.s.bad != nil {
		return q.s.bad
	}
	idx := q.s.pick(q.ids())
	values := make([]*graph.Relationship, len(idx))
	for i, j := range idx {
		e := q.g.Edges[j]
		values[i] = graph.NewRelationship(graph.ID(e.ID), graph.ID(e.Start), graph.ID(e.End), graph.AsProperties(cloneMap(e.Props)), graph.StringKind(e.Kind))
	}
	a := vos.DBPoint("rels.Fetch", q.g.Name, len(values))
	if a.Err != nil && a.Deliver == 0 {
		return a.Err
	}
	return d(newCursor(values, a))
}

// Batch (writes only) -----------------------------------------------------------------------------------------------------

type batch struct {
	graph.Batch
	db    *DB
	gname string
	has   bool
}

func (b *batch) WithGraph(g graph.Graph) graph.Batch {
	return &batch{db: b.db, gname: g.Name, has: true}
}
func (b *batch) Commit() error { return nil }

func (b *batch) target() *Graph {
	if !b.has {
		unsupported("write without WithGraph")
	}
	return b.db.graph(b.gname, true)
}

// CreateNodes implements graph.NodeBatchCreator: IDs are returned in input order.
func (b *batch) CreateNodes(nodes []*graph.Node) ([]graph.ID, error) {
	g := b.target()
	b.db.Log = append(b.db.Log, Mutation{Op: "CreateNodes", Graph: g.Name, N: len(nodes)})
	if a := vos.DBPoint("batch.CreateNodes", g.Name, 0); a.Err != nil {
		return nil, a.Err
	} else if a.CrashAtEnd {
		defer vos.CrashNow()
	}
	ids := make([]graph.ID, len(nodes))
	for i, n := range nodes {
		id := b.db.nextNode
		b.db.nextNode += 3
		kinds := []string{}
		if n.Kinds != nil {
			kinds = n.Kinds.Strings()
		}
		g.Nodes = append([]*Node{{ID: id, Kinds: kinds, Props: cloneMap(n.Properties.MapOrEmpty())}}, g.Nodes...) // newest first: storage order is not ID order
		ids[i] = graph.ID(id)
	}
	return ids, nil
}

func (b *batch) CreateNode(n *graph.Node) error {
	_, err := b.CreateNodes([]*graph.Node{n})
	return err
}

func (b *batch) CreateRelationshipByIDs(start, end graph.ID, kind graph.Kind, props *graph.Properties) error {
	g := b.target()
	b.db.Log = append(b.db.Log, Mutation{Op: "CreateRelationshipByIDs", Graph: g.Name, N: 1})
	if a := vos.DBPoint("batch.CreateRelationshipByIDs", g.Name, 0); a.Err != nil {
		return a.Err
	} else if a.CrashAtEnd {
		defer vos.CrashNow()
	}
	var hasStart, hasEnd bool
	for _, n := range g.Nodes {
		hasStart = hasStart || n.ID == start.Uint64()
		hasEnd = hasEnd || n.ID == end.Uint64()
	}
	if !hasStart || !hasEnd {
		return fmt.Errorf("fakedb: relationship endpoint %d->%d does not exist in graph %q", start, end, g.Name)
	}
	k := ""
	if kind != nil {
		k = kind.String()
	}
	id := b.db.nextEdge
	b.db.nextEdge += 5
	g.Edges = append([]*Edge{{ID: id, Start: start.Uint64(), End: end.Uint64(), Kind: k, Props: cloneMap(props.MapOrEmpty())}}, g.Edges...)
	return nil
}

func cloneMap(m map[string]any) map[string]any {
	if m == nil {
		return nil
	}
	return cloneValue(m).(map[string]any)
}

func cloneValue(v any) any {
	switch t := v.(type) {
	case map[string]any:
		out := make(map[string]any, len(t))
		for k, x := range t {
			out[k] = cloneValue(x)
		}
		return out
	case []any:
		out := make([]any, len(t))
		for i, x := range t {
			out[i] = cloneValue(x)
		}
		return out
	}
	return v
}
