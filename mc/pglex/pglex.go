// Package pglex is a model of PostgreSQL's lexer (src/backend/parser/scan.l) for the default configuration
// standard_conforming_strings = on, extended with pgx's named-argument syntax (@name), which pgx rewrites to $n with
// a lexer of its own that recognises the same quoting constructs. It is the trusted reference of check C04 and the
// token comparer of C06.
package pglex

import (
	"fmt"
	"strings"
	"unicode/utf8"
)

type Kind string

const (
	Ident      Kind = "ident"       // unquoted identifier (not a reserved word)
	Keyword    Kind = "keyword"     // reserved word (Value = lower-cased word)
	QIdent     Kind = "qident"      // "quoted identifier" (Value = un-doubled content)
	String     Kind = "string"      // '...' (Value = un-doubled content)
	EString    Kind = "estring"     // E'...' (Value = decoded content)
	Dollar     Kind = "dollar"      // $tag$...$tag$ (Value = content)
	BitString  Kind = "bitstring"   // B'..' / X'..'
	Number     Kind = "number"      //
	Op         Kind = "op"          // operator
	Punct      Kind = "punct"       // , ( ) [ ] ; : .
	Param      Kind = "param"       // $1
	NamedParam Kind = "named-param" // @name (pgx)
	Error      Kind = "error"       // unterminated construct (Value says which)
)

type Token struct {
	Kind  Kind
	Text  string // raw text
	Value string // decoded value of string-like tokens and quoted identifiers; raw text of unquoted identifiers
	Pos   int
}

func (t Token) String() string { return fmt.Sprintf("%s(%s)", t.Kind, t.Text) }

// reserved words of PostgreSQL 16 (reserved + reserved-can-be-function-or-type that matter for token structure).
var reserved = map[string]bool{}

func init() {
	for _, w := range strings.Fields(`all analyse analyze and any array as asc asymmetric authorization binary both case cast check collate
collation column concurrently constraint create cross current_catalog current_date current_role current_schema current_time
current_timestamp current_user default deferrable desc distinct do else end except false fetch for foreign freeze from full
grant group having ilike in initially inner intersect into is isnull join lateral leading left like limit localtime
localtimestamp natural not notnull null offset on only or order outer overlaps placing primary references returning right
select session_user similar some symmetric system_user table tablesample then to trailing true union unique user using
variadic verbose when where window with delete insert update set values materialized recursive exists between by
ordinality operator interval`) {
		reserved[w] = true
	}
}

// IsReserved reports whether an unquoted word lexes as a keyword in this model.
func IsReserved(word string) bool { return reserved[strings.ToLower(word)] }

func isSpace(c byte) bool {
	return c == ' ' || c == '\t' || c == '\n' || c == '\r' || c == '\f' || c == '\v'
}
func isIdentStart(c byte) bool {
	return c == '_' || (c >= 'a' && c <= 'z') || (c >= 'A' && c <= 'Z') || c >= 0x80
}
func isIdentCont(c byte) bool { return isIdentStart(c) || (c >= '0' && c <= '9') || c == '$' }
func isDigit(c byte) bool     { return c >= '0' && c <= '9' }
func isOpChar(c byte) bool    { return strings.IndexByte("~!@#^&|`?+-*/%<>=", c) >= 0 }
func isSelf(c byte) bool      { return strings.IndexByte(",()[].;:", c) >= 0 }

// Lex tokenises sql. Comments are dropped (their number is returned).
func Lex(sql string) (toks []Token, comments int) {
	i := 0
	n := len(sql)
	emit := func(k Kind, start, end int, val string) {
		toks = append(toks, Token{Kind: k, Text: sql[start:end], Value: val, Pos: start})
	}
	for i < n {
		c := sql[i]
		switch {
		case isSpace(c):
			i++
		case c == '-' && i+1 < n && sql[i+1] == '-':
			comments++
			for i < n && sql[i] != '\n' && sql[i] != '\r' {
				i++
			}
		case c == '/' && i+1 < n && sql[i+1] == '*':
			comments++
			start := i
			depth := 0
			closed := false
			for i < n {
				if i+1 < n && sql[i] == '/' && sql[i+1] == '*' {
					depth++
					i += 2
				} else if i+1 < n && sql[i] == '*' && sql[i+1] == '/' {
					depth--
					i += 2
					if depth == 0 {
						closed = true
						break
					}
				} else {
					i++
				}
			}
			if !closed {
				emit(Error, start, n, "unterminated /* comment")
			}
		case c == '\'':
			i = lexQuoted(sql, i, i, String, false, &toks)
		case (c == 'E' || c == 'e') && i+1 < n && sql[i+1] == '\'':
			i = lexQuoted(sql, i, i+1, EString, true, &toks)
		case (c == 'B' || c == 'b' || c == 'X' || c == 'x') && i+1 < n && sql[i+1] == '\'':
			i = lexQuoted(sql, i, i+1, BitString, false, &toks)
		case (c == 'N' || c == 'n') && i+1 < n && sql[i+1] == '\'':
			// national character literal: keyword NCHAR followed by the string; structurally one string token
			i = lexQuoted(sql, i, i+1, String, false, &toks)
		case (c == 'U' || c == 'u') && i+2 < n && sql[i+1] == '&' && sql[i+2] == '\'':
			i = lexQuoted(sql, i, i+2, String, false, &toks)
		case (c == 'U' || c == 'u') && i+2 < n && sql[i+1] == '&' && sql[i+2] == '"':
			i = lexQIdent(sql, i, i+2, &toks)
		case c == '"':
			i = lexQIdent(sql, i, i, &toks)
		case c == '$':
			// positional parameter, dollar quote, or a stray '$'
			if i+1 < n && isDigit(sql[i+1]) {
				j := i + 1
				for j < n && isDigit(sql[j]) {
					j++
				}
				emit(Param, i, j, sql[i+1:j])
				i = j
				break
			}
			j := i + 1
			if j < n && (isIdentStart(sql[j])) {
				for j < n && (isIdentStart(sql[j]) || isDigit(sql[j])) {
					j++
				}
			}
			if j < n && sql[j] == '$' {
				tag := sql[i : j+1]
				end := strings.Index(sql[j+1:], tag)
				if end < 0 {
					emit(Error, i, n, "unterminated dollar quote "+tag)
					i = n
					break
				}
				emit(Dollar, i, j+1+end+len(tag), sql[j+1:j+1+end])
				i = j + 1 + end + len(tag)
				break
			}
			emit(Error, i, i+1, "stray $")
			i++
		case c == '@' && i+1 < n && (sql[i+1] == '_' || (sql[i+1] >= 'a' && sql[i+1] <= 'z') || (sql[i+1] >= 'A' && sql[i+1] <= 'Z')):
			j := i + 1
			for j < n && (sql[j] == '_' || (sql[j] >= 'a' && sql[j] <= 'z') || (sql[j] >= 'A' && sql[j] <= 'Z') || isDigit(sql[j])) {
				j++
			}
			emit(NamedParam, i, j, sql[i+1:j])
			i = j
		case isIdentStart(c):
			j := i
			for j < n && isIdentCont(sql[j]) {
				j++
			}
			word := strings.ToLower(sql[i:j])
			if reserved[word] {
				emit(Keyword, i, j, word)
			} else {
				emit(Ident, i, j, sql[i:j]) // compared before case folding
			}
			i = j
		case isDigit(c) || (c == '.' && i+1 < n && isDigit(sql[i+1])):
			j := i
			for j < n && (isDigit(sql[j]) || sql[j] == '_') {
				j++
			}
			if j < n && sql[j] == '.' && !(j+1 < n && sql[j+1] == '.') {
				j++
				for j < n && isDigit(sql[j]) {
					j++
				}
			}
			if j < n && (sql[j] == 'e' || sql[j] == 'E') {
				k := j + 1
				if k < n && (sql[k] == '+' || sql[k] == '-') {
					k++
				}
				if k < n && isDigit(sql[k]) {
					for k < n && isDigit(sql[k]) {
						k++
					}
					j = k
				}
			}
			emit(Number, i, j, sql[i:j])
			i = j
		case c == ':' && i+1 < n && (sql[i+1] == ':' || sql[i+1] == '='):
			emit(Op, i, i+2, sql[i:i+2])
			i += 2
		case c == '.' && i+1 < n && sql[i+1] == '.':
			emit(Op, i, i+2, "..")
			i += 2
		case isSelf(c):
			emit(Punct, i, i+1, string(c))
			i++
		case isOpChar(c):
			j := i
			for j < n && isOpChar(sql[j]) {
				// a comment start ends the operator
				if j+1 < n && ((sql[j] == '-' && sql[j+1] == '-') || (sql[j] == '/' && sql[j+1] == '*')) && j > i {
					break
				}
				if sql[j] == '@' && j > i && j+1 < n && (isIdentStart(sql[j+1]) && sql[j+1] < 0x80) {
					break // pgx would read @name here
				}
				j++
			}
			// a multi-character operator may not end in + or - unless it contains one of ~!@#%^&|`?
			for j-i > 1 && (sql[j-1] == '+' || sql[j-1] == '-') && !strings.ContainsAny(sql[i:j], "~!@#%^&|`?") {
				j--
			}
			emit(Op, i, j, sql[i:j])
			i = j
		default:
			r, size := utf8.DecodeRuneInString(sql[i:])
			emit(Error, i, i+size, fmt.Sprintf("unexpected character %q", r))
			i += size
		}
	}
	return toks, comments
}

// lexQuoted lexes a single-quoted constant whose opening quote is at sql[q]; start is where the token text begins.
func lexQuoted(sql string, start, q int, kind Kind, escapes bool, toks *[]Token) int {
	var val strings.Builder
	n := len(sql)
	i := q + 1
	for {
		if i >= n {
			*toks = append(*toks, Token{Kind: Error, Text: sql[start:], Value: "unterminated quoted string", Pos: start})
			return n
		}
		c := sql[i]
		if c == '\'' {
			if i+1 < n && sql[i+1] == '\'' {
				val.WriteByte('\'')
				i += 2
				continue
			}
			// closing quote; SQL continuation: whitespace containing a newline followed by another quote
			j := i + 1
			sawNewline := false
			for j < n && isSpace(sql[j]) {
				if sql[j] == '\n' || sql[j] == '\r' {
					sawNewline = true
				}
				j++
			}
			if sawNewline && j < n && sql[j] == '\'' {
				i = j + 1
				continue
			}
			i++
			break
		}
		if escapes && c == '\\' && i+1 < n {
			i++
			switch e := sql[i]; e {
			case 'n':
				val.WriteByte('\n')
			case 't':
				val.WriteByte('\t')
			case 'r':
				val.WriteByte('\r')
			case 'b':
				val.WriteByte('\b')
			case 'f':
				val.WriteByte('\f')
			default:
				val.WriteByte(e)
			}
			i++
			continue
		}
		val.WriteByte(c)
		i++
	}
	*toks = append(*toks, Token{Kind: kind, Text: sql[start:i], Value: val.String(), Pos: start})
	return i
}

func lexQIdent(sql string, start, q int, toks *[]Token) int {
	var val strings.Builder
	n := len(sql)
	i := q + 1
	for {
		if i >= n {
			*toks = append(*toks, Token{Kind: Error, Text: sql[start:], Value: "unterminated quoted identifier", Pos: start})
			return n
		}
		c := sql[i]
		if c == '"' {
			if i+1 < n && sql[i+1] == '"' {
				val.WriteByte('"')
				i += 2
				continue
			}
			i++
			break
		}
		val.WriteByte(c)
		i++
	}
	if val.Len() == 0 {
		*toks = append(*toks, Token{Kind: Error, Text: sql[start:i], Value: "zero-length delimited identifier", Pos: start})
		return i
	}
	*toks = append(*toks, Token{Kind: QIdent, Text: sql[start:i], Value: val.String(), Pos: start})
	return i
}

// Kinds renders the token-kind sequence (keywords, operators and punctuation with their text: they are structure).
func Kinds(toks []Token) []string {
	out := make([]string, len(toks))
	for i, t := range toks {
		switch t.Kind {
		case Keyword:
			out[i] = "keyword:" + t.Value
		case Op, Punct:
			out[i] = string(t.Kind) + ":" + t.Text
		case Error:
			out[i] = "error:" + t.Value
		default:
			out[i] = string(t.Kind)
		}
	}
	return out
}
