package pglex

import (
	"strings"
	"testing"
)

func kinds(sql string) string {
	toks, _ := Lex(sql)
	var out []string
	for _, t := range toks {
		v := t.Value
		if t.Kind == Op && t.Text != ".." || t.Kind == Punct {
			v = ""
		}
		out = append(out, string(t.Kind)+"<"+v+">")
	}
	return strings.Join(out, " ")
}

func TestLexerModel(t *testing.T) {
	cases := []struct{ sql, want string }{
		{`select 'it''s'`, `keyword<select> string<it's>`},
		{`select 'a\'`, `keyword<select> string<a\>`},      // standard_conforming_strings: backslash is literal
		{`select E'a\'b'`, `keyword<select> estring<a'b>`}, // escape string
		{`select 'a' -- c` + "\n" + `, 1`, `keyword<select> string<a> punct<> number<1>`},
		{`select /* a /* nested */ b */ 1`, `keyword<select> number<1>`}, // nested comments
		{`select $$a'b$$, $t$x$$y$t$`, `keyword<select> dollar<a'b> punct<> dollar<x$$y>`},
		{`select "a""b", "x; drop"`, `keyword<select> qident<a"b> punct<> qident<x; drop>`},
		{`select @pi0::text, $1`, `keyword<select> named-param<pi0> op<> ident<text> punct<> param<1>`},
		{`a operator (pg_catalog.@>) b`, `ident<a> keyword<operator> punct<> ident<pg_catalog> punct<> op<> punct<> ident<b>`},
		{`select 'abc`, `keyword<select> error<unterminated quoted string>`},
		{`select 1 /* x`, `keyword<select> number<1> error<unterminated /* comment>`},
		{`x -> 'a' ->> 'b' || c`, `ident<x> op<> string<a> op<> string<b> op<> ident<c>`},
		{`1.5e3 .5 1..2`, `number<1.5e3> number<.5> number<1> op<..> number<2>`},
		{"select 'a'\n 'b'", `keyword<select> string<ab>`}, // continuation across a newline
		{`select 'a' 'b'`, `keyword<select> string<a> string<b>`},
		{`a+-b`, `ident<a> op<> op<> ident<b>`}, // "+-" splits: an operator may not end in -
		{`a--b`, `ident<a>`},                    // comment
		{`x = any (array [1]::int2[])`, `ident<x> op<> keyword<any> punct<> keyword<array> punct<> number<1> punct<> op<> ident<int2> punct<> punct<> punct<>`},
		{`foo$bar $x`, `ident<foo$bar> error<stray $> ident<x>`},
	}
	for _, c := range cases {
		got := kinds(c.sql)
		// operators and punctuation carry no decoded value in this rendering
		want := c.want
		if got != want {
			t.Errorf("%q\n got  %s\n want %s", c.sql, got, want)
		}
	}
}
