package core

import (
	"encoding/json"
	"fmt"
	"os"
	"os/exec"
	"path/filepath"
	"strconv"
	"strings"
	"sync"
)

// The scheduler of engine E1 is process-global, and several checkers are CPU-bound: both shard by process. The parent
// re-executes its own binary n times with VERIF_WORKER=i/n; each worker explores its share and writes its counters,
// samples and violations to a file the parent merges. Counters (int64) are summed; everything else is collected.

type partial struct {
	Coverage    map[string]any    `json:"coverage"`
	Assumptions []string          `json:"assumptions"`
	Samples     []any             `json:"samples"`
	Violations  []Violation       `json:"violations"`
	KnownHits   map[string]string `json:"known_hits"`
	Exhaustive  bool              `json:"exhaustive"`
	Caps        []string          `json:"caps"`
}

// Worker reports this process's shard (i of n); the parent (or an unsharded run) is 0 of 1 with ok=false.
func (r *Run) Worker() (i, n int, ok bool) {
	w := os.Getenv("VERIF_WORKER")
	if w == "" {
		return 0, 1, false
	}
	parts := strings.Split(w, "/")
	i, _ = strconv.Atoi(parts[0])
	n, _ = strconv.Atoi(parts[1])
	return i, n, true
}

// Mine says whether work item k belongs to this process.
func (r *Run) Mine(k int) bool {
	i, n, _ := r.Worker()
	return k%n == i
}

// Fork runs n workers (same binary, same arguments, extra args appended) and merges their results into r. It returns
// true in the parent after the merge; workers get false immediately and must do the work and call Finish.
func (r *Run) Fork(n int, extraEnv ...string) (isParent bool) {
	if _, _, isWorker := r.Worker(); isWorker {
		return false
	}
	dir, err := os.MkdirTemp("", "verif-fork-")
	if err != nil {
		Fatalf("fork: %v", err)
	}
	defer os.RemoveAll(dir)
	var wg sync.WaitGroup
	errs := make([]error, n)
	outs := make([]string, n)
	for i := 0; i < n; i++ {
		wg.Add(1)
		go func(i int) {
			defer wg.Done()
			out := filepath.Join(dir, fmt.Sprintf("w%d.json", i))
			cmd := exec.Command(os.Args[0], os.Args[1:]...)
			cmd.Env = append(os.Environ(), fmt.Sprintf("VERIF_WORKER=%d/%d", i, n), "VERIF_WORKER_OUT="+out,
				fmt.Sprintf("VERIF_DEADLINE_UNIX=%d", r.Deadline.Unix()))
			cmd.Env = append(cmd.Env, extraEnv...)
			cmd.Stderr = os.Stderr
			b, err := cmd.Output()
			outs[i] = string(b)
			if err != nil {
				if ee, ok := err.(*exec.ExitError); ok && ee.ExitCode() == 1 {
					return // violations are in the partial file
				}
				errs[i] = fmt.Errorf("worker %d: %v\n%s", i, err, b)
			}
		}(i)
	}
	wg.Wait()
	// A worker that died (killed, crashed) leaves its share unchecked. That is a machinery failure (exit 2) - unless other
	// workers have already found violations: those are real, they are reported (exit 1) and the dead worker's share is
	// recorded as not checked. A run with a dead worker never exits 0.
	var dead []string
	for i, e := range errs {
		if e != nil {
			dead = append(dead, e.Error())
			errs[i] = nil
		}
	}
	finish := func() {
		if len(dead) == 0 {
			return
		}
		if len(r.violations) == 0 {
			Fatalf("fork: %s", strings.Join(dead, "; "))
		}
		fmt.Fprintf(os.Stderr, "NOTE: %d worker(s) died, their share was not checked: %s\n", len(dead), strings.Join(dead, "; "))
		r.Capped(fmt.Sprintf("%d worker process(es) died; their share of the enumeration was not checked", len(dead)))
	}
	defer finish()
	for i := 0; i < n; i++ {
		b, err := os.ReadFile(filepath.Join(dir, fmt.Sprintf("w%d.json", i)))
		if err != nil {
			if len(dead) > 0 {
				continue // a dead worker leaves no result
			}
			Fatalf("fork: worker %d left no result: %v\n%s", i, err, outs[i])
		}
		var p partial
		dec := json.NewDecoder(strings.NewReader(string(b)))
		dec.UseNumber()
		if err := dec.Decode(&p); err != nil {
			Fatalf("fork: worker %d result: %v", i, err)
		}
		r.merge(&p)
	}
	return true
}

func (r *Run) merge(p *partial) {
	r.mu.Lock()
	defer r.mu.Unlock()
	for k, v := range p.Coverage {
		switch t := v.(type) {
		case json.Number:
			if n, err := t.Int64(); err == nil {
				if strings.HasPrefix(k, "max_") || strings.HasSuffix(k, "_bound") || strings.HasSuffix(k, "_max") {
					if cur, _ := r.coverage[k].(int64); n > cur {
						r.coverage[k] = n
					}
				} else {
					cur, _ := r.coverage[k].(int64)
					r.coverage[k] = cur + n
				}
			}
		case map[string]any:
			cur, _ := r.coverage[k].(map[string]any)
			if cur == nil {
				cur = map[string]any{}
			}
			for kk, vv := range t {
				if num, ok := vv.(json.Number); ok {
					n, _ := num.Int64()
					c, _ := cur[kk].(int64)
					cur[kk] = c + n
				} else {
					cur[kk] = vv
				}
			}
			r.coverage[k] = cur
		default:
			if _, has := r.coverage[k]; !has {
				r.coverage[k] = v
			}
		}
	}
	for _, a := range p.Assumptions {
		dup := false
		for _, b := range r.assumptions {
			dup = dup || a == b
		}
		if !dup {
			r.assumptions = append(r.assumptions, a)
		}
	}
	for _, s := range p.Samples {
		if len(r.samples) < 12 {
			r.samples = append(r.samples, s)
		}
	}
	for id, w := range p.KnownHits {
		if _, ok := r.knownHits[id]; !ok {
			r.knownHits[id] = w
		}
	}
	if !p.Exhaustive {
		r.exhaustive = false
	}
	for _, c := range p.Caps {
		dup := false
		for _, b := range r.caps {
			dup = dup || c == b
		}
		if !dup {
			r.caps = append(r.caps, c)
		}
	}
	for _, v := range p.Violations {
		dup := false
		for _, o := range r.violations {
			dup = dup || o.Class == v.Class
		}
		if !dup {
			r.violations = append(r.violations, v)
		}
	}
}

// finishWorker writes this worker's partial result and exits.
func (r *Run) finishWorker(out string) {
	delete(r.coverage, "samples")
	delete(r.coverage, "exhaustive")
	delete(r.coverage, "caps_hit")
	p := partial{Coverage: r.coverage, Assumptions: r.assumptions, Samples: r.samples, Violations: r.violations, KnownHits: r.knownHits, Exhaustive: r.exhaustive, Caps: r.caps}
	b, err := json.Marshal(p)
	if err != nil {
		Fatalf("worker result: %v", err)
	}
	if err := os.WriteFile(out, b, 0o644); err != nil {
		Fatalf("worker result: %v", err)
	}
	if len(r.violations) > 0 {
		os.Exit(1)
	}
	os.Exit(0)
}
