// Package core holds the plumbing every checker shares: evidence files, replay artefacts, known findings,
// the VIOLATION / KNOWN-FINDING protocol and exit codes.
//
// Exit codes: 0 property held on everything explored; 1 violation (a VIOLATION line was printed);
// 2 machinery failure (never a verdict).
package core

import (
	"crypto/sha256"
	"encoding/hex"
	"encoding/json"
	"flag"
	"fmt"
	"io"
	"log/slog"
	"os"
	"path/filepath"
	"sort"
	"strconv"
	"strings"
	"sync"
	"time"
)

const VerifRoot = "/verif"

type Tier string

const (
	Quick    Tier = "quick"
	Thorough Tier = "thorough"
)

// Finding is one entry of /verif/known_findings.json.
type Finding struct {
	Property string `json:"property"`
	ID       string `json:"id"`
	Status   string `json:"status"` // "known" | "fixed"
	Witness  string `json:"witness"`
	Scope    string `json:"scope"`
	Commit   string `json:"commit,omitempty"`
}

// Violation is one failing case as found by a checker.
type Violation struct {
	// Class is the checker's canonical name of the failure class (the "scope" a known finding may list).
	Class string `json:"class"`
	// Summary says, in one line, what failed.
	Summary string `json:"summary"`
	// Artefact is the minimal replayable input (operation list, schedule, query + graph, fault plan...).
	Artefact any `json:"artefact"`
}

type Run struct {
	Property string
	Tier     Tier
	Seed     int64
	Level    string
	Replay   string // path of an artefact to replay instead of exploring
	Deadline time.Time

	start time.Time

	mu          sync.Mutex
	coverage    map[string]any
	assumptions []string
	samples     []any
	violations  []Violation
	knownHits   map[string]string
	findings    []Finding
	exhaustive  bool
	caps        []string
}

// Start parses the common flags and prepares a run for one property.
// ThoroughBudget is the internal deadline of the thorough tier when --budget is not given; a checker may raise it before
// calling Start (a run that meets its deadline reports exhaustive=false and exits 0 if it found nothing).
var ThoroughBudget = 40 * time.Minute

func Start(property, level string) *Run {
	var (
		tier   = flag.String("tier", envOr("VERIF_TIER", "quick"), "quick|thorough")
		replay = flag.String("replay", "", "replay artefact path")
		budget = flag.Duration("budget", 0, "internal deadline (0 = tier default)")
	)
	flag.Parse()

	slog.SetDefault(slog.New(slog.NewTextHandler(io.Discard, nil)))

	seed, _ := strconv.ParseInt(envOr("VERIF_SEED", "0"), 10, 64)
	r := &Run{
		Property:   property,
		Tier:       Tier(*tier),
		Seed:       seed,
		Level:      level,
		Replay:     *replay,
		start:      time.Now(),
		coverage:   map[string]any{},
		knownHits:  map[string]string{},
		exhaustive: true,
	}
	if r.Tier != Quick && r.Tier != Thorough {
		Fatalf("bad tier %q", *tier)
	}
	if *budget == 0 {
		if r.Tier == Quick {
			*budget = 8 * time.Minute
		} else {
			*budget = ThoroughBudget
		}
	}
	r.Deadline = r.start.Add(*budget)
	if d := os.Getenv("VERIF_DEADLINE_UNIX"); d != "" {
		if u, err := strconv.ParseInt(d, 10, 64); err == nil {
			r.Deadline = time.Unix(u, 0)
		}
	}
	r.loadFindings()
	return r
}

func envOr(k, d string) string {
	if v := os.Getenv(k); v != "" {
		return v
	}
	return d
}

// Fatalf reports a machinery failure: exit 2, never a VIOLATION.
func Fatalf(format string, a ...any) {
	fmt.Fprintf(os.Stderr, "MACHINERY-FAILURE: "+format+"\n", a...)
	os.Exit(2)
}

func (r *Run) loadFindings() {
	b, err := os.ReadFile(filepath.Join(VerifRoot, "known_findings.json"))
	if err != nil {
		if os.IsNotExist(err) {
			return
		}
		Fatalf("known_findings.json: %v", err)
	}
	var doc struct {
		Findings []Finding `json:"findings"`
	}
	if err := json.Unmarshal(b, &doc); err != nil {
		Fatalf("known_findings.json: %v", err)
	}
	for _, f := range doc.Findings {
		if f.Property == r.Property {
			r.findings = append(r.findings, f)
		}
	}
}

// TimeUp says whether the internal deadline has passed. A checker that stops because of it must call Capped.
func (r *Run) TimeUp() bool { return time.Now().After(r.Deadline) }

// Capped records that a cap/deadline was hit; the run is then not exhaustive.
func (r *Run) Capped(what string) {
	r.mu.Lock()
	defer r.mu.Unlock()
	r.exhaustive = false
	for _, c := range r.caps {
		if c == what {
			return
		}
	}
	r.caps = append(r.caps, what)
}

func (r *Run) Set(key string, v any) {
	r.mu.Lock()
	defer r.mu.Unlock()
	r.coverage[key] = v
}

// Add adds n to an integer coverage counter.
func (r *Run) Add(key string, n int64) {
	r.mu.Lock()
	defer r.mu.Unlock()
	cur, _ := r.coverage[key].(int64)
	r.coverage[key] = cur + n
}

func (r *Run) Get(key string) int64 {
	r.mu.Lock()
	defer r.mu.Unlock()
	cur, _ := r.coverage[key].(int64)
	return cur
}

func (r *Run) Assume(s string) {
	r.mu.Lock()
	defer r.mu.Unlock()
	r.assumptions = append(r.assumptions, s)
}

// Sample keeps up to 12 example cases for the evidence file.
func (r *Run) Sample(v any) {
	r.mu.Lock()
	defer r.mu.Unlock()
	if len(r.samples) < 12 {
		r.samples = append(r.samples, v)
	}
}

// Report records a failing case. It is classified against known_findings.json at Finish.
func (r *Run) Report(v Violation) {
	r.mu.Lock()
	defer r.mu.Unlock()
	for _, f := range r.findings {
		if f.Status == "known" && f.Scope == v.Class {
			if _, ok := r.knownHits[f.ID]; !ok {
				r.knownHits[f.ID] = v.Summary
			}
			cur, _ := r.coverage["known_finding_hits"].(int64)
			r.coverage["known_finding_hits"] = cur + 1
			return
		}
	}
	// keep one violation per class (the first = shortest, since alphabets are ordered simplest-first), cap total
	for _, o := range r.violations {
		if o.Class == v.Class {
			cur, _ := r.coverage["violating_cases"].(int64)
			r.coverage["violating_cases"] = cur + 1
			return
		}
	}
	cur, _ := r.coverage["violating_cases"].(int64)
	r.coverage["violating_cases"] = cur + 1
	r.violations = append(r.violations, v)
}

func (r *Run) Violations() int {
	r.mu.Lock()
	defer r.mu.Unlock()
	return len(r.violations)
}

// Finish writes the evidence file, prints KNOWN-FINDING / VIOLATION lines and exits.
func (r *Run) Finish() {
	r.mu.Lock()
	defer r.mu.Unlock()

	if out := os.Getenv("VERIF_WORKER_OUT"); out != "" {
		r.finishWorker(out)
	}

	wall := time.Since(r.start).Seconds()
	cov := r.coverage
	cov["exhaustive"] = r.exhaustive
	if len(r.caps) > 0 {
		cov["caps_hit"] = r.caps
	}
	if len(r.samples) == 0 {
		r.samples = []any{"(no sample recorded)"}
	}
	cov["samples"] = r.samples

	sort.Slice(r.violations, func(i, j int) bool { return r.violations[i].Class < r.violations[j].Class })

	ev := map[string]any{
		"property_id": r.Property,
		"tier":        string(r.Tier),
		"seed":        r.Seed,
		"level":       r.Level,
		"coverage":    cov,
		"assumptions": r.assumptions,
		"wall_s":      wall,
		"violations":  len(r.violations),
	}
	if r.assumptions == nil {
		ev["assumptions"] = []string{}
	}

	var lines []string
	ids := make([]string, 0, len(r.knownHits))
	for id := range r.knownHits {
		ids = append(ids, id)
	}
	sort.Strings(ids)
	for _, id := range ids {
		lines = append(lines, fmt.Sprintf("KNOWN-FINDING: property=%s %s: %s", r.Property, id, r.knownHits[id]))
	}
	if len(ids) > 0 {
		cov["known_findings_hit"] = ids
	}

	for _, v := range r.violations {
		path := writeArtefact(r.Property, v)
		lines = append(lines, fmt.Sprintf("VIOLATION property=%s replay=%s", r.Property, path))
		lines = append(lines, fmt.Sprintf("  class=%s %s", v.Class, v.Summary))
	}

	if r.Replay == "" {
		evPath := filepath.Join(envOr("VERIF_EVIDENCE_DIR", filepath.Join(VerifRoot, "evidence")), r.Property+".json")
		_ = os.MkdirAll(filepath.Dir(evPath), 0o755)
		b, err := json.MarshalIndent(ev, "", " ")
		if err != nil {
			Fatalf("evidence: %v", err)
		}
		if err := os.WriteFile(evPath, append(b, '\n'), 0o644); err != nil {
			Fatalf("evidence: %v", err)
		}
	}

	for _, l := range lines {
		fmt.Println(l)
	}
	fmt.Printf("%s tier=%s exhaustive=%v violations=%d wall=%.1fs %s\n", r.Property, r.Tier, r.exhaustive, len(r.violations), wall, brief(cov))
	if len(r.violations) > 0 {
		os.Exit(1)
	}
	os.Exit(0)
}

func brief(cov map[string]any) string {
	keys := make([]string, 0, len(cov))
	for k, v := range cov {
		switch v.(type) {
		case int64, int, bool:
			keys = append(keys, k)
		}
	}
	sort.Strings(keys)
	var sb strings.Builder
	for _, k := range keys {
		fmt.Fprintf(&sb, "%s=%v ", k, cov[k])
	}
	return sb.String()
}

func writeArtefact(property string, v Violation) string {
	b, err := json.MarshalIndent(map[string]any{"property": property, "class": v.Class, "summary": v.Summary, "artefact": v.Artefact}, "", " ")
	if err != nil {
		b = []byte(fmt.Sprintf("{\"property\":%q,\"class\":%q,\"summary\":%q}", property, v.Class, v.Summary))
	}
	sum := sha256.Sum256(b)
	dir := filepath.Join(envOr("VERIF_REPLAY_DIR", filepath.Join(VerifRoot, "replays")), property)
	_ = os.MkdirAll(dir, 0o755)
	path := filepath.Join(dir, hex.EncodeToString(sum[:6])+".json")
	_ = os.WriteFile(path, append(b, '\n'), 0o644)
	return path
}

// LoadArtefact reads the "artefact" member of a replay file into out.
func LoadArtefact(path string, out any) (class string) {
	b, err := os.ReadFile(path)
	if err != nil {
		Fatalf("replay: %v", err)
	}
	var doc struct {
		Class    string          `json:"class"`
		Artefact json.RawMessage `json:"artefact"`
	}
	if err := json.Unmarshal(b, &doc); err != nil {
		Fatalf("replay: %v", err)
	}
	if err := json.Unmarshal(doc.Artefact, out); err != nil {
		Fatalf("replay: %v", err)
	}
	return doc.Class
}

// Try runs f and converts a panic into an error string (with the panic value), so explored code that panics
// is an observable outcome rather than the end of the checker.
func Try(f func()) (panicked any) {
	defer func() {
		if p := recover(); p != nil {
			panicked = p
		}
	}()
	f()
	return nil
}
