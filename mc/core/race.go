package core

import (
	"bytes"
	"context"
	"fmt"
	"os"
	"os/exec"
	"regexp"
	"strings"
	"time"
)

// RacePass runs the free-running -race build of the same checker (path in VERIF_RACE_BIN, built by /verif/check
// without the scheduler overlay) with the given arguments and turns every data-race report whose stacks touch DAWGS
// code into a violation. A cooperative scheduler's hand-offs are happens-before edges, so the race detector is blind
// under engine E1; this pass is sampling and is reported under its own key, never as part of an exhaustive claim.
func (r *Run) RacePass(args ...string) {
	bin := os.Getenv("VERIF_RACE_BIN")
	if bin == "" {
		r.Assume("race pass skipped: VERIF_RACE_BIN not set (check was not started through /verif/check)")
		return
	}
	if r.Violations() > 0 {
		r.Assume("race pass skipped: the exhaustive part already found a violation")
		return
	}
	ctx, cancelCmd := context.WithTimeout(context.Background(), 20*time.Minute)
	defer cancelCmd()
	cmd := exec.CommandContext(ctx, bin, args...)
	cmd.Env = append(os.Environ(), "GORACE=halt_on_error=0 exitcode=0", "VERIF_RACE_CHILD=1")
	var stderr, stdout bytes.Buffer
	cmd.Stderr = &stderr
	cmd.Stdout = &stdout
	if err := cmd.Run(); err != nil {
		if ctx.Err() != nil {
			// no wall-clock oracle: a free-running pass that does not finish is a cap, not a verdict
			r.Capped("race pass did not finish within 20 minutes")
			return
		}
		if strings.Contains(stderr.String(), "panic:") && strings.Contains(stderr.String(), "github.com/specterops/dawgs/") {
			r.Report(Violation{Class: "panic", Summary: "panic in DAWGS code during the free-running pass", Artefact: map[string]any{"stderr_tail": strings.Split(tail(stderr.String(), 40), "\n"), "args": args}})
			return
		}
		Fatalf("race pass: %v\n%s", err, tail(stderr.String(), 40))
	}
	// the free-running bodies evaluate the same oracle natively: a failure there is a violation too
	for _, m := range freeRunRe.FindAllStringSubmatch(stderr.String(), -1) {
		r.Report(Violation{Class: m[1], Summary: "free-running execution (no scheduler): " + m[2], Artefact: map[string]any{"free_running": true, "args": args, "detail": m[2]}})
	}
	reports := strings.Split(stderr.String(), "==================\n")
	n := 0
	seen := map[string]bool{}
	for _, rep := range reports {
		if !strings.Contains(rep, "WARNING: DATA RACE") {
			continue
		}
		if !strings.Contains(rep, "github.com/specterops/dawgs/") {
			continue // a race inside the harness itself would be a machinery bug, reported below
		}
		n++
		key := raceKey(rep)
		if seen[key] {
			continue
		}
		seen[key] = true
		r.Report(Violation{Class: "data-race", Summary: "data race in DAWGS code: " + key, Artefact: map[string]any{"race_report": strings.Split(tail(rep, 60), "\n"), "args": args}})
	}
	for _, rep := range reports {
		if strings.Contains(rep, "WARNING: DATA RACE") && !strings.Contains(rep, "github.com/specterops/dawgs/") {
			Fatalf("race pass: data race inside the harness:\n%s", tail(rep, 40))
		}
	}
	r.Set("race_pass", map[string]any{"reports_in_dawgs_code": int64(n), "iterations_summary": strings.TrimSpace(tail(stdout.String(), 3)), "sampling": true})
}

var freeRunRe = regexp.MustCompile(`(?m)^FREE-RUN-VIOLATION class=(\S+) (.*)$`)

var frameRe = regexp.MustCompile(`(?m)^\s+(github\.com/specterops/dawgs/\S+)\(\)$`)

func raceKey(rep string) string {
	var frames []string
	for _, m := range frameRe.FindAllStringSubmatch(rep, -1) {
		f := strings.TrimPrefix(m[1], "github.com/specterops/dawgs/")
		dup := false
		for _, o := range frames {
			dup = dup || o == f
		}
		if !dup {
			frames = append(frames, f)
		}
		if len(frames) == 4 {
			break
		}
	}
	return fmt.Sprint(frames)
}

func tail(s string, n int) string {
	lines := strings.Split(s, "\n")
	if len(lines) > n {
		lines = lines[len(lines)-n:]
	}
	return strings.Join(lines, "\n")
}
