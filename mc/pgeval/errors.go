package pgeval

import "fmt"

// ErrOutside reports a construct (or a data-dependent situation) that pgeval does not model. It is never a verdict
// about the query: callers count it as "outside-evaluator".
type ErrOutside struct {
	What string
}

func (e ErrOutside) Error() string { return "pgeval: outside evaluator: " + e.What }

// OutsideEvaluator makes ErrOutside an icorpus.OutsideError.
func (e ErrOutside) OutsideEvaluator() string { return e.What }

func outside(format string, a ...any) error { return ErrOutside{What: fmt.Sprintf(format, a...)} }

// RuntimeError is an error PostgreSQL itself would raise for the statement on this data (a failed cast, division by zero,
// a sub-query returning more than one row, an operator that does not exist for the operand types, ...). Static is set
// for errors PostgreSQL raises while analysing the statement (independent of the data); pgeval is dynamically typed and
// finds those only when the offending expression is evaluated.
type RuntimeError struct {
	Msg    string
	Static bool
}

func (e RuntimeError) Error() string { return "ERROR: " + e.Msg }

func rtErr(format string, a ...any) error { return RuntimeError{Msg: fmt.Sprintf(format, a...)} }

func staticErr(format string, a ...any) error {
	return RuntimeError{Msg: fmt.Sprintf(format, a...), Static: true}
}

// IsOutside reports whether err is an ErrOutside.
func IsOutside(err error) bool {
	_, ok := err.(ErrOutside)
	return ok
}

// IsRuntime reports whether err is a RuntimeError.
func IsRuntime(err error) bool {
	_, ok := err.(RuntimeError)
	return ok
}
