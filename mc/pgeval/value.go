package pgeval

import (
	"fmt"
	"math"
	"sort"
	"strconv"
	"strings"
)

// Type is the run-time type tag of a value. pgeval is dynamically typed, but every value (including NULL, where the
// origin is known) carries the PostgreSQL type it would have, because PostgreSQL's behaviour is type directed
// (operator resolution, coercion of untyped literals, casts).
type Type uint8

const (
	// TUnknown is PostgreSQL's "unknown": an untyped string literal, or NULL of unknown type. It adapts to the other
	// operand / the declared parameter type and goes through that type's input function (which may fail).
	TUnknown Type = iota
	TBool
	TInt2
	TInt4
	TInt8
	TFloat4
	TFloat8
	TNumeric
	TText
	TJSONB
	TNode   // nodecomposite(id int8, kind_ids int2[], properties jsonb)
	TEdge   // edgecomposite(id int8, start_id int8, end_id int8, kind_id int2, properties jsonb)
	TPath   // pathcomposite(nodes nodecomposite[], edges edgecomposite[])
	TRecord // anonymous row type
	// TNullAny is the type tag of a NULL whose PostgreSQL type pgeval does not track (the null-extended side of an outer
	// join over a sub-query, an empty scalar sub-query, CASE without ELSE, an aggregate over no rows). PostgreSQL knows
	// the static type; since every operator pgeval models returns NULL for a NULL operand of the right type, such a NULL
	// simply propagates. Only Null values carry this tag.
	TNullAny
	tMaxScalar

	// TArray is a flag: TArray|elem is elem[] (one-dimensional; the translator emits no multi-dimensional arrays).
	TArray Type = 0x40
)

func (t Type) IsArray() bool { return t&TArray != 0 }
func (t Type) Elem() Type    { return t &^ TArray }
func (t Type) ArrayOf() Type { return t | TArray }

func (t Type) IsInt() bool     { return t == TInt2 || t == TInt4 || t == TInt8 }
func (t Type) IsFloat() bool   { return t == TFloat4 || t == TFloat8 }
func (t Type) IsNumeric() bool { return t.IsInt() || t.IsFloat() || t == TNumeric }
func (t Type) IsComposite() bool {
	return t == TNode || t == TEdge || t == TPath || t == TRecord
}

func (t Type) String() string {
	if t.IsArray() {
		return t.Elem().String() + "[]"
	}
	switch t {
	case TUnknown:
		return "unknown"
	case TBool:
		return "boolean"
	case TInt2:
		return "smallint"
	case TInt4:
		return "integer"
	case TInt8:
		return "bigint"
	case TFloat4:
		return "real"
	case TFloat8:
		return "double precision"
	case TNumeric:
		return "numeric"
	case TText:
		return "text"
	case TJSONB:
		return "jsonb"
	case TNode:
		return "nodecomposite"
	case TEdge:
		return "edgecomposite"
	case TPath:
		return "pathcomposite"
	case TRecord:
		return "record"
	case TNullAny:
		return "null"
	}
	return fmt.Sprintf("type#%d", uint8(t))
}

// Value is one SQL value.
//
//	bool            I (0/1)
//	int2/4/8        I
//	float4/8        F() (bits in I)
//	numeric         N() (X)
//	text, unknown   S
//	jsonb           J() (X: nil=json null, bool, Num, string, []any, map[string]any)
//	composite       A() (X: fields)
//	array           A() (X: elements)
type Value struct {
	T    Type
	Null bool
	I    int64  // bool, integers; the IEEE bits of a float
	S    string // text, unknown
	X    any    // numeric: Num; jsonb: the JSON value; composite / array: []Value
}

// F is the float value, N the numeric, J the JSON value, A the fields / elements.
func (v Value) F() float64 { return math.Float64frombits(uint64(v.I)) }
func (v Value) N() Num     { n, _ := v.X.(Num); return n }
func (v Value) J() any     { return v.X }
func (v Value) A() []Value { a, _ := v.X.([]Value); return a }

func floatBits(f float64) int64 { return int64(math.Float64bits(f)) }

// Constructors.
func Null(t Type) Value { return Value{T: t, Null: true} }

// NullAny is a NULL of a type pgeval does not track.
func NullAny() Value         { return Value{T: TNullAny, Null: true} }
func Bool(b bool) Value      { return Value{T: TBool, I: b2i(b)} }
func Int2(i int64) Value     { return Value{T: TInt2, I: i} }
func Int4(i int64) Value     { return Value{T: TInt4, I: i} }
func Int8(i int64) Value     { return Value{T: TInt8, I: i} }
func Float8(f float64) Value { return Value{T: TFloat8, I: floatBits(f)} }
func Numeric(n Num) Value    { return Value{T: TNumeric, X: n} }
func Text(s string) Value    { return Value{T: TText, S: s} }
func Unknown(s string) Value { return Value{T: TUnknown, S: s} }
func JSONB(j any) Value      { return Value{T: TJSONB, X: j} }
func Array(elem Type, a []Value) Value {
	if a == nil {
		a = []Value{}
	}
	return Value{T: elem.ArrayOf(), X: a}
}
func Composite(t Type, fields []Value) Value { return Value{T: t, X: fields} }

func b2i(b bool) int64 {
	if b {
		return 1
	}
	return 0
}

func (v Value) Bool() bool { return v.I != 0 }

// composite field names
var (
	nodeFields = []string{"id", "kind_ids", "properties"}
	edgeFields = []string{"id", "start_id", "end_id", "kind_id", "properties"}
	pathFields = []string{"nodes", "edges"}
	nodeTypes  = []Type{TInt8, TInt2 | TArray, TJSONB}
	edgeTypes  = []Type{TInt8, TInt8, TInt8, TInt2, TJSONB}
	pathTypes  = []Type{TNode | TArray, TEdge | TArray}
)

func compositeFields(t Type) ([]string, []Type) {
	switch t {
	case TNode:
		return nodeFields, nodeTypes
	case TEdge:
		return edgeFields, edgeTypes
	case TPath:
		return pathFields, pathTypes
	}
	return nil, nil
}

// ---- text output (type output functions; used by casts to text, array/composite output and error messages) ----

func float8Out(f float64) string {
	switch {
	case math.IsNaN(f):
		return "NaN"
	case math.IsInf(f, 1):
		return "Infinity"
	case math.IsInf(f, -1):
		return "-Infinity"
	}
	// extra_float_digits = 1 (default since v12): shortest round-trip representation. PostgreSQL's float8out_internal
	// switches to exponent notation for exponents < -4 or >= 15 (like %g with 17 digits), with at least two exponent digits.
	s := strconv.FormatFloat(f, 'e', -1, 64)
	mant, expS, _ := strings.Cut(s, "e")
	exp, _ := strconv.Atoi(expS)
	if exp < -4 || exp >= 15 {
		sign := "+"
		if exp < 0 {
			sign = "-"
			exp = -exp
		}
		return fmt.Sprintf("%se%s%02d", mant, sign, exp)
	}
	return strconv.FormatFloat(f, 'f', -1, 64)
}

// TextOut renders a non-null value the way its type output function does.
func (v Value) TextOut() string {
	if v.T.IsArray() {
		return arrayOut(v)
	}
	switch v.T {
	case TBool:
		// boolout gives "t"/"f"; the cast bool -> text gives "true"/"false" (handled by the cast)
		if v.I != 0 {
			return "t"
		}
		return "f"
	case TInt2, TInt4, TInt8:
		return strconv.FormatInt(v.I, 10)
	case TFloat4:
		return float8Out(float64(float32(v.F())))
	case TFloat8:
		return float8Out(v.F())
	case TNumeric:
		return v.N().String()
	case TText, TUnknown:
		return v.S
	case TJSONB:
		return jsonbOut(v.J())
	case TNode, TEdge, TPath, TRecord:
		return recordOut(v)
	}
	return "?"
}

func arrayOut(v Value) string {
	var sb strings.Builder
	sb.WriteByte('{')
	for i, e := range v.A() {
		if i > 0 {
			sb.WriteByte(',')
		}
		if e.Null {
			sb.WriteString("NULL")
			continue
		}
		s := e.TextOut()
		if arrayElemNeedsQuote(s, e.T) {
			sb.WriteByte('"')
			sb.WriteString(strings.NewReplacer(`\`, `\\`, `"`, `\"`).Replace(s))
			sb.WriteByte('"')
		} else {
			sb.WriteString(s)
		}
	}
	sb.WriteByte('}')
	return sb.String()
}

func arrayElemNeedsQuote(s string, t Type) bool {
	if s == "" || strings.EqualFold(s, "null") {
		return true
	}
	for _, c := range s {
		switch c {
		case '{', '}', ',', '"', '\\', ' ', '\t', '\n', '\r', '\v', '\f':
			return true
		}
	}
	return false
}

func recordOut(v Value) string {
	var sb strings.Builder
	sb.WriteByte('(')
	for i, f := range v.A() {
		if i > 0 {
			sb.WriteByte(',')
		}
		if f.Null {
			continue
		}
		s := f.TextOut()
		quote := s == ""
		for _, c := range s {
			switch c {
			case '(', ')', ',', '"', '\\', ' ', '\t', '\n', '\r', '\v', '\f':
				quote = true
			}
		}
		if quote {
			sb.WriteByte('"')
			sb.WriteString(strings.NewReplacer(`\`, `\\`, `"`, `""`).Replace(s))
			sb.WriteByte('"')
		} else {
			sb.WriteString(s)
		}
	}
	sb.WriteByte(')')
	return sb.String()
}

// ---- jsonb ----

// jsonbKeyLess is the storage order of jsonb object keys: shorter keys first, then bytewise.
func jsonbKeyLess(a, b string) bool {
	if len(a) != len(b) {
		return len(a) < len(b)
	}
	return a < b
}

func sortedKeys(m map[string]any) []string {
	keys := make([]string, 0, len(m))
	for k := range m {
		keys = append(keys, k)
	}
	sort.Slice(keys, func(i, j int) bool { return jsonbKeyLess(keys[i], keys[j]) })
	return keys
}

// jsonbOut renders like jsonb_out: `{"a": 1, "b": [1, 2]}`.
func jsonbOut(j any) string {
	var sb strings.Builder
	jsonbWrite(&sb, j)
	return sb.String()
}

func jsonbWrite(sb *strings.Builder, j any) {
	switch t := j.(type) {
	case nil:
		sb.WriteString("null")
	case bool:
		sb.WriteString(strconv.FormatBool(t))
	case Num:
		sb.WriteString(t.String())
	case string:
		jsonEscape(sb, t)
	case []any:
		sb.WriteByte('[')
		for i, e := range t {
			if i > 0 {
				sb.WriteString(", ")
			}
			jsonbWrite(sb, e)
		}
		sb.WriteByte(']')
	case map[string]any:
		sb.WriteByte('{')
		for i, k := range sortedKeys(t) {
			if i > 0 {
				sb.WriteString(", ")
			}
			jsonEscape(sb, k)
			sb.WriteString(": ")
			jsonbWrite(sb, t[k])
		}
		sb.WriteByte('}')
	default:
		fmt.Fprintf(sb, "?%T", j)
	}
}

// jsonEscape follows escape_json(): \b \f \n \r \t \" \\ and \u00XX for other control characters; everything else as is.
func jsonEscape(sb *strings.Builder, s string) {
	sb.WriteByte('"')
	for i := 0; i < len(s); i++ {
		c := s[i]
		switch c {
		case '\b':
			sb.WriteString(`\b`)
		case '\f':
			sb.WriteString(`\f`)
		case '\n':
			sb.WriteString(`\n`)
		case '\r':
			sb.WriteString(`\r`)
		case '\t':
			sb.WriteString(`\t`)
		case '"':
			sb.WriteString(`\"`)
		case '\\':
			sb.WriteString(`\\`)
		default:
			if c < 0x20 {
				fmt.Fprintf(sb, `\u%04x`, c)
			} else {
				sb.WriteByte(c)
			}
		}
	}
	sb.WriteByte('"')
}

func jsonbTypeof(j any) string {
	switch j.(type) {
	case nil:
		return "null"
	case bool:
		return "boolean"
	case Num:
		return "number"
	case string:
		return "string"
	case []any:
		return "array"
	case map[string]any:
		return "object"
	}
	return "?"
}

// jbv type order of compareJsonbContainers: null < string < numeric < bool < array < object.
func jbvRank(j any) int {
	switch j.(type) {
	case nil:
		return 0
	case string:
		return 1
	case Num:
		return 2
	case bool:
		return 3
	case []any:
		return 0x10
	case map[string]any:
		return 0x11
	}
	return 0x7f
}

func isJSONScalar(j any) bool {
	switch j.(type) {
	case []any, map[string]any:
		return false
	}
	return true
}

// jsonbCompare transcribes compareJsonbContainers (jsonb_util.c), including the documented anomaly that an empty
// top-level array sorts below scalars. String comparison uses the database collation (see textCompare).
func jsonbCompare(a, b any) (int, error) {
	// top level: scalars are stored as one-element "raw scalar" pseudo arrays
	as, bs := isJSONScalar(a), isJSONScalar(b)
	_, aArr := a.([]any)
	_, bArr := b.([]any)
	if (as || aArr) && (bs || bArr) {
		res := 0
		if as != bs {
			if as {
				res = -1
			} else {
				res = 1
			}
		}
		na, nb := 1, 1
		if aArr {
			na = len(a.([]any))
		}
		if bArr {
			nb = len(b.([]any))
		}
		if na != nb {
			if na > nb {
				res = 1
			} else {
				res = -1
			}
		}
		if res != 0 {
			return res, nil
		}
		if as { // both raw scalars
			return jsonbCompareElem(a, b)
		}
		aa, bb := a.([]any), b.([]any)
		for i := range aa {
			if c, err := jsonbCompareElem(aa[i], bb[i]); err != nil || c != 0 {
				return c, err
			}
		}
		return 0, nil
	}
	return jsonbCompareElem(a, b)
}

// jsonbCompareElem compares two nested values (array elements, object values, or top-level containers).
func jsonbCompareElem(a, b any) (int, error) {
	ra, rb := jbvRank(a), jbvRank(b)
	if ra != rb {
		if ra > rb {
			return 1, nil
		}
		return -1, nil
	}
	switch x := a.(type) {
	case nil:
		return 0, nil
	case string:
		return textCompare(x, b.(string))
	case Num:
		return x.Cmp(b.(Num)), nil
	case bool:
		y := b.(bool)
		switch {
		case x == y:
			return 0, nil
		case x:
			return 1, nil
		}
		return -1, nil
	case []any:
		y := b.([]any)
		if len(x) != len(y) {
			if len(x) > len(y) {
				return 1, nil
			}
			return -1, nil
		}
		for i := range x {
			if c, err := jsonbCompareElem(x[i], y[i]); err != nil || c != 0 {
				return c, err
			}
		}
		return 0, nil
	case map[string]any:
		y := b.(map[string]any)
		if len(x) != len(y) {
			if len(x) > len(y) {
				return 1, nil
			}
			return -1, nil
		}
		kx, ky := sortedKeys(x), sortedKeys(y)
		for i := range kx {
			if kx[i] != ky[i] {
				// keys are compared as jsonb strings: compareJsonbScalarValue -> varstr_cmp (collation)
				if c, err := textCompare(kx[i], ky[i]); err != nil || c != 0 {
					return c, err
				}
			}
			if c, err := jsonbCompareElem(x[kx[i]], y[ky[i]]); err != nil || c != 0 {
				return c, err
			}
		}
		return 0, nil
	}
	return 0, ErrOutside{What: "jsonb comparison of an unknown value"}
}

// jsonbEqual is jsonb = jsonb without collation dependence (equality never depends on the collation for deterministic
// collations).
func jsonbEqual(a, b any) bool {
	switch x := a.(type) {
	case nil:
		return b == nil
	case bool:
		y, ok := b.(bool)
		return ok && x == y
	case string:
		y, ok := b.(string)
		return ok && x == y
	case Num:
		y, ok := b.(Num)
		return ok && x.Cmp(y) == 0
	case []any:
		y, ok := b.([]any)
		if !ok || len(x) != len(y) {
			return false
		}
		for i := range x {
			if !jsonbEqual(x[i], y[i]) {
				return false
			}
		}
		return true
	case map[string]any:
		y, ok := b.(map[string]any)
		if !ok || len(x) != len(y) {
			return false
		}
		for k, v := range x {
			w, has := y[k]
			if !has || !jsonbEqual(v, w) {
				return false
			}
		}
		return true
	}
	return false
}

// jsonbContains implements jsonb @> jsonb (JsonbDeepContains).
func jsonbContains(a, b any) bool {
	switch y := b.(type) {
	case map[string]any:
		x, ok := a.(map[string]any)
		if !ok || len(x) < len(y) {
			return false
		}
		for k, bv := range y {
			av, has := x[k]
			if !has {
				return false
			}
			if isJSONScalar(bv) {
				if !isJSONScalar(av) || !jsonbEqual(av, bv) {
					return false
				}
			} else {
				if jbvRank(av) != jbvRank(bv) || !jsonbContains(av, bv) {
					return false
				}
			}
		}
		return true
	case []any:
		x, ok := a.([]any)
		if !ok {
			return false
		}
		for _, bv := range y {
			found := false
			if isJSONScalar(bv) {
				for _, av := range x {
					if isJSONScalar(av) && jsonbEqual(av, bv) {
						found = true
						break
					}
				}
			} else {
				for _, av := range x {
					if jbvRank(av) == jbvRank(bv) && jsonbContains(av, bv) {
						found = true
						break
					}
				}
			}
			if !found {
				return false
			}
		}
		return true
	default:
		// top-level scalar on the right: equal scalar, or (special case) an array on the left containing the scalar
		if isJSONScalar(a) {
			return jsonbEqual(a, b)
		}
		if x, ok := a.([]any); ok {
			for _, av := range x {
				if isJSONScalar(av) && jsonbEqual(av, b) {
					return true
				}
			}
		}
		return false
	}
}

// toJSON converts a Go property value (gm model: nil, bool, int64, float64, string, []any, map[string]any) into the jsonb
// model. Numbers become what PostgreSQL stores after the driver marshals the Go value with encoding/json.
func toJSON(v any) (any, error) {
	switch t := v.(type) {
	case nil:
		return nil, nil
	case bool:
		return t, nil
	case string:
		return t, nil
	case int:
		return NumFromInt(int64(t)), nil
	case int64:
		return NumFromInt(t), nil
	case int32:
		return NumFromInt(int64(t)), nil
	case int16:
		return NumFromInt(int64(t)), nil
	case float64:
		if math.IsNaN(t) || math.IsInf(t, 0) {
			return nil, fmt.Errorf("json: unsupported value: %v", t)
		}
		return ParseNum(goJSONFloat(t))
	case float32:
		return toJSON(float64(t))
	case []any:
		out := make([]any, len(t))
		for i, e := range t {
			j, err := toJSON(e)
			if err != nil {
				return nil, err
			}
			out[i] = j
		}
		return out, nil
	case []string:
		out := make([]any, len(t))
		for i, e := range t {
			out[i] = e
		}
		return out, nil
	case map[string]any:
		out := make(map[string]any, len(t))
		for k, e := range t {
			j, err := toJSON(e)
			if err != nil {
				return nil, err
			}
			out[k] = j
		}
		return out, nil
	}
	return nil, fmt.Errorf("unsupported property value of type %T", v)
}

// goJSONFloat renders a float64 the way encoding/json does.
func goJSONFloat(f float64) string {
	abs := math.Abs(f)
	format := byte('f')
	if abs != 0 && (abs < 1e-6 || abs >= 1e21) {
		format = 'e'
	}
	b := strconv.AppendFloat(nil, f, format, -1, 64)
	if format == 'e' {
		// clean up e-09 to e-9
		n := len(b)
		if n >= 4 && b[n-4] == 'e' && b[n-3] == '-' && b[n-2] == '0' {
			b[n-2] = b[n-1]
			b = b[:n-1]
		}
	}
	return string(b)
}

// fromJSON converts the jsonb model to decoded-JSON Go values (what the driver hands to callers): numbers become
// float64 (encoding/json decoding into any), integral ones that fit are given as float64 too; gm.Canon does not
// distinguish 1 and 1.0.
func fromJSON(j any) any {
	switch t := j.(type) {
	case Num:
		if i, ok := t.IsInt(); ok && i > -(1<<53) && i < (1<<53) {
			return i
		}
		return t.Float64()
	case []any:
		out := make([]any, len(t))
		for i, e := range t {
			out[i] = fromJSON(e)
		}
		return out
	case map[string]any:
		out := make(map[string]any, len(t))
		for k, e := range t {
			out[k] = fromJSON(e)
		}
		return out
	}
	return j
}
