// Package pgeval interprets the pgsql AST emitted by the Cypher -> PostgreSQL translator (translate.Result.Statement)
// over an in-memory property graph. It is the stand-in for PostgreSQL in the checks of C01/C02: there is no engine
// speaking PostgreSQL's dialect in the verification image.
//
// Soundness policy: every construct (or data-dependent situation) that is not modelled makes Run return ErrOutside; an
// error PostgreSQL itself would raise is returned as RuntimeError. See README.md for the semantics decisions.
package pgeval

import (
	"fmt"
	"sort"

	"github.com/specterops/dawgs/cypher/models/pgsql"

	"verif/gm"
)

// Evaluator holds the tables node, edge and kind built from one graph.
type Evaluator struct {
	tables  map[string][]row
	nodeIdx map[int64]row
	edgeIdx map[int64]row
	graphID int64
	err     error
	// Info describes the last Run (ordering / ambiguity flags).
	Info Info
}

// DefaultGraphID is the graph_id stored in every node and edge row (translate.DefaultGraphID).
const DefaultGraphID = 0

// New builds the tables
//
//	node(id int8, graph_id int4, kind_ids int2[], properties jsonb)
//	edge(id int8, graph_id int4, start_id int8, end_id int8, kind_id int2, properties jsonb)
//	kind(id int2, name text)
//
// from g. kindIDs maps every kind name to its id in the kind table (the ids the translator's KindMapper uses). A kind
// of g that is missing from kindIDs makes every Run fail with an ordinary error.
func New(g *gm.Graph, kindIDs map[string]int16) *Evaluator {
	ev := &Evaluator{tables: map[string][]row{}, nodeIdx: map[int64]row{}, edgeIdx: map[int64]row{}, graphID: DefaultGraphID}
	names := make([]string, 0, len(kindIDs))
	for name := range kindIDs {
		names = append(names, name)
	}
	sort.Slice(names, func(i, j int) bool { return kindIDs[names[i]] < kindIDs[names[j]] })
	kinds := make([]row, 0, len(names))
	for _, name := range names {
		kinds = append(kinds, row{Int2(int64(kindIDs[name])), Text(name)})
	}
	ev.tables["kind"] = kinds

	props := func(m map[string]any) (Value, error) {
		obj := make(map[string]any, len(m))
		for k, v := range m {
			j, err := toJSON(v)
			if err != nil {
				return Value{}, err
			}
			obj[k] = j
		}
		return JSONB(obj), nil
	}
	nodes := make([]row, 0, len(g.Nodes))
	for i := range g.Nodes {
		n := &g.Nodes[i]
		kindVals := make([]Value, len(n.Kinds))
		for j, k := range n.Kinds {
			id, ok := kindIDs[k]
			if !ok {
				ev.err = fmt.Errorf("pgeval: node kind %q has no kind id", k)
			}
			kindVals[j] = Int2(int64(id))
		}
		p, err := props(n.Props)
		if err != nil {
			ev.err = fmt.Errorf("pgeval: node %d: %w", n.ID, err)
		}
		rw := row{Int8(n.ID), Int4(ev.graphID), Array(TInt2, kindVals), p}
		if _, dup := ev.nodeIdx[n.ID]; dup {
			ev.err = fmt.Errorf("pgeval: duplicate node id %d", n.ID)
		}
		ev.nodeIdx[n.ID] = rw
		nodes = append(nodes, rw)
	}
	// a sequential scan returns rows in insertion order; the fixtures insert in ascending id order
	sort.SliceStable(nodes, func(i, j int) bool { return nodes[i][0].I < nodes[j][0].I })
	ev.tables["node"] = nodes

	edges := make([]row, 0, len(g.Edges))
	for i := range g.Edges {
		e := &g.Edges[i]
		id, ok := kindIDs[e.Kind]
		if !ok {
			ev.err = fmt.Errorf("pgeval: edge kind %q has no kind id", e.Kind)
		}
		p, err := props(e.Props)
		if err != nil {
			ev.err = fmt.Errorf("pgeval: edge %d: %w", e.ID, err)
		}
		rw := row{Int8(e.ID), Int4(ev.graphID), Int8(e.Start), Int8(e.End), Int2(int64(id)), p}
		if _, dup := ev.edgeIdx[e.ID]; dup {
			ev.err = fmt.Errorf("pgeval: duplicate edge id %d", e.ID)
		}
		ev.edgeIdx[e.ID] = rw
		edges = append(edges, rw)
	}
	sort.SliceStable(edges, func(i, j int) bool { return edges[i][0].I < edges[j][0].I })
	ev.tables["edge"] = edges
	return ev
}

// Prepared is a compiled statement: it can be run on many evaluators (graphs).
type Prepared struct {
	plan *queryPlan
	// PrecedenceRewrites: see Info.
	PrecedenceRewrites int
}

// Prepare compiles a statement. Compilation resolves names and scopes; it fails with ErrOutside for constructs that are
// not modelled and with RuntimeError{Static: true} for statements PostgreSQL rejects at parse/analysis time.
func Prepare(stmt pgsql.Statement) (p *Prepared, err error) {
	defer func() {
		if rec := recover(); rec != nil {
			p, err = nil, fmt.Errorf("pgeval internal error while compiling: %v", rec)
		}
	}()
	var q pgsql.Query
	switch t := stmt.(type) {
	case pgsql.Query:
		q = t
	case *pgsql.Query:
		if t == nil {
			return nil, outside("nil statement")
		}
		q = *t
	case nil:
		return nil, outside("nil statement")
	default:
		return nil, outside("statement %s", stmt.NodeType())
	}
	c := &compiler{info: &Info{}}
	plan, err := c.query(q, nil)
	if err != nil {
		return nil, err
	}
	plan.top = true
	return &Prepared{plan: plan, PrecedenceRewrites: c.info.PrecedenceRewrites}, nil
}

// Run executes the prepared statement on ev's graph with the translator's parameter map (translate.Result.Parameters).
func (p *Prepared) Run(ev *Evaluator, params map[string]any) (rows *gm.Rows, err error) {
	if ev.err != nil {
		return nil, ev.err
	}
	defer func() {
		if rec := recover(); rec != nil {
			rows, err = nil, fmt.Errorf("pgeval internal error: %v", rec)
		}
	}()
	ev.Info = Info{Ordered: len(p.plan.order) > 0, PrecedenceRewrites: p.PrecedenceRewrites}
	r := &run{ev: ev, params: params, info: &ev.Info}
	out, err := p.plan.exec(r, nil)
	if err != nil {
		return nil, err
	}
	res := &gm.Rows{Columns: append([]string(nil), p.plan.cols...), Rows: make([][]any, len(out))}
	for i, rw := range out {
		conv := make([]any, len(p.plan.cols))
		for j := range conv {
			v, err := resultValue(rw[j])
			if err != nil {
				return nil, err
			}
			conv[j] = v
		}
		res.Rows[i] = conv
	}
	return res, nil
}

// Run compiles and executes a statement.
func (ev *Evaluator) Run(stmt pgsql.Statement, params map[string]any) (*gm.Rows, error) {
	p, err := Prepare(stmt)
	if err != nil {
		return nil, err
	}
	return p.Run(ev, params)
}

// resultValue converts a result column the way the driver hands it to callers: nodecomposite -> node, edgecomposite ->
// relationship, pathcomposite -> path, jsonb -> decoded JSON, arrays -> []any, integers -> int64, floats -> float64.
func resultValue(v Value) (any, error) {
	if v.Null {
		return nil, nil
	}
	if v.T.IsArray() {
		out := make([]any, len(v.A()))
		for i, el := range v.A() {
			c, err := resultValue(el)
			if err != nil {
				return nil, err
			}
			out[i] = c
		}
		return out, nil
	}
	switch v.T {
	case TBool:
		return v.I != 0, nil
	case TInt2, TInt4, TInt8:
		return v.I, nil
	case TFloat4, TFloat8:
		return v.F(), nil
	case TNumeric:
		if i, ok := v.N().IsInt(); ok {
			return i, nil
		}
		return v.N().Float64(), nil
	case TText, TUnknown:
		return v.S, nil
	case TJSONB:
		return fromJSON(v.J()), nil
	case TNode:
		if v.A()[0].Null {
			return nil, nil // (NULL, NULL, NULL): the null-extended side of an outer join
		}
		return gm.NodeRef{ID: v.A()[0].I}, nil
	case TEdge:
		if v.A()[0].Null {
			return nil, nil
		}
		return gm.EdgeRef{ID: v.A()[0].I}, nil
	case TPath:
		p := gm.Path{Nodes: []int64{}, Edges: []int64{}}
		if !v.A()[0].Null {
			for _, n := range v.A()[0].A() {
				if n.Null || n.A()[0].Null {
					return nil, outside("path with a NULL node")
				}
				p.Nodes = append(p.Nodes, n.A()[0].I)
			}
		}
		if !v.A()[1].Null {
			for _, e := range v.A()[1].A() {
				if e.Null || e.A()[0].Null {
					return nil, outside("path with a NULL edge")
				}
				p.Edges = append(p.Edges, e.A()[0].I)
			}
		}
		return p, nil
	}
	return nil, outside("result column of type %s", v.T)
}

// ---------------------------------------------------------------------------------------------------------------------
// schema functions (transcribed from drivers/pg/query/sql/schema_up.sql)
// ---------------------------------------------------------------------------------------------------------------------

func nodeComposite(rw row) Value { return Composite(TNode, []Value{rw[0], rw[2], rw[3]}) }
func edgeComposite(rw row) Value {
	return Composite(TEdge, []Value{rw[0], rw[2], rw[3], rw[4], rw[5]})
}

// edgeArrayFromPathIDs implements the formatter's expansion of EdgeArrayFromPathIDs:
//
//	(select coalesce(array_agg((_edge.id, _edge.start_id, _edge.end_id, _edge.kind_id, _edge.properties)::edgecomposite
//	        order by _path.ordinality), array []::edgecomposite[])
//	 from unnest(<ids>) with ordinality as _path(id, ordinality) join edge _edge on _edge.id = _path.id)
func (ev *Evaluator) edgeArrayFromPathIDs(ids Value) (Value, error) {
	if ids.T == TNullAny {
		return Array(TEdge, nil), nil
	}
	if ids.T == TUnknown {
		return Value{}, staticErr("function unnest(unknown) is not unique")
	}
	if !ids.T.IsArray() {
		return Value{}, staticErr("function unnest(%s) does not exist", ids.T)
	}
	if !ids.T.Elem().IsInt() {
		return Value{}, staticErr("operator does not exist: bigint = %s", ids.T.Elem())
	}
	out := []Value{}
	if !ids.Null {
		for _, id := range ids.A() {
			if id.Null {
				continue
			}
			if rw, ok := ev.edgeIdx[id.I]; ok {
				out = append(out, edgeComposite(rw))
			}
		}
	}
	return Array(TEdge, out), nil
}

// edgeEndpoint implements start_node(rel edgeComposite) / end_node(rel) (strict SQL functions).
func (ev *Evaluator) edgeEndpoint(name string, a []Value, field int) (Value, error) {
	if err := arity(name, a, 1); err != nil {
		return Value{}, err
	}
	rel := a[0]
	if rel.T == TRecord && !rel.Null && len(rel.A()) == 5 {
		var err error
		if rel, err = recordToComposite(rel, TEdge); err != nil {
			return Value{}, err
		}
	}
	if rel.T != TEdge && !(rel.T == TUnknown && rel.Null) && rel.T != TNullAny {
		return Value{}, staticErr("function %s(%s) does not exist", name, rel.T)
	}
	if rel.Null || rel.A()[field].Null {
		return Null(TNode), nil
	}
	if rw, ok := ev.nodeIdx[rel.A()[field].I]; ok {
		return nodeComposite(rw), nil
	}
	return Null(TNode), nil
}

// orderedEdgesToPath transcribes ordered_edges_to_path(root nodeComposite, edges edgeComposite[], known_nodes
// nodeComposite[]) (strict, language sql): walk the edge list from the root, preferring the edge whose ordinal follows
// the previous one in the walking direction, and build the node list from the known nodes or the node table.
func (ev *Evaluator) orderedEdgesToPath(root, edges, known Value) (Value, error) {
	if root.T == TNullAny || edges.T == TNullAny || known.T == TNullAny {
		return Null(TPath), nil
	}
	if root.T != TNode && !(root.T == TUnknown && root.Null) {
		return Value{}, staticErr("function ordered_edges_to_path(%s, %s, %s) does not exist", root.T, edges.T, known.T)
	}
	if edges.T != TEdge|TArray && !(edges.T == TUnknown && edges.Null) {
		return Value{}, staticErr("function ordered_edges_to_path(%s, %s, %s) does not exist", root.T, edges.T, known.T)
	}
	if known.T != TNode|TArray && !(known.T == TUnknown && known.Null) {
		return Value{}, staticErr("function ordered_edges_to_path(%s, %s, %s) does not exist", root.T, edges.T, known.T)
	}
	if root.Null || edges.Null || known.Null {
		return Null(TPath), nil
	}
	n := int64(len(edges.A()))
	rootID := root.A()[0]
	// touches(i): (root).id = (edges[i]).start_id or (root).id = (edges[i]).end_id, three-valued
	type tv int8 // -1 unknown, 0 false, 1 true
	eq := func(a, b Value) tv {
		if a.Null || b.Null {
			return -1
		}
		if a.I == b.I {
			return 1
		}
		return 0
	}
	or := func(a, b tv) tv {
		if a == 1 || b == 1 {
			return 1
		}
		if a == -1 || b == -1 {
			return -1
		}
		return 0
	}
	edgeField := func(i int64, f int) Value {
		el := edges.A()[i-1]
		if el.Null {
			return Null(TInt8)
		}
		return el.A()[f]
	}
	touches := func(i int64) tv { return or(eq(rootID, edgeField(i, 1)), eq(rootID, edgeField(i, 2))) }
	lastOrdinal, direction := int64(0), int64(1)
	if n > 0 {
		first, last := touches(1), touches(n)
		switch {
		case first == 1:
			lastOrdinal = 0
		case last == 1:
			lastOrdinal = n + 1
		}
		// direction: edge_count > 0 and not first and last  (NOT unknown is unknown: the WHEN is not taken)
		if first == 0 && last == 1 {
			direction = -1
		}
	}
	current := rootID
	nodeIDs := []Value{rootID}
	var ordinals []int64
	used := map[int64]bool{}
	for idx := int64(1); idx <= n; idx++ {
		best := int64(0)
		bestRank := [2]int64{}
		for ord := int64(1); ord <= n; ord++ {
			if used[ord] {
				continue
			}
			if or(eq(current, edgeField(ord, 1)), eq(current, edgeField(ord, 2))) != 1 {
				continue
			}
			rank := [2]int64{1, ord}
			if ord == lastOrdinal+direction {
				rank[0] = 0
			}
			if direction < 0 {
				rank[1] = -ord
			}
			if best == 0 || rank[0] < bestRank[0] || (rank[0] == bestRank[0] && rank[1] < bestRank[1]) {
				best, bestRank = ord, rank
			}
		}
		if best == 0 {
			break
		}
		var next Value
		switch {
		case eq(current, edgeField(best, 1)) == 1:
			next = edgeField(best, 2)
		case eq(current, edgeField(best, 2)) == 1:
			next = edgeField(best, 1)
		default:
			next = Null(TInt8)
		}
		used[best] = true
		ordinals = append(ordinals, best)
		nodeIDs = append(nodeIDs, next)
		lastOrdinal = best
		current = next
	}
	nodes := make([]Value, 0, len(nodeIDs))
	for _, id := range nodeIDs {
		var node Value
		found := false
		if !id.Null {
			for _, cand := range known.A() {
				if cand.Null || cand.A()[0].Null || cand.A()[0].I != id.I {
					continue
				}
				node, found = Composite(TNode, []Value{cand.A()[0], cand.A()[1], cand.A()[2]}), true
				break
			}
			if !found {
				if rw, ok := ev.nodeIdx[id.I]; ok {
					node, found = nodeComposite(rw), true
				}
			}
		}
		if !found {
			node = Composite(TNode, []Value{Null(TInt8), Null(TInt2 | TArray), Null(TJSONB)})
		}
		nodes = append(nodes, node)
	}
	pathEdges := make([]Value, 0, len(ordinals))
	for _, ord := range ordinals {
		el := edges.A()[ord-1]
		pathEdges = append(pathEdges, Composite(TEdge, append([]Value(nil), el.A()...)))
	}
	return Composite(TPath, []Value{Array(TNode, nodes), Array(TEdge, pathEdges)}), nil
}
