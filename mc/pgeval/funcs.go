package pgeval

import (
	"strings"
	"unicode/utf8"

	"github.com/specterops/dawgs/cypher/models/pgsql"
)

// ---------------------------------------------------------------------------------------------------------------------
// aggregates
// ---------------------------------------------------------------------------------------------------------------------

type aggSpec struct {
	name     string
	distinct bool
	star     bool
	arg      expr
}

func (c *compiler) aggregateCall(f pgsql.FunctionCall, s *scope) (expr, error) {
	name := fold(string(f.Function))
	// the aggregate belongs to the innermost SELECT level (the translator never emits outer-level aggregates)
	level := s
	for level != nil && level.isQuery {
		level = level.parent
	}
	if level == nil || level != s {
		return nil, outside("aggregate %s outside a SELECT level", name)
	}
	if !level.grouped {
		// WHERE / JOIN ON / FROM of the level are compiled before it is marked as grouped (PostgreSQL rejects aggregates
		// there); an aggregate that appears only in ORDER BY would make the level grouped, which pgeval does not model
		return nil, outside("aggregate %s in a context that is not a grouped select list", name)
	}
	if c.inAgg > 0 {
		return nil, staticErr("aggregate function calls cannot be nested")
	}
	spec := &aggSpec{name: name, distinct: f.Distinct}
	if len(f.Parameters) != 1 {
		return nil, outside("aggregate %s with %d arguments", name, len(f.Parameters))
	}
	if isWildcard(f.Parameters[0]) {
		if name != "count" {
			return nil, staticErr("%s(*) specified, but %s is not an aggregate function taking *", name, name)
		}
		if f.Distinct {
			return nil, staticErr("DISTINCT specified with count(*)")
		}
		spec.star = true
	} else {
		c.inAgg++
		arg, err := c.expr(f.Parameters[0], s)
		c.inAgg--
		if err != nil {
			return nil, err
		}
		spec.arg = arg
	}
	idx := len(level.aggs)
	level.aggs = append(level.aggs, spec)
	return func(r *run, e *env) (Value, error) { return e.aggs[idx], nil }, nil
}

func (a *aggSpec) compute(r *run, e *env, rows []row) (Value, error) {
	if a.star {
		return Int8(int64(len(rows))), nil
	}
	vals := make([]Value, 0, len(rows))
	for _, rw := range rows {
		e.vals = rw
		v, err := a.arg(r, e)
		if err != nil {
			return Value{}, err
		}
		vals = append(vals, v)
	}
	if a.distinct {
		seen := map[string]struct{}{}
		var sb strings.Builder
		kept := vals[:0]
		for _, v := range vals {
			sb.Reset()
			hashKey(&sb, v)
			if _, dup := seen[sb.String()]; dup {
				continue
			}
			seen[sb.String()] = struct{}{}
			kept = append(kept, v)
		}
		vals = kept
		// DISTINCT aggregates sort their input: array_agg(DISTINCT x) yields the elements in sort order
		if a.name == "array_agg" && len(vals) > 1 {
			sorted, err := sortValues(vals)
			if err != nil {
				return Value{}, err
			}
			vals = sorted
		}
	}
	switch a.name {
	case "count":
		n := int64(0)
		for _, v := range vals {
			if !v.Null {
				n++
			}
		}
		return Int8(n), nil
	case "array_agg":
		if len(vals) == 0 {
			return NullAny(), nil
		}
		for _, v := range vals {
			if v.T.IsArray() {
				return Value{}, outside("array_agg over arrays (multi-dimensional result)")
			}
		}
		if len(vals) > 1 && !a.distinct {
			r.info.UnorderedAggregate = true
		}
		return buildArray(vals, TUnknown)
	case "sum", "avg":
		return sumAvg(a.name, vals)
	case "min", "max":
		var best Value
		have := false
		for _, v := range vals {
			if v.Null {
				continue
			}
			if v.T == TUnknown {
				v, _ = coerceUnknown(v, TText)
			}
			switch {
			case v.T == TJSONB, v.T == TBool, v.T.IsComposite():
				return Value{}, staticErr("function %s(%s) does not exist", a.name, v.T)
			}
			if !have {
				best, have = v, true
				continue
			}
			x, y, err := unifyPair("<", v, best)
			if err != nil {
				return Value{}, err
			}
			c, err := compareValues(x, y, true)
			if err != nil {
				return Value{}, err
			}
			if (a.name == "min" && c < 0) || (a.name == "max" && c > 0) {
				best = v
			}
		}
		if !have {
			return NullAny(), nil
		}
		return best, nil
	case "cypher_min", "cypher_max":
		// create aggregate cypher_min(jsonb) (sfunc = cypher_min_transition): JSON null and SQL NULL are skipped
		var state Value
		have := false
		for _, v := range vals {
			if v.T == TUnknown && !v.Null {
				var err error
				if v, err = coerceUnknown(v, TJSONB); err != nil {
					return Value{}, err
				}
			}
			if v.T != TJSONB && !(v.T == TUnknown && v.Null) && v.T != TNullAny {
				return Value{}, staticErr("function %s(%s) does not exist", a.name, v.T)
			}
			if v.Null || v.J() == nil {
				continue
			}
			if !have {
				state, have = v, true
				continue
			}
			c, err := cypherValueCompare(v.J(), state.J())
			if err != nil {
				return Value{}, err
			}
			if (a.name == "cypher_min" && c < 0) || (a.name == "cypher_max" && c > 0) {
				state = v
			}
		}
		if !have {
			return Null(TJSONB), nil
		}
		return state, nil
	}
	return Value{}, outside("aggregate %s", a.name)
}

func sortValues(vals []Value) ([]Value, error) {
	out := append([]Value(nil), vals...)
	var sortErr error
	// insertion sort: inputs are tiny and the comparison can fail
	for i := 1; i < len(out); i++ {
		for j := i; j > 0; j-- {
			a, b := out[j-1], out[j]
			var c int
			switch {
			case a.Null && b.Null:
				c = 0
			case a.Null:
				c = 1
			case b.Null:
				c = -1
			default:
				x, y, err := unifyPair("<", a, b)
				if err != nil {
					return nil, err
				}
				if c, err = compareValues(x, y, true); err != nil {
					sortErr = err
				}
			}
			if sortErr != nil {
				return nil, sortErr
			}
			if c <= 0 {
				break
			}
			out[j-1], out[j] = out[j], out[j-1]
		}
	}
	return out, nil
}

func sumAvg(name string, vals []Value) (Value, error) {
	var kind Type
	n := int64(0)
	for _, v := range vals {
		if v.Null {
			continue
		}
		if !v.T.IsNumeric() {
			if v.T == TUnknown {
				return Value{}, staticErr("function %s(unknown) is not unique", name)
			}
			return Value{}, staticErr("function %s(%s) does not exist", name, v.T)
		}
		if kind == TUnknown {
			kind = v.T
		} else if kind != v.T {
			kind = commonNumeric(kind, v.T)
		}
		n++
	}
	if n == 0 {
		return NullAny(), nil
	}
	if kind.IsFloat() {
		total := 0.0
		for _, v := range vals {
			if !v.Null {
				total += toFloat(v)
			}
		}
		if name == "avg" {
			return Float8(total / float64(n)), nil
		}
		if kind == TFloat4 {
			return Value{T: TFloat4, I: floatBits(float64(float32(total)))}, nil
		}
		return Float8(total), nil
	}
	total := NumFromInt(0)
	for _, v := range vals {
		if v.Null {
			continue
		}
		var err error
		if total, err = total.Add(toNum(v)); err != nil {
			return Value{}, outside("numeric NaN/Infinity in %s", name)
		}
	}
	if name == "avg" {
		q, err := total.Div(NumFromInt(n))
		if err != nil {
			return Value{}, rtErr("%v", err)
		}
		return Numeric(q), nil
	}
	switch kind {
	case TInt2, TInt4: // sum(int2|int4) is bigint
		i, ok := total.IsInt()
		if !ok {
			return Value{}, rtErr("bigint out of range")
		}
		return Int8(i), nil
	}
	return Numeric(total), nil // sum(int8) and sum(numeric) are numeric
}

// ---------------------------------------------------------------------------------------------------------------------
// scalar functions
// ---------------------------------------------------------------------------------------------------------------------

type scalarFn func(r *run, args []Value) (Value, error)

func (c *compiler) functionCall(f pgsql.FunctionCall, s *scope) (expr, error) {
	if f.Over != nil {
		return nil, outside("window function")
	}
	name := fold(string(f.Function))
	var inner expr
	var err error
	switch {
	case isAggregate(f):
		inner, err = c.aggregateCall(f, s)
	case name == "coalesce":
		inner, err = c.coalesce(f, s)
	case f.Bare:
		return nil, outside("bare function %s", name)
	default:
		if strings.HasSuffix(name, "_harness") {
			return nil, outside("plpgsql traversal harness %s", name)
		}
		fn, ok := scalarFunctions[name]
		if !ok {
			return nil, outside("function %s", name)
		}
		if f.Distinct {
			return nil, staticErr("DISTINCT specified, but %s is not an aggregate function", name)
		}
		var args []expr
		if args, err = c.exprs(f.Parameters, s); err != nil {
			return nil, err
		}
		inner = func(r *run, e *env) (Value, error) {
			vals := make([]Value, len(args))
			untracked := false
			for i, a := range args {
				v, err := a(r, e)
				if err != nil {
					return Value{}, err
				}
				if v.T == TNullAny {
					untracked = true
				}
				vals[i] = v
			}
			if untracked && !nonStrict[name] {
				// every function below except the listed ones is STRICT: a NULL argument gives NULL
				return NullAny(), nil
			}
			return fn(r, vals)
		}
	}
	if err != nil {
		return nil, err
	}
	if f.CastType.IsKnown() {
		return c.castExpr(inner, f.CastType)
	}
	return inner, nil
}

// coalesce evaluates its arguments lazily; the result type is the common type of all arguments (select_common_type),
// so an untyped literal takes the type of the typed arguments even when it is not reached.
func (c *compiler) coalesce(f pgsql.FunctionCall, s *scope) (expr, error) {
	if len(f.Parameters) == 0 {
		return nil, staticErr("syntax error at or near \")\"")
	}
	args, err := c.exprs(f.Parameters, s)
	if err != nil {
		return nil, err
	}
	// constant untyped string literals among the arguments must be coercible to the common type: check them when the
	// common type becomes known at run time
	var literals []Value
	for _, p := range f.Parameters {
		if lit, ok := p.(pgsql.Literal); ok && !lit.Null {
			if v, err := literalValue(lit); err == nil && v.T == TUnknown {
				literals = append(literals, v)
			}
		}
	}
	return func(r *run, e *env) (Value, error) {
		var result Value
		found := false
		common := TUnknown
		for _, a := range args {
			v, err := a(r, e)
			if err != nil {
				return Value{}, err
			}
			if v.T != TUnknown && v.T != TNullAny {
				switch {
				case common == TUnknown:
					common = v.T
				case common == v.T:
				case common.IsNumeric() && v.T.IsNumeric():
					common = commonNumeric(common, v.T)
				default:
					return Value{}, staticErr("COALESCE types %s and %s cannot be matched", common, v.T)
				}
			}
			if !v.Null {
				result, found = v, true
				break
			}
		}
		if common == TUnknown {
			common = TText
		}
		for _, lit := range literals {
			if _, err := coerceUnknown(lit, common); err != nil {
				return Value{}, err
			}
		}
		if !found {
			if common == TText {
				return NullAny(), nil
			}
			return Null(common), nil
		}
		if result.T == TUnknown {
			return coerceUnknown(result, common)
		}
		if result.T != common {
			return castValue(result, common)
		}
		return result, nil
	}, nil
}

func argText(fname string, v Value) (Value, error) {
	if v.T == TUnknown {
		return coerceUnknown(v, TText)
	}
	if v.T != TText {
		return Value{}, staticErr("function %s(%s) does not exist", fname, v.T)
	}
	return v, nil
}

func argJSONB(fname string, v Value) (Value, error) {
	if v.T == TUnknown {
		return coerceUnknown(v, TJSONB)
	}
	if v.T != TJSONB {
		return Value{}, staticErr("function %s(%s) does not exist", fname, v.T)
	}
	return v, nil
}

func arity(fname string, args []Value, n int) error {
	if len(args) != n {
		return staticErr("function %s with %d arguments does not exist", fname, len(args))
	}
	return nil
}

var scalarFunctions map[string]scalarFn

// nonStrict lists the modelled functions that are called with NULL arguments.
var nonStrict = map[string]bool{"jsonb_build_object": true, "array_remove": true}

func init() {
	scalarFunctions = map[string]scalarFn{
		"jsonb_typeof": func(r *run, a []Value) (Value, error) {
			if err := arity("jsonb_typeof", a, 1); err != nil {
				return Value{}, err
			}
			v, err := argJSONB("jsonb_typeof", a[0])
			if err != nil {
				return Value{}, err
			}
			if v.Null {
				return Null(TText), nil
			}
			return Text(jsonbTypeof(v.J())), nil
		},
		"to_jsonb": func(r *run, a []Value) (Value, error) {
			if err := arity("to_jsonb", a, 1); err != nil {
				return Value{}, err
			}
			if a[0].T == TUnknown {
				return Value{}, staticErr("could not determine polymorphic type because input has type unknown")
			}
			if a[0].Null {
				return Null(TJSONB), nil
			}
			j, err := valueToJSON(a[0])
			if err != nil {
				return Value{}, err
			}
			return JSONB(j), nil
		},
		"jsonb_array_length": func(r *run, a []Value) (Value, error) {
			if err := arity("jsonb_array_length", a, 1); err != nil {
				return Value{}, err
			}
			v, err := argJSONB("jsonb_array_length", a[0])
			if err != nil {
				return Value{}, err
			}
			if v.Null {
				return Null(TInt4), nil
			}
			switch j := v.J().(type) {
			case []any:
				return Int4(int64(len(j))), nil
			case map[string]any:
				return Value{}, rtErr("cannot get array length of a non-array")
			}
			return Value{}, rtErr("cannot get array length of a scalar")
		},
		"jsonb_to_text_array": func(r *run, a []Value) (Value, error) {
			// schema_up.sql: strict; 'null'::jsonb gives NULL, else array(select jsonb_array_elements_text(target))
			if err := arity("jsonb_to_text_array", a, 1); err != nil {
				return Value{}, err
			}
			v, err := argJSONB("jsonb_to_text_array", a[0])
			if err != nil {
				return Value{}, err
			}
			if v.Null || v.J() == nil {
				return Null(TText | TArray), nil
			}
			elems, err := jsonbArrayElements(v, true)
			if err != nil {
				return Value{}, err
			}
			return Array(TText, elems), nil
		},
		"jsonb_build_object": func(r *run, a []Value) (Value, error) {
			if len(a)%2 != 0 {
				return Value{}, rtErr("argument list must have even number of elements")
			}
			obj := map[string]any{}
			for i := 0; i < len(a); i += 2 {
				k := a[i]
				if k.Null {
					return Value{}, rtErr("argument %d: key must not be null", i+1)
				}
				var key string
				switch {
				case k.T == TText || k.T == TUnknown:
					key = k.S
				case k.T.IsArray() || k.T.IsComposite() || k.T == TJSONB:
					return Value{}, rtErr("key value must be scalar, not array, composite, or json")
				default:
					kt, err := castValue(k, TText)
					if err != nil {
						return Value{}, err
					}
					key = kt.S
				}
				v := a[i+1]
				if k.T == TNullAny {
					return Value{}, rtErr("argument %d: key must not be null", i+1)
				}
				if v.T == TUnknown && !v.Null {
					v.T = TText // variadic "any": an unknown literal is passed as text
				}
				var j any
				if !v.Null {
					var err error
					if j, err = valueToJSON(v); err != nil {
						return Value{}, err
					}
				}
				obj[key] = j
			}
			return JSONB(obj), nil
		},
		"lower": func(r *run, a []Value) (Value, error) { return textFn("lower", a, strings.ToLower) },
		"upper": func(r *run, a []Value) (Value, error) { return textFn("upper", a, strings.ToUpper) },
		"cardinality": func(r *run, a []Value) (Value, error) {
			if err := arity("cardinality", a, 1); err != nil {
				return Value{}, err
			}
			if a[0].T == TUnknown {
				return Value{}, staticErr("function cardinality(unknown) is not unique")
			}
			if !a[0].T.IsArray() {
				return Value{}, staticErr("function cardinality(%s) does not exist", a[0].T)
			}
			if a[0].Null {
				return Null(TInt4), nil
			}
			return Int4(int64(len(a[0].A()))), nil
		},
		"array_length": func(r *run, a []Value) (Value, error) {
			if err := arity("array_length", a, 2); err != nil {
				return Value{}, err
			}
			if !a[0].T.IsArray() {
				return Value{}, staticErr("function array_length(%s, %s) does not exist", a[0].T, a[1].T)
			}
			d := a[1]
			if d.T == TUnknown {
				var err error
				if d, err = coerceUnknown(d, TInt4); err != nil {
					return Value{}, err
				}
			}
			if !d.T.IsInt() {
				return Value{}, staticErr("function array_length(%s, %s) does not exist", a[0].T, a[1].T)
			}
			if a[0].Null || d.Null || d.I != 1 || len(a[0].A()) == 0 {
				return Null(TInt4), nil
			}
			return Int4(int64(len(a[0].A()))), nil
		},
		"array_remove": func(r *run, a []Value) (Value, error) {
			if err := arity("array_remove", a, 2); err != nil {
				return Value{}, err
			}
			arr, el := a[0], a[1]
			if arr.T == TNullAny {
				return NullAny(), nil
			}
			if el.T == TNullAny {
				el = Null(arr.T.Elem())
			}
			if arr.T == TUnknown {
				return Value{}, staticErr("could not determine polymorphic type because input has type unknown")
			}
			if !arr.T.IsArray() {
				return Value{}, staticErr("function array_remove(%s, %s) does not exist", arr.T, el.T)
			}
			if el.T == TUnknown {
				var err error
				if el, err = coerceUnknown(el, arr.T.Elem()); err != nil {
					return Value{}, err
				}
			} else if el.T != arr.T.Elem() && !(el.T.IsNumeric() && arr.T.Elem().IsNumeric()) {
				return Value{}, staticErr("function array_remove(%s, %s) does not exist", arr.T, el.T)
			}
			if arr.Null { // array_remove is not strict, a NULL array gives NULL
				return Null(arr.T), nil
			}
			out := make([]Value, 0, len(arr.A()))
			for _, x := range arr.A() {
				same, err := notDistinct(x, el)
				if err != nil {
					return Value{}, err
				}
				if !same {
					out = append(out, x)
				}
			}
			return Array(arr.T.Elem(), out), nil
		},
		"string_to_array": func(r *run, a []Value) (Value, error) {
			if err := arity("string_to_array", a, 2); err != nil {
				return Value{}, err
			}
			s, err := argText("string_to_array", a[0])
			if err != nil {
				return Value{}, err
			}
			d, err := argText("string_to_array", a[1])
			if err != nil {
				return Value{}, err
			}
			if s.Null {
				return Null(TText | TArray), nil
			}
			var parts []string
			switch {
			case d.Null: // NULL delimiter: one element per character
				for _, ch := range s.S {
					parts = append(parts, string(ch))
				}
			case s.S == "":
				parts = nil
			case d.S == "":
				parts = []string{s.S}
			default:
				parts = strings.Split(s.S, d.S)
			}
			out := make([]Value, len(parts))
			for i, p := range parts {
				out[i] = Text(p)
			}
			return Array(TText, out), nil
		},
		"replace": func(r *run, a []Value) (Value, error) {
			if err := arity("replace", a, 3); err != nil {
				return Value{}, err
			}
			var t [3]Value
			for i := range t {
				v, err := argText("replace", a[i])
				if err != nil {
					return Value{}, err
				}
				if v.Null {
					return Null(TText), nil
				}
				t[i] = v
			}
			if t[1].S == "" {
				return t[0], nil
			}
			return Text(strings.ReplaceAll(t[0].S, t[1].S, t[2].S)), nil
		},
		"cypher_contains": func(r *run, a []Value) (Value, error) {
			// select strpos(haystack, needle) > 0 (strict)
			return textPredicate("cypher_contains", a, func(h, n string) bool { return strings.Contains(h, n) })
		},
		"cypher_starts_with": func(r *run, a []Value) (Value, error) {
			// select left(haystack, char_length(prefix)) = prefix (strict)
			return textPredicate("cypher_starts_with", a, strings.HasPrefix)
		},
		"cypher_ends_with": func(r *run, a []Value) (Value, error) {
			// select right(haystack, char_length(suffix)) = suffix (strict)
			return textPredicate("cypher_ends_with", a, strings.HasSuffix)
		},
		"kind_name": func(r *run, a []Value) (Value, error) {
			// select k.name::text from kind k where k.id = _kind_id limit 1 (strict)
			if err := arity("kind_name", a, 1); err != nil {
				return Value{}, err
			}
			v := a[0]
			if v.T == TUnknown {
				var err error
				if v, err = coerceUnknown(v, TInt2); err != nil {
					return Value{}, err
				}
			}
			if v.T != TInt2 {
				// int4/int8 do not implicitly cast to smallint
				return Value{}, staticErr("function kind_name(%s) does not exist", v.T)
			}
			if v.Null {
				return Null(TText), nil
			}
			for _, k := range r.ev.tables["kind"] {
				if k[0].I == v.I {
					return k[1], nil
				}
			}
			return Null(TText), nil
		},
		"start_node": func(r *run, a []Value) (Value, error) { return r.ev.edgeEndpoint("start_node", a, 1) },
		"end_node":   func(r *run, a []Value) (Value, error) { return r.ev.edgeEndpoint("end_node", a, 2) },
		"ordered_edges_to_path": func(r *run, a []Value) (Value, error) {
			if err := arity("ordered_edges_to_path", a, 3); err != nil {
				return Value{}, err
			}
			return r.ev.orderedEdgesToPath(a[0], a[1], a[2])
		},
		"edges_to_path": func(r *run, a []Value) (Value, error) {
			return Value{}, outside("edges_to_path (variadic)")
		},
		"nodes_to_path": func(r *run, a []Value) (Value, error) {
			return Value{}, outside("nodes_to_path (variadic)")
		},
		"sort": func(r *run, a []Value) (Value, error) { return intarrayFn("sort", a) },
		"uniq": func(r *run, a []Value) (Value, error) { return intarrayFn("uniq", a) },
		"shortest_path_self_endpoint_error": func(r *run, a []Value) (Value, error) {
			return Value{}, outside("shortest_path_self_endpoint_error (shortest-path translation)")
		},
	}
}

func textFn(name string, a []Value, f func(string) string) (Value, error) {
	if err := arity(name, a, 1); err != nil {
		return Value{}, err
	}
	v, err := argText(name, a[0])
	if err != nil {
		return Value{}, err
	}
	if v.Null {
		return Null(TText), nil
	}
	for i := 0; i < len(v.S); i++ {
		if v.S[i] >= utf8.RuneSelf {
			return Value{}, outside("%s() of non-ASCII text (locale dependent)", name)
		}
	}
	return Text(f(v.S)), nil
}

func textPredicate(name string, a []Value, f func(string, string) bool) (Value, error) {
	if err := arity(name, a, 2); err != nil {
		return Value{}, err
	}
	x, err := argText(name, a[0])
	if err != nil {
		return Value{}, err
	}
	y, err := argText(name, a[1])
	if err != nil {
		return Value{}, err
	}
	if x.Null || y.Null {
		return Null(TBool), nil
	}
	return Bool(f(x.S, y.S)), nil
}

// intarrayFn implements sort(int[]) and uniq(int[]) of the intarray extension. Their argument type is integer[]; the
// translator applies them to smallint[] values, which PostgreSQL casts implicitly element by element.
func intarrayFn(name string, a []Value) (Value, error) {
	if err := arity(name, a, 1); err != nil {
		return Value{}, err
	}
	v := a[0]
	if !v.T.IsArray() || !(v.T.Elem() == TInt2 || v.T.Elem() == TInt4) {
		return Value{}, staticErr("function %s(%s) does not exist", name, v.T)
	}
	if v.Null {
		return Null(TInt4 | TArray), nil
	}
	out := make([]Value, len(v.A()))
	for i, el := range v.A() {
		if el.Null {
			return Value{}, rtErr("array must not contain nulls")
		}
		out[i] = Int4(el.I)
	}
	switch name {
	case "sort":
		for i := 1; i < len(out); i++ {
			for j := i; j > 0 && out[j-1].I > out[j].I; j-- {
				out[j-1], out[j] = out[j], out[j-1]
			}
		}
	case "uniq":
		kept := out[:0]
		for i, el := range out {
			if i == 0 || el.I != out[i-1].I {
				kept = append(kept, el)
			}
		}
		out = kept
	}
	return Array(TInt4, out), nil
}

// jsonbArrayElements implements jsonb_array_elements(_text).
func jsonbArrayElements(v Value, asText bool) ([]Value, error) {
	if v.T != TJSONB {
		return nil, staticErr("function jsonb_array_elements(%s) does not exist", v.T)
	}
	if v.Null {
		return nil, nil
	}
	arr, ok := v.J().([]any)
	if !ok {
		if _, isObj := v.J().(map[string]any); isObj {
			return nil, rtErr("cannot extract elements from an object")
		}
		return nil, rtErr("cannot extract elements from a scalar")
	}
	out := make([]Value, len(arr))
	for i, el := range arr {
		if !asText {
			out[i] = JSONB(el)
			continue
		}
		switch x := el.(type) {
		case nil:
			out[i] = Null(TText)
		case string:
			out[i] = Text(x)
		default:
			out[i] = Text(jsonbOut(el))
		}
	}
	return out, nil
}

// valueToJSON implements to_jsonb for a non-null value.
func valueToJSON(v Value) (any, error) {
	if v.T.IsArray() {
		out := make([]any, len(v.A()))
		for i, el := range v.A() {
			if el.Null {
				continue
			}
			j, err := valueToJSON(el)
			if err != nil {
				return nil, err
			}
			out[i] = j
		}
		return out, nil
	}
	switch v.T {
	case TBool:
		return v.I != 0, nil
	case TInt2, TInt4, TInt8:
		return NumFromInt(v.I), nil
	case TFloat4, TFloat8:
		n, err := ParseNum(float8Out(v.F()))
		if err != nil {
			return nil, outside("to_jsonb of %v", v.F())
		}
		return n, nil
	case TNumeric:
		if !v.N().IsFinite() {
			return nil, outside("to_jsonb of a numeric NaN/Infinity")
		}
		return v.N(), nil
	case TText, TUnknown:
		return v.S, nil
	case TJSONB:
		return v.J(), nil
	case TNode, TEdge, TPath:
		names, _ := compositeFields(v.T)
		obj := make(map[string]any, len(names))
		for i, n := range names {
			if v.A()[i].Null {
				obj[n] = nil
				continue
			}
			j, err := valueToJSON(v.A()[i])
			if err != nil {
				return nil, err
			}
			obj[n] = j
		}
		return obj, nil
	}
	return nil, outside("to_jsonb of type %s", v.T)
}

// cypherJSONBTypeRank transcribes cypher_jsonb_type_rank.
func cypherJSONBTypeRank(j any) int {
	switch jsonbTypeof(j) {
	case "object":
		return 1
	case "array":
		return 2
	case "string":
		return 3
	case "boolean":
		return 4
	case "number":
		return 5
	case "null":
		return 6
	}
	return 7
}

// cypherValueCompare transcribes cypher_value_compare (schema_up.sql).
func cypherValueCompare(l, r any) (int, error) {
	if jsonbEqual(l, r) {
		return 0, nil
	}
	if l == nil {
		return 1, nil
	}
	if r == nil {
		return -1, nil
	}
	lt, rt := jsonbTypeof(l), jsonbTypeof(r)
	if lt != rt {
		if cypherJSONBTypeRank(l) < cypherJSONBTypeRank(r) {
			return -1, nil
		}
		return 1, nil
	}
	switch lt {
	case "number":
		return l.(Num).Cmp(r.(Num)), nil
	case "string":
		return textCompare(l.(string), r.(string))
	case "boolean":
		lb, rb := l.(bool), r.(bool)
		switch {
		case lb == rb:
			return 0, nil
		case !lb && rb:
			return -1, nil
		}
		return 1, nil
	case "array":
		la, ra := l.([]any), r.([]any)
		for i := 0; i < len(la) && i < len(ra); i++ {
			c, err := cypherValueCompare(la[i], ra[i])
			if err != nil || c != 0 {
				return c, err
			}
		}
		return cmpInt(int64(len(la)), int64(len(ra))), nil
	case "object":
		lo, ro := l.(map[string]any), r.(map[string]any)
		if len(lo) != len(ro) {
			return cmpInt(int64(len(lo)), int64(len(ro))), nil
		}
		// array_agg(key order by key): text order of the keys
		lk, err := sortedByText(lo)
		if err != nil {
			return 0, err
		}
		rk, err := sortedByText(ro)
		if err != nil {
			return 0, err
		}
		for i := range lk {
			if lk[i] != rk[i] {
				return textCompare(lk[i], rk[i])
			}
		}
		for i := range lk {
			c, err := cypherValueCompare(lo[lk[i]], ro[rk[i]])
			if err != nil || c != 0 {
				return c, err
			}
		}
		return 0, nil
	}
	return 0, outside("cypher_value_compare of %s", lt)
}

func sortedByText(m map[string]any) ([]string, error) {
	keys := make([]string, 0, len(m))
	for k := range m {
		keys = append(keys, k)
	}
	for i := 1; i < len(keys); i++ {
		for j := i; j > 0; j-- {
			c, err := textCompare(keys[j-1], keys[j])
			if err != nil {
				return nil, err
			}
			if c <= 0 {
				break
			}
			keys[j-1], keys[j] = keys[j], keys[j-1]
		}
	}
	return keys, nil
}
