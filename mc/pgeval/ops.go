package pgeval

import (
	"bytes"
	"encoding/json"
	"math"
	"strconv"
	"strings"
	"unicode/utf8"

	"github.com/specterops/dawgs/cypher/models/pgsql"
)

// ---------------------------------------------------------------------------------------------------------------------
// text ordering
// ---------------------------------------------------------------------------------------------------------------------

// textCompare orders two strings. The integration corpus is bound to the project's CI database (docker image
// postgres:18, database collation en_US.utf8 of glibc), but the order of text is a property of the deployment, not of the
// translation. pgeval therefore answers only when the byte order ("C") and the linguistic order of en_US agree, which it
// decides on a deliberately small model: ASCII letters and digits, compared first ignoring case (digits before
// letters), ties broken by case (lower before upper). Any other situation is outside.
func textCompare(a, b string) (int, error) {
	if a == b {
		return 0, nil
	}
	c := strings.Compare(a, b)
	l, ok := linguisticCompare(a, b)
	if !ok {
		return 0, outside("collation-dependent text comparison (%q, %q)", abbreviate(a), abbreviate(b))
	}
	if l != c {
		return 0, outside("collation-dependent text comparison (%q, %q)", abbreviate(a), abbreviate(b))
	}
	return c, nil
}

func abbreviate(s string) string {
	if len(s) > 24 {
		return s[:24] + "..."
	}
	return s
}

func isAlnum(c byte) bool {
	return c >= '0' && c <= '9' || c >= 'a' && c <= 'z' || c >= 'A' && c <= 'Z'
}

func foldASCII(c byte) byte {
	if c >= 'A' && c <= 'Z' {
		return c + 32
	}
	return c
}

// linguisticCompare models en_US for strings whose decisive characters are ASCII alphanumerics. ok=false: not modelled.
func linguisticCompare(a, b string) (int, bool) {
	n := len(a)
	if len(b) < n {
		n = len(b)
	}
	for i := 0; i < n; i++ {
		ca, cb := a[i], b[i]
		if ca >= 0x80 || cb >= 0x80 {
			return 0, false
		}
		fa, fb := foldASCII(ca), foldASCII(cb)
		if fa == fb {
			if !isAlnum(ca) && ca != cb {
				return 0, false
			}
			continue
		}
		if !isAlnum(ca) || !isAlnum(cb) {
			return 0, false
		}
		// digits sort before letters in both orders, and within each class by value
		if fa < fb {
			return -1, true
		}
		return 1, true
	}
	// equal up to the shorter length at the first level: the rest must be plain too
	rest := a[n:]
	if len(b) > n {
		rest = b[n:]
	}
	for i := 0; i < len(rest); i++ {
		if !isAlnum(rest[i]) {
			return 0, false
		}
	}
	if len(a) != len(b) {
		if len(a) < len(b) {
			return -1, true
		}
		return 1, true
	}
	// same letters: case decides, lower case first
	for i := 0; i < n; i++ {
		if a[i] != b[i] {
			if a[i] > b[i] { // a has the lower-case letter
				return -1, true
			}
			return 1, true
		}
	}
	return 0, true
}

// ---------------------------------------------------------------------------------------------------------------------
// input functions (coercion of untyped literals and casts from text)
// ---------------------------------------------------------------------------------------------------------------------

func isPGSpace(c byte) bool {
	return c == ' ' || c == '\t' || c == '\n' || c == '\r' || c == '\v' || c == '\f'
}

func trimPGSpace(s string) string {
	i, j := 0, len(s)
	for i < j && isPGSpace(s[i]) {
		i++
	}
	for j > i && isPGSpace(s[j-1]) {
		j--
	}
	return s[i:j]
}

func intTypeName(t Type) string { return t.String() }

func intRange(t Type) (int64, int64) {
	switch t {
	case TInt2:
		return math.MinInt16, math.MaxInt16
	case TInt4:
		return math.MinInt32, math.MaxInt32
	}
	return math.MinInt64, math.MaxInt64
}

// parseInt follows pg_strtoint64_safe (PostgreSQL 16+: decimal, 0x / 0o / 0b, underscores between digits).
func parseInt(s string, t Type) (int64, error) {
	orig := s
	bad := func() (int64, error) {
		return 0, rtErr("invalid input syntax for type %s: %q", intTypeName(t), orig)
	}
	s = trimPGSpace(s)
	neg := false
	if strings.HasPrefix(s, "-") {
		neg = true
		s = s[1:]
	} else if strings.HasPrefix(s, "+") {
		s = s[1:]
	}
	base := 10
	if len(s) >= 2 && s[0] == '0' {
		switch s[1] {
		case 'x', 'X':
			base, s = 16, s[2:]
		case 'o', 'O':
			base, s = 8, s[2:]
		case 'b', 'B':
			base, s = 2, s[2:]
		}
	}
	if s == "" {
		return bad()
	}
	// underscores: only between digits (for non-decimal bases one may directly follow the prefix)
	var digits strings.Builder
	prevDigit := false
	for i := 0; i < len(s); i++ {
		c := s[i]
		if c == '_' {
			if !(prevDigit || (base != 10 && i == 0)) || i == len(s)-1 || s[i+1] == '_' {
				return bad()
			}
			prevDigit = false
			continue
		}
		digits.WriteByte(c)
		prevDigit = true
	}
	txt := digits.String()
	if txt == "" {
		return bad()
	}
	if neg {
		txt = "-" + txt
	}
	v, err := strconv.ParseInt(txt, base, 64)
	if err != nil {
		if ne, ok := err.(*strconv.NumError); ok && ne.Err == strconv.ErrRange {
			return 0, rtErr("value %q is out of range for type %s", orig, intTypeName(t))
		}
		return bad()
	}
	lo, hi := intRange(t)
	if v < lo || v > hi {
		return 0, rtErr("value %q is out of range for type %s", orig, intTypeName(t))
	}
	return v, nil
}

// parseFloat follows float8in_internal.
func parseFloat(s string) (float64, error) {
	orig := s
	s = trimPGSpace(s)
	bad := func() (float64, error) {
		return 0, rtErr("invalid input syntax for type double precision: %q", orig)
	}
	if s == "" {
		return bad()
	}
	low := strings.ToLower(s)
	switch low {
	case "nan", "+nan", "-nan":
		return math.NaN(), nil
	case "infinity", "+infinity", "inf", "+inf":
		return math.Inf(1), nil
	case "-infinity", "-inf":
		return math.Inf(-1), nil
	}
	for i := 0; i < len(low); i++ {
		c := low[i]
		if !(c >= '0' && c <= '9' || c == '.' || c == 'e' || c == '+' || c == '-') {
			if strings.HasPrefix(strings.TrimLeft(low, "+-"), "0x") {
				return 0, outside("hexadecimal float input %q", orig)
			}
			return bad()
		}
	}
	f, err := strconv.ParseFloat(s, 64)
	if err != nil {
		if ne, ok := err.(*strconv.NumError); ok && ne.Err == strconv.ErrRange {
			return 0, rtErr("%q is out of range for type double precision", orig)
		}
		return bad()
	}
	if f == 0 && strings.ContainsAny(strings.Trim(low, "+-0.e"), "123456789") {
		// underflow: strtod reports ERANGE
		mant, _, _ := strings.Cut(low, "e")
		if strings.ContainsAny(mant, "123456789") {
			return 0, rtErr("%q is out of range for type double precision", orig)
		}
	}
	return f, nil
}

func parseNumeric(s string) (Num, error) {
	orig := s
	s = trimPGSpace(s)
	if strings.ContainsAny(s, "_xXoObB") {
		low := strings.ToLower(strings.TrimLeft(s, "+-"))
		if strings.Contains(s, "_") || strings.HasPrefix(low, "0x") || strings.HasPrefix(low, "0o") || strings.HasPrefix(low, "0b") {
			return Num{}, outside("non-decimal numeric input %q", orig)
		}
	}
	n, err := ParseNum(s)
	if err != nil {
		return Num{}, rtErr("invalid input syntax for type numeric: %q", orig)
	}
	return n, nil
}

// parseBool follows parse_bool_with_len.
func parseBool(s string) (bool, error) {
	orig := s
	s = strings.ToLower(trimPGSpace(s))
	isPrefix := func(word string, min int) bool {
		return len(s) >= min && len(s) <= len(word) && strings.HasPrefix(word, s)
	}
	switch {
	case isPrefix("true", 1), isPrefix("yes", 1), s == "on", s == "1":
		return true, nil
	case isPrefix("false", 1), isPrefix("no", 1), isPrefix("off", 2), s == "0":
		return false, nil
	}
	return false, rtErr("invalid input syntax for type boolean: %q", orig)
}

// parseJSONB parses text as jsonb.
func parseJSONB(s string) (any, error) {
	bad := func() (any, error) { return nil, rtErr("invalid input syntax for type json") }
	if strings.Contains(s, `\u`) {
		// \u0000 and unpaired surrogates are errors in jsonb but accepted (replaced) by encoding/json
		return nil, outside("jsonb input with \\u escapes")
	}
	if !utf8.ValidString(s) {
		return nil, outside("jsonb input with invalid UTF-8")
	}
	dec := json.NewDecoder(bytes.NewReader([]byte(s)))
	dec.UseNumber()
	var v any
	if err := dec.Decode(&v); err != nil {
		return bad()
	}
	// nothing but whitespace may follow
	rest, _ := readAll(dec)
	if strings.TrimSpace(rest) != "" {
		return bad()
	}
	return jsonNumberToNum(v)
}

func readAll(dec *json.Decoder) (string, error) {
	var buf bytes.Buffer
	_, err := buf.ReadFrom(dec.Buffered())
	return buf.String(), err
}

func jsonNumberToNum(v any) (any, error) {
	switch t := v.(type) {
	case json.Number:
		n, err := ParseNum(t.String())
		if err != nil {
			return nil, rtErr("invalid input syntax for type json")
		}
		return n, nil
	case []any:
		for i, e := range t {
			j, err := jsonNumberToNum(e)
			if err != nil {
				return nil, err
			}
			t[i] = j
		}
		return t, nil
	case map[string]any:
		for k, e := range t {
			j, err := jsonNumberToNum(e)
			if err != nil {
				return nil, err
			}
			t[k] = j
		}
		return t, nil
	}
	return v, nil
}

// parseArrayLiteral parses a one-dimensional array literal '{a,b,"c d",NULL}' with the element input function.
func parseArrayLiteral(s string, elem Type) (Value, error) {
	orig := s
	bad := func() (Value, error) { return Value{}, rtErr("malformed array literal: %q", orig) }
	s = trimPGSpace(s)
	if len(s) < 2 || s[0] != '{' || s[len(s)-1] != '}' {
		return bad()
	}
	body := s[1 : len(s)-1]
	out := []Value{}
	if trimPGSpace(body) == "" {
		return Array(elem, out), nil
	}
	i := 0
	for {
		for i < len(body) && isPGSpace(body[i]) {
			i++
		}
		if i >= len(body) {
			return bad()
		}
		var item string
		quoted := false
		if body[i] == '{' {
			return Value{}, outside("multi-dimensional array literal")
		}
		if body[i] == '"' {
			quoted = true
			i++
			var sb strings.Builder
			closed := false
			for i < len(body) {
				c := body[i]
				if c == '\\' && i+1 < len(body) {
					sb.WriteByte(body[i+1])
					i += 2
					continue
				}
				if c == '"' {
					closed = true
					i++
					break
				}
				sb.WriteByte(c)
				i++
			}
			if !closed {
				return bad()
			}
			item = sb.String()
			for i < len(body) && isPGSpace(body[i]) {
				i++
			}
		} else {
			var sb strings.Builder
			for i < len(body) && body[i] != ',' {
				c := body[i]
				if c == '\\' && i+1 < len(body) {
					sb.WriteByte(body[i+1])
					i += 2
					continue
				}
				if c == '{' || c == '}' || c == '"' {
					return bad()
				}
				sb.WriteByte(c)
				i++
			}
			item = trimPGSpace(sb.String())
			if item == "" {
				return bad()
			}
		}
		if !quoted && strings.EqualFold(item, "null") {
			out = append(out, Null(elem))
		} else {
			v, err := inputValue(item, elem)
			if err != nil {
				return Value{}, err
			}
			out = append(out, v)
		}
		if i >= len(body) {
			break
		}
		if body[i] != ',' {
			return bad()
		}
		i++
	}
	return Array(elem, out), nil
}

// inputValue applies the input function of type t to text s.
func inputValue(s string, t Type) (Value, error) {
	if t.IsArray() {
		return parseArrayLiteral(s, t.Elem())
	}
	switch t {
	case TUnknown, TText:
		return Text(s), nil
	case TInt2, TInt4, TInt8:
		i, err := parseInt(s, t)
		if err != nil {
			return Value{}, err
		}
		return Value{T: t, I: i}, nil
	case TFloat8:
		f, err := parseFloat(s)
		if err != nil {
			return Value{}, err
		}
		return Float8(f), nil
	case TFloat4:
		f, err := parseFloat(s)
		if err != nil {
			return Value{}, err
		}
		if !math.IsInf(f, 0) && math.Abs(f) > math.MaxFloat32 {
			return Value{}, rtErr("%q is out of range for type real", s)
		}
		return Value{T: TFloat4, I: floatBits(float64(float32(f)))}, nil
	case TNumeric:
		n, err := parseNumeric(s)
		if err != nil {
			return Value{}, err
		}
		return Numeric(n), nil
	case TBool:
		b, err := parseBool(s)
		if err != nil {
			return Value{}, err
		}
		return Bool(b), nil
	case TJSONB:
		j, err := parseJSONB(s)
		if err != nil {
			return Value{}, err
		}
		return JSONB(j), nil
	}
	return Value{}, outside("input function of type %s", t)
}

// coerceUnknown gives an unknown-typed value (string literal or untyped NULL) the type t.
func coerceUnknown(v Value, t Type) (Value, error) {
	if v.T != TUnknown {
		return v, nil
	}
	if t == TUnknown || t == TNullAny {
		// next to a NULL of untracked type the literal's target type is not known: it stays text and is never compared
		t = TText
	}
	if v.Null {
		return Null(t), nil
	}
	return inputValue(v.S, t)
}

// ---------------------------------------------------------------------------------------------------------------------
// casts
// ---------------------------------------------------------------------------------------------------------------------

// typeOfDataType maps a pgsql.DataType (as the formatter prints it) to a Type. anyarray is reported separately.
func typeOfDataType(dt pgsql.DataType) (t Type, anyArray bool, err error) {
	switch dt {
	case pgsql.Int, pgsql.Int4:
		return TInt4, false, nil
	case pgsql.Int2:
		return TInt2, false, nil
	case pgsql.Int8:
		return TInt8, false, nil
	case pgsql.Float4:
		return TFloat4, false, nil
	case pgsql.Float8:
		return TFloat8, false, nil
	case pgsql.Numeric:
		return TNumeric, false, nil
	case pgsql.Boolean:
		return TBool, false, nil
	case pgsql.Text:
		return TText, false, nil
	case pgsql.JSONB:
		return TJSONB, false, nil
	case pgsql.NodeComposite:
		return TNode, false, nil
	case pgsql.EdgeComposite:
		return TEdge, false, nil
	case pgsql.PathComposite:
		return TPath, false, nil
	case pgsql.IntArray, pgsql.Int4Array:
		return TInt4 | TArray, false, nil
	case pgsql.Int2Array:
		return TInt2 | TArray, false, nil
	case pgsql.Int8Array:
		return TInt8 | TArray, false, nil
	case pgsql.Float4Array:
		return TFloat4 | TArray, false, nil
	case pgsql.Float8Array:
		return TFloat8 | TArray, false, nil
	case pgsql.NumericArray:
		return TNumeric | TArray, false, nil
	case pgsql.TextArray:
		return TText | TArray, false, nil
	case pgsql.JSONBArray:
		return TJSONB | TArray, false, nil
	case pgsql.NodeCompositeArray:
		return TNode | TArray, false, nil
	case pgsql.EdgeCompositeArray:
		return TEdge | TArray, false, nil
	case pgsql.AnyArray:
		return 0, true, nil
	}
	return 0, false, outside("type %q", string(dt))
}

func float8ToInt(f float64, t Type) (int64, error) {
	if math.IsNaN(f) || math.IsInf(f, 0) {
		return 0, rtErr("%s out of range", t)
	}
	r := math.RoundToEven(f)
	lo, hi := intRange(t)
	// float64(MaxInt64) rounds up to 2^63, which is out of range
	if r < float64(lo) || r >= -float64(lo) || (t != TInt8 && r > float64(hi)) {
		return 0, rtErr("%s out of range", t)
	}
	return int64(r), nil
}

// castValue implements CAST(v AS t) / v::t.
func castValue(v Value, t Type) (Value, error) {
	if v.T == t {
		return v, nil
	}
	if v.T == TNullAny {
		return Null(t), nil
	}
	if v.T == TUnknown {
		return coerceUnknown(v, t)
	}
	if t.IsArray() {
		if !v.T.IsArray() {
			if v.T == TText {
				if v.Null {
					return Null(t), nil
				}
				return inputValue(v.S, t)
			}
			return Value{}, staticErr("cannot cast type %s to %s", v.T, t)
		}
		if v.Null {
			return Null(t), nil
		}
		out := make([]Value, len(v.A()))
		for i, e := range v.A() {
			if e.T == TUnknown && !e.Null {
				e.T = TText
			}
			c, err := castValue(e, t.Elem())
			if err != nil {
				return Value{}, err
			}
			out[i] = c
		}
		return Array(t.Elem(), out), nil
	}
	if v.T.IsArray() {
		if t == TText {
			if v.Null {
				return Null(TText), nil
			}
			return Text(v.TextOut()), nil
		}
		return Value{}, staticErr("cannot cast type %s to %s", v.T, t)
	}
	if v.Null {
		if err := castAllowed(v.T, t); err != nil {
			return Value{}, err
		}
		return Null(t), nil
	}
	switch t {
	case TText:
		switch v.T {
		case TBool:
			if v.I != 0 {
				return Text("true"), nil
			}
			return Text("false"), nil
		default:
			return Text(v.TextOut()), nil
		}
	case TInt2, TInt4, TInt8:
		switch v.T {
		case TInt2, TInt4, TInt8:
			lo, hi := intRange(t)
			if v.I < lo || v.I > hi {
				return Value{}, rtErr("%s out of range", t)
			}
			return Value{T: t, I: v.I}, nil
		case TFloat4, TFloat8:
			i, err := float8ToInt(v.F(), t)
			if err != nil {
				return Value{}, err
			}
			return Value{T: t, I: i}, nil
		case TNumeric:
			i, err := v.N().Int64()
			if err != nil {
				return Value{}, rtErr("%v", err)
			}
			lo, hi := intRange(t)
			if i < lo || i > hi {
				return Value{}, rtErr("%s out of range", t)
			}
			return Value{T: t, I: i}, nil
		case TText:
			return inputValue(v.S, t)
		case TBool:
			if t == TInt4 {
				return Int4(v.I), nil
			}
		case TJSONB:
			n, isNull, err := jsonbNumber(v.J(), t)
			if err != nil || isNull {
				return Null(t), err
			}
			return castValue(Numeric(n), t)
		}
	case TFloat4, TFloat8:
		var f float64
		switch v.T {
		case TInt2, TInt4, TInt8:
			f = float64(v.I)
		case TFloat4, TFloat8:
			f = v.F()
		case TNumeric:
			f = v.N().Float64()
			if math.IsInf(f, 0) && v.N().IsFinite() {
				return Value{}, rtErr("%q is out of range for type double precision", v.N().String())
			}
		case TText:
			return inputValue(v.S, t)
		case TJSONB:
			n, isNull, err := jsonbNumber(v.J(), t)
			if err != nil || isNull {
				return Null(t), err
			}
			return castValue(Numeric(n), t)
		default:
			return Value{}, staticErr("cannot cast type %s to %s", v.T, t)
		}
		if t == TFloat4 {
			if !math.IsInf(f, 0) && math.Abs(f) > math.MaxFloat32 {
				return Value{}, rtErr("value out of range: overflow")
			}
			f = float64(float32(f))
		}
		return Value{T: t, I: floatBits(f)}, nil
	case TNumeric:
		switch v.T {
		case TInt2, TInt4, TInt8:
			return Numeric(NumFromInt(v.I)), nil
		case TFloat4:
			n, err := ParseNum(strconv.FormatFloat(v.F(), 'g', 6, 64))
			if err != nil {
				return Value{}, rtErr("%v", err)
			}
			return Numeric(n), nil
		case TFloat8:
			n, err := NumFromFloat(v.F())
			if err != nil {
				return Value{}, rtErr("%v", err)
			}
			return Numeric(n), nil
		case TText:
			return inputValue(v.S, t)
		case TJSONB:
			n, isNull, err := jsonbNumber(v.J(), t)
			if err != nil || isNull {
				return Null(t), err
			}
			return Numeric(n), nil
		}
	case TBool:
		switch v.T {
		case TInt4:
			return Bool(v.I != 0), nil
		case TText:
			return inputValue(v.S, t)
		case TJSONB:
			switch j := v.J().(type) {
			case bool:
				return Bool(j), nil
			case nil:
				return Null(TBool), nil // PostgreSQL 18: a JSON null casts to NULL
			}
			return Value{}, rtErr("cannot cast jsonb %s to type boolean", jsonbTypeof(v.J()))
		}
	case TJSONB:
		if v.T == TText {
			return inputValue(v.S, t)
		}
	case TNode, TEdge, TPath:
		if v.T == TRecord {
			return recordToComposite(v, t)
		}
	}
	return Value{}, staticErr("cannot cast type %s to %s", v.T, t)
}

// castAllowed checks (for NULL inputs) that a cast path exists at all.
func castAllowed(from, to Type) error {
	probe := Value{T: from}
	switch from {
	case TText, TUnknown:
		return nil // I/O conversion casts exist for every type
	case TBool:
		if to == TInt4 || to == TText {
			return nil
		}
	case TInt2, TInt4, TInt8, TFloat4, TFloat8, TNumeric:
		if to.IsNumeric() || to == TText || (from == TInt4 && to == TBool) {
			return nil
		}
	case TJSONB:
		if to.IsNumeric() || to == TBool || to == TText {
			return nil
		}
	case TRecord:
		if to == TNode || to == TEdge || to == TPath {
			return nil
		}
	default:
		if to == TText {
			return nil
		}
	}
	return staticErr("cannot cast type %s to %s", probe.T, to)
}

// jsonbNumber implements the jsonb -> numeric family casts (PostgreSQL 18: JSON null gives NULL).
func jsonbNumber(j any, t Type) (Num, bool, error) {
	switch x := j.(type) {
	case Num:
		return x, false, nil
	case nil:
		return Num{}, true, nil
	}
	return Num{}, false, rtErr("cannot cast jsonb %s to type %s", jsonbTypeof(j), t)
}

func recordToComposite(v Value, t Type) (Value, error) {
	_, types := compositeFields(t)
	if len(v.A()) != len(types) {
		return Value{}, staticErr("cannot cast type record to %s", t)
	}
	out := make([]Value, len(types))
	for i, f := range v.A() {
		c, err := assignCast(f, types[i])
		if err != nil {
			return Value{}, err
		}
		out[i] = c
	}
	return Composite(t, out), nil
}

// assignCast converts a value for storage in a column / composite field of type t (assignment casts).
func assignCast(v Value, t Type) (Value, error) {
	if v.T == t {
		return v, nil
	}
	if v.T == TNullAny {
		return Null(t), nil
	}
	if v.T == TUnknown {
		return coerceUnknown(v, t)
	}
	if v.T.IsNumeric() && t.IsNumeric() {
		return castValue(v, t)
	}
	if v.T.IsArray() && t.IsArray() && v.T.Elem().IsNumeric() && t.Elem().IsNumeric() {
		return castValue(v, t)
	}
	if t == TText {
		return castValue(v, t)
	}
	return Value{}, staticErr("cannot cast type %s to %s", v.T, t)
}

// ---------------------------------------------------------------------------------------------------------------------
// comparison
// ---------------------------------------------------------------------------------------------------------------------

func cmpInt(a, b int64) int {
	switch {
	case a < b:
		return -1
	case a > b:
		return 1
	}
	return 0
}

// cmpFloat orders like float8_cmp_internal: NaN equals NaN and is larger than every other value.
func cmpFloat(a, b float64) int {
	an, bn := math.IsNaN(a), math.IsNaN(b)
	switch {
	case an && bn:
		return 0
	case an:
		return 1
	case bn:
		return -1
	case a < b:
		return -1
	case a > b:
		return 1
	}
	return 0
}

// unifyPair resolves the operand types of a binary comparison-like operator the way the parser does: unknown adapts to
// the other side, the numeric family is mutually comparable, everything else needs identical types.
func unifyPair(op string, a, b Value) (Value, Value, error) {
	var err error
	if a.T == TNullAny || b.T == TNullAny {
		a, _ = coerceUnknown(a, TText)
		b, _ = coerceUnknown(b, TText)
		return a, b, nil
	}
	if a.T == TUnknown && b.T == TUnknown {
		a, _ = coerceUnknown(a, TText)
		b, _ = coerceUnknown(b, TText)
		return a, b, nil
	}
	if a.T == TUnknown {
		if a, err = coerceUnknown(a, b.T); err != nil {
			return a, b, err
		}
		return a, b, nil
	}
	if b.T == TUnknown {
		if b, err = coerceUnknown(b, a.T); err != nil {
			return a, b, err
		}
		return a, b, nil
	}
	if a.T == b.T {
		return a, b, nil
	}
	if a.T.IsNumeric() && b.T.IsNumeric() {
		return a, b, nil
	}
	if a.T.IsComposite() && b.T.IsComposite() && (a.T == TRecord || b.T == TRecord) {
		return a, b, nil
	}
	return a, b, staticErr("operator does not exist: %s %s %s", a.T, op, b.T)
}

// compareNumeric compares two non-null values of the numeric family.
func compareNumeric(a, b Value) int {
	if a.T.IsInt() && b.T.IsInt() {
		return cmpInt(a.I, b.I)
	}
	if a.T.IsFloat() || b.T.IsFloat() {
		return cmpFloat(toFloat(a), toFloat(b))
	}
	return toNum(a).Cmp(toNum(b))
}

func toFloat(v Value) float64 {
	switch {
	case v.T.IsInt():
		return float64(v.I)
	case v.T == TNumeric:
		return v.N().Float64()
	}
	return v.F()
}

func toNum(v Value) Num {
	switch {
	case v.T.IsInt():
		return NumFromInt(v.I)
	case v.T == TNumeric:
		return v.N()
	}
	n, _ := NumFromFloat(v.F())
	return n
}

// compareValues is the btree comparison of two non-null values with unified types. ordering=false means the caller only
// needs equality (no collation involved).
func compareValues(a, b Value, ordering bool) (int, error) {
	if a.T.IsArray() {
		n := len(a.A())
		if len(b.A()) < n {
			n = len(b.A())
		}
		for i := 0; i < n; i++ {
			x, y := a.A()[i], b.A()[i]
			switch {
			case x.Null && y.Null:
				continue
			case x.Null:
				return 1, nil
			case y.Null:
				return -1, nil
			}
			c, err := compareValues(x, y, ordering)
			if err != nil || c != 0 {
				return c, err
			}
		}
		return cmpInt(int64(len(a.A())), int64(len(b.A()))), nil
	}
	switch {
	case a.T.IsNumeric():
		return compareNumeric(a, b), nil
	case a.T == TBool:
		return cmpInt(a.I, b.I), nil
	case a.T == TText:
		if !ordering {
			if a.S == b.S {
				return 0, nil
			}
			return strings.Compare(a.S, b.S), nil
		}
		return textCompare(a.S, b.S)
	case a.T == TJSONB:
		if !ordering {
			if jsonbEqual(a.J(), b.J()) {
				return 0, nil
			}
			return 1, nil
		}
		return jsonbCompare(a.J(), b.J())
	case a.T.IsComposite():
		if len(a.A()) != len(b.A()) {
			return 0, staticErr("cannot compare record types with different numbers of columns")
		}
		for i := range a.A() {
			x, y := a.A()[i], b.A()[i]
			switch {
			case x.Null && y.Null:
				continue
			case x.Null:
				return 1, nil
			case y.Null:
				return -1, nil
			}
			x, y, err := unifyPair("=", x, y)
			if err != nil {
				return 0, err
			}
			c, err := compareValues(x, y, ordering)
			if err != nil || c != 0 {
				return c, err
			}
		}
		return 0, nil
	}
	return 0, outside("comparison of type %s", a.T)
}

// compareOp evaluates a op b for the six comparison operators with SQL NULL semantics.
func compareOp(op pgsql.Operator, a, b Value) (Value, error) {
	a, b, err := unifyPair(string(op), a, b)
	if err != nil {
		return Value{}, err
	}
	if a.T.IsArray() && b.T.IsArray() && a.T != b.T {
		return Value{}, staticErr("operator does not exist: %s %s %s", a.T, op, b.T)
	}
	if a.Null || b.Null {
		return Null(TBool), nil
	}
	if a.T != b.T && !(a.T.IsNumeric() && b.T.IsNumeric()) && !(a.T.IsComposite() && b.T.IsComposite()) {
		return Value{}, staticErr("operator does not exist: %s %s %s", a.T, op, b.T)
	}
	eqOnly := op == pgsql.OperatorEquals || op == pgsql.OperatorNotEquals || op == pgsql.OperatorCypherNotEquals
	c, err := compareValues(a, b, !eqOnly)
	if err != nil {
		return Value{}, err
	}
	switch op {
	case pgsql.OperatorEquals:
		return Bool(c == 0), nil
	case pgsql.OperatorNotEquals, pgsql.OperatorCypherNotEquals:
		return Bool(c != 0), nil
	case pgsql.OperatorLessThan:
		return Bool(c < 0), nil
	case pgsql.OperatorLessThanOrEqualTo:
		return Bool(c <= 0), nil
	case pgsql.OperatorGreaterThan:
		return Bool(c > 0), nil
	case pgsql.OperatorGreaterThanOrEqualTo:
		return Bool(c >= 0), nil
	}
	return Value{}, outside("comparison operator %q", string(op))
}

// notDistinct is IS NOT DISTINCT FROM for values of one column (DISTINCT, GROUP BY, UNION, array_remove).
func notDistinct(a, b Value) (bool, error) {
	if a.Null || b.Null {
		return a.Null && b.Null, nil
	}
	a, b, err := unifyPair("=", a, b)
	if err != nil {
		return false, err
	}
	c, err := compareValues(a, b, false)
	return c == 0, err
}

// hashKey renders a canonical grouping key: notDistinct(a, b) iff hashKey(a) == hashKey(b) for values of one column.
func hashKey(sb *strings.Builder, v Value) {
	if v.Null {
		sb.WriteString("~")
		return
	}
	if v.T.IsArray() || v.T.IsComposite() {
		sb.WriteByte('[')
		for _, e := range v.A() {
			hashKey(sb, e)
			sb.WriteByte(',')
		}
		sb.WriteByte(']')
		return
	}
	switch v.T {
	case TBool:
		if v.I != 0 {
			sb.WriteString("T")
		} else {
			sb.WriteString("F")
		}
	case TInt2, TInt4, TInt8:
		sb.WriteByte('#')
		sb.WriteString(strconv.FormatInt(v.I, 10))
	case TFloat4, TFloat8:
		sb.WriteByte('#')
		if v.F() == math.Trunc(v.F()) && math.Abs(v.F()) < 1e15 {
			sb.WriteString(strconv.FormatInt(int64(v.F()), 10))
		} else if n, err := ParseNum(strconv.FormatFloat(v.F(), 'e', -1, 64)); err == nil {
			sb.WriteString(n.hashKey())
		} else {
			sb.WriteString(strconv.FormatFloat(v.F(), 'g', -1, 64))
		}
	case TNumeric:
		sb.WriteByte('#')
		sb.WriteString(v.N().hashKey())
	case TText, TUnknown:
		sb.WriteByte('\'')
		sb.WriteString(strconv.Quote(v.S))
	case TJSONB:
		sb.WriteByte('j')
		jsonHashKey(sb, v.J())
	}
}

func jsonHashKey(sb *strings.Builder, j any) {
	switch t := j.(type) {
	case nil:
		sb.WriteString("null")
	case bool:
		sb.WriteString(strconv.FormatBool(t))
	case Num:
		sb.WriteString(t.hashKey())
	case string:
		sb.WriteString(strconv.Quote(t))
	case []any:
		sb.WriteByte('[')
		for _, e := range t {
			jsonHashKey(sb, e)
			sb.WriteByte(',')
		}
		sb.WriteByte(']')
	case map[string]any:
		sb.WriteByte('{')
		for _, k := range sortedKeys(t) {
			sb.WriteString(strconv.Quote(k))
			sb.WriteByte(':')
			jsonHashKey(sb, t[k])
			sb.WriteByte(',')
		}
		sb.WriteByte('}')
	}
}

// ---------------------------------------------------------------------------------------------------------------------
// arithmetic
// ---------------------------------------------------------------------------------------------------------------------

func widerInt(a, b Type) Type {
	if a == TInt8 || b == TInt8 {
		return TInt8
	}
	if a == TInt4 || b == TInt4 {
		return TInt4
	}
	return TInt2
}

func arith(op pgsql.Operator, a, b Value) (Value, error) {
	var err error
	if a.T == TNullAny || b.T == TNullAny {
		return NullAny(), nil
	}
	switch {
	case a.T == TUnknown && b.T == TUnknown:
		return Value{}, staticErr("operator is not unique: unknown %s unknown", op)
	case a.T == TUnknown:
		if a, err = coerceUnknown(a, b.T); err != nil {
			return Value{}, err
		}
	case b.T == TUnknown:
		if b, err = coerceUnknown(b, a.T); err != nil {
			return Value{}, err
		}
	}
	if !a.T.IsNumeric() || !b.T.IsNumeric() {
		if a.T == TJSONB || b.T == TJSONB {
			return Value{}, outside("jsonb %s operator", op)
		}
		return Value{}, staticErr("operator does not exist: %s %s %s", a.T, op, b.T)
	}
	var rt Type
	switch {
	case a.T.IsInt() && b.T.IsInt():
		rt = widerInt(a.T, b.T)
	case a.T == TFloat4 && b.T == TFloat4:
		rt = TFloat4
	case a.T.IsFloat() || b.T.IsFloat():
		rt = TFloat8
	default:
		rt = TNumeric
	}
	if a.Null || b.Null {
		return Null(rt), nil
	}
	switch {
	case rt.IsInt():
		x, y := a.I, b.I
		var r int64
		lo, hi := intRange(rt)
		overflow := false
		switch op {
		case pgsql.OperatorAdd:
			r = x + y
			overflow = (y > 0 && r < x) || (y < 0 && r > x)
		case pgsql.OperatorSubtract:
			r = x - y
			overflow = (y < 0 && r < x) || (y > 0 && r > x)
		case pgsql.OperatorMultiply:
			r = x * y
			if x != 0 && (r/x != y || (x == -1 && y == math.MinInt64) || (y == -1 && x == math.MinInt64)) {
				overflow = true
			}
		case pgsql.OperatorDivide:
			if y == 0 {
				return Value{}, rtErr("division by zero")
			}
			if x == lo && y == -1 {
				overflow = true
			} else {
				r = x / y
			}
		default:
			return Value{}, outside("arithmetic operator %q", string(op))
		}
		if overflow || r < lo || r > hi {
			return Value{}, rtErr("%s out of range", rt)
		}
		return Value{T: rt, I: r}, nil
	case rt.IsFloat():
		x, y := toFloat(a), toFloat(b)
		var r float64
		switch op {
		case pgsql.OperatorAdd:
			r = x + y
		case pgsql.OperatorSubtract:
			r = x - y
		case pgsql.OperatorMultiply:
			r = x * y
		case pgsql.OperatorDivide:
			if y == 0 && !math.IsNaN(x) {
				return Value{}, rtErr("division by zero")
			}
			r = x / y
		default:
			return Value{}, outside("arithmetic operator %q", string(op))
		}
		if rt == TFloat4 {
			r = float64(float32(r))
		}
		if math.IsInf(r, 0) && !math.IsInf(x, 0) && !math.IsInf(y, 0) {
			return Value{}, rtErr("value out of range: overflow")
		}
		if r == 0 && x != 0 && y != 0 && (op == pgsql.OperatorMultiply || (op == pgsql.OperatorDivide && !math.IsInf(y, 0))) {
			return Value{}, rtErr("value out of range: underflow")
		}
		return Value{T: rt, I: floatBits(r)}, nil
	default:
		x, y := toNum(a), toNum(b)
		var r Num
		switch op {
		case pgsql.OperatorAdd:
			r, err = x.Add(y)
		case pgsql.OperatorSubtract:
			r, err = x.Sub(y)
		case pgsql.OperatorMultiply:
			r, err = x.Mul(y)
		case pgsql.OperatorDivide:
			r, err = x.Div(y)
		default:
			return Value{}, outside("arithmetic operator %q", string(op))
		}
		if err == errNumSpecial {
			return Value{}, outside("numeric NaN/Infinity arithmetic")
		}
		if err != nil {
			return Value{}, rtErr("%v", err)
		}
		return Numeric(r), nil
	}
}

func negate(v Value) (Value, error) {
	if v.T == TNullAny {
		return v, nil
	}
	if v.T == TUnknown {
		// "- 'x'": operator is not unique; a numeric literal never arrives here as unknown
		return Value{}, staticErr("operator is not unique: - unknown")
	}
	if !v.T.IsNumeric() {
		return Value{}, staticErr("operator does not exist: - %s", v.T)
	}
	if v.Null {
		return v, nil
	}
	switch {
	case v.T.IsInt():
		lo, _ := intRange(v.T)
		if v.I == lo {
			return Value{}, rtErr("%s out of range", v.T)
		}
		return Value{T: v.T, I: -v.I}, nil
	case v.T.IsFloat():
		return Value{T: v.T, I: floatBits(-v.F())}, nil
	}
	return Numeric(v.N().Neg()), nil
}

// ---------------------------------------------------------------------------------------------------------------------
// LIKE
// ---------------------------------------------------------------------------------------------------------------------

// likeMatch implements MatchText (like_match.c) on characters.
func likeMatch(s, pattern string, fold bool) (bool, error) {
	if fold {
		s, pattern = strings.ToLower(s), strings.ToLower(pattern)
	}
	sr, pr := []rune(s), []rune(pattern)
	// validate escapes first: a trailing escape character is an error whenever the scan reaches it; PostgreSQL raises it
	// only when reached, so do the check inside the matcher.
	var match func(si, pi int) (bool, error)
	match = func(si, pi int) (bool, error) {
		for pi < len(pr) {
			c := pr[pi]
			switch c {
			case '\\':
				if pi+1 >= len(pr) {
					return false, rtErr("LIKE pattern must not end with escape character")
				}
				if si >= len(sr) || sr[si] != pr[pi+1] {
					return false, nil
				}
				si++
				pi += 2
			case '%':
				// collapse following % and _
				pi++
				for pi < len(pr) {
					if pr[pi] == '%' {
						pi++
					} else if pr[pi] == '_' {
						if si >= len(sr) {
							return false, nil
						}
						si++
						pi++
					} else {
						break
					}
				}
				if pi >= len(pr) {
					return true, nil
				}
				for k := si; k <= len(sr); k++ {
					ok, err := match(k, pi)
					if err != nil || ok {
						return ok, err
					}
				}
				return false, nil
			case '_':
				if si >= len(sr) {
					return false, nil
				}
				si++
				pi++
			default:
				if si >= len(sr) || sr[si] != c {
					return false, nil
				}
				si++
				pi++
			}
		}
		return si == len(sr), nil
	}
	return match(0, 0)
}
