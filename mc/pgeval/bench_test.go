package pgeval_test

import (
	"context"
	"testing"

	"github.com/specterops/dawgs/cypher/frontend"
	"github.com/specterops/dawgs/cypher/models/pgsql/translate"
	"github.com/specterops/dawgs/drivers/pg/pgutil"
	"github.com/specterops/dawgs/graph"

	"verif/gm"
	"verif/pgeval"
)

var benchKinds = []string{"K1", "K2", "E1", "E2"}

func kindMapper() (*pgutil.InMemoryKindMapper, map[string]int16) {
	m := pgutil.NewInMemoryKindMapper()
	ids := map[string]int16{}
	for _, k := range benchKinds {
		ids[k] = m.Put(graph.StringKind(k))
	}
	return m, ids
}

func mustPrepare(tb testing.TB, text string, params map[string]any) (*pgeval.Prepared, map[string]any, map[string]int16) {
	tb.Helper()
	q, err := frontend.ParseCypher(frontend.NewContext(), text)
	if err != nil {
		tb.Fatalf("parse %q: %v", text, err)
	}
	m, ids := kindMapper()
	res, err := translate.Translate(context.Background(), q, m, params, translate.DefaultGraphID)
	if err != nil {
		tb.Fatalf("translate %q: %v", text, err)
	}
	p, err := pgeval.Prepare(res.Statement)
	if err != nil {
		tb.Fatalf("prepare %q: %v", text, err)
	}
	return p, res.Parameters, ids
}

func smallGraph() *gm.Graph {
	return &gm.Graph{
		Nodes: []gm.Node{
			{ID: 1, Kinds: []string{"K1"}, Props: map[string]any{"name": "a", "v": int64(1)}},
			{ID: 2, Kinds: []string{"K2"}, Props: map[string]any{"name": "b", "v": "1"}},
			{ID: 3, Kinds: []string{"K1", "K2"}, Props: map[string]any{}},
		},
		Edges: []gm.Edge{
			{ID: 1, Start: 1, End: 2, Kind: "E1", Props: map[string]any{}},
			{ID: 2, Start: 2, End: 3, Kind: "E2", Props: map[string]any{}},
			{ID: 3, Start: 3, End: 1, Kind: "E1", Props: map[string]any{}},
		},
	}
}

var benchQueries = []string{
	"match (n) return n",
	"match (n:K1) where n.name = 'a' return n.name",
	"match (a)-[r:E1]->(b) return a, r, b",
	"match p = (a)-[*1..2]->(b) return p",
	"match (a) optional match (a)-[:E1]->(b) return a, count(b)",
	"match (n) with n.name as name, collect(n) as ns return name, size(ns) order by name",
}

func BenchmarkRunPrepared(b *testing.B) {
	type prepared struct {
		p      *pgeval.Prepared
		params map[string]any
	}
	var ps []prepared
	var ids map[string]int16
	for _, q := range benchQueries {
		p, params, k := mustPrepare(b, q, nil)
		ps = append(ps, prepared{p, params})
		ids = k
	}
	g := smallGraph()
	b.ResetTimer()
	for i := 0; i < b.N; i++ {
		ev := pgeval.New(g, ids)
		for _, p := range ps {
			if _, err := p.p.Run(ev, p.params); err != nil {
				b.Fatal(err)
			}
		}
	}
}

func BenchmarkPrepare(b *testing.B) {
	q, _ := frontend.ParseCypher(frontend.NewContext(), "match p = (a)-[*1..2]->(b) return p")
	m, _ := kindMapper()
	res, err := translate.Translate(context.Background(), q, m, nil, translate.DefaultGraphID)
	if err != nil {
		b.Fatal(err)
	}
	b.ResetTimer()
	for i := 0; i < b.N; i++ {
		if _, err := pgeval.Prepare(res.Statement); err != nil {
			b.Fatal(err)
		}
	}
}
