package pgeval

import (
	"fmt"
	"strings"

	"github.com/specterops/dawgs/cypher/models/pgsql"
	"github.com/specterops/dawgs/cypher/models/pgsql/format"
)

// ---------------------------------------------------------------------------------------------------------------------
// compile-time scopes
// ---------------------------------------------------------------------------------------------------------------------

// relDef is one FROM item of a SELECT level.
type relDef struct {
	alias string
	cols  []string
	types []Type // column types where statically known (base tables), else nil
	base  int    // offset of the first column in the level's row
	// single marks a function alias without column list: the one column carries the alias as its name, and "alias.x"
	// selects field x of the (composite) value.
	single bool
}

type cteDef struct {
	name     string
	cols     []string
	idx      int
	owner    *queryPlan
	inBody   bool // true while the CTE's own recursive term is being compiled: references are self references
	selfRefs int
}

type scope struct {
	parent  *scope
	isQuery bool

	// query scope
	ctes []*cteDef
	plan *queryPlan

	// select scope
	rels         []*relDef
	width        int
	touched      bool
	grouped      bool
	groupedCols  map[int]bool
	groupedTexts map[string]bool
	aggs         []*aggSpec
	outNames     []string
}

type compiler struct {
	info      *Info
	inAgg     int
	inGrouped int
}

// fold applies PostgreSQL's identifier folding: unquoted identifiers are lower-cased, quoted ones keep their spelling.
func fold(id string) string {
	if len(id) >= 2 && id[0] == '"' && id[len(id)-1] == '"' {
		return strings.ReplaceAll(id[1:len(id)-1], `""`, `"`)
	}
	return strings.ToLower(id)
}

func (s *scope) findCTE(name string) (*cteDef, int) {
	depth := 0
	for sc := s; sc != nil; sc = sc.parent {
		if sc.isQuery {
			for i := len(sc.ctes) - 1; i >= 0; i-- {
				if sc.ctes[i].name == name {
					return sc.ctes[i], depth
				}
			}
		}
		depth++
	}
	return nil, 0
}

type colRef struct {
	depth int
	idx   int
	sc    *scope
	rel   *relDef
	typ   Type
	known bool // typ is meaningful
}

// resolveColumn finds table.col (table may be "") following SQL scoping: innermost SELECT level first.
func (c *compiler) resolveColumn(s *scope, table, col string) (colRef, bool, error) {
	depth := 0
	for sc := s; sc != nil; sc = sc.parent {
		if !sc.isQuery {
			var hit *colRef
			for _, rel := range sc.rels {
				if table != "" && rel.alias != table {
					continue
				}
				for i, name := range rel.cols {
					if name == col {
						if hit != nil {
							if table == "" {
								return colRef{}, false, staticErr("column reference %q is ambiguous", col)
							}
							return colRef{}, false, staticErr("column reference %q is ambiguous", table+"."+col)
						}
						h := colRef{depth: depth, idx: rel.base + i, sc: sc, rel: rel}
						if rel.types != nil {
							h.typ, h.known = rel.types[i], true
						}
						hit = &h
					}
				}
				if table != "" && hit == nil {
					// the alias exists at this level but has no such column: PostgreSQL does not look further out
					return colRef{depth: depth, sc: sc, rel: rel, idx: -1}, false, nil
				}
			}
			if hit != nil {
				return *hit, true, nil
			}
		}
		depth++
	}
	return colRef{idx: -1}, false, nil
}

func (c *compiler) columnExpr(ref colRef) (expr, error) {
	ref.sc.touched = true
	if ref.sc.grouped && c.inAgg == 0 && c.inGrouped == 0 && !ref.sc.groupedCols[ref.idx] {
		name := ref.rel.alias + "." + ref.rel.cols[ref.idx-ref.rel.base]
		return nil, staticErr("column %q must appear in the GROUP BY clause or be used in an aggregate function", name)
	}
	depth, idx := ref.depth, ref.idx
	switch depth {
	case 0:
		return func(r *run, e *env) (Value, error) { return e.vals[idx], nil }, nil
	case 1:
		return func(r *run, e *env) (Value, error) { return e.parent.vals[idx], nil }, nil
	}
	return func(r *run, e *env) (Value, error) {
		for i := 0; i < depth; i++ {
			e = e.parent
		}
		return e.vals[idx], nil
	}, nil
}

// ---------------------------------------------------------------------------------------------------------------------
// queries
// ---------------------------------------------------------------------------------------------------------------------

func (c *compiler) query(q pgsql.Query, parent *scope) (*queryPlan, error) {
	plan := &queryPlan{}
	qs := &scope{parent: parent, isQuery: true, plan: plan}
	if q.CommonTableExpressions != nil {
		for _, cte := range q.CommonTableExpressions.Expressions {
			cp, def, err := c.cte(cte, q.CommonTableExpressions.Recursive, qs, plan)
			if err != nil {
				return nil, err
			}
			def.idx = len(plan.ctes)
			plan.ctes = append(plan.ctes, cp)
			// def was registered in qs.ctes by c.cte (needed before compiling a recursive term)
		}
	}
	if q.Body == nil {
		return nil, outside("query without body")
	}
	body, err := c.setExpr(q.Body, qs)
	if err != nil {
		return nil, err
	}
	plan.body = body
	plan.cols = body.columns()
	if sp, ok := body.(*selectPlan); ok {
		plan.sel = sp
	}
	for _, ob := range q.OrderBy {
		if ob == nil || ob.Expression == nil {
			return nil, outside("ORDER BY without expression")
		}
		key := orderKey{desc: !ob.Ascending, outCol: -1}
		if plan.sel != nil {
			k, err := c.selectOrderKey(plan.sel, ob.Expression)
			if err != nil {
				return nil, err
			}
			key.e, key.outCol = k.e, k.outCol
		} else {
			name, ok := bareName(ob.Expression)
			if !ok {
				return nil, outside("ORDER BY expression over a set operation")
			}
			idx := -1
			for i, col := range plan.cols {
				if col == name {
					if idx >= 0 {
						return nil, staticErr("ORDER BY %q is ambiguous", name)
					}
					idx = i
				}
			}
			if idx < 0 {
				return nil, staticErr("column %q does not exist", name)
			}
			key.outCol = idx
		}
		plan.order = append(plan.order, key)
	}
	if q.Offset != nil {
		if plan.offset, err = c.expr(q.Offset, qs); err != nil {
			return nil, err
		}
	}
	if q.Limit != nil {
		if plan.limit, err = c.expr(q.Limit, qs); err != nil {
			return nil, err
		}
	}
	return plan, nil
}

func bareName(e pgsql.Expression) (string, bool) {
	switch t := e.(type) {
	case pgsql.Identifier:
		return fold(string(t)), true
	case pgsql.CompoundIdentifier:
		if len(t) == 1 {
			return fold(string(t[0])), true
		}
	}
	return "", false
}

func (c *compiler) cte(cte pgsql.CommonTableExpression, withRecursive bool, qs *scope, owner *queryPlan) (*ctePlan, *cteDef, error) {
	name := fold(string(cte.Alias.Name))
	def := &cteDef{name: name, owner: owner}
	cp := &ctePlan{name: name}
	var shape []string
	if cte.Alias.Shape != nil {
		for _, col := range cte.Alias.Shape.Columns {
			shape = append(shape, fold(string(col)))
		}
	}
	rename := func(cols []string) ([]string, error) {
		if len(shape) > len(cols) {
			return nil, staticErr("WITH query %q has %d columns available but %d columns specified", name, len(cols), len(shape))
		}
		out := append([]string(nil), cols...)
		copy(out, shape)
		return out, nil
	}
	so, isUnion := cte.Query.Body.(pgsql.SetOperation)
	if withRecursive && isUnion && so.Operator == pgsql.OperatorUnion && referencesTable(so.ROperand, name) {
		if len(cte.Query.OrderBy) > 0 || cte.Query.Limit != nil || cte.Query.Offset != nil {
			return nil, nil, outside("ORDER BY / LIMIT in a recursive query")
		}
		if so.All && so.Distinct {
			return nil, nil, staticErr("set operation may not be both ALL and DISTINCT")
		}
		body := &queryPlan{}
		bs := &scope{parent: qs, isQuery: true, plan: body}
		if cte.Query.CommonTableExpressions != nil {
			for _, inner := range cte.Query.CommonTableExpressions.Expressions {
				icp, idef, err := c.cte(inner, cte.Query.CommonTableExpressions.Recursive, bs, body)
				if err != nil {
					return nil, nil, err
				}
				idef.idx = len(body.ctes)
				body.ctes = append(body.ctes, icp)
			}
		}
		left, err := c.setExpr(so.LOperand, bs)
		if err != nil {
			return nil, nil, err
		}
		cols, err := rename(left.columns())
		if err != nil {
			return nil, nil, err
		}
		def.cols = cols
		def.idx = len(owner.ctes)
		qs.ctes = append(qs.ctes, def)
		def.inBody = true
		right, err := c.setExpr(so.ROperand, bs)
		def.inBody = false
		if err != nil {
			return nil, nil, err
		}
		if len(right.columns()) != len(cols) {
			return nil, nil, staticErr("each UNION query must have the same number of columns")
		}
		cp.recursive, cp.left, cp.right, cp.distinct, cp.body, cp.cols = true, left, right, !so.All, body, cols
		return cp, def, nil
	}
	body, err := c.query(cte.Query, qs)
	if err != nil {
		return nil, nil, err
	}
	cols, err := rename(body.cols)
	if err != nil {
		return nil, nil, err
	}
	def.cols, cp.cols, cp.body = cols, cols, body
	def.idx = len(owner.ctes)
	qs.ctes = append(qs.ctes, def)
	return cp, def, nil
}

// referencesTable reports whether a set expression mentions a table reference of the given name (anywhere inside).
func referencesTable(node any, name string) bool {
	found := false
	walkNodes(node, func(n any) bool {
		if tr, ok := n.(pgsql.TableReference); ok && len(tr.Name) == 1 && fold(string(tr.Name[0])) == name {
			found = true
		}
		return !found
	})
	return found
}

func (c *compiler) setExpr(se pgsql.SetExpression, s *scope) (setPlan, error) {
	switch t := se.(type) {
	case pgsql.Select:
		return c.selectStmt(t, s)
	case pgsql.Query:
		return c.query(t, s)
	case pgsql.SetOperation:
		if t.Operator != pgsql.OperatorUnion {
			return nil, outside("set operation %q", string(t.Operator))
		}
		if t.All && t.Distinct {
			return nil, staticErr("set operation may not be both ALL and DISTINCT")
		}
		// the formatter prints the operands without parentheses: "A union B union all C" is parsed left-associatively,
		// and a Query operand carrying WITH / ORDER BY / LIMIT would print them inline
		if inner, nested := t.ROperand.(pgsql.SetOperation); nested && !(t.All && inner.All) {
			return nil, outside("set operation nested on the right of a different set operation (printed without parentheses)")
		}
		for _, operand := range []pgsql.SetExpression{t.LOperand, t.ROperand} {
			if q, isQuery := operand.(pgsql.Query); isQuery && (q.CommonTableExpressions != nil || len(q.OrderBy) > 0 || q.Limit != nil || q.Offset != nil) {
				return nil, outside("set operation operand with its own WITH / ORDER BY / LIMIT (printed without parentheses)")
			}
		}
		l, err := c.setExpr(t.LOperand, s)
		if err != nil {
			return nil, err
		}
		r, err := c.setExpr(t.ROperand, s)
		if err != nil {
			return nil, err
		}
		if len(l.columns()) != len(r.columns()) {
			return nil, staticErr("each UNION query must have the same number of columns")
		}
		return &unionPlan{cols: l.columns(), l: l, r: r, distinct: !t.All}, nil
	case pgsql.Insert, pgsql.Update, pgsql.Delete:
		return nil, outside("data-modifying statement (%s)", se.NodeType())
	case pgsql.Values:
		return nil, outside("VALUES")
	case nil:
		return nil, outside("empty set expression")
	}
	return nil, outside("set expression %T", se)
}

// ---------------------------------------------------------------------------------------------------------------------
// SELECT
// ---------------------------------------------------------------------------------------------------------------------

type fromStep struct {
	rel       *relDef
	width     int
	left      bool
	on        expr
	gen       func(r *run, e *env) ([]row, error)
	dependent bool // gen reads the columns of earlier FROM items of the same level
}

type projItem struct {
	e expr
}

type selectPlan struct {
	scope     *scope
	cols      []string
	width     int
	steps     []fromStep
	where     expr
	grouped   bool
	groupBy   []expr
	having    expr
	aggs      []*aggSpec
	proj      []expr
	projTexts []string // formatted text of each select-list expression ("" for * expansions)
	distinct  bool
	nullRow   row
}

func (s *selectPlan) columns() []string { return s.cols }

func (s *selectPlan) exec(r *run, parent *env) ([]row, error) {
	return s.execKeys(r, parent, nil)
}

func (c *compiler) selectStmt(sel pgsql.Select, parent *scope) (*selectPlan, error) {
	ss := &scope{parent: parent}
	plan := &selectPlan{scope: ss}
	for _, fc := range sel.From {
		if err := c.fromItem(plan, ss, fc.Source, nil); err != nil {
			return nil, err
		}
		for i := range fc.Joins {
			if err := c.fromItem(plan, ss, fc.Joins[i].Table, &fc.Joins[i].JoinOperator); err != nil {
				return nil, err
			}
		}
	}
	plan.width = ss.width
	plan.nullRow = make(row, ss.width)
	for i := range plan.nullRow {
		plan.nullRow[i] = NullAny()
	}
	var err error
	if sel.Where != nil {
		if plan.where, err = c.expr(sel.Where, ss); err != nil {
			return nil, err
		}
	}
	if sel.Having != nil {
		// format.formatSelect never prints HAVING: the text PostgreSQL receives differs from the AST
		return nil, outside("HAVING (not printed by the formatter)")
	}
	plan.grouped = len(sel.GroupBy) > 0
	if !plan.grouped {
		for _, item := range sel.Projection {
			if containsAggregate(item) {
				plan.grouped = true
				break
			}
		}
	}
	if plan.grouped {
		groupedCols := map[int]bool{}
		groupedTexts := map[string]bool{}
		for _, g := range sel.GroupBy {
			// a bare name is an input column first, an output column alias second
			if name, ok := bareName(g); ok {
				if ref, found, err := c.resolveColumn(ss, "", name); err != nil {
					return nil, err
				} else if !found || ref.depth != 0 {
					// output alias?
					var target pgsql.Expression
					for _, item := range sel.Projection {
						if ae, isAliased := unwrapAliased(item); isAliased && ae.Alias.Set && fold(string(ae.Alias.Value)) == name {
							target = ae.Expression
						}
					}
					if target != nil {
						g = target
					}
				}
			}
			ge, err := c.expr(g, ss)
			if err != nil {
				return nil, err
			}
			plan.groupBy = append(plan.groupBy, ge)
			if key := nodeText(g); key != "" {
				groupedTexts[key] = true
			}
			if ref, ok := c.asColumnRef(ss, g); ok && ref.depth == 0 {
				groupedCols[ref.idx] = true
			}
		}
		ss.grouped, ss.groupedCols, ss.groupedTexts = true, groupedCols, groupedTexts
	}
	// projection
	for _, item := range sel.Projection {
		if isWildcard(item) {
			if len(ss.rels) == 0 {
				return nil, staticErr("SELECT * with no tables specified is not valid")
			}
			for _, rel := range ss.rels {
				for i, name := range rel.cols {
					e, err := c.columnExpr(colRef{depth: 0, idx: rel.base + i, sc: ss, rel: rel})
					if err != nil {
						return nil, err
					}
					plan.proj = append(plan.proj, e)
					plan.cols = append(plan.cols, name)
					plan.projTexts = append(plan.projTexts, "")
				}
			}
			continue
		}
		inner := pgsql.Expression(item)
		alias := ""
		if ae, ok := unwrapAliased(item); ok {
			inner = ae.Expression
			if ae.Alias.Set {
				alias = fold(string(ae.Alias.Value))
			}
		}
		e, err := c.expr(inner, ss)
		if err != nil {
			return nil, err
		}
		if alias == "" {
			alias = c.columnName(inner)
		}
		plan.proj = append(plan.proj, e)
		plan.cols = append(plan.cols, alias)
		plan.projTexts = append(plan.projTexts, nodeText(inner))
	}
	if len(plan.proj) == 0 {
		return nil, outside("SELECT with an empty projection")
	}
	ss.outNames = plan.cols
	if sel.Having != nil {
		if plan.having, err = c.expr(sel.Having, ss); err != nil {
			return nil, err
		}
	}
	plan.aggs = ss.aggs
	plan.distinct = sel.Distinct
	return plan, nil
}

func isWildcard(e pgsql.Expression) bool {
	switch t := e.(type) {
	case pgsql.Wildcard:
		return true
	case pgsql.Identifier:
		return t == pgsql.WildcardIdentifier
	case pgsql.CompoundIdentifier:
		return len(t) == 1 && t[0] == pgsql.WildcardIdentifier
	}
	return false
}

func unwrapAliased(e pgsql.Expression) (pgsql.AliasedExpression, bool) {
	switch t := e.(type) {
	case pgsql.AliasedExpression:
		return t, true
	case *pgsql.AliasedExpression:
		if t != nil {
			return *t, true
		}
	}
	return pgsql.AliasedExpression{}, false
}

// nodeText renders an expression with the repository's formatter: the structural identity used to match GROUP BY
// expressions.
func nodeText(e pgsql.Expression) string {
	s, err := format.SyntaxNode(e)
	if err != nil {
		return ""
	}
	return s
}

func (c *compiler) asColumnRef(s *scope, e pgsql.Expression) (colRef, bool) {
	switch t := e.(type) {
	case pgsql.Identifier:
		ref, found, err := c.resolveColumn(s, "", fold(string(t)))
		return ref, found && err == nil
	case pgsql.CompoundIdentifier:
		switch len(t) {
		case 1:
			ref, found, err := c.resolveColumn(s, "", fold(string(t[0])))
			return ref, found && err == nil
		case 2:
			ref, found, err := c.resolveColumn(s, fold(string(t[0])), fold(string(t[1])))
			return ref, found && err == nil
		}
	case *pgsql.Parenthetical:
		return c.asColumnRef(s, t.Expression)
	}
	return colRef{}, false
}

// selectOrderKey compiles one ORDER BY expression of a query whose body is this SELECT.
func (c *compiler) selectOrderKey(sp *selectPlan, e pgsql.Expression) (orderKey, error) {
	if name, ok := bareName(e); ok {
		idx := -1
		for i, col := range sp.cols {
			if col == name {
				if idx >= 0 {
					// PostgreSQL accepts duplicates only when they are the same expression; not decidable here
					return orderKey{}, outside("ORDER BY name %q matches several output columns", name)
				}
				idx = i
			}
		}
		if idx >= 0 {
			return orderKey{outCol: idx}, nil
		}
	}
	if lit, ok := e.(pgsql.Literal); ok && !lit.Null {
		switch lit.Value.(type) {
		case int, int8, int16, int32, int64, uint, uint8, uint16, uint32, uint64:
			return orderKey{}, outside("ORDER BY ordinal")
		}
	}
	// an ORDER BY expression that equals a select-list expression sorts by that output column
	if text := nodeText(e); text != "" {
		for i, pt := range sp.projTexts {
			if pt == text {
				return orderKey{outCol: i}, nil
			}
		}
	}
	if sp.distinct {
		return orderKey{}, staticErr("for SELECT DISTINCT, ORDER BY expressions must appear in select list")
	}
	ke, err := c.expr(e, sp.scope)
	if err != nil {
		return orderKey{}, err
	}
	sp.aggs = sp.scope.aggs
	return orderKey{e: ke, outCol: -1}, nil
}

// containsAggregate reports whether the expression contains an aggregate call at this query level.
func containsAggregate(e any) bool {
	found := false
	walkNodes(e, func(n any) bool {
		switch t := n.(type) {
		case pgsql.Query, pgsql.Select, pgsql.Subquery:
			return false // a nested query level owns its aggregates
		case pgsql.FunctionCall:
			if isAggregate(t) {
				found = true
			}
		}
		return !found
	})
	return found
}

func isAggregate(f pgsql.FunctionCall) bool {
	return f.Over == nil && pgsql.IsAggregateFunction(pgsql.Identifier(strings.ToLower(string(f.Function))))
}

// columnName follows FigureColname (parser/parse_target.c).
func (c *compiler) columnName(e pgsql.Expression) string {
	name, _ := figureColname(e)
	if name == "" {
		return "?column?"
	}
	return name
}

// figureColname returns the name and its strength (0 none, 1 type name, 2 real name).
func figureColname(e pgsql.Expression) (string, int) {
	switch t := e.(type) {
	case pgsql.Identifier:
		return fold(string(t)), 2
	case pgsql.CompoundIdentifier:
		if len(t) > 0 {
			return fold(string(t[len(t)-1])), 2
		}
	case pgsql.RowColumnReference:
		return fold(string(t.Column)), 2
	case pgsql.FunctionCall:
		name := fold(string(t.Function))
		if t.CastType.IsKnown() {
			// f(x)::type is a TypeCast over a FuncCall: the function name wins (strength 2)
			return name, 2
		}
		return name, 2
	case *pgsql.FunctionCall:
		return figureColname(*t)
	case pgsql.TypeCast:
		if name, strength := figureColname(t.Expression); strength > 0 {
			if strength == 1 {
				// an inner cast's type name is overridden by the outer cast's type name
				return castTypeName(t.CastType), 1
			}
			return name, strength
		}
		return castTypeName(t.CastType), 1
	case *pgsql.Parenthetical:
		return figureColname(t.Expression)
	case pgsql.ArrayIndex:
		return figureColname(t.Expression)
	case *pgsql.ArrayIndex:
		return figureColname(t.Expression)
	case pgsql.ArraySlice:
		return figureColname(t.Expression)
	case *pgsql.ArraySlice:
		return figureColname(t.Expression)
	case pgsql.Case:
		if t.Else != nil {
			if name, strength := figureColname(t.Else); strength > 0 {
				return name, strength
			}
		}
		return "case", 1
	case *pgsql.Case:
		return figureColname(*t)
	case pgsql.ArrayLiteral:
		if t.CastType != pgsql.UnsetDataType {
			if at, err := t.CastType.ToArrayType(); err == nil {
				// array[...]::type[]: the A_ArrayExpr gives "array" with strength 2
				_ = at
			}
		}
		return "array", 2
	case pgsql.CompositeValue:
		return "row", 2
	case pgsql.ExistsExpression:
		return "exists", 2
	case pgsql.ArrayExpression:
		return "array", 2
	case pgsql.Subquery:
		if sel, ok := t.Query.Body.(pgsql.Select); ok && len(sel.Projection) == 1 {
			item := pgsql.Expression(sel.Projection[0])
			if ae, isAliased := unwrapAliased(item); isAliased {
				if ae.Alias.Set {
					return fold(string(ae.Alias.Value)), 2
				}
				item = ae.Expression
			}
			name, _ := figureColname(item)
			if name == "" {
				name = "?column?"
			}
			return name, 2
		}
	case *pgsql.EdgeArrayFromPathIDs:
		return "coalesce", 2
	case pgsql.SyntaxNodeFuture:
		if t.Satisfied() {
			if inner, ok := t.Unwrap().(pgsql.Expression); ok {
				return figureColname(inner)
			}
		}
	}
	return "", 0
}

func castTypeName(dt pgsql.DataType) string {
	switch dt {
	case pgsql.Int:
		return "int4"
	case pgsql.Boolean:
		return "bool"
	}
	s := string(dt)
	if strings.HasSuffix(s, "[]") {
		// array types are named after the element type ("_int8" is the catalog name, FigureColname uses the last name of
		// the type name list, which for int8[] is "int8")
		return strings.TrimSuffix(s, "[]")
	}
	if i := strings.IndexByte(s, ' '); i > 0 {
		// "timestamp with time zone" -> "timestamptz" etc.: not needed, temporal types are outside
		return s
	}
	return s
}

// ---------------------------------------------------------------------------------------------------------------------
// FROM items
// ---------------------------------------------------------------------------------------------------------------------

func (c *compiler) fromItem(plan *selectPlan, ss *scope, item pgsql.Expression, join *pgsql.JoinOperator) error {
	step := fromStep{}
	if join != nil {
		switch join.JoinType {
		case pgsql.JoinTypeInner:
		case pgsql.JoinTypeLeftOuter:
			step.left = true
		default:
			return outside("join type %d", join.JoinType)
		}
	}
	ss.touched = false
	rel := &relDef{base: ss.width}
	switch t := item.(type) {
	case pgsql.Identifier:
		item = pgsql.TableReference{Name: pgsql.CompoundIdentifier{t}}
	case pgsql.CompoundIdentifier:
		item = pgsql.TableReference{Name: t}
	}
	switch t := item.(type) {
	case pgsql.TableReference:
		if len(t.Name) != 1 {
			return outside("qualified table name %q", t.Name.String())
		}
		name := fold(string(t.Name[0]))
		rel.alias = name
		if t.Binding.Set {
			rel.alias = fold(string(t.Binding.Value))
		}
		if def, depth := ss.findCTE(name); def != nil {
			rel.cols = def.cols
			owner, idx, selfRef := def.owner, def.idx, def.inBody
			if selfRef {
				def.selfRefs++
			}
			step.gen = func(r *run, e *env) ([]row, error) {
				qe := e
				for i := 0; i < depth; i++ {
					qe = qe.parent
				}
				return owner.cteRows(r, qe, idx, selfRef)
			}
		} else if cols, types, ok := baseTable(name); ok {
			rel.cols, rel.types = cols, types
			step.gen = func(r *run, e *env) ([]row, error) { return r.ev.tables[name], nil }
		} else {
			return staticErr("relation %q does not exist", name)
		}
	case pgsql.LateralSubquery:
		sub, err := c.query(t.Query, ss)
		if err != nil {
			return err
		}
		if !t.Binding.Set {
			return staticErr("subquery in FROM must have an alias")
		}
		rel.alias = fold(string(t.Binding.Value))
		rel.cols = sub.cols
		step.gen = func(r *run, e *env) ([]row, error) { return sub.exec(r, e) }
	case pgsql.AliasedExpression, *pgsql.AliasedExpression, pgsql.FunctionCall, *pgsql.FunctionCall:
		inner := item
		alias := ""
		if ae, ok := unwrapAliased(item); ok {
			inner = ae.Expression
			if ae.Alias.Set {
				alias = fold(string(ae.Alias.Value))
			}
		}
		var fc pgsql.FunctionCall
		switch f := inner.(type) {
		case pgsql.FunctionCall:
			fc = f
		case *pgsql.FunctionCall:
			fc = *f
		default:
			return outside("FROM item %T", inner)
		}
		gen, err := c.tableFunction(fc, ss)
		if err != nil {
			return err
		}
		fname := fold(string(fc.Function))
		if alias == "" {
			alias = fname
		}
		rel.alias, rel.cols, rel.single = alias, []string{alias}, true
		step.gen = gen
	default:
		return outside("FROM item %T", item)
	}
	for _, other := range ss.rels {
		if other.alias == rel.alias {
			return staticErr("table name %q specified more than once", rel.alias)
		}
	}
	step.dependent = ss.touched
	step.rel = rel
	step.width = len(rel.cols)
	ss.rels = append(ss.rels, rel)
	ss.width += len(rel.cols)
	if join != nil && join.Constraint != nil {
		on, err := c.expr(join.Constraint, ss)
		if err != nil {
			return err
		}
		step.on = on
	} else if join != nil {
		return staticErr("JOIN without ON")
	}
	plan.steps = append(plan.steps, step)
	return nil
}

func baseTable(name string) ([]string, []Type, bool) {
	switch name {
	case "node":
		return []string{"id", "graph_id", "kind_ids", "properties"}, []Type{TInt8, TInt4, TInt2 | TArray, TJSONB}, true
	case "edge":
		return []string{"id", "graph_id", "start_id", "end_id", "kind_id", "properties"}, []Type{TInt8, TInt4, TInt8, TInt8, TInt2, TJSONB}, true
	case "kind":
		return []string{"id", "name"}, []Type{TInt2, TText}, true
	}
	return nil, nil, false
}

// tableFunction compiles a set-returning function call in FROM. Arguments may reference earlier FROM items (function
// calls in FROM are implicitly LATERAL).
func (c *compiler) tableFunction(fc pgsql.FunctionCall, ss *scope) (func(r *run, e *env) ([]row, error), error) {
	name := fold(string(fc.Function))
	args := make([]expr, len(fc.Parameters))
	for i, p := range fc.Parameters {
		a, err := c.expr(p, ss)
		if err != nil {
			return nil, err
		}
		args[i] = a
	}
	if fc.CastType.IsKnown() {
		return nil, outside("cast of a set-returning function in FROM")
	}
	switch name {
	case "unnest":
		if len(args) != 1 {
			return nil, outside("unnest with %d arguments", len(args))
		}
		return func(r *run, e *env) ([]row, error) {
			v, err := args[0](r, e)
			if err != nil {
				return nil, err
			}
			if v.T == TNullAny {
				return nil, nil
			}
			if v.T == TUnknown {
				return nil, staticErr("function unnest(unknown) is not unique")
			}
			if !v.T.IsArray() {
				return nil, staticErr("function unnest(%s) does not exist", v.T)
			}
			if v.Null {
				return nil, nil
			}
			out := make([]row, len(v.A()))
			for i, el := range v.A() {
				out[i] = row{el}
			}
			return out, nil
		}, nil
	case "generate_subscripts":
		if len(args) != 2 {
			return nil, outside("generate_subscripts with %d arguments", len(args))
		}
		return func(r *run, e *env) ([]row, error) {
			v, err := args[0](r, e)
			if err != nil {
				return nil, err
			}
			d, err := args[1](r, e)
			if err != nil {
				return nil, err
			}
			if v.T == TNullAny || d.T == TNullAny {
				return nil, nil
			}
			if !v.T.IsArray() {
				return nil, staticErr("function generate_subscripts(%s, %s) does not exist", v.T, d.T)
			}
			if v.Null || d.Null {
				return nil, nil
			}
			if d.T == TUnknown {
				if d, err = coerceUnknown(d, TInt4); err != nil {
					return nil, err
				}
			}
			if !d.T.IsInt() {
				return nil, staticErr("function generate_subscripts(%s, %s) does not exist", v.T, d.T)
			}
			if d.I != 1 {
				return nil, nil // one-dimensional arrays only
			}
			out := make([]row, len(v.A()))
			for i := range v.A() {
				out[i] = row{Int4(int64(i + 1))}
			}
			return out, nil
		}, nil
	case "jsonb_array_elements_text", "jsonb_array_elements":
		if len(args) != 1 {
			return nil, outside("%s with %d arguments", name, len(args))
		}
		asText := name == "jsonb_array_elements_text"
		return func(r *run, e *env) ([]row, error) {
			v, err := args[0](r, e)
			if err != nil {
				return nil, err
			}
			if v.T == TNullAny {
				return nil, nil
			}
			if v.T == TUnknown {
				if v, err = coerceUnknown(v, TJSONB); err != nil {
					return nil, err
				}
			}
			elems, err := jsonbArrayElements(v, asText)
			if err != nil {
				return nil, err
			}
			out := make([]row, len(elems))
			for i, el := range elems {
				out[i] = row{el}
			}
			return out, nil
		}, nil
	}
	if strings.HasSuffix(name, "_harness") {
		return nil, outside("plpgsql traversal harness %s", name)
	}
	return nil, outside("function %s in FROM", name)
}

// ---------------------------------------------------------------------------------------------------------------------
// SELECT execution
// ---------------------------------------------------------------------------------------------------------------------

func truthy(v Value) (bool, error) {
	if v.Null {
		return false, nil
	}
	if v.T == TUnknown {
		c, err := coerceUnknown(v, TBool)
		if err != nil {
			return false, err
		}
		return c.I != 0, nil
	}
	if v.T != TBool {
		return false, staticErr("argument of WHERE/JOIN must be type boolean, not type %s", v.T)
	}
	return v.I != 0, nil
}

func (s *selectPlan) fromRows(r *run, e *env) ([]row, error) {
	if len(s.steps) == 1 && s.steps[0].on == nil && !s.steps[0].left {
		// single FROM item: its rows are the level's rows (rows are never mutated; the slice is copied because callers
		// filter it in place)
		e.vals = s.nullRow
		items, err := s.steps[0].gen(r, e)
		if err != nil {
			return nil, err
		}
		if err := r.tick(len(items) + 1); err != nil {
			return nil, err
		}
		for _, it := range items {
			if len(it) != s.width {
				return nil, fmt.Errorf("pgeval internal: FROM item %q yields %d columns, expected %d", s.steps[0].rel.alias, len(it), s.width)
			}
		}
		return append(make([]row, 0, len(items)), items...), nil
	}
	rows := []row{make(row, s.width)}
	if len(s.steps) == 0 {
		return rows, nil
	}
	for si := range s.steps {
		st := &s.steps[si]
		var fixed []row
		var err error
		if !st.dependent {
			e.vals = s.nullRow
			if fixed, err = st.gen(r, e); err != nil {
				return nil, err
			}
		}
		base := st.rel.base
		next := make([]row, 0, len(rows))
		scratch := make(row, s.width)
		for _, partial := range rows {
			items := fixed
			if st.dependent {
				e.vals = partial
				if items, err = st.gen(r, e); err != nil {
					return nil, err
				}
			}
			if err := r.tick(len(items) + 1); err != nil {
				return nil, err
			}
			matched := false
			copy(scratch, partial[:base])
			for _, it := range items {
				if len(it) < st.width {
					return nil, fmt.Errorf("pgeval internal: FROM item %q yields %d columns, expected %d", st.rel.alias, len(it), st.width)
				}
				if st.on != nil {
					// evaluate the join condition on a scratch row; only matching rows are materialised
					copy(scratch[base:], it[:st.width])
					e.vals = scratch
					v, err := st.on(r, e)
					if err != nil {
						return nil, err
					}
					ok, err := truthy(v)
					if err != nil {
						return nil, err
					}
					if !ok {
						continue
					}
				}
				combined := make(row, s.width)
				copy(combined, partial[:base])
				copy(combined[base:], it[:st.width])
				matched = true
				next = append(next, combined)
			}
			if st.left && !matched {
				combined := make(row, s.width)
				copy(combined, partial[:base])
				for i := 0; i < st.width; i++ {
					if st.rel.types != nil {
						combined[base+i] = Null(st.rel.types[i])
					} else {
						combined[base+i] = NullAny()
					}
				}
				next = append(next, combined)
			}
		}
		rows = next
		if len(rows) == 0 {
			break
		}
	}
	return rows, nil
}

func (s *selectPlan) execKeys(r *run, parent *env, keys []orderKey) ([]row, error) {
	e := &env{parent: parent}
	rows, err := s.fromRows(r, e)
	if err != nil {
		return nil, err
	}
	if s.where != nil {
		kept := rows[:0]
		for _, rw := range rows {
			e.vals = rw
			v, err := s.where(r, e)
			if err != nil {
				return nil, err
			}
			ok, err := truthy(v)
			if err != nil {
				return nil, err
			}
			if ok {
				kept = append(kept, rw)
			}
		}
		rows = kept
	}
	ncols := len(s.proj)
	emit := func(out []row) ([]row, error) {
		o := make(row, ncols, ncols+len(keys))
		for i, p := range s.proj {
			v, err := p(r, e)
			if err != nil {
				return nil, err
			}
			if v.T == TUnknown && !v.Null {
				v.T = TText // an unknown literal in a select list is resolved as text
			}
			o[i] = v
		}
		for _, k := range keys {
			if k.outCol >= 0 {
				o = append(o, o[k.outCol])
				continue
			}
			v, err := k.e(r, e)
			if err != nil {
				return nil, err
			}
			o = append(o, v)
		}
		return append(out, o), nil
	}
	var out []row
	if !s.grouped {
		out = make([]row, 0, len(rows))
		for _, rw := range rows {
			e.vals = rw
			if out, err = emit(out); err != nil {
				return nil, err
			}
		}
	} else {
		type group struct{ rows []row }
		var groups []*group
		if len(s.groupBy) == 0 {
			groups = []*group{{rows: rows}}
		} else {
			index := map[string]*group{}
			var sb strings.Builder
			for _, rw := range rows {
				e.vals = rw
				sb.Reset()
				for _, g := range s.groupBy {
					v, err := g(r, e)
					if err != nil {
						return nil, err
					}
					hashKey(&sb, v)
					sb.WriteByte('|')
				}
				k := sb.String()
				grp := index[k]
				if grp == nil {
					grp = &group{}
					index[k] = grp
					groups = append(groups, grp)
				}
				grp.rows = append(grp.rows, rw)
			}
		}
		for _, grp := range groups {
			aggs := make([]Value, len(s.aggs))
			for i, spec := range s.aggs {
				if aggs[i], err = spec.compute(r, e, grp.rows); err != nil {
					return nil, err
				}
			}
			if len(grp.rows) > 0 {
				e.vals = grp.rows[0]
			} else {
				e.vals = s.nullRow
			}
			e.aggs = aggs
			if s.having != nil {
				v, err := s.having(r, e)
				if err != nil {
					return nil, err
				}
				ok, err := truthy(v)
				if err != nil {
					return nil, err
				}
				if !ok {
					continue
				}
			}
			if out, err = emit(out); err != nil {
				return nil, err
			}
		}
	}
	if s.distinct {
		out = distinctRows(out, ncols)
	}
	return out, nil
}
