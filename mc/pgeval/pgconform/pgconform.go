// Package pgconform replays the DAWGS integration corpus through parse -> translate -> pgeval: the binding of pgeval to
// real PostgreSQL behaviour (the corpus expectations are verified by the maintainers against a live PostgreSQL 18).
// The checks of C01/C02 call Run at start-up and refuse to work with a pgeval that contradicts the corpus.
package pgconform

import (
	"context"

	"github.com/specterops/dawgs/cypher/frontend"
	"github.com/specterops/dawgs/cypher/models/cypher"
	"github.com/specterops/dawgs/cypher/models/pgsql/translate"
	"github.com/specterops/dawgs/cypher/models/walk"
	"github.com/specterops/dawgs/drivers/pg/pgutil"
	"github.com/specterops/dawgs/graph"

	"verif/gm"
	"verif/icorpus"
	"verif/pgeval"
)

// CorpusKinds collects every kind of every fixture, in a deterministic order.
func CorpusKinds(cases []*icorpus.Case) []string {
	seen := map[string]bool{}
	var out []string
	add := func(k string) {
		if !seen[k] {
			seen[k] = true
			out = append(out, k)
		}
	}
	for _, c := range cases {
		for _, n := range c.Graph.Nodes {
			for _, k := range n.Kinds {
				add(k)
			}
		}
		for _, e := range c.Graph.Edges {
			add(e.Kind)
		}
	}
	return out
}

// QueryKinds lists the kinds a parsed query mentions.
func QueryKinds(q *cypher.RegularQuery) []string {
	var out []string
	_ = walk.Cypher(q, walk.NewSimpleVisitor[cypher.SyntaxNode](func(node cypher.SyntaxNode, _ walk.VisitorHandler) {
		var kinds graph.Kinds
		switch t := node.(type) {
		case *cypher.NodePattern:
			kinds = t.Kinds
		case *cypher.RelationshipPattern:
			kinds = t.Kinds
		case *cypher.KindMatcher:
			kinds = t.Kinds
		case graph.Kinds:
			kinds = t
		}
		for _, k := range kinds {
			out = append(out, k.String())
		}
	}))
	return out
}

// Translated is one translated case.
type Translated struct {
	SQL     string
	Result  translate.Result
	KindIDs map[string]int16
}

// Translate mirrors drivers/pg transaction.Query: parse, translate with the caller's parameters; every error is the
// query's error. The kind mapper knows the kinds of all fixtures (the live database's kind table holds every kind the
// test session asserted) plus the kinds the query mentions, so that no query is rejected for a kind the fixture does
// not use.
func Translate(c *icorpus.Case, kinds []string) (*Translated, error) {
	q, err := frontend.ParseCypher(frontend.NewContext(), c.Cypher)
	if err != nil {
		return nil, err
	}
	mapper := pgutil.NewInMemoryKindMapper()
	for _, k := range kinds {
		mapper.Put(graph.StringKind(k))
	}
	for _, k := range QueryKinds(q) {
		mapper.Put(graph.StringKind(k))
	}
	res, err := translate.Translate(context.Background(), q, mapper, c.Params, translate.DefaultGraphID)
	if err != nil {
		return nil, err
	}
	sql, err := translate.Translated(res)
	if err != nil {
		return nil, err
	}
	ids := make(map[string]int16, len(mapper.KindToID))
	for k, id := range mapper.KindToID {
		ids[k.String()] = id
	}
	return &Translated{SQL: sql, Result: res, KindIDs: ids}, nil
}

// Evaluate is the evaluator icorpus.RunAll expects: the rows pgeval computes for the case, or the query's error.
func Evaluate(c *icorpus.Case, kinds []string) (*gm.Rows, error) {
	t, err := Translate(c, kinds)
	if err != nil {
		return nil, err
	}
	return pgeval.New(c.Graph, t.KindIDs).Run(t.Result.Statement, t.Result.Parameters)
}

// Run replays the whole corpus of repo (icorpus.RepoRoot() when empty).
func Run(repo string) (icorpus.Report, error) {
	if repo == "" {
		repo = icorpus.RepoRoot()
	}
	cases, err := icorpus.Load(repo)
	if err != nil {
		return icorpus.Report{}, err
	}
	kinds := CorpusKinds(cases)
	return icorpus.RunAll(cases, func(c *icorpus.Case) (*gm.Rows, error) { return Evaluate(c, kinds) }), nil
}
