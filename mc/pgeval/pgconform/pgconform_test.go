package pgconform

import (
	"os"
	"testing"

	"verif/icorpus"
)

// TestCorpus is the regression guard: pgeval must reproduce every integration expectation it evaluates.
func TestCorpus(t *testing.T) {
	if _, err := os.Stat(icorpus.RepoRoot() + "/integration/testdata/cases"); err != nil {
		t.Skip("integration corpus not found")
	}
	rep, err := Run("")
	if err != nil {
		t.Fatal(err)
	}
	if rep.Mismatch != 0 {
		rep.Print(os.Stderr, "pgeval", false)
		t.Fatalf("%d mismatches", rep.Mismatch)
	}
	if rep.Reproduced < 380 {
		t.Fatalf("only %d expectations reproduced", rep.Reproduced)
	}
	t.Logf("total %d updating %d reproduced %d outside %d", rep.Total, rep.Updating, rep.Reproduced, rep.Outside)
}
