package pgeval

import (
	"sort"
	"strings"
)

// ---------------------------------------------------------------------------------------------------------------------
// run-time structures
// ---------------------------------------------------------------------------------------------------------------------

type row = []Value

// relation is a materialised table: column names and rows.
type relation struct {
	cols []string
	rows []row
}

// env is one level of the run-time environment. The chain mirrors the compile-time scope chain exactly: one env per
// executing Query (holding its CTE states) and one per SELECT level (holding the current FROM row).
type env struct {
	parent *env
	vals   row         // SELECT level: the concatenated columns of all FROM items
	aggs   []Value     // SELECT level, grouped: the aggregate results of the current group
	ctes   []*cteState // Query level
}

type cteState struct {
	done    bool
	running bool
	rel     []row
	working []row // during recursion: the rows of the previous iteration (what the self reference reads)
	inRec   bool
}

// run is the per-Run state.
type run struct {
	ev     *Evaluator
	params map[string]any
	pvals  map[string]Value
	info   *Info
	work   int
}

// Info describes properties of the last result that a row-bag comparison needs to know.
type Info struct {
	// Ordered: the outermost query has an ORDER BY (the row order is part of the result, up to ties).
	Ordered bool
	// AmbiguousLimit: some LIMIT/OFFSET cut through rows that the ORDER BY (or its absence) does not separate: PostgreSQL
	// may return a different sub-bag. pgeval returns the cut of its own deterministic order.
	AmbiguousLimit bool
	// UnorderedAggregate: array_agg without ORDER BY over more than one row (element order is the executor's row order).
	UnorderedAggregate bool
	// PrecedenceRewrites counts sub-expressions whose AST shape differs from what PostgreSQL parses from the emitted text
	// (the formatter prints binary expressions without parentheses); pgeval follows the text.
	PrecedenceRewrites int
}

const workCap = 20_000_000

func (r *run) tick(n int) error {
	r.work += n
	if r.work > workCap {
		return outside("work cap exceeded (%d row operations)", workCap)
	}
	return nil
}

type expr func(r *run, e *env) (Value, error)

// ---------------------------------------------------------------------------------------------------------------------
// plans
// ---------------------------------------------------------------------------------------------------------------------

// setPlan is a SELECT, a set operation or a nested query; exec returns the output rows. When keys is non-nil (a Query
// with ORDER BY whose body is a plain SELECT) every output row is followed by the sort key values.
type setPlan interface {
	columns() []string
	exec(r *run, parent *env) ([]row, error)
}

type orderKey struct {
	e    expr
	desc bool
	// outCol >= 0: the key is output column outCol
	outCol int
}

type queryPlan struct {
	cols   []string
	ctes   []*ctePlan
	body   setPlan
	sel    *selectPlan // body when it is a plain SELECT (ORDER BY keys are evaluated inside it)
	order  []orderKey
	offset expr
	limit  expr
	top    bool
}

type ctePlan struct {
	name      string
	cols      []string
	body      *queryPlan // the compiled body query (its ctes are the body's own WITH list)
	recursive bool
	left      setPlan // recursive: non-recursive term
	right     setPlan // recursive: recursive term
	distinct  bool    // UNION (not ALL)
}

func (q *queryPlan) columns() []string { return q.cols }

type unionPlan struct {
	cols     []string
	l, r     setPlan
	distinct bool
}

func (u *unionPlan) columns() []string { return u.cols }

func (u *unionPlan) exec(r *run, parent *env) ([]row, error) {
	lr, err := u.l.exec(r, parent)
	if err != nil {
		return nil, err
	}
	rr, err := u.r.exec(r, parent)
	if err != nil {
		return nil, err
	}
	out := make([]row, 0, len(lr)+len(rr))
	out = append(out, lr...)
	out = append(out, rr...)
	if u.distinct {
		return distinctRows(out, len(u.cols)), nil
	}
	return out, nil
}

func rowKey(sb *strings.Builder, rw row, n int) string {
	sb.Reset()
	for i := 0; i < n; i++ {
		hashKey(sb, rw[i])
		sb.WriteByte('|')
	}
	return sb.String()
}

func distinctRows(rows []row, n int) []row {
	if len(rows) <= 1 {
		return rows
	}
	seen := make(map[string]struct{}, len(rows))
	out := rows[:0:0]
	var sb strings.Builder
	for _, rw := range rows {
		k := rowKey(&sb, rw, n)
		if _, dup := seen[k]; dup {
			continue
		}
		seen[k] = struct{}{}
		out = append(out, rw)
	}
	return out
}

// exec runs a query: CTE states are created lazily, the body is evaluated, then ORDER BY / OFFSET / LIMIT.
func (q *queryPlan) exec(r *run, parent *env) ([]row, error) {
	qe := &env{parent: parent}
	if len(q.ctes) > 0 {
		qe.ctes = make([]*cteState, len(q.ctes))
		for i := range qe.ctes {
			qe.ctes[i] = &cteState{}
		}
	}
	var rows []row
	var err error
	nkeys := len(q.order)
	if q.sel != nil && nkeys > 0 {
		rows, err = q.sel.execKeys(r, qe, q.order)
	} else {
		rows, err = q.body.exec(r, qe)
		if err == nil && nkeys > 0 {
			// ORDER BY over a set operation: keys are output columns
			for i, rw := range rows {
				ext := make(row, len(rw), len(rw)+nkeys)
				copy(ext, rw)
				for _, k := range q.order {
					ext = append(ext, rw[k.outCol])
				}
				rows[i] = ext
			}
		}
	}
	if err != nil {
		return nil, err
	}
	ncols := len(q.cols)
	var sortErr error
	if nkeys > 0 {
		if err := r.tick(len(rows)); err != nil {
			return nil, err
		}
		sort.SliceStable(rows, func(i, j int) bool {
			c, err := compareKeys(rows[i][ncols:], rows[j][ncols:], q.order)
			if err != nil && sortErr == nil {
				sortErr = err
			}
			return c < 0
		})
		if sortErr != nil {
			return nil, sortErr
		}
	}
	if q.offset != nil || q.limit != nil {
		start, end := 0, len(rows)
		if q.offset != nil {
			v, err := q.offset(r, qe)
			if err != nil {
				return nil, err
			}
			n, err := limitValue(v, "OFFSET")
			if err != nil {
				return nil, err
			}
			if n >= 0 {
				start = int(min(n, int64(len(rows))))
			}
		}
		if q.limit != nil {
			v, err := q.limit(r, qe)
			if err != nil {
				return nil, err
			}
			n, err := limitValue(v, "LIMIT")
			if err != nil {
				return nil, err
			}
			if n >= 0 && int64(start)+n < int64(end) {
				end = start + int(n)
			}
		}
		// is the cut well defined? rows on both sides of a boundary must be separated by the sort keys
		for _, cut := range []int{start, end} {
			if cut > 0 && cut < len(rows) {
				if nkeys == 0 {
					r.info.AmbiguousLimit = true
				} else if c, _ := compareKeys(rows[cut-1][ncols:], rows[cut][ncols:], q.order); c == 0 {
					r.info.AmbiguousLimit = true
				}
			}
		}
		rows = rows[start:end]
	}
	if nkeys > 0 {
		for i, rw := range rows {
			rows[i] = rw[:ncols:ncols]
		}
	}
	return rows, nil
}

func limitValue(v Value, what string) (int64, error) {
	if v.Null {
		return -1, nil // LIMIT NULL / OFFSET NULL: no limit
	}
	if v.T == TUnknown {
		var err error
		if v, err = coerceUnknown(v, TInt8); err != nil {
			return 0, err
		}
	}
	if !v.T.IsNumeric() {
		return 0, staticErr("argument of %s must be type bigint, not type %s", what, v.T)
	}
	c, err := castValue(v, TInt8)
	if err != nil {
		return 0, err
	}
	if c.I < 0 {
		return 0, rtErr("%s must not be negative", what)
	}
	return c.I, nil
}

// compareKeys compares two sort key tuples: ASC puts NULLs last, DESC puts them first (PostgreSQL's defaults).
func compareKeys(a, b []Value, keys []orderKey) (int, error) {
	for i, k := range keys {
		x, y := a[i], b[i]
		var c int
		switch {
		case x.Null && y.Null:
			c = 0
		case x.Null:
			c = 1 // NULL is larger than every value
		case y.Null:
			c = -1
		default:
			var err error
			x, y, err = unifyPair("<", x, y)
			if err != nil {
				return 0, err
			}
			c, err = compareValues(x, y, true)
			if err != nil {
				return 0, err
			}
		}
		if k.desc {
			c = -c
		}
		if c != 0 {
			return c, nil
		}
	}
	return 0, nil
}

// cteRows returns the rows a reference to CTE idx of the Query env qe sees.
func (q *queryPlan) cteRows(r *run, qe *env, idx int, selfRef bool) ([]row, error) {
	st := qe.ctes[idx]
	if selfRef {
		if !st.inRec {
			return nil, outside("self reference of CTE %q outside its recursive term", q.ctes[idx].name)
		}
		return st.working, nil
	}
	if st.done {
		return st.rel, nil
	}
	if st.running {
		return nil, staticErr("recursive reference to query %q must not appear within its non-recursive term", q.ctes[idx].name)
	}
	st.running = true
	defer func() { st.running = false }()
	cp := q.ctes[idx]
	if !cp.recursive {
		rows, err := cp.body.exec(r, qe)
		if err != nil {
			return nil, err
		}
		st.rel, st.done = rows, true
		return rows, nil
	}
	// WITH RECURSIVE: evaluate the non-recursive term, then iterate the recursive term over the working table. The CTE
	// body is itself a Query (it may carry its own WITH list): its env sits between qe and the terms.
	be := &env{parent: qe}
	if len(cp.body.ctes) > 0 {
		be.ctes = make([]*cteState, len(cp.body.ctes))
		for i := range be.ctes {
			be.ctes[i] = &cteState{}
		}
	}
	n := len(cp.cols)
	result, err := cp.left.exec(r, be)
	if err != nil {
		return nil, err
	}
	var seen map[string]struct{}
	var sb strings.Builder
	if cp.distinct {
		result = distinctRows(result, n)
		seen = make(map[string]struct{}, len(result))
		for _, rw := range result {
			seen[rowKey(&sb, rw, n)] = struct{}{}
		}
	}
	working := result
	result = append([]row(nil), result...)
	st.inRec = true
	defer func() { st.inRec = false; st.working = nil }()
	for iter := 0; len(working) > 0; iter++ {
		if iter > 100000 {
			return nil, outside("recursive CTE %q did not reach a fix-point within 100000 iterations", cp.name)
		}
		st.working = working
		next, err := cp.right.exec(r, be)
		if err != nil {
			return nil, err
		}
		if cp.distinct {
			filtered := next[:0:0]
			for _, rw := range next {
				k := rowKey(&sb, rw, n)
				if _, dup := seen[k]; dup {
					continue
				}
				seen[k] = struct{}{}
				filtered = append(filtered, rw)
			}
			next = filtered
		}
		if err := r.tick(len(next) + 1); err != nil {
			return nil, err
		}
		result = append(result, next...)
		working = next
	}
	st.rel, st.done = result, true
	return result, nil
}
