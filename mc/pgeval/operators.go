package pgeval

import (
	"regexp"
	"strconv"
	"strings"

	"github.com/specterops/dawgs/cypher/models/pgsql"
)

func formatFloatF(f float64) string { return strconv.FormatFloat(f, 'f', -1, 64) }

// ---------------------------------------------------------------------------------------------------------------------
// operator trees: PostgreSQL parses the *text*; the formatter prints binary and unary expressions without parentheses
// (only Parenthetical nodes, casts, function calls and the two JSON field operators add them), so the tree PostgreSQL
// builds can differ from the AST. pgeval flattens every maximal parenthesis-free operator expression into its token
// sequence and re-parses it with PostgreSQL's precedence table (gram.y).
// ---------------------------------------------------------------------------------------------------------------------

type opNode struct {
	op     pgsql.Operator
	prefix bool
	l, r   *opNode
	atom   pgsql.Expression
	group  *opNode // a parenthesised sub-expression printed by the formatter itself: (a -> b)
	id     int
}

type opToken struct {
	op     pgsql.Operator
	prefix bool
	node   *opNode // operand
}

const (
	precOr = iota + 1
	precAnd
	precNot
	precIs
	precCompare
	precLike
	precOther
	precAdd
	precMul
	precExp
	precUnary
)

func binaryPrec(op pgsql.Operator) (int, bool) {
	switch op {
	case pgsql.OperatorOr:
		return precOr, true
	case pgsql.OperatorAnd:
		return precAnd, true
	case pgsql.OperatorIs, pgsql.OperatorIsNot:
		return precIs, true
	case pgsql.OperatorEquals, pgsql.OperatorNotEquals, pgsql.OperatorCypherNotEquals, pgsql.OperatorLessThan,
		pgsql.OperatorLessThanOrEqualTo, pgsql.OperatorGreaterThan, pgsql.OperatorGreaterThanOrEqualTo:
		return precCompare, true
	case pgsql.OperatorLike, pgsql.OperatorILike, pgsql.OperatorSimilarTo, pgsql.OperatorIn:
		return precLike, true
	case pgsql.OperatorConcatenate, pgsql.OperatorArrayOverlap, pgsql.OperatorPGArrayOverlap, pgsql.OperatorPGArrayLHSContainsRHS,
		pgsql.OperatorJSONBFieldExists, pgsql.OperatorJSONField, pgsql.OperatorJSONTextField, pgsql.OperatorRegexMatch:
		return precOther, true
	case pgsql.OperatorAdd, pgsql.OperatorSubtract:
		return precAdd, true
	case pgsql.OperatorMultiply, pgsql.OperatorDivide:
		return precMul, true
	}
	return 0, false
}

type flattener struct {
	tokens []opToken
	nextID int
	err    error
}

func unwrapFuture(e pgsql.Expression) pgsql.Expression {
	for {
		f, ok := e.(pgsql.SyntaxNodeFuture)
		if !ok || !f.Satisfied() {
			return e
		}
		inner, ok := f.Unwrap().(pgsql.Expression)
		if !ok {
			return e
		}
		e = inner
	}
}

func asBinary(e pgsql.Expression) (*pgsql.BinaryExpression, bool) {
	switch t := e.(type) {
	case *pgsql.BinaryExpression:
		return t, t != nil
	case pgsql.BinaryExpression:
		return &t, true
	}
	return nil, false
}

func asUnary(e pgsql.Expression) (*pgsql.UnaryExpression, bool) {
	switch t := e.(type) {
	case *pgsql.UnaryExpression:
		return t, t != nil
	case pgsql.UnaryExpression:
		return &t, true
	}
	return nil, false
}

func isJSONFieldOp(op pgsql.Operator) bool {
	return op == pgsql.OperatorJSONField || op == pgsql.OperatorJSONTextField
}

// flatten appends the tokens of e and returns the AST's own shape (for comparison with the re-parsed shape).
func (f *flattener) flatten(e pgsql.Expression) string {
	e = unwrapFuture(e)
	if e == nil {
		f.err = outside("operator with a missing operand")
		return "?"
	}
	if b, ok := asBinary(e); ok {
		if isJSONFieldOp(b.Operator) {
			// printed as "(l op r)": an operand of its own
			inner := &flattener{nextID: f.nextID}
			ls := inner.flatten(b.LOperand)
			inner.tokens = append(inner.tokens, opToken{op: b.Operator})
			rs := inner.flatten(b.ROperand)
			f.nextID = inner.nextID
			if inner.err != nil {
				f.err = inner.err
				return "?"
			}
			astShape := "(" + ls + " " + string(b.Operator) + " " + rs + ")"
			tree, err := parseTokens(inner.tokens)
			if err != nil {
				f.err = err
				return "?"
			}
			node := &opNode{group: tree}
			f.tokens = append(f.tokens, opToken{node: node})
			// the group's own shape takes part in the comparison
			if tree.shape() != astShape {
				return "<" + tree.shape() + ">!"
			}
			return "<" + astShape + ">"
		}
		ls := f.flatten(b.LOperand)
		f.tokens = append(f.tokens, opToken{op: b.Operator})
		rs := f.flatten(b.ROperand)
		return joinShape(ls, b.Operator, rs)
	}
	if u, ok := asUnary(e); ok {
		op, isOp := u.Operator.(pgsql.Operator)
		if !isOp {
			f.err = outside("unary operator %T", u.Operator)
			return "?"
		}
		f.tokens = append(f.tokens, opToken{op: op, prefix: true})
		return "(" + string(op) + " " + f.flatten(u.Operand) + ")"
	}
	node := &opNode{atom: e, id: f.nextID}
	f.nextID++
	f.tokens = append(f.tokens, opToken{node: node})
	return strconv.Itoa(node.id)
}

func (n *opNode) shape() string {
	switch {
	case n.group != nil:
		return "<" + n.group.shape() + ">"
	case n.atom != nil:
		return strconv.Itoa(n.id)
	case n.prefix:
		return "(" + string(n.op) + " " + n.r.shape() + ")"
	}
	return joinShape(n.l.shape(), n.op, n.r.shape())
}

// joinShape renders "(l op r)"; chains of AND (and of OR) are rendered flat, because re-association of these operators
// does not change the three-valued result: "(and a b c)".
func joinShape(l string, op pgsql.Operator, r string) string {
	if op == pgsql.OperatorAnd || op == pgsql.OperatorOr {
		prefix := "(" + string(op) + " "
		if strings.HasPrefix(l, prefix) {
			l = l[len(prefix) : len(l)-1]
		}
		if strings.HasPrefix(r, prefix) {
			r = r[len(prefix) : len(r)-1]
		}
		return prefix + l + " " + r + ")"
	}
	return "(" + l + " " + string(op) + " " + r + ")"
}

type tokenParser struct {
	tokens []opToken
	pos    int
}

func parseTokens(tokens []opToken) (*opNode, error) {
	p := &tokenParser{tokens: tokens}
	n, err := p.parse(precOr)
	if err != nil {
		return nil, err
	}
	if p.pos != len(tokens) {
		return nil, staticErr("syntax error in operator expression")
	}
	return n, nil
}

func (p *tokenParser) parse(minPrec int) (*opNode, error) {
	if p.pos >= len(p.tokens) {
		return nil, staticErr("syntax error at end of operator expression")
	}
	tok := p.tokens[p.pos]
	var left *opNode
	switch {
	case tok.prefix:
		p.pos++
		var operandPrec int
		switch tok.op {
		case pgsql.OperatorNot:
			operandPrec = precNot
		case pgsql.OperatorSubtract, pgsql.OperatorAdd:
			operandPrec = precUnary
		default:
			return nil, outside("prefix operator %q", string(tok.op))
		}
		if operandPrec < minPrec {
			// e.g. "a + not b": NOT cannot appear as an operand of a tighter operator
			return nil, staticErr("syntax error at or near %q", string(tok.op))
		}
		operand, err := p.parse(operandPrec)
		if err != nil {
			return nil, err
		}
		left = &opNode{op: tok.op, prefix: true, r: operand}
	case tok.node != nil:
		p.pos++
		left = tok.node
	default:
		return nil, staticErr("syntax error at or near %q", string(tok.op))
	}
	for p.pos < len(p.tokens) {
		tok := p.tokens[p.pos]
		if tok.prefix || tok.node != nil {
			return nil, staticErr("syntax error in operator expression")
		}
		prec, known := binaryPrec(tok.op)
		if !known {
			return nil, outside("operator %q", string(tok.op))
		}
		if prec < minPrec {
			break
		}
		p.pos++
		right, err := p.parse(prec + 1)
		if err != nil {
			return nil, err
		}
		left = &opNode{op: tok.op, l: left, r: right}
		if prec == precCompare || prec == precLike {
			// non-associative: "a = b = c" is a syntax error
			if p.pos < len(p.tokens) {
				if next, ok := binaryPrec(p.tokens[p.pos].op); ok && next == prec && !p.tokens[p.pos].prefix && p.tokens[p.pos].node == nil {
					return nil, staticErr("syntax error at or near %q", string(p.tokens[p.pos].op))
				}
			}
		}
	}
	return left, nil
}

// operatorExpr compiles a binary/unary expression through the re-parse.
func (c *compiler) operatorExpr(e pgsql.Expression, s *scope) (expr, error) {
	f := &flattener{}
	astShape := f.flatten(e)
	if f.err != nil {
		return nil, f.err
	}
	tree, err := parseTokens(f.tokens)
	if err != nil {
		return nil, err
	}
	if tree.shape() != astShape {
		c.info.PrecedenceRewrites++
	}
	return c.opTree(tree, s)
}

func (c *compiler) opTree(n *opNode, s *scope) (expr, error) {
	switch {
	case n.group != nil:
		return c.opTree(n.group, s)
	case n.atom != nil:
		return c.expr(n.atom, s)
	case n.prefix:
		operand, err := c.opTree(n.r, s)
		if err != nil {
			return nil, err
		}
		switch n.op {
		case pgsql.OperatorNot:
			return func(r *run, e *env) (Value, error) {
				v, err := operand(r, e)
				if err != nil {
					return Value{}, err
				}
				if v, err = asBoolOperand(v, "NOT"); err != nil {
					return Value{}, err
				}
				if v.Null {
					return v, nil
				}
				return Bool(v.I == 0), nil
			}, nil
		case pgsql.OperatorSubtract:
			return func(r *run, e *env) (Value, error) {
				v, err := operand(r, e)
				if err != nil {
					return Value{}, err
				}
				return negate(v)
			}, nil
		}
		return nil, outside("prefix operator %q", string(n.op))
	}
	return c.binaryOp(n, s)
}

func asBoolOperand(v Value, what string) (Value, error) {
	if v.T == TNullAny {
		return Null(TBool), nil
	}
	if v.T == TUnknown {
		return coerceUnknown(v, TBool)
	}
	if v.T != TBool {
		return Value{}, staticErr("argument of %s must be type boolean, not type %s", what, v.T)
	}
	return v, nil
}

func (c *compiler) binaryOp(n *opNode, s *scope) (expr, error) {
	op := n.op
	// ANY / ALL on the right of a comparison
	if n.r.atom != nil {
		switch q := unwrapFuture(n.r.atom).(type) {
		case *pgsql.AnyExpression:
			return c.quantified(n, q.Expression, false, s)
		case pgsql.AnyExpression:
			return c.quantified(n, q.Expression, false, s)
		case pgsql.AllExpression:
			return c.quantified(n, q.Expression, true, s)
		case *pgsql.AllExpression:
			return c.quantified(n, q.Expression, true, s)
		}
	}
	left, err := c.opTree(n.l, s)
	if err != nil {
		return nil, err
	}
	if op == pgsql.OperatorIs || op == pgsql.OperatorIsNot {
		lit, ok := unwrapFuture(n.r.atom).(pgsql.Literal)
		if n.r.atom == nil || !ok {
			return nil, outside("IS with a non-literal right operand")
		}
		negated := op == pgsql.OperatorIsNot
		if lit.Null {
			return func(r *run, e *env) (Value, error) {
				v, err := left(r, e)
				if err != nil {
					return Value{}, err
				}
				return Bool(isNullTest(v, negated)), nil
			}, nil
		}
		if b, isBool := lit.Value.(bool); isBool {
			return func(r *run, e *env) (Value, error) {
				v, err := left(r, e)
				if err != nil {
					return Value{}, err
				}
				if v, err = asBoolOperand(v, "IS TRUE/FALSE"); err != nil {
					return Value{}, err
				}
				res := !v.Null && (v.I != 0) == b
				return Bool(res != negated), nil
			}, nil
		}
		return nil, outside("IS %v", lit.Value)
	}
	right, err := c.opTree(n.r, s)
	if err != nil {
		return nil, err
	}
	switch op {
	case pgsql.OperatorAnd:
		return func(r *run, e *env) (Value, error) {
			a, err := left(r, e)
			if err != nil {
				return Value{}, err
			}
			if a, err = asBoolOperand(a, "AND"); err != nil {
				return Value{}, err
			}
			if !a.Null && a.I == 0 {
				return Bool(false), nil
			}
			b, err := right(r, e)
			if err != nil {
				return Value{}, err
			}
			if b, err = asBoolOperand(b, "AND"); err != nil {
				return Value{}, err
			}
			if !b.Null && b.I == 0 {
				return Bool(false), nil
			}
			if a.Null || b.Null {
				return Null(TBool), nil
			}
			return Bool(true), nil
		}, nil
	case pgsql.OperatorOr:
		return func(r *run, e *env) (Value, error) {
			a, err := left(r, e)
			if err != nil {
				return Value{}, err
			}
			if a, err = asBoolOperand(a, "OR"); err != nil {
				return Value{}, err
			}
			if !a.Null && a.I != 0 {
				return Bool(true), nil
			}
			b, err := right(r, e)
			if err != nil {
				return Value{}, err
			}
			if b, err = asBoolOperand(b, "OR"); err != nil {
				return Value{}, err
			}
			if !b.Null && b.I != 0 {
				return Bool(true), nil
			}
			if a.Null || b.Null {
				return Null(TBool), nil
			}
			return Bool(false), nil
		}, nil
	}
	var fn func(a, b Value) (Value, error)
	switch op {
	case pgsql.OperatorEquals, pgsql.OperatorNotEquals, pgsql.OperatorCypherNotEquals, pgsql.OperatorLessThan,
		pgsql.OperatorLessThanOrEqualTo, pgsql.OperatorGreaterThan, pgsql.OperatorGreaterThanOrEqualTo:
		fn = func(a, b Value) (Value, error) { return compareOp(op, a, b) }
	case pgsql.OperatorAdd, pgsql.OperatorSubtract, pgsql.OperatorMultiply, pgsql.OperatorDivide:
		fn = func(a, b Value) (Value, error) { return arith(op, a, b) }
	case pgsql.OperatorConcatenate:
		fn = concatOp
	case pgsql.OperatorJSONField:
		fn = func(a, b Value) (Value, error) { return jsonField(a, b, false) }
	case pgsql.OperatorJSONTextField:
		fn = func(a, b Value) (Value, error) { return jsonField(a, b, true) }
	case pgsql.OperatorJSONBFieldExists:
		fn = jsonExists
	case pgsql.OperatorPGArrayLHSContainsRHS:
		fn = func(a, b Value) (Value, error) { return arraySetOp("@>", a, b) }
	case pgsql.OperatorPGArrayOverlap:
		fn = func(a, b Value) (Value, error) { return arraySetOp("&&", a, b) }
	case pgsql.OperatorArrayOverlap:
		// unqualified &&: with the intarray extension installed (schema_up.sql) integer[] && integer[] resolves to
		// intarray's operator, which rejects NULL elements; identical otherwise
		fn = func(a, b Value) (Value, error) { return arraySetOp("&&", a, b) }
	case pgsql.OperatorLike:
		fn = func(a, b Value) (Value, error) { return likeOp(a, b, false) }
	case pgsql.OperatorILike:
		fn = func(a, b Value) (Value, error) { return likeOp(a, b, true) }
	case pgsql.OperatorRegexMatch:
		fn = regexOp
	default:
		return nil, outside("operator %q", string(op))
	}
	return func(r *run, e *env) (Value, error) {
		a, err := left(r, e)
		if err != nil {
			return Value{}, err
		}
		b, err := right(r, e)
		if err != nil {
			return Value{}, err
		}
		return fn(a, b)
	}, nil
}

// isNullTest implements IS [NOT] NULL, including the row-wise rule for composite values.
func isNullTest(v Value, negated bool) bool {
	if v.T.IsComposite() && !v.Null {
		if negated { // IS NOT NULL: every field is non-null
			for _, f := range v.A() {
				if f.Null {
					return false
				}
			}
			return true
		}
		for _, f := range v.A() { // IS NULL: every field is null
			if !f.Null {
				return false
			}
		}
		return true
	}
	return v.Null != negated
}

// quantified compiles "left op ANY (array)" / "left op ALL (array)".
func (c *compiler) quantified(n *opNode, arrayExpr pgsql.Expression, all bool, s *scope) (expr, error) {
	if prec, _ := binaryPrec(n.op); prec != precCompare {
		return nil, outside("ANY/ALL with operator %q", string(n.op))
	}
	// left op ANY (subquery): the comparison ranges over the rows of a one-column sub-select. PostgreSQL's grammar reads
	// additional parentheses around the sub-select as a nested select_with_parens, i.e. still as this form.
	var subq *pgsql.Query
	switch t := unwrapFuture(arrayExpr).(type) {
	case pgsql.Subquery:
		subq = &t.Query
	case pgsql.Query:
		subq = &t
	case pgsql.Select:
		subq = &pgsql.Query{Body: t}
	case *pgsql.Parenthetical:
		switch u := unwrapFuture(t.Expression).(type) {
		case pgsql.Subquery:
			subq = &u.Query
		case pgsql.Query:
			subq = &u
		case pgsql.Select:
			subq = &pgsql.Query{Body: u}
		}
	}
	if subq != nil {
		left, err := c.opTree(n.l, s)
		if err != nil {
			return nil, err
		}
		sub, err := c.query(*subq, s)
		if err != nil {
			return nil, err
		}
		if len(sub.cols) != 1 {
			return nil, staticErr("subquery has too many columns")
		}
		op := n.op
		return func(r *run, e *env) (Value, error) {
			a, err := left(r, e)
			if err != nil {
				return Value{}, err
			}
			rows, err := sub.exec(r, e)
			if err != nil {
				return Value{}, err
			}
			sawNull := false
			for _, row := range rows {
				el := row[0]
				if a.T == TNullAny || el.T == TNullAny {
					sawNull = true
					continue
				}
				res, err := compareOp(op, a, el)
				if err != nil {
					return Value{}, err
				}
				switch {
				case res.Null:
					sawNull = true
				case all && res.I == 0:
					return Bool(false), nil
				case !all && res.I != 0:
					return Bool(true), nil
				}
			}
			if sawNull {
				return Null(TBool), nil
			}
			return Bool(all), nil
		}, nil
	}
	left, err := c.opTree(n.l, s)
	if err != nil {
		return nil, err
	}
	arr, err := c.expr(arrayExpr, s)
	if err != nil {
		return nil, err
	}
	op := n.op
	return func(r *run, e *env) (Value, error) {
		a, err := left(r, e)
		if err != nil {
			return Value{}, err
		}
		v, err := arr(r, e)
		if err != nil {
			return Value{}, err
		}
		if v.T == TNullAny {
			return Null(TBool), nil
		}
		if a.T == TNullAny {
			if v.T == TUnknown {
				return Value{}, outside("ANY/ALL with untyped operands")
			}
			if !v.T.IsArray() {
				return Value{}, staticErr("op ANY/ALL (array) requires array on right side")
			}
			if !v.Null && len(v.A()) == 0 {
				return Bool(all), nil
			}
			return Null(TBool), nil
		}
		if v.T == TUnknown {
			if a.T == TUnknown {
				return Value{}, outside("ANY/ALL with untyped operands")
			}
			if a.T.IsArray() {
				return Value{}, outside("ANY/ALL over arrays of arrays")
			}
			if v, err = coerceUnknown(v, a.T.ArrayOf()); err != nil {
				return Value{}, err
			}
		}
		if !v.T.IsArray() {
			return Value{}, staticErr("op ANY/ALL (array) requires array on right side")
		}
		if v.Null {
			// type check still applies
			if a.T != TUnknown && !(a.T == v.T.Elem() || (a.T.IsNumeric() && v.T.Elem().IsNumeric())) {
				return Value{}, staticErr("operator does not exist: %s %s %s", a.T, op, v.T.Elem())
			}
			return Null(TBool), nil
		}
		if len(v.A()) == 0 {
			if a.T != TUnknown && !(a.T == v.T.Elem() || (a.T.IsNumeric() && v.T.Elem().IsNumeric())) {
				return Value{}, staticErr("operator does not exist: %s %s %s", a.T, op, v.T.Elem())
			}
			return Bool(all), nil
		}
		sawNull := false
		for _, el := range v.A() {
			if el.Null {
				el = Null(v.T.Elem())
			}
			res, err := compareOp(op, a, el)
			if err != nil {
				return Value{}, err
			}
			switch {
			case res.Null:
				sawNull = true
			case all && res.I == 0:
				return Bool(false), nil
			case !all && res.I != 0:
				return Bool(true), nil
			}
		}
		if sawNull {
			return Null(TBool), nil
		}
		return Bool(all), nil
	}, nil
}

// concatOp implements ||.
func concatOp(a, b Value) (Value, error) {
	if a.T == TNullAny || b.T == TNullAny {
		if a.T.IsArray() || b.T.IsArray() {
			// array || NULL: array_cat (NULL array, result unchanged) or array_append (NULL element) - depends on the
			// static type of the NULL
			return Value{}, outside("array || NULL of untracked type")
		}
		return NullAny(), nil
	}
	switch {
	case a.T.IsArray() || b.T.IsArray():
		return arrayConcat(a, b)
	case a.T == TJSONB || b.T == TJSONB:
		return Value{}, outside("jsonb || operator")
	}
	// text concatenation: text || text, text || anynonarray, anynonarray || text; unknown literals are text
	if a.T == TUnknown {
		a, _ = coerceUnknown(a, TText)
	}
	if b.T == TUnknown {
		b, _ = coerceUnknown(b, TText)
	}
	if a.T != TText && b.T != TText {
		return Value{}, staticErr("operator does not exist: %s || %s", a.T, b.T)
	}
	if a.Null || b.Null {
		return Null(TText), nil
	}
	as, bs := a, b
	var err error
	if as.T != TText {
		if as, err = castValue(a, TText); err != nil {
			return Value{}, err
		}
	}
	if bs.T != TText {
		if bs, err = castValue(b, TText); err != nil {
			return Value{}, err
		}
	}
	return Text(as.S + bs.S), nil
}

func arrayConcat(a, b Value) (Value, error) {
	var err error
	// untyped operand next to an array: NULL is resolved as the same array type (array_cat), a string literal is read as
	// an array literal
	if a.T == TUnknown {
		if a, err = coerceUnknown(a, b.T); err != nil {
			return Value{}, err
		}
	}
	if b.T == TUnknown {
		if b, err = coerceUnknown(b, a.T); err != nil {
			return Value{}, err
		}
	}
	elemOf := func(v Value) Type {
		if v.T.IsArray() {
			return v.T.Elem()
		}
		return v.T
	}
	ea, eb := elemOf(a), elemOf(b)
	elem := ea
	if ea != eb {
		if ea.IsNumeric() && eb.IsNumeric() {
			elem = commonNumeric(ea, eb)
		} else {
			return Value{}, staticErr("operator does not exist: %s || %s", a.T, b.T)
		}
	}
	conv := func(v Value) (Value, error) {
		if v.T.IsArray() {
			return castValue(v, elem.ArrayOf())
		}
		return castValue(v, elem)
	}
	if a, err = conv(a); err != nil {
		return Value{}, err
	}
	if b, err = conv(b); err != nil {
		return Value{}, err
	}
	switch {
	case a.T.IsArray() && b.T.IsArray(): // array_cat: a NULL array is ignored
		if a.Null {
			return b, nil
		}
		if b.Null {
			return a, nil
		}
		out := make([]Value, 0, len(a.A())+len(b.A()))
		out = append(append(out, a.A()...), b.A()...)
		return Array(elem, out), nil
	case a.T.IsArray(): // array_append
		out := make([]Value, 0, len(a.A())+1)
		if !a.Null {
			out = append(out, a.A()...)
		}
		return Array(elem, append(out, b)), nil
	default: // array_prepend
		out := make([]Value, 0, len(b.A())+1)
		out = append(out, a)
		if !b.Null {
			out = append(out, b.A()...)
		}
		return Array(elem, out), nil
	}
}

// arraySetOp implements anyarray @> anyarray and anyarray && anyarray (array_contain_compare): NULL elements never match.
func arraySetOp(op string, a, b Value) (Value, error) {
	var err error
	if a.T == TNullAny || b.T == TNullAny {
		return Null(TBool), nil
	}
	if a.T == TUnknown && b.T == TUnknown {
		return Value{}, staticErr("operator is not unique: unknown %s unknown", op)
	}
	if a.T == TUnknown {
		if a, err = coerceUnknown(a, b.T); err != nil {
			return Value{}, err
		}
	}
	if b.T == TUnknown {
		if b, err = coerceUnknown(b, a.T); err != nil {
			return Value{}, err
		}
	}
	if a.T == TJSONB && b.T == TJSONB && op == "@>" {
		if a.Null || b.Null {
			return Null(TBool), nil
		}
		return Bool(jsonbContains(a.J(), b.J())), nil
	}
	if !a.T.IsArray() || !b.T.IsArray() || a.T != b.T {
		return Value{}, staticErr("operator does not exist: %s %s %s", a.T, op, b.T)
	}
	if a.Null || b.Null {
		return Null(TBool), nil
	}
	has := func(arr []Value, x Value) (bool, error) {
		for _, y := range arr {
			if y.Null {
				continue
			}
			c, err := compareValues(x, y, false)
			if err != nil {
				return false, err
			}
			if c == 0 {
				return true, nil
			}
		}
		return false, nil
	}
	if op == "@>" {
		for _, x := range b.A() {
			if x.Null {
				return Bool(false), nil
			}
			ok, err := has(a.A(), x)
			if err != nil {
				return Value{}, err
			}
			if !ok {
				return Bool(false), nil
			}
		}
		return Bool(true), nil
	}
	for _, x := range b.A() {
		if x.Null {
			continue
		}
		ok, err := has(a.A(), x)
		if err != nil {
			return Value{}, err
		}
		if ok {
			return Bool(true), nil
		}
	}
	return Bool(false), nil
}

// jsonField implements jsonb -> text|int and jsonb ->> text|int.
func jsonField(a, b Value, asText bool) (Value, error) {
	var err error
	if a.T == TNullAny || b.T == TNullAny {
		if asText {
			return Null(TText), nil
		}
		return Null(TJSONB), nil
	}
	if a.T == TUnknown {
		// 'literal' -> 'x': ambiguous between json and jsonb
		return Value{}, staticErr("operator is not unique: unknown -> unknown")
	}
	if a.T != TJSONB {
		return Value{}, staticErr("operator does not exist: %s -> %s", a.T, b.T)
	}
	if b.T == TUnknown {
		// jsonb -> unknown resolves to the text variant
		if b, err = coerceUnknown(b, TText); err != nil {
			return Value{}, err
		}
	}
	rt := TJSONB
	if asText {
		rt = TText
	}
	var res any
	found := false
	switch {
	case b.T == TText:
		if a.Null || b.Null {
			return Null(rt), nil
		}
		if obj, ok := a.J().(map[string]any); ok {
			res, found = obj[b.S]
		}
	case b.T.IsInt():
		if a.Null || b.Null {
			return Null(rt), nil
		}
		if arr, ok := a.J().([]any); ok {
			i := b.I
			if i < 0 {
				i += int64(len(arr))
			}
			if i >= 0 && i < int64(len(arr)) {
				res, found = arr[i], true
			}
		}
	default:
		return Value{}, staticErr("operator does not exist: jsonb -> %s", b.T)
	}
	if !found {
		return Null(rt), nil
	}
	if !asText {
		return JSONB(res), nil
	}
	switch x := res.(type) {
	case nil:
		return Null(TText), nil
	case string:
		return Text(x), nil
	}
	return Text(jsonbOut(res)), nil
}

// jsonExists implements jsonb ? text.
func jsonExists(a, b Value) (Value, error) {
	var err error
	if a.T == TNullAny || b.T == TNullAny {
		return Null(TBool), nil
	}
	if a.T != TJSONB {
		return Value{}, staticErr("operator does not exist: %s ? %s", a.T, b.T)
	}
	if b.T == TUnknown {
		if b, err = coerceUnknown(b, TText); err != nil {
			return Value{}, err
		}
	}
	if b.T != TText {
		return Value{}, staticErr("operator does not exist: jsonb ? %s", b.T)
	}
	if a.Null || b.Null {
		return Null(TBool), nil
	}
	switch j := a.J().(type) {
	case map[string]any:
		_, ok := j[b.S]
		return Bool(ok), nil
	case []any:
		for _, el := range j {
			if s, ok := el.(string); ok && s == b.S {
				return Bool(true), nil
			}
		}
		return Bool(false), nil
	case string:
		return Bool(j == b.S), nil
	}
	return Bool(false), nil
}

func likeOp(a, b Value, fold bool) (Value, error) {
	name := "~~"
	if fold {
		name = "~~*"
	}
	if a.T == TNullAny || b.T == TNullAny {
		return Null(TBool), nil
	}
	if a.T == TUnknown {
		a, _ = coerceUnknown(a, TText)
	}
	if b.T == TUnknown {
		b, _ = coerceUnknown(b, TText)
	}
	if a.T != TText || b.T != TText {
		return Value{}, staticErr("operator does not exist: %s %s %s", a.T, name, b.T)
	}
	if a.Null || b.Null {
		return Null(TBool), nil
	}
	ok, err := likeMatch(a.S, b.S, fold)
	if err != nil {
		return Value{}, err
	}
	return Bool(ok), nil
}

// simpleRegex accepts the patterns on which PostgreSQL's ARE flavour and Go's RE2 agree: literals, ., anchors, the
// quantifiers * + ?, bracket expressions without classes, alternation, plain groups, an optional leading (?i), and
// backslash escapes of punctuation.
var simpleRegex = regexp.MustCompile(`^(\(\?i\))?([A-Za-z0-9 _\-@,:;!#%&=<>~'"/.*+?^$|()]|\{[0-9]+(,[0-9]*)?\}|\\[.*+?^$|()\[\]{}\\/\-]|\[\^?[A-Za-z0-9 _\-@,:;!#%&=<>~'"/.]+\])*$`)

func regexOp(a, b Value) (Value, error) {
	if a.T == TNullAny || b.T == TNullAny {
		return Null(TBool), nil
	}
	if a.T == TUnknown {
		a, _ = coerceUnknown(a, TText)
	}
	if b.T == TUnknown {
		b, _ = coerceUnknown(b, TText)
	}
	if a.T != TText || b.T != TText {
		return Value{}, staticErr("operator does not exist: %s ~ %s", a.T, b.T)
	}
	if a.Null || b.Null {
		return Null(TBool), nil
	}
	if !simpleRegex.MatchString(b.S) || strings.Contains(b.S, "(?") && !strings.HasPrefix(b.S, "(?i)") {
		return Value{}, outside("regular expression %q", abbreviate(b.S))
	}
	pattern := b.S
	// PostgreSQL: . matches any character including newline; ^ and $ match only at the ends
	re, err := regexp.Compile("(?s)" + pattern)
	if err != nil {
		return Value{}, outside("regular expression %q: %v", abbreviate(b.S), err)
	}
	return Bool(re.MatchString(a.S)), nil
}
