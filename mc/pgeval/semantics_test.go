package pgeval

import (
	"strings"
	"testing"

	"github.com/specterops/dawgs/cypher/models"
	"github.com/specterops/dawgs/cypher/models/pgsql"

	"verif/gm"
)

// ---- AST helpers -----------------------------------------------------------------------------------------------------

func lit(v any) pgsql.Expression {
	if v == nil {
		return pgsql.NullLiteral()
	}
	return pgsql.Literal{Value: v}
}

func bin(l pgsql.Expression, op pgsql.Operator, r pgsql.Expression) pgsql.Expression {
	return pgsql.NewBinaryExpression(l, op, r)
}

func not(e pgsql.Expression) pgsql.Expression { return pgsql.NewUnaryExpression(pgsql.OperatorNot, e) }
func paren(e pgsql.Expression) pgsql.Expression {
	return pgsql.NewParenthetical(e)
}
func cast(e pgsql.Expression, t pgsql.DataType) pgsql.Expression {
	return pgsql.TypeCast{Expression: e, CastType: t}
}
func fn(name string, args ...pgsql.Expression) pgsql.FunctionCall {
	return pgsql.FunctionCall{Function: pgsql.Identifier(name), Parameters: args}
}
func arr(t pgsql.DataType, elems ...pgsql.Expression) pgsql.Expression {
	return pgsql.ArrayLiteral{Values: elems, CastType: t}
}
func col(parts ...string) pgsql.Expression {
	return pgsql.AsCompoundIdentifier(parts...)
}
func anyOf(e pgsql.Expression) pgsql.Expression {
	return pgsql.NewAnyExpression(e, pgsql.UnsetDataType)
}
func allOf(e pgsql.Expression) pgsql.Expression { return pgsql.NewAllExpression(e) }
func as(e pgsql.Expression, name string) pgsql.SelectItem {
	return pgsql.AliasedExpression{Expression: e, Alias: models.OptionalValue(pgsql.Identifier(name))}
}
func table(name, alias string) pgsql.Expression {
	return pgsql.TableReference{Name: pgsql.CompoundIdentifier{pgsql.Identifier(name)}, Binding: models.OptionalValue(pgsql.Identifier(alias))}
}
func unnestAs(e pgsql.Expression, alias string) pgsql.Expression {
	return pgsql.AliasedExpression{Expression: fn("unnest", e), Alias: models.OptionalValue(pgsql.Identifier(alias))}
}
func from(src pgsql.Expression, joins ...pgsql.Join) pgsql.FromClause {
	return pgsql.FromClause{Source: src, Joins: joins}
}
func join(t pgsql.Expression, left bool, on pgsql.Expression) pgsql.Join {
	jt := pgsql.JoinTypeInner
	if left {
		jt = pgsql.JoinTypeLeftOuter
	}
	return pgsql.Join{Table: t, JoinOperator: pgsql.JoinOperator{JoinType: jt, Constraint: on}}
}
func lateral(q pgsql.Query, alias string) pgsql.Expression {
	return pgsql.LateralSubquery{Query: q, Binding: models.OptionalValue(pgsql.Identifier(alias))}
}
func selectQ(s pgsql.Select) pgsql.Query { return pgsql.Query{Body: s} }
func proj(items ...pgsql.SelectItem) pgsql.Projection {
	return pgsql.Projection(items)
}
func item(e pgsql.Expression) pgsql.SelectItem { return e.(pgsql.SelectItem) }

var emptyGraph = &gm.Graph{}

// evalExpr evaluates "select <e>" on a graph and returns the typed value.
func evalExpr(t *testing.T, g *gm.Graph, e pgsql.Expression) (Value, error) {
	t.Helper()
	rows, _, err := runQuery(g, selectQ(pgsql.Select{Projection: proj(as(e, "x"))}))
	if err != nil {
		return Value{}, err
	}
	if len(rows) != 1 {
		t.Fatalf("expected one row, got %d", len(rows))
	}
	return rows[0][0], nil
}

func runQuery(g *gm.Graph, q pgsql.Query) ([]row, *Info, error) {
	p, err := Prepare(q)
	if err != nil {
		return nil, nil, err
	}
	ev := New(g, map[string]int16{"K1": 1, "K2": 2, "E1": 3, "E2": 4})
	ev.Info = Info{}
	r := &run{ev: ev, info: &ev.Info}
	rows, err := p.plan.exec(r, nil)
	return rows, &ev.Info, err
}

func mustEval(t *testing.T, e pgsql.Expression) Value {
	t.Helper()
	v, err := evalExpr(t, emptyGraph, e)
	if err != nil {
		t.Fatalf("unexpected error: %v", err)
	}
	return v
}

func show(v Value) string {
	if v.Null {
		return "NULL"
	}
	if v.T == TBool {
		if v.I != 0 {
			return "true"
		}
		return "false"
	}
	return v.TextOut()
}

func wantText(t *testing.T, e pgsql.Expression, want string) {
	t.Helper()
	if got := show(mustEval(t, e)); got != want {
		t.Fatalf("got %s, want %s", got, want)
	}
}

func wantRuntimeError(t *testing.T, e pgsql.Expression, fragment string) {
	t.Helper()
	_, err := evalExpr(t, emptyGraph, e)
	if err == nil {
		t.Fatalf("expected a run-time error containing %q, got a value", fragment)
	}
	if !IsRuntime(err) {
		t.Fatalf("expected RuntimeError, got %T: %v", err, err)
	}
	if !strings.Contains(err.Error(), fragment) {
		t.Fatalf("error %q does not contain %q", err, fragment)
	}
}

func wantOutside(t *testing.T, e pgsql.Expression, fragment string) {
	t.Helper()
	_, err := evalExpr(t, emptyGraph, e)
	if !IsOutside(err) {
		t.Fatalf("expected ErrOutside, got %T: %v", err, err)
	}
	if !strings.Contains(err.Error(), fragment) {
		t.Fatalf("error %q does not contain %q", err, fragment)
	}
}

var boolNull = cast(lit(nil), pgsql.Boolean)

// ---- three-valued logic ------------------------------------------------------------------------------------------------

func TestThreeValuedLogic(t *testing.T) {
	T, F, N := lit(true), lit(false), boolNull
	cases := []struct {
		e    pgsql.Expression
		want string
	}{
		{bin(T, pgsql.OperatorAnd, N), "NULL"},
		{bin(N, pgsql.OperatorAnd, T), "NULL"},
		{bin(F, pgsql.OperatorAnd, N), "false"},
		{bin(N, pgsql.OperatorAnd, F), "false"},
		{bin(N, pgsql.OperatorAnd, N), "NULL"},
		{bin(T, pgsql.OperatorOr, N), "true"},
		{bin(N, pgsql.OperatorOr, T), "true"},
		{bin(F, pgsql.OperatorOr, N), "NULL"},
		{bin(N, pgsql.OperatorOr, F), "NULL"},
		{not(N), "NULL"},
		{not(T), "false"},
		{bin(lit(1), pgsql.OperatorEquals, lit(nil)), "NULL"},
		{bin(lit(nil), pgsql.OperatorNotEquals, lit(nil)), "NULL"},
		{bin(lit(nil), pgsql.OperatorIs, lit(nil)), "true"},
		{bin(lit(1), pgsql.OperatorIsNot, lit(nil)), "true"},
		{bin(N, pgsql.OperatorIs, lit(true)), "false"},
		{bin(N, pgsql.OperatorIsNot, lit(true)), "true"},
	}
	for i, c := range cases {
		if got := show(mustEval(t, c.e)); got != c.want {
			t.Errorf("case %d: got %s want %s", i, got, c.want)
		}
	}
	// a WHERE clause keeps only rows whose predicate is true: NULL is dropped
	rows, _, err := runQuery(emptyGraph, selectQ(pgsql.Select{
		Projection: proj(item(col("x"))),
		From:       []pgsql.FromClause{from(unnestAs(arr(pgsql.Int8, lit(1), lit(nil), lit(3)), "x"))},
		Where:      bin(col("x"), pgsql.OperatorGreaterThan, lit(1)),
	}))
	if err != nil || len(rows) != 1 || rows[0][0].I != 3 {
		t.Fatalf("WHERE with NULL: rows=%v err=%v", rows, err)
	}
}

// ---- NULL ordering -------------------------------------------------------------------------------------------------------

func TestNullOrdering(t *testing.T) {
	base := pgsql.Select{
		Projection: proj(item(col("x"))),
		From:       []pgsql.FromClause{from(unnestAs(arr(pgsql.Int8, lit(2), lit(nil), lit(1), lit(3)), "x"))},
	}
	order := func(asc bool) string {
		q := selectQ(base)
		q.OrderBy = []*pgsql.OrderBy{{Expression: col("x"), Ascending: asc}}
		rows, _, err := runQuery(emptyGraph, q)
		if err != nil {
			t.Fatal(err)
		}
		var out []string
		for _, r := range rows {
			out = append(out, show(r[0]))
		}
		return strings.Join(out, ",")
	}
	if got := order(true); got != "1,2,3,NULL" {
		t.Errorf("ASC: %s (PostgreSQL: NULLS LAST)", got)
	}
	if got := order(false); got != "NULL,3,2,1" {
		t.Errorf("DESC: %s (PostgreSQL: NULLS FIRST)", got)
	}
}

// ---- arrays --------------------------------------------------------------------------------------------------------------

func TestArrayOperators(t *testing.T) {
	a123 := arr(pgsql.Int8, lit(1), lit(2), lit(3))
	a1n := arr(pgsql.Int8, lit(1), lit(nil))
	empty := arr(pgsql.Int8)
	cases := []struct {
		name string
		e    pgsql.Expression
		want string
	}{
		{"= any hit", bin(lit(2), pgsql.OperatorEquals, anyOf(a123)), "true"},
		{"= any miss", bin(lit(5), pgsql.OperatorEquals, anyOf(a123)), "false"},
		{"= any miss with null element", bin(lit(5), pgsql.OperatorEquals, anyOf(a1n)), "NULL"},
		{"= any hit with null element", bin(lit(1), pgsql.OperatorEquals, anyOf(a1n)), "true"},
		{"null = any", bin(cast(lit(nil), pgsql.Int8), pgsql.OperatorEquals, anyOf(a123)), "NULL"},
		{"null = any(empty)", bin(cast(lit(nil), pgsql.Int8), pgsql.OperatorEquals, anyOf(empty)), "false"},
		{"= any(null array)", bin(lit(1), pgsql.OperatorEquals, anyOf(cast(lit(nil), pgsql.Int8Array))), "NULL"},
		{"!= all hit", bin(lit(5), pgsql.OperatorNotEquals, allOf(a123)), "true"},
		{"!= all miss", bin(lit(2), pgsql.OperatorNotEquals, allOf(a123)), "false"},
		{"!= all with null element", bin(lit(5), pgsql.OperatorNotEquals, allOf(a1n)), "NULL"},
		{"!= all false wins over null", bin(lit(1), pgsql.OperatorNotEquals, allOf(a1n)), "false"},
		{"!= all(empty)", bin(lit(5), pgsql.OperatorNotEquals, allOf(empty)), "true"},
		{"@> yes", bin(a123, pgsql.OperatorPGArrayLHSContainsRHS, arr(pgsql.Int8, lit(3), lit(1))), "true"},
		{"@> no", bin(a123, pgsql.OperatorPGArrayLHSContainsRHS, arr(pgsql.Int8, lit(4))), "false"},
		{"@> empty rhs", bin(a123, pgsql.OperatorPGArrayLHSContainsRHS, empty), "true"},
		{"@> null element never matches", bin(a1n, pgsql.OperatorPGArrayLHSContainsRHS, arr(pgsql.Int8, lit(nil))), "false"},
		{"&& yes", bin(a123, pgsql.OperatorPGArrayOverlap, arr(pgsql.Int8, lit(9), lit(3))), "true"},
		{"&& nulls do not overlap", bin(a1n, pgsql.OperatorPGArrayOverlap, arr(pgsql.Int8, lit(nil))), "false"},
		{"array || element", bin(a123, pgsql.OperatorConcatenate, lit(4)), "{1,2,3,4}"},
		{"element || array", bin(lit(0), pgsql.OperatorConcatenate, a123), "{0,1,2,3}"},
		{"array || array", bin(a123, pgsql.OperatorConcatenate, a1n), "{1,2,3,1,NULL}"},
		{"array || typed null element", bin(a123, pgsql.OperatorConcatenate, cast(lit(nil), pgsql.Int8)), "{1,2,3,NULL}"},
		{"array || untyped null is array_cat", bin(a123, pgsql.OperatorConcatenate, lit(nil)), "{1,2,3}"},
		{"null array || array", bin(cast(lit(nil), pgsql.Int8Array), pgsql.OperatorConcatenate, a123), "{1,2,3}"},
		{"array = array with nulls", bin(a1n, pgsql.OperatorEquals, a1n), "true"},
		{"subscript", pgsql.ArrayIndex{Expression: paren(a123), Indexes: []pgsql.Expression{lit(2)}}, "2"},
		{"subscript out of range", pgsql.ArrayIndex{Expression: paren(a123), Indexes: []pgsql.Expression{lit(7)}}, "NULL"},
		{"subscript zero", pgsql.ArrayIndex{Expression: paren(a123), Indexes: []pgsql.Expression{lit(0)}}, "NULL"},
		{"cardinality", fn("cardinality", a1n), "2"},
		{"cardinality empty", fn("cardinality", empty), "0"},
		{"array_length empty is null", fn("array_length", empty, lit(1)), "NULL"},
		{"array_length", fn("array_length", a123, lit(1)), "3"},
		{"array_remove null", fn("array_remove", a1n, lit(nil)), "{1}"},
		{"array of unknown literals is text[]", pgsql.ArrayLiteral{Values: []pgsql.Expression{lit("a"), lit("b")}}, "{a,b}"},
		{"text array output quoting", arr(pgsql.Text, lit("a b"), lit(""), lit("null")), `{"a b","","null"}`},
	}
	for _, c := range cases {
		if got := show(mustEval(t, c.e)); got != c.want {
			t.Errorf("%s: got %s want %s", c.name, got, c.want)
		}
	}
	wantRuntimeError(t, bin(arr(pgsql.Int4, lit(1)), pgsql.OperatorEquals, arr(pgsql.Int8, lit(1))), "operator does not exist: integer[] = bigint[]")
	// unnest ... generate_subscripts
	rows, _, err := runQuery(emptyGraph, selectQ(pgsql.Select{
		Projection: proj(item(col("i"))),
		From: []pgsql.FromClause{from(pgsql.AliasedExpression{Expression: fn("generate_subscripts", a123, lit(1)),
			Alias: models.OptionalValue(pgsql.Identifier("i"))})},
	}))
	if err != nil || len(rows) != 3 || rows[2][0].I != 3 {
		t.Fatalf("generate_subscripts: %v %v", rows, err)
	}
}

// ---- jsonb ---------------------------------------------------------------------------------------------------------------

func jsonbLit(s string) pgsql.Expression { return cast(lit(s), pgsql.JSONB) }

func TestJSONB(t *testing.T) {
	obj := jsonbLit(`{"s": "x", "n": 1, "f": 1.50, "b": true, "z": null, "a": [1, "two", null], "o": {"k": 1}}`)
	cases := []struct {
		name string
		e    pgsql.Expression
		want string
	}{
		{"-> string", bin(obj, pgsql.OperatorJSONField, lit("s")), `"x"`},
		{"->> string", bin(obj, pgsql.OperatorJSONTextField, lit("s")), "x"},
		{"->> number keeps scale", bin(obj, pgsql.OperatorJSONTextField, lit("f")), "1.50"},
		{"->> bool", bin(obj, pgsql.OperatorJSONTextField, lit("b")), "true"},
		{"->> json null is SQL NULL", bin(obj, pgsql.OperatorJSONTextField, lit("z")), "NULL"},
		{"-> json null is jsonb null", bin(obj, pgsql.OperatorJSONField, lit("z")), "null"},
		{"-> missing", bin(obj, pgsql.OperatorJSONField, lit("missing")), "NULL"},
		{"->> array renders jsonb text", bin(obj, pgsql.OperatorJSONTextField, lit("a")), `[1, "two", null]`},
		{"-> index", bin(paren(bin(obj, pgsql.OperatorJSONField, lit("a"))), pgsql.OperatorJSONField, lit(1)), `"two"`},
		{"-> negative index", bin(paren(bin(obj, pgsql.OperatorJSONField, lit("a"))), pgsql.OperatorJSONField, lit(-1)), "null"},
		{"-> key on array", bin(paren(bin(obj, pgsql.OperatorJSONField, lit("a"))), pgsql.OperatorJSONField, lit("x")), "NULL"},
		{"? key", bin(obj, pgsql.OperatorJSONBFieldExists, lit("z")), "true"},
		{"? missing", bin(obj, pgsql.OperatorJSONBFieldExists, lit("q")), "false"},
		{"typeof", fn("jsonb_typeof", bin(obj, pgsql.OperatorJSONField, lit("n"))), "number"},
		{"typeof null", fn("jsonb_typeof", bin(obj, pgsql.OperatorJSONField, lit("z"))), "null"},
		{"typeof missing", fn("jsonb_typeof", bin(obj, pgsql.OperatorJSONField, lit("q"))), "NULL"},
		{"number equality ignores scale", bin(jsonbLit("1.0"), pgsql.OperatorEquals, jsonbLit("1")), "true"},
		{"string is not number", bin(jsonbLit(`"1"`), pgsql.OperatorEquals, jsonbLit("1")), "false"},
		{"to_jsonb int", bin(bin(obj, pgsql.OperatorJSONField, lit("n")), pgsql.OperatorEquals, cast(fn("to_jsonb", cast(lit(1), pgsql.Int8)), pgsql.JSONB)), "true"},
		{"to_jsonb text", fn("to_jsonb", cast(lit("a\"b"), pgsql.Text)), `"a\"b"`},
		{"to_jsonb array", fn("to_jsonb", arr(pgsql.Int8, lit(1), lit(nil))), "[1, null]"},
		{"jsonb order: null < string < number < bool < array < object", bin(jsonbLit(`"z"`), pgsql.OperatorLessThan, jsonbLit("0")), "true"},
		{"jsonb order: number < bool", bin(jsonbLit("99"), pgsql.OperatorLessThan, jsonbLit("false")), "true"},
		{"jsonb order: bool < array", bin(jsonbLit("true"), pgsql.OperatorLessThan, jsonbLit("[0]")), "true"},
		{"jsonb order: array < object", bin(jsonbLit("[1,2,3]"), pgsql.OperatorLessThan, jsonbLit("{}")), "true"},
		{"jsonb order: shorter array first", bin(jsonbLit("[9]"), pgsql.OperatorLessThan, jsonbLit("[1,1]")), "true"},
		{"jsonb order: empty array below scalar (documented anomaly)", bin(jsonbLit("[]"), pgsql.OperatorLessThan, jsonbLit("null")), "true"},
		{"jsonb text out sorts keys by length then bytes", cast(jsonbLit(`{"bb":1,"a":2,"c":3}`), pgsql.Text), `{"a": 2, "c": 3, "bb": 1}`},
		{"array length", fn("jsonb_array_length", jsonbLit("[1,2]")), "2"},
		{"jsonb_to_text_array", fn("jsonb_to_text_array", jsonbLit(`["a", 1, null]`)), "{a,1,NULL}"},
		{"jsonb_to_text_array of json null", fn("jsonb_to_text_array", jsonbLit("null")), "NULL"},
		{"jsonb number to int8", cast(jsonbLit("41.5"), pgsql.Int8), "42"},
		{"jsonb null to int8 (PostgreSQL 18)", cast(jsonbLit("null"), pgsql.Int8), "NULL"},
		{"jsonb bool", cast(jsonbLit("true"), pgsql.Boolean), "true"},
		{"jsonb @> jsonb", bin(obj, pgsql.OperatorPGArrayLHSContainsRHS, jsonbLit(`{"o": {"k": 1}, "a": ["two"]}`)), "true"},
		{"jsonb @> jsonb miss", bin(obj, pgsql.OperatorPGArrayLHSContainsRHS, jsonbLit(`{"s": "y"}`)), "false"},
		{"build object", fn("jsonb_build_object", lit("k"), lit(1), lit("t"), lit("x")), `{"k": 1, "t": "x"}`},
	}
	for _, c := range cases {
		if got := show(mustEval(t, c.e)); got != c.want {
			t.Errorf("%s: got %s want %s", c.name, got, c.want)
		}
	}
	// an untyped literal next to jsonb is read as JSON: 'abc' is not JSON
	wantRuntimeError(t, bin(bin(obj, pgsql.OperatorJSONField, lit("s")), pgsql.OperatorEquals, lit("abc")), "invalid input syntax for type json")
	// and a quoted JSON string is
	wantText(t, bin(bin(obj, pgsql.OperatorJSONField, lit("s")), pgsql.OperatorEquals, lit(`"x"`)), "true")
	wantRuntimeError(t, bin(bin(obj, pgsql.OperatorJSONField, lit("s")), pgsql.OperatorEquals, cast(lit("x"), pgsql.Text)), "operator does not exist: jsonb = text")
	wantRuntimeError(t, cast(jsonbLit(`"1"`), pgsql.Int8), "cannot cast jsonb string to type bigint")
	wantRuntimeError(t, fn("jsonb_array_length", jsonbLit("1")), "cannot get array length of a scalar")
	wantRuntimeError(t, fn("jsonb_to_text_array", jsonbLit(`"a"`)), "cannot extract elements from a scalar")
}

// ---- casts and literals ---------------------------------------------------------------------------------------------------

func TestCastsAndLiterals(t *testing.T) {
	wantRuntimeError(t, cast(lit("x"), pgsql.Int8), `invalid input syntax for type bigint: "x"`)
	wantRuntimeError(t, cast(lit("1.5"), pgsql.Int8), `invalid input syntax for type bigint: "1.5"`)
	wantRuntimeError(t, cast(lit("99999999999999999999"), pgsql.Int8), "out of range for type bigint")
	wantRuntimeError(t, cast(lit("3000000000"), pgsql.Int), "out of range for type integer")
	wantRuntimeError(t, cast(lit("maybe"), pgsql.Boolean), "invalid input syntax for type boolean")
	wantRuntimeError(t, cast(lit("1e400"), pgsql.Float8), "out of range")
	wantRuntimeError(t, cast(cast(lit(1), pgsql.Int8), pgsql.Boolean), "cannot cast type bigint to boolean")
	wantRuntimeError(t, bin(lit(2147483647), pgsql.OperatorAdd, lit(1)), "integer out of range")
	wantRuntimeError(t, bin(lit(1), pgsql.OperatorDivide, lit(0)), "division by zero")
	wantRuntimeError(t, bin(cast(lit("a"), pgsql.Text), pgsql.OperatorEquals, lit(1)), "operator does not exist: text = integer")
	wantRuntimeError(t, bin(lit("a"), pgsql.OperatorEquals, lit(1)), `invalid input syntax for type integer: "a"`)
	cases := []struct {
		name string
		e    pgsql.Expression
		want string
		typ  Type
	}{
		{"int literal is int4", lit(5), "5", TInt4},
		{"large int literal is int8", lit(int64(2147483648)), "2147483648", TInt8},
		{"float literal is numeric", lit(1.5), "1.5", TNumeric},
		{"integral float literal is an integer", lit(2.0), "2", TInt4},
		{"string literal in a select list is text", lit("a"), "a", TText},
		{"' 12 '::int8 trims", cast(lit(" 12 "), pgsql.Int8), "12", TInt8},
		{"0x10 (PostgreSQL 16+)", cast(lit("0x10"), pgsql.Int8), "16", TInt8},
		{"1_000", cast(lit("1_000"), pgsql.Int8), "1000", TInt8},
		{"bool text", cast(lit(true), pgsql.Text), "true", TText},
		{"'t'::bool", cast(lit(" T "), pgsql.Boolean), "true", TBool},
		{"'of'::bool", cast(lit("of"), pgsql.Boolean), "false", TBool},
		{"float to int rounds half even", cast(cast(lit("2.5"), pgsql.Float8), pgsql.Int8), "2", TInt8},
		{"numeric to int rounds half away", cast(lit(2.5), pgsql.Int8), "3", TInt8},
		{"int division truncates", bin(lit(-7), pgsql.OperatorDivide, lit(2)), "-3", TInt4},
		{"int4 + int8 is int8", bin(lit(1), pgsql.OperatorAdd, cast(lit(1), pgsql.Int8)), "2", TInt8},
		{"numeric division scale", bin(cast(lit(1), pgsql.Numeric), pgsql.OperatorDivide, lit(3)), "0.33333333333333333333", TNumeric},
		{"numeric division scale (>1)", bin(cast(lit(10), pgsql.Numeric), pgsql.OperatorDivide, lit(3)), "3.3333333333333333", TNumeric},
		{"numeric exact addition", bin(lit(0.1), pgsql.OperatorAdd, lit(0.2)), "0.3", TNumeric},
		{"float addition is inexact", bin(bin(cast(lit("0.1"), pgsql.Float8), pgsql.OperatorAdd, cast(lit("0.2"), pgsql.Float8)), pgsql.OperatorEquals, cast(lit("0.3"), pgsql.Float8)), "false", TBool},
		{"int compared with float", bin(lit(1), pgsql.OperatorLessThan, cast(lit("1.5"), pgsql.Float8)), "true", TBool},
		{"text || int", bin(cast(lit("a"), pgsql.Text), pgsql.OperatorConcatenate, lit(5)), "a5", TText},
		{"float8 text", cast(cast(lit("1e21"), pgsql.Float8), pgsql.Text), "1e+21", TText},
		{"float8 text small", cast(cast(lit("0.00001"), pgsql.Float8), pgsql.Text), "1e-05", TText},
		{"composite cast", cast(pgsql.RowColumnReference{Identifier: pgsql.CompositeValue{
			Values: []pgsql.Expression{lit(7), arr(pgsql.Int2), jsonbLit("{}")}, DataType: pgsql.NodeComposite}, Column: "id"}, pgsql.Text), "7", TText},
	}
	for _, c := range cases {
		v := mustEval(t, c.e)
		if got := show(v); got != c.want || v.T != c.typ {
			t.Errorf("%s: got %s (%s) want %s (%s)", c.name, got, v.T, c.want, c.typ)
		}
	}
}

func TestCompositeNullTests(t *testing.T) {
	allNull := pgsql.CompositeValue{Values: []pgsql.Expression{lit(nil), lit(nil), lit(nil)}, DataType: pgsql.NodeComposite}
	partly := pgsql.CompositeValue{Values: []pgsql.Expression{lit(1), lit(nil), lit(nil)}, DataType: pgsql.NodeComposite}
	wantText(t, bin(allNull, pgsql.OperatorIs, lit(nil)), "true")
	wantText(t, bin(allNull, pgsql.OperatorIsNot, lit(nil)), "false")
	wantText(t, bin(partly, pgsql.OperatorIs, lit(nil)), "false")
	wantText(t, bin(partly, pgsql.OperatorIsNot, lit(nil)), "false") // neither: not all fields are non-null
	wantText(t, bin(pgsql.RowColumnReference{Identifier: allNull, Column: "id"}, pgsql.OperatorIs, lit(nil)), "true")
	// count() counts a row value whose fields are all NULL: the datum itself is not NULL
	rows, _, err := runQuery(emptyGraph, selectQ(pgsql.Select{Projection: proj(item(fn("count", allNull)))}))
	if err != nil || rows[0][0].I != 1 {
		t.Fatalf("count(row(null,null,null)): %v %v", rows, err)
	}
}

// ---- strings ---------------------------------------------------------------------------------------------------------------

func TestStringsAndLike(t *testing.T) {
	txt := func(s string) pgsql.Expression { return cast(lit(s), pgsql.Text) }
	cases := []struct {
		e    pgsql.Expression
		want string
	}{
		{bin(txt("hello"), pgsql.OperatorLike, lit("he%")), "true"},
		{bin(txt("hello"), pgsql.OperatorLike, lit("%ll_")), "true"},
		{bin(txt("hello"), pgsql.OperatorLike, lit("HE%")), "false"},
		{bin(txt("hello"), pgsql.OperatorILike, lit("HE%")), "true"},
		{bin(txt("50%"), pgsql.OperatorLike, lit(`50\%`)), "true"},
		{bin(txt("50x"), pgsql.OperatorLike, lit(`50\%`)), "false"},
		{bin(txt("a_b"), pgsql.OperatorLike, lit(`a\_b`)), "true"},
		{bin(txt(""), pgsql.OperatorLike, lit("%")), "true"},
		{bin(cast(lit(nil), pgsql.Text), pgsql.OperatorLike, lit("%")), "NULL"},
		{fn("lower", txt("AbC")), "abc"},
		{fn("upper", txt("AbC")), "ABC"},
		{fn("cypher_contains", txt("abc"), lit("")), "true"},
		{fn("cypher_starts_with", txt("abc"), lit("ab")), "true"},
		{fn("cypher_ends_with", txt("abc"), lit("bc")), "true"},
		{fn("cypher_ends_with", txt("abc"), cast(lit(nil), pgsql.Text)), "NULL"},
		{fn("replace", txt("aXbX"), lit("X"), lit("-")), "a-b-"},
		{fn("string_to_array", txt("a,b"), lit(",")), "{a,b}"},
		{pgsql.FunctionCall{Function: "coalesce", Parameters: []pgsql.Expression{cast(lit(nil), pgsql.Text), lit("d")}, CastType: pgsql.Text}, "d"},
		{bin(txt("abc"), pgsql.OperatorRegexMatch, lit("^a.c$")), "true"},
		{bin(txt("abc"), pgsql.OperatorRegexMatch, lit("b")), "true"},
	}
	for i, c := range cases {
		if got := show(mustEval(t, c.e)); got != c.want {
			t.Errorf("case %d: got %s want %s", i, got, c.want)
		}
	}
	wantRuntimeError(t, bin(txt("a"), pgsql.OperatorLike, lit(`a\`)), "LIKE pattern must not end with escape character")
	wantOutside(t, bin(txt("abc"), pgsql.OperatorRegexMatch, lit(`\mabc\M`)), "regular expression")
	// coalesce takes the common type: the untyped literal must be valid input for it even when it is not reached
	wantRuntimeError(t, fn("coalesce", cast(lit(1), pgsql.Int8), lit("x")), "invalid input syntax for type bigint")
	// ... and is lazy for everything else
	wantText(t, fn("coalesce", lit(1), bin(lit(1), pgsql.OperatorDivide, lit(0))), "1")
}

func TestTextOrderingPolicy(t *testing.T) {
	check := func(a, b string, want int, outsideExpected bool) {
		t.Helper()
		c, err := textCompare(a, b)
		if outsideExpected {
			if !IsOutside(err) {
				t.Errorf("textCompare(%q,%q): expected outside, got %d %v", a, b, c, err)
			}
			return
		}
		if err != nil || c != want {
			t.Errorf("textCompare(%q,%q) = %d, %v; want %d", a, b, c, err, want)
		}
	}
	check("alpha", "beta", -1, false)
	check("a", "ab", -1, false)
	check("abc", "abc", 0, false)
	check("a1", "a2", -1, false)
	check("1", "a", -1, false)
	check("Alpha", "beta", -1, false) // both orders agree
	check("B", "a", 0, true)          // C: B < a; en_US: a < B
	check("a b", "a-b", 0, true)      // punctuation is collation specific
	check("S-1-5-21-1", "S-1-5-21-2", -1, false)
	check("é", "f", 0, true)
}

// ---- precedence ------------------------------------------------------------------------------------------------------------

func TestPrecedenceFollowsTheText(t *testing.T) {
	T, F := lit(true), lit(false)
	// AST: (true or false) and false  - printed as "true or false and false" - PostgreSQL: true or (false and false)
	e := bin(bin(T, pgsql.OperatorOr, F), pgsql.OperatorAnd, F)
	p, err := Prepare(selectQ(pgsql.Select{Projection: proj(as(e, "x"))}))
	if err != nil {
		t.Fatal(err)
	}
	if p.PrecedenceRewrites != 1 {
		t.Fatalf("expected one precedence rewrite, got %d", p.PrecedenceRewrites)
	}
	wantText(t, e, "true")
	// with the parentheses the AST meaning is kept
	wantText(t, bin(paren(bin(T, pgsql.OperatorOr, F)), pgsql.OperatorAnd, F), "false")
	// not a = b  is  not (a = b)
	wantText(t, not(bin(lit(1), pgsql.OperatorEquals, lit(2))), "true")
	// AST: not (false and false) printed as "not false and false" is (not false) and false
	wantText(t, not(bin(F, pgsql.OperatorAnd, F)), "false")
	// 2 * (3 + 4) without parentheses prints as 2 * 3 + 4
	wantText(t, bin(lit(2), pgsql.OperatorMultiply, bin(lit(3), pgsql.OperatorAdd, lit(4))), "10")
	// a = b = c is a syntax error in PostgreSQL
	wantRuntimeError(t, bin(bin(lit(1), pgsql.OperatorEquals, lit(1)), pgsql.OperatorEquals, lit(true)), "syntax error")
	// re-association of AND chains is not reported
	p, err = Prepare(selectQ(pgsql.Select{Projection: proj(as(bin(T, pgsql.OperatorAnd, bin(T, pgsql.OperatorAnd, F)), "x"))}))
	if err != nil || p.PrecedenceRewrites != 0 {
		t.Fatalf("AND chain: %v %v", p, err)
	}
}

// ---- joins, lateral, scoping -------------------------------------------------------------------------------------------------

func twoNodeGraph() *gm.Graph {
	return &gm.Graph{
		Nodes: []gm.Node{
			{ID: 1, Kinds: []string{"K1"}, Props: map[string]any{"name": "a"}},
			{ID: 2, Kinds: []string{"K2"}, Props: map[string]any{"name": "b"}},
			{ID: 5, Kinds: nil, Props: map[string]any{}},
		},
		Edges: []gm.Edge{{ID: 1, Start: 1, End: 2, Kind: "E1", Props: map[string]any{}}},
	}
}

func TestLeftJoinNullExtension(t *testing.T) {
	// select n.id, e.id from node n left outer join edge e on e.start_id = n.id order by n.id
	q := selectQ(pgsql.Select{
		Projection: proj(item(col("n", "id")), item(col("e", "id")), item(bin(col("e", "properties"), pgsql.OperatorJSONField, lit("x")))),
		From: []pgsql.FromClause{from(table("node", "n"),
			join(table("edge", "e"), true, bin(col("e", "start_id"), pgsql.OperatorEquals, col("n", "id"))))},
	})
	q.OrderBy = []*pgsql.OrderBy{{Expression: col("n", "id"), Ascending: true}}
	rows, _, err := runQuery(twoNodeGraph(), q)
	if err != nil {
		t.Fatal(err)
	}
	got := ""
	for _, r := range rows {
		got += show(r[0]) + ":" + show(r[1]) + ":" + show(r[2]) + " "
	}
	if got != "1:1:NULL 2:NULL:NULL 5:NULL:NULL " {
		t.Fatalf("left join: %s", got)
	}
	// inner join drops them
	q2 := selectQ(pgsql.Select{
		Projection: proj(item(col("n", "id"))),
		From: []pgsql.FromClause{from(table("node", "n"),
			join(table("edge", "e"), false, bin(col("e", "start_id"), pgsql.OperatorEquals, col("n", "id"))))},
	})
	rows, _, err = runQuery(twoNodeGraph(), q2)
	if err != nil || len(rows) != 1 {
		t.Fatalf("inner join: %v %v", rows, err)
	}
}

func TestLateralScoping(t *testing.T) {
	// select n.id, s.c from node n join lateral (select count(*) as c from edge e where e.start_id = n.id) s on true
	sub := selectQ(pgsql.Select{
		Projection: proj(as(fn("count", pgsql.Wildcard{}), "c")),
		From:       []pgsql.FromClause{from(table("edge", "e"))},
		Where:      bin(col("e", "start_id"), pgsql.OperatorEquals, col("n", "id")),
	})
	q := selectQ(pgsql.Select{
		Projection: proj(item(col("n", "id")), item(col("s", "c"))),
		From:       []pgsql.FromClause{from(table("node", "n"), join(lateral(sub, "s"), false, lit(true)))},
	})
	rows, _, err := runQuery(twoNodeGraph(), q)
	if err != nil {
		t.Fatal(err)
	}
	got := ""
	for _, r := range rows {
		got += show(r[0]) + ":" + show(r[1]) + " "
	}
	if got != "1:1 2:0 5:0 " {
		t.Fatalf("lateral: %s", got)
	}
	// the inner scope shadows: "id" inside the sub-query is edge.id, not node.id
	sub2 := selectQ(pgsql.Select{Projection: proj(item(col("id"))), From: []pgsql.FromClause{from(table("edge", "e"))}})
	q2 := selectQ(pgsql.Select{
		Projection: proj(item(col("n", "id")), as(pgsql.Subquery{Query: sub2}, "inner_id")),
		From:       []pgsql.FromClause{from(table("node", "n"))},
		Where:      bin(col("n", "id"), pgsql.OperatorEquals, lit(5)),
	})
	rows, _, err = runQuery(twoNodeGraph(), q2)
	if err != nil || len(rows) != 1 || rows[0][1].I != 1 {
		t.Fatalf("shadowing: %v %v", rows, err)
	}
	// an ambiguous unqualified column is an error
	q3 := selectQ(pgsql.Select{Projection: proj(item(col("id"))), From: []pgsql.FromClause{from(table("node", "n")), from(table("edge", "e"))}})
	if _, _, err := runQuery(twoNodeGraph(), q3); err == nil || !strings.Contains(err.Error(), "ambiguous") {
		t.Fatalf("ambiguity: %v", err)
	}
	// a scalar sub-query with more than one row is a run-time error
	many := selectQ(pgsql.Select{Projection: proj(item(col("n", "id"))), From: []pgsql.FromClause{from(table("node", "n"))}})
	if _, err := evalExpr(t, twoNodeGraph(), pgsql.Subquery{Query: many}); err == nil || !strings.Contains(err.Error(), "more than one row") {
		t.Fatalf("scalar sub-query: %v", err)
	}
}

// ---- grouping --------------------------------------------------------------------------------------------------------------

func TestAggregates(t *testing.T) {
	src := func(vals ...pgsql.Expression) []pgsql.FromClause {
		return []pgsql.FromClause{from(unnestAs(arr(pgsql.Int8, vals...), "x"))}
	}
	agg := func(f pgsql.FunctionCall, fromClause []pgsql.FromClause) Value {
		t.Helper()
		rows, _, err := runQuery(emptyGraph, selectQ(pgsql.Select{Projection: proj(item(f)), From: fromClause}))
		if err != nil {
			t.Fatal(err)
		}
		if len(rows) != 1 {
			t.Fatalf("aggregate without GROUP BY must give one row, got %d", len(rows))
		}
		return rows[0][0]
	}
	some := src(lit(1), lit(nil), lit(2), lit(2))
	none := src()
	x := col("x")
	checks := []struct {
		name string
		got  Value
		want string
	}{
		{"count(*)", agg(fn("count", pgsql.Wildcard{}), some), "4"},
		{"count(x)", agg(fn("count", x), some), "3"},
		{"count(distinct x)", agg(pgsql.FunctionCall{Function: "count", Distinct: true, Parameters: []pgsql.Expression{x}}, some), "2"},
		{"sum(int8) is numeric", agg(fn("sum", x), some), "5"},
		{"avg", agg(fn("avg", x), some), "1.6666666666666667"},
		{"min", agg(fn("min", x), some), "1"},
		{"max", agg(fn("max", x), some), "2"},
		{"array_agg keeps nulls", agg(fn("array_agg", x), some), "{1,NULL,2,2}"},
		{"count over nothing", agg(fn("count", x), none), "0"},
		{"sum over nothing", agg(fn("sum", x), none), "NULL"},
		{"array_agg over nothing", agg(fn("array_agg", x), none), "NULL"},
		{"max over nothing", agg(fn("max", x), none), "NULL"},
	}
	for _, c := range checks {
		if got := show(c.got); got != c.want {
			t.Errorf("%s: got %s want %s", c.name, got, c.want)
		}
	}
	if v := agg(fn("sum", x), some); v.T != TNumeric {
		t.Errorf("sum(int8) type %s", v.T)
	}
	// GROUP BY: groups in first-seen order, NULL is a group
	rows, _, err := runQuery(emptyGraph, selectQ(pgsql.Select{
		Projection: proj(item(x), item(fn("count", pgsql.Wildcard{}))), From: some, GroupBy: []pgsql.Expression{x}}))
	if err != nil || len(rows) != 3 {
		t.Fatalf("group by: %v %v", rows, err)
	}
	// a column that is neither grouped nor aggregated is rejected
	_, _, err = runQuery(twoNodeGraph(), selectQ(pgsql.Select{
		Projection: proj(item(col("n", "id")), item(fn("count", pgsql.Wildcard{}))), From: []pgsql.FromClause{from(table("node", "n"))}}))
	if err == nil || !strings.Contains(err.Error(), "must appear in the GROUP BY clause") {
		t.Fatalf("ungrouped column: %v", err)
	}
	// DISTINCT treats NULLs as equal
	rows, _, err = runQuery(emptyGraph, selectQ(pgsql.Select{Distinct: true, Projection: proj(item(x)), From: src(lit(nil), lit(1), lit(nil), lit(1))}))
	if err != nil || len(rows) != 2 {
		t.Fatalf("distinct: %v %v", rows, err)
	}
}

func TestLimitAmbiguity(t *testing.T) {
	q := selectQ(pgsql.Select{Projection: proj(item(col("x"))), From: []pgsql.FromClause{from(unnestAs(arr(pgsql.Int8, lit(1), lit(1), lit(2)), "x"))}})
	q.OrderBy = []*pgsql.OrderBy{{Expression: col("x"), Ascending: true}}
	q.Limit = lit(1)
	_, info, err := runQuery(emptyGraph, q)
	if err != nil || !info.AmbiguousLimit {
		t.Fatalf("limit through a tie must be flagged: %+v %v", info, err)
	}
	q.Limit = lit(2)
	_, info, err = runQuery(emptyGraph, q)
	if err != nil || info.AmbiguousLimit {
		t.Fatalf("limit between distinct keys must not be flagged: %+v %v", info, err)
	}
	q.OrderBy = nil
	_, info, err = runQuery(emptyGraph, q)
	if err != nil || !info.AmbiguousLimit {
		t.Fatalf("limit without order must be flagged: %+v %v", info, err)
	}
}

// ---- recursive CTE ---------------------------------------------------------------------------------------------------------

func TestRecursiveCTE(t *testing.T) {
	// with recursive w(next_id, depth, path) as (
	//   select e.end_id, 1, array[e.id] from edge e
	//   union all
	//   select e.end_id, w.depth + 1, w.path || e.id from w join edge e on e.start_id = w.next_id [and e.id != all (w.path)]
	//   where w.depth < 6)
	// select count(*) from w
	build := func(guard bool) pgsql.Query {
		on := bin(col("e", "start_id"), pgsql.OperatorEquals, col("w", "next_id"))
		if guard {
			on = bin(on, pgsql.OperatorAnd, bin(col("e", "id"), pgsql.OperatorNotEquals, allOf(col("w", "path"))))
		}
		seed := pgsql.Select{
			Projection: proj(item(col("e", "end_id")), item(lit(1)), item(pgsql.ArrayLiteral{Values: []pgsql.Expression{col("e", "id")}})),
			From:       []pgsql.FromClause{from(table("edge", "e"))},
		}
		step := pgsql.Select{
			Projection: proj(item(col("e", "end_id")), item(bin(col("w", "depth"), pgsql.OperatorAdd, lit(1))), item(bin(col("w", "path"), pgsql.OperatorConcatenate, col("e", "id")))),
			From:       []pgsql.FromClause{from(table("w", "w"), join(table("edge", "e"), false, on))},
			Where:      bin(col("w", "depth"), pgsql.OperatorLessThan, lit(6)),
		}
		cte := pgsql.CommonTableExpression{
			Alias: pgsql.TableAlias{Name: "w", Shape: pgsql.NewRecordShape([]pgsql.Identifier{"next_id", "depth", "path"})},
			Query: pgsql.Query{Body: pgsql.SetOperation{Operator: pgsql.OperatorUnion, All: true, LOperand: seed, ROperand: step}},
		}
		return pgsql.Query{
			CommonTableExpressions: &pgsql.With{Recursive: true, Expressions: []pgsql.CommonTableExpression{cte}},
			Body:                   pgsql.Select{Projection: proj(item(fn("count", pgsql.Wildcard{}))), From: []pgsql.FromClause{from(table("w", "w"))}},
		}
	}
	cycle := &gm.Graph{
		Nodes: []gm.Node{{ID: 1}, {ID: 2}},
		Edges: []gm.Edge{{ID: 1, Start: 1, End: 2, Kind: "E1"}, {ID: 2, Start: 2, End: 1, Kind: "E1"}},
	}
	rows, _, err := runQuery(cycle, build(true))
	if err != nil {
		t.Fatal(err)
	}
	// with the guard every walk uses an edge once: 2 walks of length 1 and 2 of length 2
	if rows[0][0].I != 4 {
		t.Fatalf("guarded walks: %d", rows[0][0].I)
	}
	rows, _, err = runQuery(cycle, build(false))
	if err != nil {
		t.Fatal(err)
	}
	// without it the depth bound stops the recursion: 2 walks per depth 1..6
	if rows[0][0].I != 12 {
		t.Fatalf("unguarded walks: %d", rows[0][0].I)
	}
}

// ---- soundness policy --------------------------------------------------------------------------------------------------------

func TestOutsidePolicy(t *testing.T) {
	wantOutside(t, fn("unidirectional_sp_harness", lit("select 1"), lit("select 1"), lit(5)), "harness")
	wantOutside(t, fn("no_such_function", lit(1)), "function no_such_function")
	wantOutside(t, cast(lit("2020-01-01"), pgsql.Date), "type")
	wantOutside(t, pgsql.FunctionCall{Function: "count", Parameters: []pgsql.Expression{pgsql.Wildcard{}}, Over: &pgsql.Window{}}, "window")
	if _, err := Prepare(pgsql.Insert{}); !IsOutside(err) {
		t.Fatalf("insert: %v", err)
	}
	if _, err := Prepare(pgsql.Query{Body: pgsql.SetOperation{Operator: "intersect", LOperand: pgsql.Select{}, ROperand: pgsql.Select{}}}); !IsOutside(err) {
		t.Fatalf("intersect: %v", err)
	}
}

func TestNumeric(t *testing.T) {
	p := func(s string) Num {
		n, err := ParseNum(s)
		if err != nil {
			t.Fatal(err)
		}
		return n
	}
	div := func(a, b string) string {
		q, err := p(a).Div(p(b))
		if err != nil {
			t.Fatal(err)
		}
		return q.String()
	}
	// values checked against PostgreSQL's documented select_div_scale behaviour
	for _, c := range [][3]string{
		{"1", "3", "0.33333333333333333333"},
		{"2", "3", "0.66666666666666666667"},
		{"10", "3", "3.3333333333333333"},
		{"100000", "3", "33333.333333333333"},
		{"1", "8", "0.12500000000000000000"},
		{"5", "2", "2.5000000000000000"},
		{"1.50", "0.5", "3.0000000000000000"},
		{"-7", "2", "-3.5000000000000000"},
		{"0", "5", "0.00000000000000000000"},
	} {
		if got := div(c[0], c[1]); got != c[2] {
			t.Errorf("%s / %s = %s, want %s", c[0], c[1], got, c[2])
		}
	}
	if p("1.0").Cmp(p("1")) != 0 || p("1e3").String() != "1000" || p("1.50").String() != "1.50" || p("-0.5").String() != "-0.5" {
		t.Error("numeric parse/print")
	}
	if s, _ := p("1.25").Mul(p("2.0")); s.String() != "2.500" {
		t.Errorf("mul scale: %s", s)
	}
	if i, err := p("2.5").Int64(); err != nil || i != 3 {
		t.Errorf("round half away: %d %v", i, err)
	}
	if i, err := p("-2.5").Int64(); err != nil || i != -3 {
		t.Errorf("round half away: %d %v", i, err)
	}
}
