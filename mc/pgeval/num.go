package pgeval

import (
	"fmt"
	"math"
	"math/big"
	"strconv"
	"strings"
)

// Num is PostgreSQL's numeric: an arbitrary precision decimal coef * 10^-scale (scale >= 0 is the display scale, which
// PostgreSQL keeps: 1.50 prints as "1.50"), or NaN / +-Infinity.
//
// Arithmetic follows src/backend/utils/adt/numeric.c: add/sub use max(scale), mul uses the sum of the scales, div uses
// select_div_scale() and rounds half away from zero.
type Num struct {
	coef  *big.Int
	scale int
	// special: 0 finite, 1 NaN, 2 +Inf, 3 -Inf
	special uint8
}

const (
	numFinite uint8 = iota
	numNaN
	numPosInf
	numNegInf
)

var (
	bigTen  = big.NewInt(10)
	bigZero = big.NewInt(0)
)

func pow10(n int) *big.Int {
	if n <= 0 {
		return big.NewInt(1)
	}
	return new(big.Int).Exp(bigTen, big.NewInt(int64(n)), nil)
}

func NumFromInt(i int64) Num { return Num{coef: big.NewInt(i)} }

// NumFromFloat converts a float8 the way float8_numeric does: through the shortest round-trip decimal text (15 significant
// digits in PostgreSQL: DBL_DIG). PostgreSQL prints with %.15g, so at most 15 significant digits survive.
func NumFromFloat(f float64) (Num, error) {
	switch {
	case math.IsNaN(f):
		return Num{special: numNaN}, nil
	case math.IsInf(f, 1):
		return Num{special: numPosInf}, nil
	case math.IsInf(f, -1):
		return Num{special: numNegInf}, nil
	}
	return ParseNum(strconv.FormatFloat(f, 'g', 15, 64))
}

// ParseNum parses numeric input syntax (no surrounding whitespace): [+-]digits[.digits][e[+-]digits] | NaN | [+-]Infinity|inf.
func ParseNum(s string) (Num, error) {
	orig := s
	bad := func() (Num, error) {
		return Num{}, fmt.Errorf("invalid input syntax for type numeric: %q", orig)
	}
	switch strings.ToLower(s) {
	case "nan":
		return Num{special: numNaN}, nil
	case "infinity", "+infinity", "inf", "+inf":
		return Num{special: numPosInf}, nil
	case "-infinity", "-inf":
		return Num{special: numNegInf}, nil
	}
	neg := false
	if strings.HasPrefix(s, "+") {
		s = s[1:]
	} else if strings.HasPrefix(s, "-") {
		neg = true
		s = s[1:]
	}
	mant := s
	exp := 0
	if i := strings.IndexAny(s, "eE"); i >= 0 {
		mant = s[:i]
		e, err := strconv.Atoi(s[i+1:])
		if err != nil || s[i+1:] == "" {
			return bad()
		}
		if e > 100000 || e < -100000 {
			return bad()
		}
		exp = e
	}
	intPart, fracPart := mant, ""
	if i := strings.IndexByte(mant, '.'); i >= 0 {
		intPart, fracPart = mant[:i], mant[i+1:]
	}
	if intPart == "" && fracPart == "" {
		return bad()
	}
	for _, c := range intPart + fracPart {
		if c < '0' || c > '9' {
			return bad()
		}
	}
	digits := intPart + fracPart
	coef, ok := new(big.Int).SetString(digits, 10)
	if !ok {
		return bad()
	}
	scale := len(fracPart) - exp
	if scale < 0 {
		coef.Mul(coef, pow10(-scale))
		scale = 0
	}
	if neg {
		coef.Neg(coef)
	}
	return Num{coef: coef, scale: scale}, nil
}

func (n Num) IsNaN() bool    { return n.special == numNaN }
func (n Num) IsFinite() bool { return n.special == numFinite }

// String renders like numeric_out: plain decimal notation with exactly scale fractional digits.
func (n Num) String() string {
	switch n.special {
	case numNaN:
		return "NaN"
	case numPosInf:
		return "Infinity"
	case numNegInf:
		return "-Infinity"
	}
	s := new(big.Int).Abs(n.coef).String()
	if n.scale > 0 {
		if len(s) <= n.scale {
			s = strings.Repeat("0", n.scale-len(s)+1) + s
		}
		s = s[:len(s)-n.scale] + "." + s[len(s)-n.scale:]
	}
	if n.coef.Sign() < 0 {
		s = "-" + s
	}
	return s
}

func (n Num) Sign() int {
	switch n.special {
	case numNaN, numPosInf:
		return 1
	case numNegInf:
		return -1
	}
	return n.coef.Sign()
}

func align(a, b Num) (*big.Int, *big.Int, int) {
	switch {
	case a.scale == b.scale:
		return a.coef, b.coef, a.scale
	case a.scale < b.scale:
		return new(big.Int).Mul(a.coef, pow10(b.scale-a.scale)), b.coef, b.scale
	default:
		return a.coef, new(big.Int).Mul(b.coef, pow10(a.scale-b.scale)), a.scale
	}
}

// Cmp orders like numeric_cmp: NaN is equal to NaN and greater than everything else.
func (n Num) Cmp(o Num) int {
	rank := func(x Num) int {
		switch x.special {
		case numNaN:
			return 3
		case numPosInf:
			return 2
		case numNegInf:
			return 0
		}
		return 1
	}
	if n.special != numFinite || o.special != numFinite {
		ra, rb := rank(n), rank(o)
		switch {
		case ra < rb:
			return -1
		case ra > rb:
			return 1
		}
		return 0
	}
	a, b, _ := align(n, o)
	return a.Cmp(b)
}

var errNumSpecial = fmt.Errorf("numeric NaN/Infinity arithmetic")

func (n Num) Add(o Num) (Num, error) {
	if !n.IsFinite() || !o.IsFinite() {
		return Num{}, errNumSpecial
	}
	a, b, s := align(n, o)
	return Num{coef: new(big.Int).Add(a, b), scale: s}, nil
}

func (n Num) Sub(o Num) (Num, error) {
	if !n.IsFinite() || !o.IsFinite() {
		return Num{}, errNumSpecial
	}
	a, b, s := align(n, o)
	return Num{coef: new(big.Int).Sub(a, b), scale: s}, nil
}

func (n Num) Neg() Num {
	switch n.special {
	case numNaN:
		return n
	case numPosInf:
		return Num{special: numNegInf}
	case numNegInf:
		return Num{special: numPosInf}
	}
	return Num{coef: new(big.Int).Neg(n.coef), scale: n.scale}
}

func (n Num) Mul(o Num) (Num, error) {
	if !n.IsFinite() || !o.IsFinite() {
		return Num{}, errNumSpecial
	}
	return Num{coef: new(big.Int).Mul(n.coef, o.coef), scale: n.scale + o.scale}, nil
}

// weightAndFirstDigit returns the base-10000 weight of the most significant NBASE digit and that digit (numeric.c keeps
// numbers as base 10000 digits aligned on the decimal point); zero has weight 0 and digit 0.
func (n Num) weightAndFirstDigit() (int, int) {
	if n.coef.Sign() == 0 {
		return 0, 0
	}
	s := new(big.Int).Abs(n.coef).String()
	// decimal exponent of the leading digit: value = 0.d1d2... * 10^(len-scale); position p = len(s)-scale-1 is the power of
	// ten of the first digit
	p := len(s) - n.scale - 1
	// NBASE weight = floor(p / 4)
	w := p / 4
	if p < 0 && p%4 != 0 {
		w--
	}
	// the first NBASE digit holds the decimal digits of powers 4w+3 .. 4w
	k := p - 4*w + 1 // number of decimal digits of s inside the first NBASE digit
	if k > len(s) {
		// pad with zeros on the right: digits below the stored precision
		d, _ := strconv.Atoi(s + strings.Repeat("0", k-len(s)))
		return w, d
	}
	d, _ := strconv.Atoi(s[:k])
	return w, d
}

const (
	numericMinSigDigits    = 16
	numericMaxDisplayScale = 1000
	decDigits              = 4
)

// selectDivScale transcribes select_div_scale().
func selectDivScale(a, b Num) int {
	w1, d1 := a.weightAndFirstDigit()
	w2, d2 := b.weightAndFirstDigit()
	qweight := w1 - w2
	if d1 <= d2 {
		qweight--
	}
	rscale := numericMinSigDigits - qweight*decDigits
	if rscale < a.scale {
		rscale = a.scale
	}
	if rscale < b.scale {
		rscale = b.scale
	}
	if rscale < 0 {
		rscale = 0
	}
	if rscale > numericMaxDisplayScale {
		rscale = numericMaxDisplayScale
	}
	return rscale
}

func (n Num) Div(o Num) (Num, error) {
	if !n.IsFinite() || !o.IsFinite() {
		return Num{}, errNumSpecial
	}
	if o.coef.Sign() == 0 {
		return Num{}, fmt.Errorf("division by zero")
	}
	rscale := selectDivScale(n, o)
	return n.divScale(o, rscale), nil
}

// divScale computes n/o rounded half away from zero to rscale fractional digits.
func (n Num) divScale(o Num, rscale int) Num {
	// n/o = (a * 10^-sa) / (b * 10^-sb); result coef = round(a * 10^(rscale - sa + sb) / b)
	num := new(big.Int).Set(n.coef)
	den := new(big.Int).Set(o.coef)
	shift := rscale - n.scale + o.scale
	if shift >= 0 {
		num.Mul(num, pow10(shift))
	} else {
		den.Mul(den, pow10(-shift))
	}
	return Num{coef: roundDiv(num, den), scale: rscale}
}

// roundDiv divides rounding half away from zero.
func roundDiv(num, den *big.Int) *big.Int {
	neg := (num.Sign() < 0) != (den.Sign() < 0)
	a := new(big.Int).Abs(num)
	b := new(big.Int).Abs(den)
	q, r := new(big.Int).QuoRem(a, b, new(big.Int))
	if r.Lsh(r, 1).Cmp(b) >= 0 {
		q.Add(q, big.NewInt(1))
	}
	if neg {
		q.Neg(q)
	}
	return q
}

// Round rounds to the given scale (half away from zero), like numeric round(x, scale).
func (n Num) Round(scale int) Num {
	if !n.IsFinite() || scale >= n.scale {
		return n
	}
	return Num{coef: roundDiv(n.coef, pow10(n.scale-scale)), scale: scale}
}

// Int64 converts like numeric_int8: round half away from zero, range check.
func (n Num) Int64() (int64, error) {
	if !n.IsFinite() {
		if n.IsNaN() {
			return 0, fmt.Errorf("cannot convert NaN to bigint")
		}
		return 0, fmt.Errorf("cannot convert infinity to bigint")
	}
	r := n.Round(0)
	if !r.coef.IsInt64() {
		return 0, fmt.Errorf("bigint out of range")
	}
	return r.coef.Int64(), nil
}

// Float64 converts like numeric_float8 (through the decimal text).
func (n Num) Float64() float64 {
	switch n.special {
	case numNaN:
		return math.NaN()
	case numPosInf:
		return math.Inf(1)
	case numNegInf:
		return math.Inf(-1)
	}
	f, _ := strconv.ParseFloat(n.String(), 64)
	return f
}

// IsInt reports whether the value is integral and returns it when it fits int64.
func (n Num) IsInt() (int64, bool) {
	if !n.IsFinite() {
		return 0, false
	}
	if n.scale == 0 {
		if n.coef.IsInt64() {
			return n.coef.Int64(), true
		}
		return 0, false
	}
	q, r := new(big.Int).QuoRem(n.coef, pow10(n.scale), new(big.Int))
	if r.Sign() != 0 || !q.IsInt64() {
		return 0, false
	}
	return q.Int64(), true
}

// hashKey is a canonical text (numerically equal values give the same key): used for DISTINCT / GROUP BY.
func (n Num) hashKey() string {
	if !n.IsFinite() {
		return n.String()
	}
	s := n.String()
	if strings.Contains(s, ".") {
		s = strings.TrimRight(s, "0")
		s = strings.TrimSuffix(s, ".")
	}
	if s == "-0" || s == "" {
		s = "0"
	}
	return s
}
