package pgeval

import (
	"fmt"
	"reflect"
	"strings"

	"github.com/specterops/dawgs/cypher/models/pgsql"
	"github.com/specterops/dawgs/graph"
)

// walkNodes visits every pgsql syntax node reachable from root (compile-time helper, reflection based). visit returns
// false to skip the node's children.
func walkNodes(root any, visit func(n any) bool) {
	syntaxNode := reflect.TypeOf((*pgsql.SyntaxNode)(nil)).Elem()
	var walk func(v reflect.Value, depth int)
	walk = func(v reflect.Value, depth int) {
		if !v.IsValid() || depth > 2000 {
			return
		}
		switch v.Kind() {
		case reflect.Interface, reflect.Ptr:
			if v.IsNil() {
				return
			}
			walk(v.Elem(), depth+1)
			return
		}
		if v.Type().Implements(syntaxNode) && v.CanInterface() {
			if !visit(v.Interface()) {
				return
			}
		}
		switch v.Kind() {
		case reflect.Struct:
			for i := 0; i < v.NumField(); i++ {
				if v.Type().Field(i).IsExported() {
					walk(v.Field(i), depth+1)
				}
			}
		case reflect.Slice, reflect.Array:
			if v.Type().Elem().Kind() == reflect.String {
				return
			}
			for i := 0; i < v.Len(); i++ {
				walk(v.Index(i), depth+1)
			}
		}
	}
	walk(reflect.ValueOf(root), 0)
}

func constExpr(v Value) expr { return func(*run, *env) (Value, error) { return v, nil } }

// literalValue types a literal the way PostgreSQL types the text the formatter prints for it (format.formatValue): the
// literal's CastType is not printed (except for intervals), so an integer literal is int4 / int8 / numeric by magnitude,
// a float64 prints as a decimal (numeric, or an integer when integral), a string is an untyped ('unknown') literal.
func literalValue(l pgsql.Literal) (Value, error) {
	if l.Null {
		return Null(TUnknown), nil
	}
	if l.CastType == pgsql.Interval {
		return Value{}, outside("interval literal")
	}
	intLit := func(i int64) Value {
		// "-5" is lexed as unary minus applied to the constant 5: the constant's magnitude decides the type, so
		// -2147483648 is a bigint
		if i >= -2147483647 && i <= 2147483647 {
			return Int4(i)
		}
		return Int8(i)
	}
	intSlice := func(n int, at func(i int) int64, elem Type) Value {
		out := make([]Value, n)
		for i := range out {
			out[i] = Value{T: elem, I: at(i)}
		}
		return Array(elem, out)
	}
	switch t := l.Value.(type) {
	case string:
		return Unknown(t), nil
	case bool:
		return Bool(t), nil
	case int:
		return intLit(int64(t)), nil
	case int8:
		return intLit(int64(t)), nil
	case int16:
		return intLit(int64(t)), nil
	case int32:
		return intLit(int64(t)), nil
	case int64:
		if t == -1<<63 {
			// -9223372036854775808: the constant 9223372036854775808 does not fit bigint and is numeric
			n, _ := ParseNum("-9223372036854775808")
			return Numeric(n), nil
		}
		return intLit(t), nil
	case uint:
		return uintLit(uint64(t))
	case uint8:
		return intLit(int64(t)), nil
	case uint16:
		return intLit(int64(t)), nil
	case uint32:
		return intLit(int64(t)), nil
	case uint64:
		return uintLit(t)
	case float32:
		return decimalLiteral(float64(t))
	case float64:
		return decimalLiteral(t)
	case []int16:
		return intSlice(len(t), func(i int) int64 { return int64(t[i]) }, TInt2), nil
	case []int8:
		return intSlice(len(t), func(i int) int64 { return int64(t[i]) }, TInt2), nil
	case []int32:
		return intSlice(len(t), func(i int) int64 { return int64(t[i]) }, TInt4), nil
	case []int64:
		return intSlice(len(t), func(i int) int64 { return t[i] }, TInt8), nil
	case []int:
		return intSlice(len(t), func(i int) int64 { return int64(t[i]) }, TInt8), nil
	}
	return Value{}, outside("literal of Go type %T (the formatter cannot print it)", l.Value)
}

func uintLit(u uint64) (Value, error) {
	if u <= 2147483647 {
		return Int4(int64(u)), nil
	}
	if u <= 1<<63-1 {
		return Int8(int64(u)), nil
	}
	n, err := ParseNum(fmt.Sprint(u))
	return Numeric(n), err
}

// decimalLiteral: strconv.FormatFloat(v, 'f', -1, 64) is what reaches PostgreSQL: "2" is an integer constant, "2.5" a
// numeric constant.
func decimalLiteral(f float64) (Value, error) {
	s := fmt.Sprintf("%s", formatFloatF(f))
	if strings.ContainsAny(s, "NI") { // NaN / Inf print as identifiers: not valid SQL
		return Value{}, staticErr("syntax error at or near %q", s)
	}
	neg := strings.HasPrefix(s, "-")
	digits := strings.TrimPrefix(s, "-")
	if !strings.Contains(digits, ".") {
		n, err := ParseNum(digits)
		if err != nil {
			return Value{}, err
		}
		var v Value
		if i, ok := n.IsInt(); ok {
			if i <= 2147483647 {
				v = Int4(i)
			} else {
				v = Int8(i)
			}
		} else {
			v = Numeric(n)
		}
		if neg {
			return negate(v)
		}
		return v, nil
	}
	n, err := ParseNum(digits)
	if err != nil {
		return Value{}, err
	}
	if neg {
		n = n.Neg()
	}
	return Numeric(n), nil
}

func (c *compiler) exprs(list []pgsql.Expression, s *scope) ([]expr, error) {
	out := make([]expr, len(list))
	for i, e := range list {
		x, err := c.expr(e, s)
		if err != nil {
			return nil, err
		}
		out[i] = x
	}
	return out, nil
}

// expr compiles an expression in scope s.
func (c *compiler) expr(e pgsql.Expression, s *scope) (expr, error) {
	if e == nil {
		return nil, outside("missing expression")
	}
	// an expression that matches a GROUP BY expression is constant within a group
	if !s.isQuery && s.grouped && c.inAgg == 0 && c.inGrouped == 0 {
		if key := nodeText(e); key != "" && s.groupedTexts[key] {
			c.inGrouped++
			defer func() { c.inGrouped-- }()
		}
	}
	switch t := e.(type) {
	case pgsql.Literal:
		v, err := literalValue(t)
		if err != nil {
			return nil, err
		}
		return constExpr(v), nil
	case pgsql.Identifier:
		return c.identifier(string(t), s)
	case pgsql.CompoundIdentifier:
		switch len(t) {
		case 1:
			return c.identifier(string(t[0]), s)
		case 2:
			return c.qualified(fold(string(t[0])), fold(string(t[1])), s)
		}
		return nil, outside("identifier with %d parts", len(t))
	case pgsql.RowColumnReference:
		inner, err := c.expr(t.Identifier, s)
		if err != nil {
			return nil, err
		}
		return fieldSelect(inner, fold(string(t.Column))), nil
	case pgsql.CompositeValue:
		fields, err := c.exprs(t.Values, s)
		if err != nil {
			return nil, err
		}
		target := TRecord
		if !t.DataType.IsKnown() {
			// the formatter prints "(a, b)::" + DataType unconditionally
			return nil, staticErr("syntax error at end of composite value (missing type)")
		}
		if t.DataType.IsKnown() {
			tt, anyArr, err := typeOfDataType(t.DataType)
			if err != nil {
				return nil, err
			}
			if anyArr || !tt.IsComposite() {
				return nil, staticErr("cannot cast type record to %s", t.DataType)
			}
			target = tt
		}
		return func(r *run, e *env) (Value, error) {
			vals := make([]Value, len(fields))
			for i, f := range fields {
				v, err := f(r, e)
				if err != nil {
					return Value{}, err
				}
				vals[i] = v
			}
			rec := Composite(TRecord, vals)
			if target == TRecord {
				return rec, nil
			}
			return recordToComposite(rec, target)
		}, nil
	case pgsql.TypeCast:
		inner, err := c.expr(t.Expression, s)
		if err != nil {
			return nil, err
		}
		return c.castExpr(inner, t.CastType)
	case *pgsql.Parenthetical:
		if t == nil {
			return nil, outside("nil parenthetical")
		}
		if sel, isSelect := t.Expression.(pgsql.Select); isSelect {
			return c.scalarSubquery(pgsql.Query{Body: sel}, s)
		}
		return c.expr(t.Expression, s)
	case *pgsql.BinaryExpression:
		if t == nil {
			return nil, outside("nil binary expression")
		}
		return c.operatorExpr(e, s)
	case pgsql.BinaryExpression:
		return c.operatorExpr(&t, s)
	case *pgsql.UnaryExpression:
		if t == nil {
			return nil, outside("nil unary expression")
		}
		return c.operatorExpr(e, s)
	case pgsql.UnaryExpression:
		return c.operatorExpr(&t, s)
	case pgsql.FunctionCall:
		return c.functionCall(t, s)
	case *pgsql.FunctionCall:
		return c.functionCall(*t, s)
	case pgsql.Case:
		return c.caseExpr(t, s)
	case *pgsql.Case:
		return c.caseExpr(*t, s)
	case pgsql.Subquery:
		return c.scalarSubquery(t.Query, s)
	case pgsql.Query:
		return c.scalarSubquery(t, s)
	case pgsql.Select:
		// the formatter prints a bare Select without parentheses; callers that add them (Parenthetical, array(...)) route
		// through selectOperand
		return nil, staticErr("syntax error at or near \"select\" (sub-select without parentheses)")
	case pgsql.ExistsExpression:
		sub, err := c.query(t.Subquery.Query, s)
		if err != nil {
			return nil, err
		}
		negated := t.Negated
		return func(r *run, e *env) (Value, error) {
			rows, err := sub.exec(r, e)
			if err != nil {
				return Value{}, err
			}
			return Bool((len(rows) > 0) != negated), nil
		}, nil
	case pgsql.ArrayExpression:
		var q pgsql.Query
		switch inner := t.Expression.(type) {
		case pgsql.Subquery:
			q = inner.Query
		case pgsql.Query:
			q = inner
		case pgsql.Select:
			q = pgsql.Query{Body: inner}
		default:
			return nil, outside("array(%T)", t.Expression)
		}
		sub, err := c.query(q, s)
		if err != nil {
			return nil, err
		}
		if len(sub.cols) != 1 {
			return nil, staticErr("subquery must return only one column")
		}
		return func(r *run, e *env) (Value, error) {
			rows, err := sub.exec(r, e)
			if err != nil {
				return Value{}, err
			}
			elems := make([]Value, len(rows))
			for i, rw := range rows {
				elems[i] = rw[0]
			}
			return buildArray(elems, TUnknown)
		}, nil
	case pgsql.ArrayLiteral:
		elems, err := c.exprs(t.Values, s)
		if err != nil {
			return nil, err
		}
		hint := TUnknown
		if t.CastType != pgsql.UnsetDataType {
			at, err := t.CastType.ToArrayType()
			if err != nil {
				return nil, outside("array literal of type %q", string(t.CastType))
			}
			tt, anyArr, err := typeOfDataType(at)
			if err != nil {
				return nil, err
			}
			if anyArr {
				return nil, outside("array literal cast to anyarray")
			}
			hint = tt.Elem()
		}
		return func(r *run, e *env) (Value, error) {
			vals := make([]Value, len(elems))
			for i, f := range elems {
				v, err := f(r, e)
				if err != nil {
					return Value{}, err
				}
				vals[i] = v
			}
			if hint == TUnknown {
				return buildArray(vals, TUnknown)
			}
			// array [...]::type[]: an empty or all-unknown ARRAY[] takes the cast's element type directly
			arr, err := buildArray(vals, hint)
			if err != nil {
				return Value{}, err
			}
			return castValue(arr, hint.ArrayOf())
		}, nil
	case pgsql.ArrayIndex:
		return c.arrayIndex(t, s)
	case *pgsql.ArrayIndex:
		return c.arrayIndex(*t, s)
	case pgsql.ArraySlice:
		return c.arraySlice(t, s)
	case *pgsql.ArraySlice:
		return c.arraySlice(*t, s)
	case pgsql.Parameter:
		return c.parameter(t)
	case *pgsql.Parameter:
		return c.parameter(*t)
	case *pgsql.EdgeArrayFromPathIDs:
		if t == nil || t.PathIDs == nil {
			return nil, outside("edge array from path ids without path expression")
		}
		ids, err := c.expr(t.PathIDs, s)
		if err != nil {
			return nil, err
		}
		return func(r *run, e *env) (Value, error) {
			v, err := ids(r, e)
			if err != nil {
				return Value{}, err
			}
			return r.ev.edgeArrayFromPathIDs(v)
		}, nil
	case pgsql.AliasedExpression:
		return c.expr(t.Expression, s)
	case *pgsql.AliasedExpression:
		return c.expr(t.Expression, s)
	case *pgsql.AnyExpression, pgsql.AnyExpression, pgsql.AllExpression, *pgsql.AllExpression:
		return nil, staticErr("ANY/ALL outside a comparison")
	case pgsql.SyntaxNodeFuture:
		if !t.Satisfied() {
			return nil, outside("unsatisfied syntax node future")
		}
		inner, ok := t.Unwrap().(pgsql.Expression)
		if !ok {
			return nil, outside("future of %T", t.Unwrap())
		}
		return c.expr(inner, s)
	case pgsql.Variadic:
		return nil, outside("variadic argument")
	case pgsql.Wildcard:
		return nil, staticErr("* outside count(*)")
	case pgsql.KindListLiteral:
		return nil, outside("kind list literal")
	}
	return nil, outside("expression node %T", e)
}

func (c *compiler) identifier(raw string, s *scope) (expr, error) {
	name := fold(raw)
	ref, found, err := c.resolveColumn(s, "", name)
	if err != nil {
		return nil, err
	}
	if found {
		return c.columnExpr(ref)
	}
	// a FROM alias used as a value: whole-row reference
	for sc := s; sc != nil; sc = sc.parent {
		if sc.isQuery {
			continue
		}
		for _, rel := range sc.rels {
			if rel.alias == name {
				return nil, outside("whole-row reference %q", name)
			}
		}
	}
	return nil, staticErr("column %q does not exist", name)
}

func (c *compiler) qualified(table, col string, s *scope) (expr, error) {
	ref, found, err := c.resolveColumn(s, table, col)
	if err != nil {
		return nil, err
	}
	if found {
		return c.columnExpr(ref)
	}
	if ref.rel != nil {
		if ref.rel.single {
			// alias.field on a function alias: field of the composite value
			whole, err := c.columnExpr(colRef{depth: ref.depth, idx: ref.rel.base, sc: ref.sc, rel: ref.rel})
			if err != nil {
				return nil, err
			}
			return fieldSelect(whole, col), nil
		}
		return nil, staticErr("column %s.%s does not exist", table, col)
	}
	return nil, staticErr("missing FROM-clause entry for table %q", table)
}

// fieldSelect implements (expr).field.
func fieldSelect(inner expr, field string) expr {
	return func(r *run, e *env) (Value, error) {
		v, err := inner(r, e)
		if err != nil {
			return Value{}, err
		}
		names, types := compositeFields(v.T)
		if names == nil {
			if v.T == TRecord {
				return Value{}, staticErr("could not identify column %q in record data type", field)
			}
			if v.T == TNullAny {
				return NullAny(), nil
			}
			return Value{}, staticErr("column notation .%s applied to type %s, which is not a composite type", field, v.T)
		}
		for i, n := range names {
			if n == field {
				if v.Null {
					return Null(types[i]), nil
				}
				return v.A()[i], nil
			}
		}
		return Value{}, staticErr("column %q not found in data type %s", field, v.T)
	}
}

func (c *compiler) castExpr(inner expr, dt pgsql.DataType) (expr, error) {
	t, anyArr, err := typeOfDataType(dt)
	if err != nil {
		return nil, err
	}
	if anyArr {
		// expr::anyarray - a relabelling that PostgreSQL accepts for array inputs
		return func(r *run, e *env) (Value, error) {
			v, err := inner(r, e)
			if err != nil {
				return Value{}, err
			}
			if v.T == TNullAny {
				return v, nil
			}
			if v.T == TUnknown {
				return Value{}, outside("cast of an untyped value to anyarray")
			}
			if !v.T.IsArray() {
				return Value{}, staticErr("cannot cast type %s to anyarray", v.T)
			}
			return v, nil
		}, nil
	}
	return func(r *run, e *env) (Value, error) {
		v, err := inner(r, e)
		if err != nil {
			return Value{}, err
		}
		return castValue(v, t)
	}, nil
}

// buildArray resolves the element type of ARRAY[...] / ARRAY(subquery): the common type of the elements (unknown literals
// adapt; all-unknown gives text). hint is used for an empty or all-unknown element list.
func buildArray(vals []Value, hint Type) (Value, error) {
	elem := TUnknown
	for _, v := range vals {
		if v.T == TUnknown || v.T == TNullAny {
			continue
		}
		switch {
		case elem == TUnknown:
			elem = v.T
		case elem == v.T:
		case elem.IsNumeric() && v.T.IsNumeric():
			elem = commonNumeric(elem, v.T)
		default:
			return Value{}, staticErr("ARRAY types %s and %s cannot be matched", elem, v.T)
		}
	}
	if elem == TUnknown {
		elem = hint
		if elem == TUnknown {
			if len(vals) == 0 {
				return Value{}, staticErr("cannot determine type of empty array")
			}
			elem = TText
		}
	}
	if elem.IsArray() {
		return Value{}, outside("multi-dimensional array")
	}
	out := make([]Value, len(vals))
	for i, v := range vals {
		var err error
		switch {
		case v.T == elem:
			out[i] = v
		case v.T == TUnknown:
			if out[i], err = coerceUnknown(v, elem); err != nil {
				return Value{}, err
			}
		case v.T == TNullAny:
			out[i] = Null(elem)
		default:
			if out[i], err = castValue(v, elem); err != nil {
				return Value{}, err
			}
		}
	}
	return Array(elem, out), nil
}

func commonNumeric(a, b Type) Type {
	rank := func(t Type) int {
		switch t {
		case TInt2:
			return 1
		case TInt4:
			return 2
		case TInt8:
			return 3
		case TNumeric:
			return 4
		case TFloat4:
			return 5
		case TFloat8:
			return 6
		}
		return 0
	}
	if rank(a) >= rank(b) {
		return a
	}
	return b
}

func (c *compiler) scalarSubquery(q pgsql.Query, s *scope) (expr, error) {
	sub, err := c.query(q, s)
	if err != nil {
		return nil, err
	}
	if len(sub.cols) != 1 {
		return nil, staticErr("subquery must return only one column")
	}
	return func(r *run, e *env) (Value, error) {
		rows, err := sub.exec(r, e)
		if err != nil {
			return Value{}, err
		}
		switch len(rows) {
		case 0:
			return NullAny(), nil
		case 1:
			return rows[0][0], nil
		}
		return Value{}, rtErr("more than one row returned by a subquery used as an expression")
	}, nil
}

func (c *compiler) caseExpr(t pgsql.Case, s *scope) (expr, error) {
	if len(t.Conditions) != len(t.Then) {
		return nil, outside("malformed CASE")
	}
	var operand expr
	var err error
	if t.Operand != nil {
		if operand, err = c.expr(t.Operand, s); err != nil {
			return nil, err
		}
	}
	conds, err := c.exprs(t.Conditions, s)
	if err != nil {
		return nil, err
	}
	thens, err := c.exprs(t.Then, s)
	if err != nil {
		return nil, err
	}
	var els expr
	if t.Else != nil {
		if els, err = c.expr(t.Else, s); err != nil {
			return nil, err
		}
	}
	return func(r *run, e *env) (Value, error) {
		var op Value
		if operand != nil {
			if op, err = operand(r, e); err != nil {
				return Value{}, err
			}
		}
		for i, cond := range conds {
			v, err := cond(r, e)
			if err != nil {
				return Value{}, err
			}
			if operand != nil {
				if v, err = compareOp(pgsql.OperatorEquals, op, v); err != nil {
					return Value{}, err
				}
			}
			ok, err := truthy(v)
			if err != nil {
				return Value{}, err
			}
			if ok {
				return thens[i](r, e)
			}
		}
		if els != nil {
			return els(r, e)
		}
		return NullAny(), nil
	}, nil
}

func (c *compiler) arrayIndex(t pgsql.ArrayIndex, s *scope) (expr, error) {
	if !isPostfixOperand(t.Expression) {
		return nil, outside("subscript applied to an unparenthesised %T", t.Expression)
	}
	base, err := c.expr(t.Expression, s)
	if err != nil {
		return nil, err
	}
	if len(t.Indexes) != 1 {
		return nil, outside("array subscript with %d indexes", len(t.Indexes))
	}
	idx, err := c.expr(t.Indexes[0], s)
	if err != nil {
		return nil, err
	}
	return func(r *run, e *env) (Value, error) {
		a, err := base(r, e)
		if err != nil {
			return Value{}, err
		}
		i, err := idx(r, e)
		if err != nil {
			return Value{}, err
		}
		if a.T == TNullAny {
			return NullAny(), nil
		}
		if a.T == TJSONB {
			return Value{}, outside("jsonb subscripting")
		}
		if !a.T.IsArray() {
			return Value{}, staticErr("cannot subscript type %s because it does not support subscripting", a.T)
		}
		if i.T == TUnknown {
			if i, err = coerceUnknown(i, TInt4); err != nil {
				return Value{}, err
			}
		}
		if !i.T.IsInt() {
			return Value{}, staticErr("array subscript must have type integer")
		}
		if a.Null || i.Null || i.I < 1 || i.I > int64(len(a.A())) {
			return Null(a.T.Elem()), nil
		}
		return a.A()[i.I-1], nil
	}, nil
}

func (c *compiler) arraySlice(t pgsql.ArraySlice, s *scope) (expr, error) {
	if !isPostfixOperand(t.Expression) {
		return nil, outside("slice applied to an unparenthesised %T", t.Expression)
	}
	base, err := c.expr(t.Expression, s)
	if err != nil {
		return nil, err
	}
	var lo, hi expr
	if t.Lower != nil {
		if lo, err = c.expr(t.Lower, s); err != nil {
			return nil, err
		}
	}
	if t.Upper != nil {
		if hi, err = c.expr(t.Upper, s); err != nil {
			return nil, err
		}
	}
	bound := func(r *run, e *env, x expr) (Value, bool, error) {
		if x == nil {
			return Value{}, false, nil
		}
		v, err := x(r, e)
		if err != nil {
			return Value{}, false, err
		}
		if v.T == TUnknown {
			if v, err = coerceUnknown(v, TInt4); err != nil {
				return Value{}, false, err
			}
		}
		if !v.T.IsInt() {
			return Value{}, false, staticErr("array subscript must have type integer")
		}
		return v, true, nil
	}
	return func(r *run, e *env) (Value, error) {
		a, err := base(r, e)
		if err != nil {
			return Value{}, err
		}
		if a.T == TNullAny {
			return NullAny(), nil
		}
		if !a.T.IsArray() {
			return Value{}, staticErr("cannot subscript type %s because it does not support subscripting", a.T)
		}
		l, hasL, err := bound(r, e, lo)
		if err != nil {
			return Value{}, err
		}
		h, hasH, err := bound(r, e, hi)
		if err != nil {
			return Value{}, err
		}
		if a.Null || (hasL && l.Null) || (hasH && h.Null) {
			return Null(a.T), nil
		}
		from, to := int64(1), int64(len(a.A()))
		if hasL && l.I > from {
			from = l.I
		}
		if hasH && h.I < to {
			to = h.I
		}
		if from > to {
			return Array(a.T.Elem(), nil), nil
		}
		return Array(a.T.Elem(), append([]Value(nil), a.A()[from-1:to]...)), nil
	}, nil
}

// isPostfixOperand: the formatter prints expr[idx] without parentheses around expr; only primary expressions keep their
// meaning in that position.
func isPostfixOperand(e pgsql.Expression) bool {
	switch t := e.(type) {
	case pgsql.Identifier, pgsql.CompoundIdentifier, *pgsql.Parenthetical, pgsql.RowColumnReference, pgsql.FunctionCall,
		*pgsql.FunctionCall, pgsql.ArrayIndex, *pgsql.ArrayIndex, pgsql.Subquery, pgsql.Parameter, *pgsql.Parameter,
		pgsql.ArrayExpression:
		return true
	case pgsql.ArrayLiteral:
		return t.CastType == pgsql.UnsetDataType
	case pgsql.SyntaxNodeFuture:
		if t.Satisfied() {
			if inner, ok := t.Unwrap().(pgsql.Expression); ok {
				return isPostfixOperand(inner)
			}
		}
	}
	return false
}

// ---------------------------------------------------------------------------------------------------------------------
// parameters
// ---------------------------------------------------------------------------------------------------------------------

func (c *compiler) parameter(p pgsql.Parameter) (expr, error) {
	name := string(p.Identifier)
	var cast *Type
	if p.CastType != pgsql.UnsetDataType && p.CastType != pgsql.UnknownDataType {
		t, anyArr, err := typeOfDataType(p.CastType)
		if err != nil {
			return nil, err
		}
		if anyArr {
			return nil, outside("parameter cast to anyarray")
		}
		cast = &t
	}
	return func(r *run, e *env) (Value, error) {
		raw, ok := r.params[name]
		if !ok {
			return Value{}, rtErr("there is no parameter @%s", name)
		}
		if cast == nil {
			// the parameter's type is inferred by PostgreSQL from its context and the driver encodes the Go value for that
			// type; pgeval models that for values whose text form is unambiguous
			return paramValue(raw, TUnknown)
		}
		return paramValue(raw, *cast)
	}, nil
}

// paramValue converts a Go parameter value to a value of the declared type t (@name::t); with t unknown the value keeps
// its natural type, strings stay untyped (they adapt to their context like an untyped literal would: the extended
// protocol infers the parameter type from the context the same way).
func paramValue(raw any, t Type) (Value, error) {
	natural, err := goValue(raw)
	if err != nil {
		return Value{}, err
	}
	if t == TUnknown {
		if natural.T == TText {
			natural.T = TUnknown
		}
		return natural, nil
	}
	if natural.Null {
		return Null(t), nil
	}
	if natural.T == t {
		return natural, nil
	}
	switch {
	case natural.T == TText:
		// the driver sends the string in text format and PostgreSQL applies the input function of the declared type
		return inputValue(natural.S, t)
	case natural.T.IsNumeric() && t.IsNumeric():
		if t.IsInt() && !natural.T.IsInt() {
			// pgx refuses to encode a non-integral float into an integer parameter
			f := toFloat(natural)
			if f != float64(int64(f)) {
				return Value{}, rtErr("cannot encode %v into a parameter of type %s", f, t)
			}
		}
		return castValue(natural, t)
	case natural.T.IsArray() && t.IsArray():
		out := make([]Value, len(natural.A()))
		for i, el := range natural.A() {
			if el.Null {
				out[i] = Null(t.Elem())
				continue
			}
			switch {
			case el.T == t.Elem():
				out[i] = el
			case el.T == TText:
				if out[i], err = inputValue(el.S, t.Elem()); err != nil {
					return Value{}, err
				}
			case el.T.IsNumeric() && t.Elem().IsNumeric():
				if out[i], err = castValue(el, t.Elem()); err != nil {
					return Value{}, err
				}
			case t.Elem() == TText:
				return Value{}, outside("non-string element in a text[] parameter")
			default:
				return Value{}, outside("parameter element of type %s for %s", el.T, t)
			}
		}
		return Array(t.Elem(), out), nil
	case t == TJSONB:
		j, err := toJSON(raw)
		if err != nil {
			return Value{}, outside("jsonb parameter: %v", err)
		}
		return JSONB(j), nil
	case t == TText:
		return Value{}, outside("parameter of Go type %T declared text", raw)
	}
	return Value{}, outside("parameter of Go type %T declared %s", raw, t)
}

// goValue gives a Go parameter value its natural SQL type (pgsql.ValueToDataType).
func goValue(raw any) (Value, error) {
	switch t := raw.(type) {
	case nil:
		return Null(TUnknown), nil
	case string:
		return Text(t), nil
	case bool:
		return Bool(t), nil
	case int:
		return Int8(int64(t)), nil
	case int64:
		return Int8(t), nil
	case int32:
		return Int4(int64(t)), nil
	case int16:
		return Int2(int64(t)), nil
	case int8:
		return Int2(int64(t)), nil
	case uint8:
		return Int2(int64(t)), nil
	case uint16:
		return Int4(int64(t)), nil
	case uint32:
		return Int8(int64(t)), nil
	case uint64:
		if t > 1<<63-1 {
			return Value{}, outside("uint64 parameter above the bigint range")
		}
		return Int8(int64(t)), nil
	case uint:
		return Int8(int64(t)), nil
	case graph.ID:
		return Int8(int64(t)), nil
	case float64:
		return Float8(t), nil
	case float32:
		return Value{T: TFloat4, I: floatBits(float64(t))}, nil
	case []string:
		out := make([]Value, len(t))
		for i, s := range t {
			out[i] = Text(s)
		}
		return Array(TText, out), nil
	case []int64:
		out := make([]Value, len(t))
		for i, s := range t {
			out[i] = Int8(s)
		}
		return Array(TInt8, out), nil
	case []int:
		out := make([]Value, len(t))
		for i, s := range t {
			out[i] = Int8(int64(s))
		}
		return Array(TInt8, out), nil
	case []int32:
		out := make([]Value, len(t))
		for i, s := range t {
			out[i] = Int4(int64(s))
		}
		return Array(TInt4, out), nil
	case []int16:
		out := make([]Value, len(t))
		for i, s := range t {
			out[i] = Int2(int64(s))
		}
		return Array(TInt2, out), nil
	case []float64:
		out := make([]Value, len(t))
		for i, s := range t {
			out[i] = Float8(s)
		}
		return Array(TFloat8, out), nil
	case []any:
		vals := make([]Value, len(t))
		for i, el := range t {
			v, err := goValue(el)
			if err != nil {
				return Value{}, err
			}
			vals[i] = v
		}
		if len(vals) == 0 {
			return Value{}, outside("empty []any parameter (element type unknown)")
		}
		arr, err := buildArray(vals, TUnknown)
		if err != nil {
			return Value{}, outside("heterogeneous []any parameter")
		}
		return arr, nil
	case map[string]any:
		j, err := toJSON(t)
		if err != nil {
			return Value{}, outside("map parameter: %v", err)
		}
		return JSONB(j), nil
	}
	// pgtype.JSONB (the translator wraps map parameters): {Bytes []byte; Status pgtype.Status}, Present = 2, Null = 1
	if rv := reflect.ValueOf(raw); rv.Kind() == reflect.Struct && rv.Type().String() == "pgtype.JSONB" {
		status := rv.FieldByName("Status")
		bytesField := rv.FieldByName("Bytes")
		if status.IsValid() && bytesField.IsValid() && bytesField.Kind() == reflect.Slice && status.CanUint() {
			switch status.Uint() {
			case 1:
				return Null(TJSONB), nil
			case 2:
				j, err := parseJSONB(string(bytesField.Bytes()))
				if err != nil {
					return Value{}, err
				}
				return JSONB(j), nil
			}
		}
	}
	return Value{}, outside("parameter of Go type %T", raw)
}
