package xlate

import (
	"fmt"
	"os"
	"runtime"
	"sync"

	"github.com/specterops/dawgs/cypher/models/cypher"
	"github.com/specterops/dawgs/cypher/models/walk"

	"verif/enum/cyq"
)

// Item is one query of the shared input space of C03-C06: an enumerated text or a corpus text with its parameters.
type Item struct {
	Text     string         `json:"text"`
	Params   map[string]any `json:"params,omitempty"`
	Source   string         `json:"source"` // "enum" or the corpus file#case
	Features []string       `json:"features,omitempty"`
}

// AllOptions enables every feature family of the enumerator.
var AllOptions = cyq.Options{Parameters: true, ShortestPaths: true, Updating: true}

// Items returns the enumeration with at most k features (all families), the cross-clause data-flow family and every
// corpus query.
func Items(k int) []Item {
	var out []Item
	opt := AllOptions
	opt.SkipParseCheck = true // every consumer parses each text through ParseItem
	for _, q := range cyq.EnumerateWith(k, opt) {
		out = append(out, Item{Text: q.Text, Source: "enum", Features: q.Features})
	}
	// cross-clause data flow: texts the parser rejects are dropped by Dataflow itself, so they carry their own source
	dopt := AllOptions
	for _, q := range cyq.Dataflow(dopt) {
		out = append(out, Item{Text: q.Text, Source: "dataflow", Features: q.Features})
	}
	// function calls at every arity (texts the parser rejects are dropped by the consumers), several staged paths
	for _, q := range cyq.Calls() {
		if _, err := cyq.Parse(q.Text); err == nil {
			out = append(out, Item{Text: q.Text, Source: "calls", Features: q.Features})
		}
	}
	for _, c := range cyq.Corpus() {
		out = append(out, Item{Text: c.Text, Params: c.Params, Source: c.Source})
	}
	return out
}

// ParseItem parses an item's text; a rejected *enumerated* text is a bug of the enumerator (machinery failure), a
// rejected corpus text is an ordinary outcome (the corpora contain parser-negative cases).
func ParseItem(it Item) (*cypher.RegularQuery, error) {
	q, err := cyq.Parse(it.Text)
	if err != nil && it.Source == "enum" {
		fmt.Fprintf(os.Stderr, "MACHINERY-FAILURE: enumerated text rejected by the parser: %q (features %v): %v\n", it.Text, it.Features, err)
		os.Exit(2)
	}
	return q, err
}

// Parallel runs f(i) for i in [0,n) on all CPUs; f must be safe for concurrent use. worker is the goroutine index.
func Parallel(n int, f func(worker, i int)) {
	workers := runtime.NumCPU()
	if workers > 16 {
		workers = 16
	}
	if workers < 1 {
		workers = 1
	}
	var wg sync.WaitGroup
	for w := 0; w < workers; w++ {
		wg.Add(1)
		go func(w int) {
			defer wg.Done()
			for i := w; i < n; i += workers {
				f(w, i)
			}
		}(w)
	}
	wg.Wait()
}

// Workers is the number of goroutines Parallel uses.
func Workers() int {
	w := runtime.NumCPU()
	if w > 16 {
		w = 16
	}
	if w < 1 {
		w = 1
	}
	return w
}

// HasUpdatingClause reports whether the Cypher model contains CREATE / SET / REMOVE / DELETE / MERGE.
func HasUpdatingClause(q *cypher.RegularQuery) (found bool, walked bool) {
	err := walk.Cypher(q, walk.NewSimpleVisitor[cypher.SyntaxNode](func(node cypher.SyntaxNode, _ walk.VisitorHandler) {
		switch node.(type) {
		case *cypher.UpdatingClause, *cypher.Create, *cypher.Delete, *cypher.Set, *cypher.Remove, *cypher.Merge:
			found = true
		}
	}))
	return found, err == nil
}
