// Package xlate wraps the Cypher -> PostgreSQL translator for the checks C03-C06: parse with the real parser,
// translate under recover, render, and report the outcome as plain data.
package xlate

import (
	"context"
	"encoding/json"
	"fmt"
	"runtime/debug"
	"sort"
	"strings"

	"github.com/specterops/dawgs/cypher/models/cypher"
	"github.com/specterops/dawgs/cypher/models/pgsql"
	"github.com/specterops/dawgs/cypher/models/pgsql/translate"
	"github.com/specterops/dawgs/cypher/models/walk"

	"verif/enum/cyq"
)

// Outcome of one translation.
type Outcome struct {
	ParseErr string
	Err      string // translator (or formatter) returned an error
	Panic    string // recovered panic value ("" if none)
	Stack    string
	SQL      string
	Params   map[string]any
	Result   translate.Result
	Query    *cypher.RegularQuery
}

func (o *Outcome) OK() bool { return o.ParseErr == "" && o.Err == "" && o.Panic == "" }

// Kind is "ok", "error", "panic" or "parse-error".
func (o *Outcome) Kind() string {
	switch {
	case o.ParseErr != "":
		return "parse-error"
	case o.Panic != "":
		return "panic"
	case o.Err != "":
		return "error"
	}
	return "ok"
}

// Text translates a query text. params (may be nil) is passed to Translate as the caller's parameter map.
func Text(text string, km pgsql.KindMapper, params map[string]any) *Outcome {
	q, err := cyq.Parse(text)
	if err != nil {
		return &Outcome{ParseErr: err.Error()}
	}
	return AST(q, km, params)
}

// AST translates a parsed query under recover.
func AST(q *cypher.RegularQuery, km pgsql.KindMapper, params map[string]any) (out *Outcome) {
	out = &Outcome{Query: q}
	defer func() {
		if p := recover(); p != nil {
			out.Panic = fmt.Sprint(p)
			out.Stack = trimStack(string(debug.Stack()))
		}
	}()
	res, err := translate.Translate(context.Background(), q, km, params, translate.DefaultGraphID)
	if err != nil {
		out.Err = err.Error()
		return out
	}
	out.Result = res
	out.Params = res.Parameters
	sql, err := translate.Translated(res)
	if err != nil {
		out.Err = "format: " + err.Error()
		return out
	}
	out.SQL = sql
	return out
}

// SetParameterValues stores values into the Parameter nodes of the AST (what the repository's test harness does with
// "cypher_params").
func SetParameterValues(q *cypher.RegularQuery, params map[string]any) {
	if len(params) == 0 {
		return
	}
	_ = walk.Cypher(q, walk.NewSimpleVisitor[cypher.SyntaxNode](func(node cypher.SyntaxNode, _ walk.VisitorHandler) {
		if p, ok := node.(*cypher.Parameter); ok {
			if v, has := params[p.Symbol]; has {
				p.Value = v
			}
		}
	}))
}

// ParameterSymbols lists the $names of a query in first-occurrence order.
func ParameterSymbols(q *cypher.RegularQuery) []string {
	var out []string
	seen := map[string]bool{}
	_ = walk.Cypher(q, walk.NewSimpleVisitor[cypher.SyntaxNode](func(node cypher.SyntaxNode, _ walk.VisitorHandler) {
		if p, ok := node.(*cypher.Parameter); ok && !seen[p.Symbol] {
			seen[p.Symbol] = true
			out = append(out, p.Symbol)
		}
	}))
	return out
}

// VariableSymbols lists the variable symbols of a query in first-occurrence order.
func VariableSymbols(q *cypher.RegularQuery) []string {
	var out []string
	seen := map[string]bool{}
	_ = walk.Cypher(q, walk.NewSimpleVisitor[cypher.SyntaxNode](func(node cypher.SyntaxNode, _ walk.VisitorHandler) {
		if v, ok := node.(*cypher.Variable); ok && v != nil && !seen[v.Symbol] {
			seen[v.Symbol] = true
			out = append(out, v.Symbol)
		}
	}))
	return out
}

// ParamsJSON renders a parameter map canonically (sorted keys).
func ParamsJSON(m map[string]any) string {
	if m == nil {
		return "null"
	}
	keys := make([]string, 0, len(m))
	for k := range m {
		keys = append(keys, k)
	}
	sort.Strings(keys)
	var sb strings.Builder
	sb.WriteString("{")
	for i, k := range keys {
		if i > 0 {
			sb.WriteString(",")
		}
		b, err := json.Marshal(m[k])
		if err != nil {
			b = []byte(fmt.Sprintf("%q", fmt.Sprintf("%#v", m[k])))
		}
		fmt.Fprintf(&sb, "%q:%T:%s", k, m[k], b)
	}
	sb.WriteString("}")
	return sb.String()
}

func trimStack(s string) string {
	lines := strings.Split(s, "\n")
	var keep []string
	for _, l := range lines {
		if strings.Contains(l, "github.com/specterops/dawgs/") && !strings.HasPrefix(l, "\t") {
			keep = append(keep, strings.TrimSpace(l))
			if len(keep) == 6 {
				break
			}
		}
	}
	return strings.Join(keep, " <- ")
}

// PanicSite returns a short stable name of where a panic came from (first DAWGS frame), for classification.
func (o *Outcome) PanicSite() string {
	if o.Stack == "" {
		return ""
	}
	first := strings.Split(o.Stack, " <- ")[0]
	if i := strings.Index(first, "("); i > 0 {
		// strip argument list of the frame
		if j := strings.LastIndex(first, "("); j > 0 {
			first = first[:j]
		}
	}
	return strings.TrimPrefix(first, "github.com/specterops/dawgs/")
}

// Mapper is a kind mapper private to one goroutine (InMemoryKindMapper.AssertKinds mutates it).
type Mapper struct {
	KindMapper pgsql.KindMapper
}

// NewMapper returns a fresh mapper that knows every corpus and enumeration kind.
func NewMapper() *Mapper { return &Mapper{KindMapper: cyq.KindMapper()} }
