// Command c18 decides property C18 (dump followed by load reproduces the graph; the manifest describes exactly the
// files written; Verify succeeds exactly when the graphs match) by exhaustive enumeration of small source databases x
// codecs x shard/batch sizes against an in-memory graph.Database.
package main

import (
	"context"
	"encoding/json"
	"errors"
	"fmt"
	"os"
	"path/filepath"
	"strings"

	"github.com/specterops/dawgs/retriever"

	"verif/core"
	"verif/fakedb"
	"verif/rtk"
)

// Enumeration ----------------------------------------------------------------------------------------------------------------

var (
	nodeIDs  = []uint64{1, 5, 1 << 33, 1<<33 + 7}
	edgeIDs  = []uint64{40, 7, 1<<34 + 1}
	kindSets = [][]string{nil, {"A"}, {"B"}, {"B", "A"}}
	edgeKind = []string{"R", "S"}
	values   = []any{int64(1), int64(-1), int64(1<<53 + 1), 1.5, "", "é😀", true, nil,
		[]any{int64(1), []any{int64(2)}}, map[string]any{"k": map[string]any{"j": []any{}}},
		uint64(1<<63 + 5), []any{map[string]any{"u": uint64(1<<64 - 1)}}}
	codecs = []string{"none", "gzip", "zstd"}
)

func propsFor(salt, t int) map[string]any {
	nv := len(values)
	switch p := (salt + t) % (nv + 2); {
	case p < nv:
		return map[string]any{"p": values[p]}
	case p == nv:
		return nil
	default:
		return map[string]any{"p": values[salt%nv], "é😀": values[(salt+3)%nv], "": values[(salt+6)%nv]}
	}
}

type edgeType struct {
	s, e int
	kind string
}

// shapes enumerates every graph with exactly n nodes (kind sets from kindSets) and at most maxEdges relationships
// (any endpoints incl. self loops, kinds R/S, parallel relationships incl. identical ones). Node storage order is
// descending by ID, relationship IDs are not in listing order.
func shapes(n, maxEdges int, name string, idOffset uint64, emit func(*fakedb.Graph)) {
	var types []edgeType
	for s := 0; s < n; s++ {
		for e := 0; e < n; e++ {
			for _, k := range edgeKind {
				types = append(types, edgeType{s, e, k})
			}
		}
	}
	kinds := make([]int, n)
	salt := 0
	var edgesRec func(chosen []int, from int)
	build := func(chosen []int) {
		g := &fakedb.Graph{Name: name}
		t := 0
		for i := n - 1; i >= 0; i-- {
			g.Nodes = append(g.Nodes, &fakedb.Node{ID: nodeIDs[i] + idOffset, Kinds: kindSets[kinds[i]], Props: propsFor(salt, t)})
			t++
		}
		for i, c := range chosen {
			et := types[c]
			g.Edges = append(g.Edges, &fakedb.Edge{ID: edgeIDs[i], Start: nodeIDs[et.s] + idOffset, End: nodeIDs[et.e] + idOffset, Kind: et.kind, Props: propsFor(salt, t)})
			t++
		}
		salt++
		emit(g)
	}
	edgesRec = func(chosen []int, from int) {
		build(chosen)
		if len(chosen) == maxEdges {
			return
		}
		for c := from; c < len(types); c++ {
			edgesRec(append(chosen, c), c)
		}
	}
	var kindsRec func(i int)
	kindsRec = func(i int) {
		if i == n {
			edgesRec(nil, 0)
			return
		}
		for k := range kindSets {
			kinds[i] = k
			kindsRec(i + 1)
		}
	}
	kindsRec(0)
}

type item struct {
	Spec    fakedb.Spec
	Configs []rtk.Config
}

func allConfigs(sizes []int) []rtk.Config {
	var out []rtk.Config
	for _, c := range codecs {
		for _, s := range sizes {
			for _, d := range sizes {
				for _, l := range sizes {
					out = append(out, rtk.Config{Codec: c, Shard: s, DumpBatch: d, LoadBatch: l})
				}
			}
		}
	}
	return out
}

// diagConfigs: codec x shard x (dump batch = load batch).
func diagConfigs(sizes []int) []rtk.Config {
	var out []rtk.Config
	for _, c := range codecs {
		for _, s := range sizes {
			for _, d := range sizes {
				out = append(out, rtk.Config{Codec: c, Shard: s, DumpBatch: d, LoadBatch: d})
			}
		}
	}
	return out
}

func workItems(tier core.Tier) []item {
	var items []item
	full := allConfigs([]int{1, 2, 3})
	maxN := 2
	if tier == core.Thorough {
		maxN = 3
	}
	var single []*fakedb.Graph
	for n := 0; n <= maxN; n++ {
		cfgs := full
		if n == 3 {
			cfgs = diagConfigs([]int{1, 2, 3, 4})
		}
		shapes(n, 2, "default", 0, func(g *fakedb.Graph) {
			items = append(items, item{Spec: fakedb.Spec{Graphs: []*fakedb.Graph{g}}, Configs: cfgs})
			if n <= 2 {
				single = append(single, g)
			}
		})
	}
	// property sweep: every value of the domain at every position of a fixed 2-node / 1-relationship graph, and pairs
	for i, v := range values {
		for pos := 0; pos < 3; pos++ {
			g := &fakedb.Graph{Name: "default", Nodes: []*fakedb.Node{{ID: 5, Kinds: []string{"A"}}, {ID: 1, Kinds: []string{"B"}}},
				Edges: []*fakedb.Edge{{ID: 9, Start: 1, End: 5, Kind: "R"}}}
			p := map[string]any{"v": v, "w": values[(i+1)%len(values)], "nested": map[string]any{"list": []any{v, values[(i+4)%len(values)]}}}
			switch pos {
			case 0:
				g.Nodes[0].Props = p
			case 1:
				g.Nodes[1].Props = p
			default:
				g.Edges[0].Props = p
			}
			items = append(items, item{Spec: fakedb.Spec{Graphs: []*fakedb.Graph{g}}, Configs: diagConfigs([]int{1, 2})})
		}
	}
	// two-graph databases: the second graph has an escaping name, partly overlapping source IDs, and a shape paired
	// deterministically with the first
	second := []*fakedb.Graph{}
	for n := 0; n <= 2; n++ {
		shapes(n, 2, "a b/ü%2F", 4, func(g *fakedb.Graph) { second = append(second, g) })
	}
	step := 7
	if tier == core.Thorough {
		step = 1
	}
	for i := 0; i < len(single); i += step {
		g1 := single[i]
		g2 := second[(i*31+17)%len(second)]
		items = append(items, item{Spec: fakedb.Spec{Graphs: []*fakedb.Graph{g1, g2}}, Configs: diagConfigs([]int{1, 2})})
		if i%5 == 0 { // also the reverse order and an empty first graph
			items = append(items, item{Spec: fakedb.Spec{Graphs: []*fakedb.Graph{g2, g1}}, Configs: diagConfigs([]int{2})})
		}
	}
	return items
}

// Oracle ---------------------------------------------------------------------------------------------------------------------

type artefact struct {
	Spec     fakedb.Spec `json:"spec"`
	Config   rtk.Config  `json:"config"`
	Mutation string      `json:"mutation,omitempty"`
}

type checker struct {
	run  *core.Run
	root string
	verb bool
}

func (c *checker) say(format string, a ...any) {
	if c.verb {
		fmt.Printf(format+"\n", a...)
	}
}

func (c *checker) report(class, summary string, art artefact) {
	c.say("  VIOLATION %s: %s", class, summary)
	c.run.Report(core.Violation{Class: class, Summary: summary, Artefact: art})
}

// lossy re-reads every number of a spec through float64, the deviation of the known precision finding.
func lossy(s fakedb.Spec) fakedb.Spec {
	var walk func(v any) any
	walk = func(v any) any {
		switch t := v.(type) {
		case int64:
			return float64(t)
		case map[string]any:
			for k, x := range t {
				t[k] = walk(x)
			}
		case []any:
			for i, x := range t {
				t[i] = walk(x)
			}
		}
		return v
	}
	out := s.Clone()
	for _, g := range out.Graphs {
		for _, n := range g.Nodes {
			if n.Props != nil {
				walk(n.Props)
			}
		}
		for _, e := range g.Edges {
			if e.Props != nil {
				walk(e.Props)
			}
		}
	}
	return out
}

// evaluate runs dump -> checks -> load -> isomorphism -> verify (and the Verify iff sweep when mutate is set).
func (c *checker) evaluate(spec fakedb.Spec, cfg rtk.Config, mutate bool, only string) {
	art := artefact{Spec: spec, Config: cfg}
	if p := core.Try(func() { c.evaluate1(spec, cfg, mutate, only) }); p != nil {
		c.report("panic", fmt.Sprintf("dump/load/verify panicked: %v", p), art)
	}
}

func (c *checker) evaluate1(spec fakedb.Spec, cfg rtk.Config, mutate bool, only string) {
	ctx := context.Background()
	art := artefact{Spec: spec, Config: cfg}
	dir := filepath.Join(c.root, "dump")
	if err := os.RemoveAll(dir); err != nil {
		core.Fatalf("scratch: %v", err)
	}
	src := fakedb.New(spec, 1000)
	res, err := retriever.Dump(ctx, src, rtk.Driver, rtk.Targets(spec), rtk.DumpOptions(dir, cfg))
	c.say("dump: err=%v nodes=%d edges=%d", err, res.NodeCount, res.EdgeCount)
	if err != nil {
		c.report("dump-fails", fmt.Sprintf("Dump of a valid source fails: %v", err), art)
		return
	}
	if len(src.Log) != 0 {
		c.report("dump-writes-to-source", fmt.Sprintf("Dump wrote to the source database: %+v", src.Log), art)
	}
	manifest, err := rtk.CheckDump(dir, spec, cfg)
	c.say("manifest recomputed from files: %v", errOrOK(err))
	if err != nil {
		c.report("manifest-does-not-describe-files:"+errClass(err), err.Error(), art)
		return
	}
	var wantNodes, wantEdges int64
	for _, g := range spec.Graphs {
		wantNodes += int64(len(g.Nodes))
		wantEdges += int64(len(g.Edges))
	}
	if res.NodeCount != wantNodes || res.EdgeCount != wantEdges {
		c.report("dump-result-counts", fmt.Sprintf("Dump reports %d nodes / %d relationships, source has %d / %d", res.NodeCount, res.EdgeCount, wantNodes, wantEdges), art)
	}

	dst := fakedb.New(fakedb.Spec{}, 100000)
	lres, err := retriever.Load(ctx, dst, rtk.Driver, retriever.LoadOptions{InputDir: dir, BatchSize: cfg.LoadBatch, VerifyMetrics: mutate})
	c.say("load: err=%v nodes=%d edges=%d", err, lres.NodeCount, lres.EdgeCount)
	if err != nil {
		c.report("load-fails", fmt.Sprintf("Load of a fresh dump into an empty database fails: %v", err), art)
		return
	}
	if lres.NodeCount != wantNodes || lres.EdgeCount != wantEdges || lres.GraphCount != len(spec.Graphs) {
		c.report("load-result-counts", fmt.Sprintf("Load reports %d graphs / %d nodes / %d relationships, source has %d / %d / %d", lres.GraphCount, lres.NodeCount, lres.EdgeCount, len(spec.Graphs), wantNodes, wantEdges), art)
	}
	loaded := dst.Snapshot()
	byName := map[string]*fakedb.Graph{}
	for _, g := range loaded.Graphs {
		byName[g.Name] = g
	}
	lossySpec := lossy(spec)
	for gi, g := range spec.Graphs {
		lg := byName[g.Name]
		if lg == nil {
			lg = &fakedb.Graph{Name: g.Name}
		}
		ok, why := rtk.Isomorphic(g, lg)
		c.say("graph %q isomorphic to source: %v %s", g.Name, ok, why)
		if !ok {
			if ok2, _ := rtk.Isomorphic(lossySpec.Graphs[gi], lg); ok2 {
				c.report("load-integer-property-precision", fmt.Sprintf("graph %q: loaded graph equals the source only after rounding integer property values through float64 (%s)", g.Name, firstPrecisionWitness(g, lg)), art)
			} else {
				sb, _ := json.Marshal(g)
				lb, _ := json.Marshal(lg)
				c.report("loaded-graph-not-isomorphic", fmt.Sprintf("graph %q: %s; source %s loaded %s", g.Name, why, sb, lb), art)
			}
		}
		delete(byName, g.Name)
	}
	for name, g := range byName {
		if len(g.Nodes)+len(g.Edges) > 0 {
			c.report("load-extra-graph", fmt.Sprintf("Load populated graph %q which the dump does not contain", name), art)
		}
	}
	for _, id := range ids(loaded) {
		for _, g := range spec.Graphs {
			for _, n := range g.Nodes {
				if n.ID == id {
					core.Fatalf("fake database reused source id %d", id)
				}
			}
		}
	}

	vopt := retriever.VerifyOptions{InputDir: dir, BatchSize: cfg.LoadBatch}
	_, err = retriever.Verify(ctx, dst, rtk.Driver, vopt)
	c.say("verify(loaded): %v", errOrOK(err))
	if err != nil {
		c.report("verify-rejects-faithful-load", fmt.Sprintf("Verify of the freshly loaded database fails: %v", firstLine(err)), art)
	}
	_, err = retriever.Verify(ctx, src, rtk.Driver, vopt)
	if err != nil {
		c.report("verify-rejects-source", fmt.Sprintf("Verify of the source database against its own dump fails: %v", firstLine(err)), art)
	}
	if len(dst.Log) == 0 && wantNodes > 0 {
		core.Fatalf("fake database recorded no mutation for a non-empty load")
	}
	if !mutate {
		return
	}

	// Verify fails iff the documented metrics of the (mutated) database differ from the manifest's.
	want := map[string]retriever.GraphMetrics{}
	for _, gm := range manifest.Metrics.Graphs {
		want[gm.Name] = gm
	}
	for _, mu := range mutations(loaded) {
		if only != "" && mu.name != only {
			continue
		}
		mdb := fakedb.New(mu.spec, 200000)
		differs := false
		for _, g := range spec.Graphs {
			var mg *fakedb.Graph
			for _, x := range mu.spec.Graphs {
				if x.Name == g.Name {
					mg = x
				}
			}
			if mg == nil {
				mg = &fakedb.Graph{Name: g.Name}
			}
			got, ok := rtk.Metrics(mg)
			if !ok || !rtk.MetricsEqual(got, want[g.Name]) {
				differs = true
			}
		}
		_, err := retriever.Verify(ctx, mdb, rtk.Driver, vopt)
		c.run.Add("verify_mutations", 1)
		c.say("mutation %-40s metrics differ=%v verify=%v", mu.name, differs, errOrOK(err))
		a := art
		a.Mutation = mu.name
		var mm retriever.MetricsMismatchError
		switch {
		case differs && err == nil:
			c.report("verify-accepts-differing-metrics", fmt.Sprintf("after %s the documented metrics differ from the manifest but Verify succeeds", mu.name), a)
		case !differs && err != nil:
			c.report("verify-rejects-equal-metrics", fmt.Sprintf("after %s the documented metrics equal the manifest but Verify fails: %v", mu.name, firstLine(err)), a)
		case differs && !errors.As(err, &mm):
			c.report("verify-fails-without-mismatch-error", fmt.Sprintf("after %s Verify fails with %v instead of a metrics mismatch", mu.name, firstLine(err)), a)
		}
		if differs {
			c.run.Add("verify_mutations_metrics_differ", 1)
		} else {
			c.run.Add("verify_mutations_metrics_equal", 1)
		}
	}
}

func ids(s fakedb.Spec) []uint64 {
	var out []uint64
	for _, g := range s.Graphs {
		for _, n := range g.Nodes {
			out = append(out, n.ID)
		}
	}
	return out
}

func firstPrecisionWitness(src, loaded *fakedb.Graph) string {
	seen := map[string]bool{}
	for _, n := range loaded.Nodes {
		seen[rtk.CanonProps(n.Props)] = true
	}
	for _, e := range loaded.Edges {
		seen[rtk.CanonProps(e.Props)] = true
	}
	for _, n := range src.Nodes {
		if p := rtk.CanonProps(n.Props); !seen[p] {
			return "source properties " + p + " have no equal in the loaded graph"
		}
	}
	for _, e := range src.Edges {
		if p := rtk.CanonProps(e.Props); !seen[p] {
			return "source properties " + p + " have no equal in the loaded graph"
		}
	}
	return ""
}

type mutation struct {
	name string
	spec fakedb.Spec
}

// mutations lists every single edit of the loaded database: add / remove a node, add / remove a relationship, toggle a
// kind of a node, change a relationship's kind, re-point either end of a relationship, and two metric-neutral edits
// (property change, identical parallel relationship swap is covered by re-pointing to the same node).
func mutations(base fakedb.Spec) []mutation {
	var out []mutation
	add := func(name string, f func(s *fakedb.Spec) bool) {
		s := base.Clone()
		if f(&s) {
			out = append(out, mutation{name, s})
		}
	}
	for gi, g := range base.Graphs {
		gi := gi
		tag := fmt.Sprintf("g%d:", gi)
		for _, ks := range [][]string{nil, {"A"}, {"C"}} {
			ks := ks
			add(tag+"add-node"+strings.Join(ks, ""), func(s *fakedb.Spec) bool {
				s.Graphs[gi].Nodes = append(s.Graphs[gi].Nodes, &fakedb.Node{ID: 999999, Kinds: ks})
				return true
			})
		}
		for ni := range g.Nodes {
			ni := ni
			add(fmt.Sprintf("%sremove-node#%d", tag, ni), func(s *fakedb.Spec) bool {
				id := s.Graphs[gi].Nodes[ni].ID
				s.Graphs[gi].Nodes = append(s.Graphs[gi].Nodes[:ni], s.Graphs[gi].Nodes[ni+1:]...)
				var keep []*fakedb.Edge
				for _, e := range s.Graphs[gi].Edges {
					if e.Start != id && e.End != id {
						keep = append(keep, e)
					}
				}
				s.Graphs[gi].Edges = keep
				return true
			})
			for _, k := range []string{"A", "B", "C"} {
				k := k
				add(fmt.Sprintf("%stoggle-kind-%s#%d", tag, k, ni), func(s *fakedb.Spec) bool {
					n := s.Graphs[gi].Nodes[ni]
					var kept []string
					had := false
					for _, x := range n.Kinds {
						if x == k {
							had = true
						} else {
							kept = append(kept, x)
						}
					}
					if !had {
						kept = append(kept, k)
					}
					n.Kinds = kept
					return true
				})
			}
			add(fmt.Sprintf("%schange-property#%d", tag, ni), func(s *fakedb.Spec) bool {
				s.Graphs[gi].Nodes[ni].Props = map[string]any{"changed": true}
				return true
			})
			for nj := range g.Nodes {
				nj := nj
				for _, k := range []string{"R", "T"} {
					k := k
					add(fmt.Sprintf("%sadd-edge-%s#%d>%d", tag, k, ni, nj), func(s *fakedb.Spec) bool {
						ns := s.Graphs[gi].Nodes
						s.Graphs[gi].Edges = append(s.Graphs[gi].Edges, &fakedb.Edge{ID: 999998, Start: ns[ni].ID, End: ns[nj].ID, Kind: k})
						return true
					})
				}
			}
		}
		for ei := range g.Edges {
			ei := ei
			add(fmt.Sprintf("%sremove-edge#%d", tag, ei), func(s *fakedb.Spec) bool {
				s.Graphs[gi].Edges = append(s.Graphs[gi].Edges[:ei], s.Graphs[gi].Edges[ei+1:]...)
				return true
			})
			for _, k := range []string{"R", "S", "T"} {
				k := k
				add(fmt.Sprintf("%sedge-kind-%s#%d", tag, k, ei), func(s *fakedb.Spec) bool {
					if s.Graphs[gi].Edges[ei].Kind == k {
						return false
					}
					s.Graphs[gi].Edges[ei].Kind = k
					return true
				})
			}
			add(fmt.Sprintf("%sreverse-edge#%d", tag, ei), func(s *fakedb.Spec) bool {
				e := s.Graphs[gi].Edges[ei]
				if e.Start == e.End {
					return false
				}
				e.Start, e.End = e.End, e.Start
				return true
			})
			for nj := range g.Nodes {
				nj := nj
				add(fmt.Sprintf("%srepoint-start#%d>%d", tag, ei, nj), func(s *fakedb.Spec) bool {
					e := s.Graphs[gi].Edges[ei]
					if e.Start == s.Graphs[gi].Nodes[nj].ID {
						return false
					}
					e.Start = s.Graphs[gi].Nodes[nj].ID
					return true
				})
				add(fmt.Sprintf("%srepoint-end#%d>%d", tag, ei, nj), func(s *fakedb.Spec) bool {
					e := s.Graphs[gi].Edges[ei]
					if e.End == s.Graphs[gi].Nodes[nj].ID {
						return false
					}
					e.End = s.Graphs[gi].Nodes[nj].ID
					return true
				})
			}
			add(fmt.Sprintf("%schange-edge-property#%d", tag, ei), func(s *fakedb.Spec) bool {
				s.Graphs[gi].Edges[ei].Props = map[string]any{"changed": true}
				return true
			})
		}
	}
	if len(base.Graphs) > 1 {
		add("swap-graph-contents", func(s *fakedb.Spec) bool {
			s.Graphs[0].Name, s.Graphs[1].Name = s.Graphs[1].Name, s.Graphs[0].Name
			return true
		})
	}
	return out
}

func errOrOK(err error) string {
	if err == nil {
		return "ok"
	}
	return "error: " + firstLine(err)
}

func firstLine(err error) string {
	s := err.Error()
	if len(s) > 400 {
		s = s[:400] + "..."
	}
	return strings.ReplaceAll(s, "\n", " | ")
}

// errClass is the stable code of a CheckDump failure.
func errClass(err error) string {
	var de *rtk.DumpError
	if errors.As(err, &de) {
		return de.Code
	}
	return "other"
}

func main() {
	run := core.Start("C18", "exploration")
	if run.Replay != "" {
		var art artefact
		core.LoadArtefact(run.Replay, &art)
		art.Spec = art.Spec.Clone()
		root := rtk.NewRoot("c18")
		defer os.RemoveAll(root)
		c := &checker{run: run, root: root, verb: true}
		fmt.Printf("replay: %d graph(s), config %s, mutation %q\n", len(art.Spec.Graphs), art.Config, art.Mutation)
		c.evaluate(art.Spec, art.Config, art.Mutation != "", art.Mutation)
		os.RemoveAll(root)
		run.Finish()
	}
	if !run.Fork(16) {
		root := rtk.NewRoot("c18")
		c := &checker{run: run, root: root}
		items := workItems(run.Tier)
		for k, it := range items {
			if !run.Mine(k) {
				continue
			}
			if run.TimeUp() {
				run.Capped("deadline")
				break
			}
			entities := 0
			for _, g := range it.Spec.Graphs {
				entities += len(g.Nodes) + len(g.Edges)
			}
			for ci, cfg := range it.Configs {
				c.evaluate(it.Spec, cfg, ci == 0, "")
				run.Add("evaluations", 1)
				if entities > 0 {
					run.Add("distinct_nontrivial", 1)
				}
			}
			run.Add("databases", 1)
			if k%997 == 0 {
				run.Sample(map[string]any{"spec": it.Spec, "configs": len(it.Configs)})
			}
		}
		os.RemoveAll(root)
		run.Finish()
	}
	run.Set("rule", "all databases of 1 graph with <=2 (quick) / <=3 (thorough) nodes (IDs 1,5,2^33; kinds subsets of {A,B}) and <=2 relationships (any endpoints, kinds R/S, parallel and identical ones) with property maps rotated over the 12-value domain (incl. 2^53+1, uint64 values above MaxInt64, nested and unicode values), plus a per-position sweep of the domain and 2-graph databases (escaped graph name, overlapping IDs); each x codec{none,gzip,zstd} x shard{1,2,3} x dump batch{1,2,3} x load batch{1,2,3} (3-node graphs and 2-graph databases: dump batch = load batch); Verify iff-sweep over every single edit of the loaded database once per database")
	run.Assume("fakedb implements graph.Database as documented: ordered keyset reads, CreateNodes returns fresh IDs in input order, CreateRelationshipByIDs always creates (no upsert on start/end/kind)")
	run.Assume("'Verify succeeds exactly when the graphs match' is decided relative to the documented metrics (kind, degree, endpoint-kind histograms): property-value changes are invisible to Verify by design; the sweep measures this (verify_mutations_metrics_equal)")
	run.Assume("JSON equality of numbers is exact rational equality of the JSON texts")
	run.Finish()
}
