// Command c16 decides property C16 (caches are bounded, coherent and safe under concurrent use).
package main

import (
	"fmt"
	"os"
	"strings"

	"verif/bfs"
	"verif/core"
)

func main() {
	run := core.Start("C16", "model_checking")
	if os.Getenv("VERIF_RACE_CHILD") != "" {
		raceChild(run.Tier)
		return
	}
	if run.Replay != "" {
		replay(run)
		return
	}
	if !run.Fork(16, "GOMAXPROCS=1") {
		if i, _, _ := run.Worker(); i == 0 {
			runSequential(run)
		}
		runConcurrent(run)
		run.Finish()
	}
	run.RacePass("--tier", string(run.Tier))
	run.Set("traces_validated_against_impl", run.Get("transitions"))
	run.Assume("every transition is executed on the real cache objects (no separate model to conform): traces_validated_against_impl = transitions")
	run.Finish()
}

func replay(run *core.Run) {
	var art struct {
		Problem string   `json:"problem"`
		Ops     []string `json:"ops"`
	}
	core.LoadArtefact(run.Replay, &art)
	if art.Problem == "" {
		replayConc(run)
		return
	}
	if strings.HasPrefix(art.Problem, "seq/") {
		var impl string
		var capacity int
		parts := strings.Split(art.Problem, "/")
		impl = parts[1]
		fmt.Sscanf(parts[2], "cap=%d", &capacity)
		if v := bfs.Replay(seqProblem(impl, capacity, len(art.Ops)), art.Ops); v != nil {
			v.Artefact = art
			run.Report(*v)
		} else {
			fmt.Println("replay: no violation")
		}
	}
	run.Finish()
}

func replayConc(run *core.Run) {
	var art struct {
		Scenario string `json:"scenario"`
		Choices  []int  `json:"choices"`
	}
	core.LoadArtefact(run.Replay, &art)
	for _, tier := range []core.Tier{core.Quick, core.Thorough} {
		for _, c := range concSpecs(tier) {
			if c.name() == art.Scenario {
				res, obs, v := c.scenario().Execute(art.Choices, true)
				for _, l := range res.Trace {
					fmt.Println("  ", l)
				}
				fmt.Println("observation:", obs)
				if v != nil {
					v.Artefact = art
					run.Report(*v)
				} else {
					fmt.Println("replay: no violation")
				}
				run.Finish()
			}
		}
	}
	core.Fatalf("scenario %q not found", art.Scenario)
}
