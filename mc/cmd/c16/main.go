// Command c16 decides property C16 (caches are bounded, coherent and safe under concurrent use).
package main

import (
	"fmt"
	"strings"

	"verif/bfs"
	"verif/core"
)

func main() {
	run := core.Start("C16", "model_checking")
	if run.Replay != "" {
		replay(run)
		return
	}
	runSequential(run)
	run.Set("traces_validated_against_impl", run.Get("transitions"))
	run.Assume("every transition is executed on the real cache objects (no separate model to conform): traces_validated_against_impl = transitions")
	run.Finish()
}

func replay(run *core.Run) {
	var art struct {
		Problem string   `json:"problem"`
		Ops     []string `json:"ops"`
	}
	core.LoadArtefact(run.Replay, &art)
	if strings.HasPrefix(art.Problem, "seq/") {
		var impl string
		var capacity int
		parts := strings.Split(art.Problem, "/")
		impl = parts[1]
		fmt.Sscanf(parts[2], "cap=%d", &capacity)
		if v := bfs.Replay(seqProblem(impl, capacity, len(art.Ops)), art.Ops); v != nil {
			v.Artefact = art
			run.Report(*v)
		} else {
			fmt.Println("replay: no violation")
		}
	}
	run.Finish()
}
