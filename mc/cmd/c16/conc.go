package main

import (
	"fmt"
	"strings"
	"sync"


	"verif/core"
	"verif/sched"
)

// Concurrent part of C16: every interleaving (up to a preemption bound) of small thread programs on one real cache,
// whose sync/atomic operations are scheduling points. Oracle: the recorded call/return history, extended by a virtual
// hit for every entry left in the store, must be linearizable against the map specification "up to eviction" (a Get
// may always miss; a hit must return the value of the latest linearised Put not followed by a Delete), and at
// quiescence the bound, the size statistic and the internal structure must hold.

type cop struct {
	Kind int `json:"kind"`
	Key  int `json:"key"`
}

func (o cop) String() string { return fmt.Sprintf("%s(%d)", []string{"Put", "Get", "Delete"}[o.Kind], o.Key) }

type event struct {
	thread    int
	op        cop
	val       int // value put
	hit       bool
	got       int
	call, ret int
}

type concSpec struct {
	Impl    string  `json:"impl"`
	Cap     int     `json:"cap"`
	Pre     []cop   `json:"pre"`
	Threads [][]cop `json:"threads"`
}

func (c concSpec) name() string {
	var ts []string
	for _, t := range c.Threads {
		var os []string
		for _, o := range t {
			os = append(os, o.String())
		}
		ts = append(ts, strings.Join(os, ";"))
	}
	var ps []string
	for _, o := range c.Pre {
		ps = append(ps, o.String())
	}
	return fmt.Sprintf("conc/%s/cap=%d/pre=[%s]/%s", c.Impl, c.Cap, strings.Join(ps, ";"), strings.Join(ts, " || "))
}

func (c concSpec) scenario() *sched.Scenario {
	return &sched.Scenario{
		Name: c.name(),
		New: func() (func(s *sched.Scheduler), func(r *sched.Result) (string, *core.Violation)) {
			inst := newSeqInst(c.Impl, c.Cap)
			var (
				clock  int
				events []*event
				nextV  = 100
			)
			do := func(thread int, o cop) {
				e := &event{thread: thread, op: o}
				events = append(events, e)
				clock++
				e.call = clock
				switch o.Kind {
				case opPut:
					nextV++
					e.val = nextV
					inst.c.Put(o.Key, e.val)
				case opGet:
					e.got, e.hit = inst.c.Get(o.Key)
				case opDelete:
					inst.c.Delete(o.Key)
				}
				clock++
				e.ret = clock
			}
			main := func(s *sched.Scheduler) {
				for _, o := range c.Pre {
					do(-1, o)
				}
				for ti, prog := range c.Threads {
					ti, prog := ti, prog
					s.Go(fmt.Sprintf("t%d", ti), func() {
						for _, o := range prog {
							do(ti, o)
						}
					})
				}
			}
			check := func(r *sched.Result) (string, *core.Violation) {
				if r.Outcome != sched.Completed {
					return r.Outcome.String(), nil
				}
				for _, e := range events {
					if e.ret == 0 {
						return "incomplete", &core.Violation{Class: "incomplete-operation", Summary: fmt.Sprintf("%v never returned", e.op)}
					}
				}
				store, size, extra, bad := inst.snapshot()
				if bad != "" {
					return "bad", &core.Violation{Class: "internal-structure", Summary: bad + " " + extra}
				}
				if len(store) > inst.bound {
					return "bad", &core.Violation{Class: "capacity-exceeded", Summary: fmt.Sprintf("%d entries stored, capacity %d", len(store), c.Cap)}
				}
				if size != int64(len(store)) {
					return "bad", &core.Violation{Class: "size-statistic", Summary: fmt.Sprintf("Stats().Size() = %d but %d entries are stored at quiescence", size, len(store))}
				}
				all := append([]*event{}, events...)
				clock++
				for k, v := range store {
					all = append(all, &event{thread: -2, op: cop{opGet, k}, hit: true, got: v, call: clock, ret: clock})
				}
				if !linearizable(all) {
					return "bad", &core.Violation{Class: "not-linearizable", Summary: "history has no linearization: " + renderHistory(all)}
				}
				return renderObs(events, store), nil
			}
			return main, check
		},
	}
}

func renderObs(events []*event, store map[int]int) string {
	var sb strings.Builder
	for _, e := range events {
		if e.op.Kind == opGet {
			fmt.Fprintf(&sb, "%v=%v/%d ", e.op, e.hit, e.got)
		}
	}
	fmt.Fprintf(&sb, "| store=%v", renderMap(store, identity(store)))
	return sb.String()
}

func identity(m map[int]int) map[int]int {
	r := map[int]int{}
	for _, v := range m {
		r[v] = v
	}
	return r
}

func renderHistory(events []*event) string {
	var sb strings.Builder
	for _, e := range events {
		switch e.op.Kind {
		case opPut:
			fmt.Fprintf(&sb, "T%d:Put(%d,%d)@[%d,%d] ", e.thread, e.op.Key, e.val, e.call, e.ret)
		case opGet:
			fmt.Fprintf(&sb, "T%d:Get(%d)=(%d,%v)@[%d,%d] ", e.thread, e.op.Key, e.got, e.hit, e.call, e.ret)
		default:
			fmt.Fprintf(&sb, "T%d:Delete(%d)@[%d,%d] ", e.thread, e.op.Key, e.call, e.ret)
		}
	}
	return sb.String()
}

// linearizable brute-forces all orders compatible with real time (a before b if a returned before b was called).
func linearizable(events []*event) bool {
	n := len(events)
	placed := make([]bool, n)
	state := map[int]int{}
	var rec func(done int) bool
	rec = func(done int) bool {
		if done == n {
			return true
		}
		for i, e := range events {
			if placed[i] {
				continue
			}
			ok := true
			for j, f := range events {
				if !placed[j] && j != i && f.ret < e.call {
					ok = false
					break
				}
			}
			if !ok {
				continue
			}
			// apply
			old, had := state[e.op.Key]
			legal := true
			switch e.op.Kind {
			case opPut:
				state[e.op.Key] = e.val
			case opDelete:
				delete(state, e.op.Key)
			case opGet:
				if e.hit && (!had || old != e.got) {
					legal = false
				}
			}
			if legal {
				placed[i] = true
				if rec(done + 1) {
					return true
				}
				placed[i] = false
			}
			if had {
				state[e.op.Key] = old
			} else {
				delete(state, e.op.Key)
			}
		}
		return false
	}
	return rec(0)
}

func concSpecs(tier core.Tier) []concSpec {
	alpha := []cop{{opPut, 1}, {opPut, 2}, {opGet, 1}, {opGet, 2}, {opDelete, 1}, {opDelete, 2}}
	var progs2 [][]cop
	for _, a := range alpha {
		for _, b := range alpha {
			progs2 = append(progs2, []cop{a, b})
		}
	}
	var progs1 [][]cop
	for _, a := range alpha {
		progs1 = append(progs1, []cop{a})
	}
	pres := [][]cop{nil, {{opPut, 1}}, {{opPut, 1}, {opPut, 2}}, {{opPut, 1}, {opPut, 2}, {opGet, 1}}, {{opPut, 1}, {opPut, 2}, {opGet, 2}, {opPut, 3}}}
	caps := []int{1, 2, 3}
	hasWrite := func(ps ...[]cop) bool {
		for _, p := range ps {
			for _, o := range p {
				if o.Kind != opGet {
					return true
				}
			}
		}
		return false
	}
	var out []concSpec
	if tier == core.Thorough {
		// three threads with two operations each over the colliding key, and two threads with three operations
		small := []cop{{opPut, 1}, {opGet, 1}, {opDelete, 1}, {opPut, 2}}
		var p2, p3 [][]cop
		for _, a := range small {
			for _, b := range small {
				p2 = append(p2, []cop{a, b})
				for _, c := range small {
					p3 = append(p3, []cop{a, b, c})
				}
			}
		}
		for _, impl := range []string{"sieve", "nemap"} {
			for _, pre := range [][]cop{nil, {{opPut, 1}, {opPut, 2}, {opGet, 1}}} {
				for i := range p2 {
					for j := i; j < len(p2); j++ {
						for k := j; k < len(p2); k++ {
							if hasWrite(p2[i], p2[j], p2[k]) {
								out = append(out, concSpec{impl, 1, pre, [][]cop{p2[i], p2[j], p2[k]}})
							}
						}
					}
				}
				for i := range p3 {
					for j := i; j < len(p3); j++ {
						if hasWrite(p3[i], p3[j]) {
							out = append(out, concSpec{impl, 2, pre, [][]cop{p3[i], p3[j]}})
						}
					}
				}
			}
		}
	}
	for _, impl := range []string{"sieve", "nemap"} {
		for _, c := range caps {
			for _, pre := range pres {
				// two threads, two operations each
				for i, p := range progs2 {
					for j := i; j < len(progs2); j++ {
						if hasWrite(p, progs2[j]) {
							out = append(out, concSpec{impl, c, pre, [][]cop{p, progs2[j]}})
						}
					}
				}
				// three threads, one operation each
				for i, p := range progs1 {
					for j := i; j < len(progs1); j++ {
						for k := j; k < len(progs1); k++ {
							if hasWrite(p, progs1[j], progs1[k]) {
								out = append(out, concSpec{impl, c, pre, [][]cop{p, progs1[j], progs1[k]}})
							}
						}
					}
				}
			}
		}
	}
	return out
}

func runConcurrent(run *core.Run) {
	specs := concSpecs(run.Tier)
	bound := -1 // unbounded: every interleaving of every scenario
	outcomes := map[string]struct{}{}
	for k, c := range specs {
		if !run.Mine(k) {
			continue
		}
		sc := c.scenario()
		st := sched.Explore(run, sc, bound)
		run.Add("schedules", st.Executions)
		run.Add("scheduling_points", st.Points)
		run.Add("conc_scenarios", 1)
		if len(st.Outcomes) > 1 {
			run.Add("conc_scenarios_with_several_outcomes", 1)
		}
		for o := range st.Outcomes {
			outcomes[c.name()+o] = struct{}{}
		}
		if int64(st.MaxPoints) > run.Get("max_points_per_schedule") {
			run.Set("max_points_per_schedule", int64(st.MaxPoints))
		}
		if k%997 == 0 {
			run.Sample(map[string]any{"scenario": c.name(), "preemption_bound": bound, "schedules": st.Executions, "distinct_outcomes": len(st.Outcomes)})
		}
		if run.TimeUp() {
			run.Capped("concurrent scenarios: deadline")
			break
		}
	}
	run.Add("distinct_outcomes", int64(len(outcomes)))
	run.Set("preemption_bound", int64(bound))
}

// runFree executes the scenario's threads as real goroutines without the scheduler (race pass, -race build).
func (c concSpec) runFree(iterations int) {
	for it := 0; it < iterations; it++ {
		inst := newSeqInst(c.Impl, c.Cap)
		v := 100
		for _, o := range c.Pre {
			v++
			applyFree(inst, o, v)
		}
		var wg sync.WaitGroup
		for ti, prog := range c.Threads {
			wg.Add(1)
			go func(ti int, prog []cop) {
				defer wg.Done()
				for i, o := range prog {
					applyFree(inst, o, 1000+ti*10+i)
				}
			}(ti, prog)
		}
		wg.Wait()
		_ = inst.c.Stats().Size()
	}
}

func applyFree(inst *seqInst, o cop, v int) {
	switch o.Kind {
	case opPut:
		inst.c.Put(o.Key, v)
	case opGet:
		inst.c.Get(o.Key)
	case opDelete:
		inst.c.Delete(o.Key)
	}
}

func raceChild(tier core.Tier) {
	iters := 30
	if tier == core.Thorough {
		iters = 300
	}
	specs := concSpecs(core.Quick)
	for k, c := range specs {
		if k%4 != 0 && tier == core.Quick {
			continue
		}
		c.runFree(iters)
	}
	fmt.Printf("race pass: %d scenarios x %d free-running iterations\n", len(specs), iters)
}
