package main

import (
	"fmt"
	"sort"
	"strings"

	"github.com/specterops/dawgs/cache"

	"verif/bfs"
	"verif/core"
)

// Sequential part of C16: breadth-first search over Put/Get/Delete histories on the real caches.
//
// Canonical state: the implementation's complete internal state (queue order, visited bits, hand position,
// store, size counter) plus the reference map, with values replaced by their dense rank. Rank renaming is sound
// because both caches are parametric in V (they never inspect a value) and the harness only ever puts values
// larger than every value put before, so two states equal up to an order-preserving renaming of values have
// isomorphic futures. Hit/miss counters are dropped: no cache code path reads them.

const (
	opPut = iota
	opGet
	opDelete
)

var seqKeys = []int{1, 2, 3, 4}

type seqInst struct {
	impl  string
	cap   int
	c     cache.Cache[int, int]
	ref   map[int]int
	step  int
	bound int
}

func newSeqInst(impl string, capacity int) *seqInst {
	s := &seqInst{impl: impl, cap: capacity, ref: map[int]int{}}
	if impl == "sieve" {
		s.c = cache.NewSieve[int, int](capacity)
		s.bound = max(capacity, 1)
	} else {
		s.c = cache.NewNonExpiringMapCache[int, int](capacity)
		s.bound = max(capacity, 0)
	}
	return s
}

func (s *seqInst) snapshot() (store map[int]int, size int64, extra string, bad string) {
	switch c := s.c.(type) {
	case *cache.Sieve[int, int]:
		st := c.VerifState()
		if !st.QueueStoreAgree {
			bad = "eviction queue and store disagree"
		}
		if st.Hand == -2 {
			bad = "hand points at an element that is not in the queue"
		}
		extra = fmt.Sprintf("q=%v vis=%v hand=%d", st.Queue, st.Visited, st.Hand)
		return st.Store, st.Size, extra, bad
	case *cache.NonExpiringMapCache[int, int]:
		st := c.VerifState()
		return st.Store, st.Size, "", ""
	}
	core.Fatalf("unknown cache type %T", s.c)
	return
}

func (s *seqInst) Apply(op int) *core.Violation {
	kind, key := op/len(seqKeys), seqKeys[op%len(seqKeys)]
	s.step++
	switch kind {
	case opPut:
		s.c.Put(key, s.step)
		s.ref[key] = s.step
	case opGet:
		v, ok := s.c.Get(key)
		if ok {
			if want, has := s.ref[key]; !has {
				return &core.Violation{Class: "get-returns-deleted-or-foreign", Summary: fmt.Sprintf("Get(%d) hit with %d but the key has no live put", key, v)}
			} else if want != v {
				return &core.Violation{Class: "get-returns-superseded", Summary: fmt.Sprintf("Get(%d) = %d, most recent completed put is %d", key, v, want)}
			}
		}
	case opDelete:
		s.c.Delete(key)
		delete(s.ref, key)
	}
	return s.check()
}

func (s *seqInst) check() *core.Violation {
	store, size, _, bad := s.snapshot()
	if bad != "" {
		return &core.Violation{Class: "internal-structure", Summary: bad}
	}
	if len(store) > s.bound {
		return &core.Violation{Class: "capacity-exceeded", Summary: fmt.Sprintf("%d entries stored, capacity %d", len(store), s.cap)}
	}
	if size != int64(len(store)) {
		return &core.Violation{Class: "size-statistic", Summary: fmt.Sprintf("Stats().Size() = %d but %d entries are stored", size, len(store))}
	}
	if s.c.Stats().Size() != size {
		return &core.Violation{Class: "size-statistic", Summary: "Stats().Size() differs from the internal counter"}
	}
	for k, v := range store {
		if want, has := s.ref[k]; !has || want != v {
			return &core.Violation{Class: "stale-entry", Summary: fmt.Sprintf("store holds %d->%d but the reference has %v (present=%v)", k, v, want, has)}
		}
	}
	return nil
}

func rank(vals ...map[int]int) map[int]int {
	var all []int
	for _, m := range vals {
		for _, v := range m {
			all = append(all, v)
		}
	}
	sort.Ints(all)
	r := map[int]int{}
	for _, v := range all {
		if _, ok := r[v]; !ok {
			r[v] = len(r)
		}
	}
	return r
}

func renderMap(m map[int]int, r map[int]int) string {
	ks := make([]int, 0, len(m))
	for k := range m {
		ks = append(ks, k)
	}
	sort.Ints(ks)
	var sb strings.Builder
	for _, k := range ks {
		fmt.Fprintf(&sb, "%d:%d,", k, r[m[k]])
	}
	return sb.String()
}

func (s *seqInst) Canon() string {
	store, size, extra, _ := s.snapshot()
	r := rank(store, s.ref)
	return fmt.Sprintf("S{%s} R{%s} n=%d %s", renderMap(store, r), renderMap(s.ref, r), size, extra)
}

func seqProblem(impl string, capacity, depth int) *bfs.Problem {
	return &bfs.Problem{
		Name:   fmt.Sprintf("seq/%s/cap=%d", impl, capacity),
		NumOps: 3 * len(seqKeys),
		OpName: func(op int) string {
			return fmt.Sprintf("%s(%d)", []string{"Put", "Get", "Delete"}[op/len(seqKeys)], seqKeys[op%len(seqKeys)])
		},
		New:   func() bfs.Instance { return newSeqInst(impl, capacity) },
		Depth: depth,
	}
}

func runSequential(run *core.Run) {
	depth := 8
	if run.Tier == core.Thorough {
		depth = 12
	}
	var outcomes = map[string]struct{}{}
	for _, impl := range []string{"sieve", "nemap"} {
		for _, capacity := range []int{-1, 0, 1, 2, 3, 4} {
			p := seqProblem(impl, capacity, depth)
			st := bfs.Explore(run, p)
			run.Add("states", st.States)
			run.Add("transitions", st.Transitions)
			run.Add("seq_problems", 1)
			if int64(st.MaxDepth) > run.Get("seq_max_depth") {
				run.Set("seq_max_depth", int64(st.MaxDepth))
			}
			outcomes[fmt.Sprintf("%s/%d:%d", impl, capacity, st.States)] = struct{}{}
			run.Sample(map[string]any{"problem": p.Name, "depth": depth, "states": st.States, "transitions": st.Transitions})
		}
	}
	run.Set("seq_depth_bound", int64(depth))
}
