// Command c19 decides property C19 (an interrupted dump resumes to the same result or refuses; never a partial dump) by
// enumerating every intercepted file-system / database call of Dump x every fault mode, then every call x mode of the
// following Resume (depth 2), then a clean resume - on the real code, through the os->vos import rewrite and the fake
// graph.Database.
package main

import (
	"context"
	"encoding/json"
	"fmt"
	"os"
	"path/filepath"
	"regexp"
	"sort"
	"strings"

	"github.com/specterops/dawgs/retriever"

	"verif/core"
	"verif/fakedb"
	"verif/rtk"
	"verif/shim/vos"
)

const (
	checkpointName = ".retriever-checkpoint.json"
	manifestName   = "manifest.json"
)

// Scenarios ------------------------------------------------------------------------------------------------------------------

type scenario struct {
	Spec fakedb.Spec `json:"spec"`
	Cfg  rtk.Config  `json:"config"`
}

func mainGraph(name string, off uint64) *fakedb.Graph {
	return &fakedb.Graph{Name: name,
		Nodes: []*fakedb.Node{
			{ID: 5 + off, Kinds: []string{"B", "A"}, Props: map[string]any{"name": "é😀"}},
			{ID: 1<<33 + off, Kinds: nil, Props: nil},
			{ID: 1 + off, Kinds: []string{"A"}, Props: map[string]any{"n": int64(1), "l": []any{int64(1), []any{int64(2)}}}},
		},
		Edges: []*fakedb.Edge{
			{ID: 40, Start: 1 + off, End: 5 + off, Kind: "R", Props: map[string]any{"w": 1.5}},
			{ID: 7, Start: 5 + off, End: 5 + off, Kind: "S"},
		}}
}

func scenarios(tier core.Tier) []scenario {
	var out []scenario
	db1 := fakedb.Spec{Graphs: []*fakedb.Graph{mainGraph("g1", 0), {Name: "empty graph"}}}
	codecs := []string{"none", "zstd"}
	sizes := []int{1, 2}
	if tier == core.Thorough {
		codecs = []string{"none", "gzip", "zstd"}
		sizes = []int{1, 2, 3}
	}
	for _, c := range codecs {
		for _, s := range sizes {
			for _, b := range sizes {
				out = append(out, scenario{Spec: db1, Cfg: rtk.Config{Codec: c, Shard: s, DumpBatch: b}})
			}
		}
	}
	// three relationship shards: a cursor that lags the committed fragment list by one shard only shows when a resume
	// starts after the second relationship fragment
	g3 := mainGraph("g1", 0)
	g3.Edges = append(g3.Edges, &fakedb.Edge{ID: 41, Start: 1 << 33, End: 1, Kind: "R"})
	out = append(out, scenario{Spec: fakedb.Spec{Graphs: []*fakedb.Graph{g3}}, Cfg: rtk.Config{Codec: "none", Shard: 1, DumpBatch: 2}})
	if tier == core.Thorough {
		// shard and batch boundaries that do not align: 5 nodes / 4 relationships
		g5 := mainGraph("g1", 0)
		g5.Nodes = append(g5.Nodes, &fakedb.Node{ID: 77, Kinds: []string{"B"}}, &fakedb.Node{ID: 3, Kinds: []string{"A"}, Props: map[string]any{"big": int64(1<<53 + 1)}})
		g5.Edges = append(g5.Edges, &fakedb.Edge{ID: 41, Start: 3, End: 77, Kind: "R"}, &fakedb.Edge{ID: 2, Start: 77, End: 1, Kind: "R", Props: map[string]any{"k": map[string]any{"j": []any{}}}})
		db3 := fakedb.Spec{Graphs: []*fakedb.Graph{g5}}
		for _, c := range []string{"none", "zstd"} {
			out = append(out, scenario{Spec: db3, Cfg: rtk.Config{Codec: c, Shard: 2, DumpBatch: 3}}, scenario{Spec: db3, Cfg: rtk.Config{Codec: c, Shard: 3, DumpBatch: 2}},
				scenario{Spec: db3, Cfg: rtk.Config{Codec: c, Shard: 1, DumpBatch: 3}})
		}
		// empty graph first, then two non-empty graphs with overlapping IDs
		db2 := fakedb.Spec{Graphs: []*fakedb.Graph{{Name: "empty graph"}, mainGraph("g1", 0), mainGraph("g/2", 4)}}
		for _, c := range []string{"none", "zstd"} {
			out = append(out, scenario{Spec: db2, Cfg: rtk.Config{Codec: c, Shard: 2, DumpBatch: 2}})
		}
	}
	return out
}

// Execution ------------------------------------------------------------------------------------------------------------------

type step struct {
	Resume  bool      `json:"resume"`
	Plan    *vos.Plan `json:"plan,omitempty"`
	Variant string    `json:"variant,omitempty"` // "never succeeds if" alteration applied before the step
}

type artefact struct {
	Scenario scenario `json:"scenario"`
	Steps    []step   `json:"steps"`
}

type outcome struct {
	res vos.Result
	err error // error returned by Dump (meaningless when crashed)
}

func (o outcome) crashed() bool { return o.res.Crashed }
func (o outcome) String() string {
	switch {
	case o.res.Panic != nil:
		return fmt.Sprintf("PANIC %v", o.res.Panic)
	case o.res.Crashed:
		return "crashed"
	case o.err != nil:
		return "error: " + oneLine(o.err.Error())
	}
	return "success"
}

type harness struct {
	run  *core.Run
	root string
	dir  string
	sc   scenario
	verb bool
}

func oneLine(s string) string {
	s = strings.ReplaceAll(s, "\n", " | ")
	if len(s) > 300 {
		s = s[:300] + "..."
	}
	return s
}

// alteration is what a variant changes besides the directory.
type alteration struct {
	spec    fakedb.Spec
	opts    retriever.DumpOptions
	driver  string
	targets []retriever.GraphTarget
}

func (h *harness) base(resume bool) alteration {
	o := rtk.DumpOptions(h.dir, h.sc.Cfg)
	o.Resume = resume
	return alteration{spec: h.sc.Spec, opts: o, driver: rtk.Driver, targets: rtk.Targets(h.sc.Spec)}
}

// exec runs one Dump call under a fault plan.
func (h *harness) exec(a alteration, plan *vos.Plan, trace bool) outcome {
	db := fakedb.New(a.spec, 1000)
	var out outcome
	out.res = vos.Run(vos.Options{Plan: plan, Trace: trace, Root: h.root}, func() {
		_, out.err = retriever.Dump(context.Background(), db, a.driver, a.targets, a.opts)
	})
	if len(out.res.Escapes) > 0 {
		core.Fatalf("dump touched a path outside the sandbox: %v", out.res.Escapes)
	}
	if len(db.Log) != 0 {
		core.Fatalf("dump wrote to the source database")
	}
	h.run.Add("evaluations", 1)
	return out
}

func (h *harness) reset(t rtk.Tree) {
	if err := os.RemoveAll(h.dir); err != nil {
		core.Fatalf("scratch: %v", err)
	}
	t.Write(h.dir)
}

// Directory state ------------------------------------------------------------------------------------------------------------

var generatedAt = regexp.MustCompile(`"generated_at": "[^"]*("|$)`)

func normalise(path string, data []byte) []byte {
	if strings.HasSuffix(path, ".json") || strings.HasSuffix(path, ".json.tmp") {
		return generatedAt.ReplaceAll(data, []byte(`"generated_at": "T"`))
	}
	return data
}

func normTree(t rtk.Tree) rtk.Tree {
	if t == nil {
		return nil
	}
	out := rtk.Tree{}
	for p, e := range t {
		if !e.Dir && e.Link == "" {
			e.Data = normalise(p, e.Data)
		}
		out[p] = e
	}
	return out
}

type ckFile struct {
	Phase string `json:"phase"`
	Path  string `json:"path"`
	Count int    `json:"count"`
	Bytes int64  `json:"compressed_bytes"`
	SHA   string `json:"sha256"`
}

type checkpointView struct {
	Manifest struct {
		Graphs []struct {
			Name  string   `json:"name"`
			Files []ckFile `json:"files"`
		} `json:"graphs"`
	} `json:"manifest"`
	Current *struct {
		Name        string   `json:"name"`
		HasSnapshot bool     `json:"has_snapshot"`
		Phase       string   `json:"phase"`
		Files       []ckFile `json:"files"`
	} `json:"current_graph"`
}

func (c *checkpointView) committed() []ckFile {
	var out []ckFile
	for _, g := range c.Manifest.Graphs {
		out = append(out, g.Files...)
	}
	if c.Current != nil {
		out = append(out, c.Current.Files...)
	}
	return out
}

// snapshotted lists the graphs whose entity counts the checkpoint has recorded.
func (c *checkpointView) snapshotted() map[string]bool {
	out := map[string]bool{}
	for _, g := range c.Manifest.Graphs {
		out[g.Name] = true
	}
	if c.Current != nil && c.Current.HasSnapshot {
		out[c.Current.Name] = true
	}
	return out
}

// readCheckpoint parses the checkpoint of a tree. ok=false: none present; err: present but unreadable.
func readCheckpoint(t rtk.Tree) (c *checkpointView, ok bool, err error) {
	e, has := t[checkpointName]
	if !has {
		return nil, false, nil
	}
	if e.Dir || e.Link != "" {
		return nil, true, fmt.Errorf("checkpoint is not a regular file")
	}
	c = &checkpointView{}
	if err := json.Unmarshal(e.Data, c); err != nil {
		return nil, true, fmt.Errorf("checkpoint does not parse: %v", err)
	}
	return c, true, nil
}

// Oracle ---------------------------------------------------------------------------------------------------------------------

type ctxInfo struct {
	ref     rtk.Tree // normalised tree of the uninterrupted dump
	steps   []step
	altered bool // the harness itself altered the directory before the step (variant): completeness of a present manifest is not judged
}

func (h *harness) report(class, summary string, steps []step) {
	if h.verb {
		fmt.Printf("  VIOLATION %s: %s\n", class, summary)
	}
	h.run.Report(core.Violation{Class: class, Summary: summary, Artefact: artefact{Scenario: h.sc, Steps: append([]step(nil), steps...)}})
}

// complete says whether tree (normalised) is the uninterrupted dump, optionally with a left-over checkpoint file.
func complete(ref, t rtk.Tree, allowCheckpoint bool) string {
	c := rtk.Tree{}
	for p, e := range t {
		if allowCheckpoint && p == checkpointName {
			continue
		}
		c[p] = e
	}
	return ref.Diff(c)
}

// checkState evaluates the invariants every post-step directory state must satisfy:
//
//	I1  manifest.json absent, or the dump is complete (identical to the uninterrupted dump, modulo a left-over checkpoint)
//	I2  a checkpoint, when present, parses, and every fragment it names is present with the recorded size and SHA-256
//	I3  every fragment committed before the step (named by the previous checkpoint) is still present and unchanged
//
// before is the tree the step started from (nil for a fresh dump).
func (h *harness) checkState(ci *ctxInfo, before, after rtk.Tree, out outcome, manifestAllowed bool) {
	nAfter := normTree(after)
	if out.res.Panic != nil {
		h.report("dump-panics", fmt.Sprintf("Dump panicked: %v", out.res.Panic), ci.steps)
		return
	}
	if _, has := after[manifestName]; has && !ci.altered {
		if d := complete(ci.ref, nAfter, true); d != "" {
			h.report("manifest-present-for-incomplete-dump", fmt.Sprintf("after %s a manifest exists but the directory is not the complete dump: %s", out, d), ci.steps)
		} else if !out.crashed() && out.err != nil && !manifestAllowed {
			h.report("dump-error-leaves-manifest", fmt.Sprintf("Dump returned %q yet left a manifest", oneLine(out.err.Error())), ci.steps)
		}
	}
	if c, has, err := readCheckpoint(after); has {
		if err != nil {
			h.report("checkpoint-unreadable", fmt.Sprintf("after %s: %v", out, err), ci.steps)
		} else {
			for _, f := range c.committed() {
				e, ok := after[f.Path]
				if !ok || e.Dir || e.Link != "" {
					h.report("checkpoint-names-missing-fragment", fmt.Sprintf("after %s the checkpoint records fragment %q which is not in the directory", out, f.Path), ci.steps)
				} else if int64(len(e.Data)) != f.Bytes || rtk.SHA(e.Data) != f.SHA {
					h.report("checkpoint-names-different-fragment", fmt.Sprintf("after %s fragment %q does not have the size/SHA-256 the checkpoint records", out, f.Path), ci.steps)
				}
			}
		}
	}
	if before != nil {
		if c, has, err := readCheckpoint(before); has && err == nil {
			for _, f := range c.committed() {
				b := before[f.Path]
				a, ok := after[f.Path]
				if !ok {
					h.report("resume-removes-committed-fragment", fmt.Sprintf("%s: committed fragment %q is gone", out, f.Path), ci.steps)
				} else if string(a.Data) != string(b.Data) {
					h.report("resume-alters-committed-fragment", fmt.Sprintf("%s: committed fragment %q changed", out, f.Path), ci.steps)
				}
			}
		}
	}
}

// checkSuccess: a Dump call that returned nil must leave exactly the uninterrupted dump.
func (h *harness) checkSuccess(ci *ctxInfo, after rtk.Tree, out outcome, plan *vos.Plan, events []vos.Event) {
	nAfter := normTree(after)
	if d := ci.ref.Diff(nAfter); d != "" {
		// The one tolerated difference: the injected error hit the removal of the checkpoint itself. No program can remove a
		// file the file system refuses to remove; the dump is complete and the manifest is valid.
		if plan != nil && plan.Mode == vos.Error && plan.K < len(events) && events[plan.K].Op == "Remove" &&
			strings.HasSuffix(events[plan.K].Path, checkpointName) && complete(ci.ref, nAfter, true) == "" {
			h.run.Add("success_with_checkpoint_left_by_injected_remove_error", 1)
			return
		}
		h.report("successful-dump-differs-from-uninterrupted", fmt.Sprintf("Dump returned success but the directory differs from the uninterrupted dump: %s", d), ci.steps)
	}
}

var reasons = []struct{ needle, bucket string }{
	{"read dump checkpoint", "no-checkpoint"},
	{"already contains a complete manifest", "manifest-already-complete"},
	{"unexpected file", "unexpected-file"},
	{"incompatible with the requested", "identity-mismatch"},
	{"source counts", "source-counts-changed"},
	{"sha256 mismatch", "fragment-checksum"},
	{"compressed byte mismatch", "fragment-size"},
	{"inspect dump checkpoint fragment", "fragment-missing"},
	{"graph count", "graph-count"},
	{"input/output error", "injected-eio"},
	{"process is dead", "dead"},
}

func bucket(err error) string {
	s := err.Error()
	for _, r := range reasons {
		if strings.Contains(s, r.needle) {
			return r.bucket
		}
	}
	return "other"
}

// Plans ----------------------------------------------------------------------------------------------------------------------

func plansFor(events []vos.Event) []vos.Plan {
	var out []vos.Plan
	for k, e := range events {
		out = append(out, vos.Plan{K: k, Mode: vos.CrashBefore}, vos.Plan{K: k, Mode: vos.CrashAfter}, vos.Plan{K: k, Mode: vos.Error})
		switch {
		case (e.Op == "File.Write" || e.Op == "WriteFile") && e.N > 0:
			out = append(out, vos.Plan{K: k, Mode: vos.Torn, Arg: 0})
			if e.N >= 2 {
				out = append(out, vos.Plan{K: k, Mode: vos.Torn, Arg: vos.AllButOne})
				out = append(out, vos.Plan{K: k, Mode: vos.Error, Arg: vos.Half}) // short write, then EIO
			}
			if e.N >= 4 {
				out = append(out, vos.Plan{K: k, Mode: vos.Torn, Arg: vos.Half})
			}
		case strings.HasSuffix(e.Op, ".Fetch"):
			for j := 0; j < e.N; j++ {
				out = append(out, vos.Plan{K: k, Mode: vos.Torn, Arg: j}) // j records delivered, then the process dies
				if j > 0 {
					out = append(out, vos.Plan{K: k, Mode: vos.Error, Arg: j}) // j records delivered, then the cursor fails
				}
			}
		}
	}
	return out
}

// Variants ("a resume never succeeds if ...") ----------------------------------------------------------------------------------

func otherCodec(c string) string {
	if c == "none" {
		return "gzip"
	}
	return "none"
}

// variants lists the alterations applicable to state t. mustFail=false marks the documented limits (measured, not judged).
type variant struct {
	name     string
	mustFail bool
}

func (h *harness) variants(t rtk.Tree) []variant {
	var out []variant
	for _, n := range []string{"opt:driver", "opt:graphs-reordered", "opt:graphs-renamed", "opt:graphs-dropped", "opt:graphs-added", "opt:codec", "opt:zstd-level", "opt:scrub-full", "opt:shard+1", "opt:batch+1"} {
		if n == "opt:graphs-reordered" && len(h.sc.Spec.Graphs) < 2 {
			continue
		}
		out = append(out, variant{n, true})
	}
	for _, n := range []string{"stray:root-file", "stray:graph-dir-file", "stray:extra-fragment", "stray:unknown-tmp", "stray:symlink", "stray:nested-dir-file"} {
		out = append(out, variant{n, true})
	}
	c, has, err := readCheckpoint(t)
	if !has || err != nil {
		return out
	}
	for _, f := range c.committed() {
		for _, k := range []string{"flip", "truncate", "extend", "delete"} {
			out = append(out, variant{"frag:" + k + ":" + f.Path, true})
		}
	}
	snap := c.snapshotted()
	for _, g := range h.sc.Spec.Graphs {
		for _, k := range []string{"add-node", "remove-node", "add-edge", "remove-edge"} {
			if (k == "remove-node" && len(g.Nodes) == 0) || (k == "remove-edge" && len(g.Edges) == 0) || (k == "add-edge" && len(g.Nodes) == 0) {
				continue
			}
			out = append(out, variant{"src:" + k + ":" + g.Name, snap[g.Name]})
		}
		if len(g.Nodes) > 0 {
			out = append(out, variant{"src:replace-node:" + g.Name, false}) // count-preserving: documented limit of count-based detection
		}
	}
	return out
}

// apply performs the named alteration on the directory / options / source.
func (h *harness) apply(name string, a *alteration) {
	parts := strings.SplitN(name, ":", 3)
	write := func(rel string, data string) {
		p := filepath.Join(h.dir, filepath.FromSlash(rel))
		_ = os.MkdirAll(filepath.Dir(p), 0o755)
		if err := os.WriteFile(p, []byte(data), 0o600); err != nil {
			core.Fatalf("variant: %v", err)
		}
	}
	firstGraphDir := "graphs/" + rtk.GraphDir(h.sc.Spec.Graphs[0].Name)
	if parts[0] == "stray" {
		_ = os.MkdirAll(h.dir, 0o755)
	}
	switch parts[0] {
	case "opt":
		switch parts[1] {
		case "driver":
			a.driver = "otherdriver"
		case "graphs-reordered":
			a.targets = append([]retriever.GraphTarget(nil), a.targets...)
			a.targets[0], a.targets[len(a.targets)-1] = a.targets[len(a.targets)-1], a.targets[0]
		case "graphs-renamed":
			a.targets = append([]retriever.GraphTarget(nil), a.targets...)
			a.targets[len(a.targets)-1].Name += "x"
		case "graphs-dropped":
			a.targets = a.targets[:len(a.targets)-1]
		case "graphs-added":
			a.targets = append(append([]retriever.GraphTarget(nil), a.targets...), retriever.GraphTarget{Name: "extra"})
		case "codec":
			a.opts.Compression = retriever.CompressionCodec(otherCodec(h.sc.Cfg.Codec))
		case "zstd-level":
			a.opts.ZstdLevel++
		case "scrub-full":
			a.opts.Scrub = retriever.ScrubFull
			a.opts.Salt = "salt"
		case "shard+1":
			a.opts.ShardSize++
		case "batch+1":
			a.opts.BatchSize++
		default:
			core.Fatalf("unknown variant %q", name)
		}
	case "stray":
		switch parts[1] {
		case "root-file":
			write("stray.txt", "x")
		case "graph-dir-file":
			write(firstGraphDir+"/stray", "x")
		case "extra-fragment":
			write(firstGraphDir+"/nodes-000099.jsonl"+rtk.Extension(h.sc.Cfg.Codec), "{}\n")
		case "unknown-tmp":
			write("other.tmp", "x")
		case "nested-dir-file":
			write("graphs/zzz/deeper/file", "x")
		case "symlink":
			if err := os.Symlink("stray-target", filepath.Join(h.dir, "stray-link")); err != nil {
				core.Fatalf("variant: %v", err)
			}
		default:
			core.Fatalf("unknown variant %q", name)
		}
	case "frag":
		p := filepath.Join(h.dir, filepath.FromSlash(parts[2]))
		b, err := os.ReadFile(p)
		if err != nil {
			core.Fatalf("variant %q: %v", name, err)
		}
		switch parts[1] {
		case "flip":
			b[len(b)/2] ^= 0x01
		case "truncate":
			b = b[:len(b)-1]
		case "extend":
			b = append(b, '\n')
		case "delete":
			if err := os.Remove(p); err != nil {
				core.Fatalf("variant: %v", err)
			}
			return
		}
		if err := os.WriteFile(p, b, 0o600); err != nil {
			core.Fatalf("variant: %v", err)
		}
	case "src":
		a.spec = a.spec.Clone()
		var g *fakedb.Graph
		for _, x := range a.spec.Graphs {
			if x.Name == parts[2] {
				g = x
			}
		}
		if g == nil {
			core.Fatalf("variant %q: no such graph", name)
		}
		maxNode := func() (idx int) {
			for i, n := range g.Nodes {
				if n.ID > g.Nodes[idx].ID {
					idx = i
				}
			}
			return
		}
		removeNode := func(i int) {
			id := g.Nodes[i].ID
			g.Nodes = append(g.Nodes[:i], g.Nodes[i+1:]...)
			var keep []*fakedb.Edge
			for _, e := range g.Edges {
				if e.Start != id && e.End != id {
					keep = append(keep, e)
				}
			}
			g.Edges = keep
		}
		switch parts[1] {
		case "add-node":
			g.Nodes = append(g.Nodes, &fakedb.Node{ID: 1 << 40, Kinds: []string{"A"}})
		case "remove-node":
			removeNode(maxNode())
		case "replace-node": // the highest node (no relationship needs to change when it is isolated) gets a new ID
			i := maxNode()
			n := *g.Nodes[i]
			old := n.ID
			n.ID = 1 << 41
			for _, e := range g.Edges {
				if e.Start == old {
					e.Start = n.ID
				}
				if e.End == old {
					e.End = n.ID
				}
			}
			g.Nodes[i] = &n
		case "add-edge":
			g.Edges = append(g.Edges, &fakedb.Edge{ID: 1 << 40, Start: g.Nodes[0].ID, End: g.Nodes[0].ID, Kind: "R"})
		case "remove-edge":
			i := 0
			for j, e := range g.Edges {
				if e.ID > g.Edges[i].ID {
					i = j
				}
			}
			g.Edges = append(g.Edges[:i], g.Edges[i+1:]...)
		default:
			core.Fatalf("unknown variant %q", name)
		}
	default:
		core.Fatalf("unknown variant %q", name)
	}
}

// Exploration ----------------------------------------------------------------------------------------------------------------

type explorer struct {
	h       *harness
	ref     rtk.Tree
	counted bool                // this worker counts first-level work
	final   map[string]struct{} // states whose clean resume has been judged
}

func digest(t rtk.Tree) string { return t.Digest(normalise) }

// cleanResume judges the clean resume from state t (memoised by state).
func (x *explorer) cleanResume(t rtk.Tree, steps []step) {
	d := digest(t)
	if _, done := x.final[d]; done {
		x.h.run.Add("final_resumes_memoised", 1)
		return
	}
	x.final[d] = struct{}{}
	h := x.h
	h.reset(t)
	st := append(append([]step(nil), steps...), step{Resume: true})
	ci := &ctxInfo{ref: x.ref, steps: st}
	out := h.exec(h.base(true), nil, false)
	after := rtk.ReadTree(h.dir)
	_, hadManifest := t[manifestName]
	h.checkState(ci, t, after, out, hadManifest)
	h.run.Add("final_resumes", 1)
	if out.err == nil && out.res.Panic == nil {
		h.checkSuccess(ci, after, out, nil, nil)
		h.run.Add("clean_resume_success", 1)
	} else if out.err != nil {
		h.run.Add("clean_resume_refused", 1)
		h.run.Add("clean_resume_refused:"+bucket(out.err), 1)
		if d := t.Diff(after); d != "" && !onlyKnownTempsRemoved(t, after) {
			h.run.Add("refused_resume_changed_directory", 1)
		}
	}
}

func onlyKnownTempsRemoved(before, after rtk.Tree) bool {
	for p := range after {
		if _, ok := before[p]; !ok {
			return false
		}
	}
	for p, e := range before {
		a, ok := after[p]
		if !ok {
			if !strings.HasSuffix(p, ".tmp") {
				return false
			}
			continue
		}
		if string(a.Data) != string(e.Data) {
			return false
		}
	}
	return true
}

// scrubbedResumes: a dump with full scrubbing under salt A is interrupted at every call (crash before the call); a
// resume under salt B, under no scrubbing, or under partial scrubbing must be refused whenever the interrupted run left
// a checkpoint (the pseudonyms of the committed shards were derived from salt A). The independent dump reader does not
// model scrubbing, so this part only uses the "never succeeds if the options differ" oracle.
func (x *explorer) scrubbedResumes(sc scenario) {
	h := x.h
	h.sc = sc
	scrubbed := func(resume bool, salt string, mode retriever.ScrubMode) alteration {
		a := h.base(resume)
		a.opts.Scrub = mode
		a.opts.Salt = salt
		return a
	}
	h.reset(nil)
	ref := h.exec(scrubbed(false, "salt A", retriever.ScrubFull), nil, true)
	if ref.err != nil || ref.res.Crashed || ref.res.Panic != nil {
		h.run.Add("scrubbed_dump_not_supported_by_this_tree", 1)
		return
	}
	for k := range ref.res.Events {
		h.reset(nil)
		out := h.exec(scrubbed(false, "salt A", retriever.ScrubFull), &vos.Plan{K: k, Mode: vos.CrashBefore}, false)
		if !out.res.Crashed {
			continue
		}
		state := rtk.ReadTree(h.dir)
		if _, has, err := readCheckpoint(state); !has || err != nil {
			continue // nothing committed yet: a resume starts from scratch, any options are fine
		}
		for _, alt := range []struct {
			name string
			a    alteration
		}{
			{"another salt", scrubbed(true, "salt B", retriever.ScrubFull)},
			{"no scrubbing", scrubbed(true, "", retriever.ScrubNone)},
		} {
			h.reset(state)
			res := h.exec(alt.a, nil, false)
			h.run.Add("scrubbed_resume_variants", 1)
			if res.err == nil && !res.res.Crashed && res.res.Panic == nil {
				h.report("resume-succeeds-with-changed-options:scrub-salt", fmt.Sprintf("dump with full scrubbing under one salt, crashed before call %d; the resume with %s succeeded", k, alt.name), nil)
			}
		}
	}
}

func (x *explorer) scenario(sc scenario, mine func(int) bool) {
	h := x.h
	h.sc = sc
	run := h.run
	x.final = map[string]struct{}{}

	// reference: the uninterrupted dump, traced
	h.reset(nil)
	out := h.exec(h.base(false), nil, true)
	if out.err != nil || out.res.Crashed || out.res.Panic != nil {
		h.report("dump-fails", fmt.Sprintf("uninterrupted dump: %s", out), nil)
		return
	}
	refRaw := rtk.ReadTree(h.dir)
	if _, err := rtk.CheckDump(h.dir, sc.Spec, sc.Cfg); err != nil {
		h.report("uninterrupted-dump-wrong", err.Error(), nil)
		return
	}
	x.ref = normTree(refRaw)
	events := out.res.Events
	if x.counted {
		run.Add("calls_in_uninterrupted_dump", int64(len(events)))
		run.Sample(map[string]any{"scenario": sc.Cfg.String(), "graphs": len(sc.Spec.Graphs), "calls": len(events), "first_calls": events[:min(len(events), 6)]})
	}

	// depth 1: every call x mode
	type state struct {
		tree  rtk.Tree
		steps []step
	}
	var states []state
	seen := map[string]bool{}
	for _, p := range plansFor(events) {
		p := p
		h.reset(nil)
		st := []step{{Plan: &p}}
		ci := &ctxInfo{ref: x.ref, steps: st}
		out := h.exec(h.base(false), &p, false)
		if !out.res.Fired {
			core.Fatalf("NONDETERMINISM: plan %+v of %s was not reached", p, sc.Cfg)
		}
		after := rtk.ReadTree(h.dir)
		if x.counted {
			run.Add("first_level_runs", 1)
			h.checkState(ci, nil, after, out, false)
			if !out.crashed() && out.err == nil && out.res.Panic == nil {
				h.checkSuccess(ci, after, out, &p, events)
			}
		} else {
			run.Add("evaluations", -1) // first-level runs are repeated in every worker; count them once
		}
		d := digest(after)
		if x.counted && os.Getenv("C19_DEBUG") == "2" {
			fmt.Fprintf(os.Stderr, "D1 %s %+v %v -> %s %s\n", sc.Cfg, p, events[p.K], d, out)
		}
		if !seen[d] {
			seen[d] = true
			states = append(states, state{after, st})
		}
	}
	if x.counted {
		run.Add("distinct_nontrivial", int64(len(states)))
		run.Add("states_after_first_fault", int64(len(states)))
	}

	// depth 2 from every distinct state
	for si, s := range states {
		if !mine(si) {
			continue
		}
		if run.TimeUp() {
			run.Capped("deadline")
			return
		}
		// the clean resume, traced, gives the call list of this state's resume
		h.reset(s.tree)
		st := append(append([]step(nil), s.steps...), step{Resume: true})
		ci := &ctxInfo{ref: x.ref, steps: st}
		out := h.exec(h.base(true), nil, true)
		after := rtk.ReadTree(h.dir)
		_, hadManifest := s.tree[manifestName]
		h.checkState(ci, s.tree, after, out, hadManifest)
		x.final[digest(s.tree)] = struct{}{}
		resumable := out.err == nil && out.res.Panic == nil
		if resumable {
			h.checkSuccess(ci, after, out, nil, nil)
			run.Add("resume_after_first_fault_success", 1)
		} else if out.err != nil {
			run.Add("resume_after_first_fault_refused", 1)
			run.Add("resume_after_first_fault_refused:"+bucket(out.err), 1)
			if p := s.steps[0].Plan; p != nil && p.Mode == vos.Error {
				run.Add("resume_refused_after_error_return:"+bucket(out.err), 1)
				if os.Getenv("C19_DEBUG") != "" {
					fmt.Fprintf(os.Stderr, "DEBUG %s plan=%+v call=%v refused: %s\n%s", sc.Cfg, *p, events[p.K], oneLine(out.err.Error()), listing(s.tree))
				}
			}
		}
		revents := out.res.Events

		// "a resume never succeeds if the options differ, the source changed, or the directory holds unaccounted files"
		for _, v := range h.variants(s.tree) {
			h.reset(s.tree)
			a := h.base(true)
			h.apply(v.name, &a)
			before := rtk.ReadTree(h.dir)
			vst := append(append([]step(nil), s.steps...), step{Resume: true, Variant: v.name})
			vci := &ctxInfo{ref: x.ref, steps: vst, altered: true}
			vo := h.exec(a, nil, false)
			vafter := rtk.ReadTree(h.dir)
			run.Add("variant_runs", 1)
			if vo.res.Panic != nil {
				h.report("dump-panics", fmt.Sprintf("resume with %s panicked: %v", v.name, vo.res.Panic), vst)
				continue
			}
			switch {
			case vo.err == nil && v.mustFail:
				h.report("resume-succeeds-despite:"+strings.Join(strings.SplitN(v.name, ":", 3)[:2], ":"), fmt.Sprintf("resume succeeded although %s", v.name), vst)
			case vo.err == nil && strings.HasPrefix(v.name, "src:replace-node"):
				run.Add("limit_count_preserving_source_change_resumed", 1)
			case vo.err == nil: // source edit in a graph the interrupted dump had not started to read
				run.Add("source_change_in_unread_graph_resumed", 1)
				if _, err := rtk.CheckDump(h.dir, a.spec, h.sc.Cfg); err != nil {
					h.report("resume-after-change-of-unread-graph-inconsistent", fmt.Sprintf("%s: resumed dump is not a dump of the changed source: %v", v.name, err), vst)
				}
			default:
				run.Add("variant_refused", 1)
				// a refusal must not damage what was committed (frag:* variants damaged a fragment themselves)
				if !strings.HasPrefix(v.name, "frag:") {
					h.checkState(vci, before, vafter, vo, hadManifest)
				}
			}
		}

		// every call x mode of the resume, then a clean resume
		for _, p := range plansFor(revents) {
			p := p
			h.reset(s.tree)
			st2 := append(append([]step(nil), s.steps...), step{Resume: true, Plan: &p})
			ci2 := &ctxInfo{ref: x.ref, steps: st2}
			o2 := h.exec(h.base(true), &p, false)
			if !o2.res.Fired {
				core.Fatalf("NONDETERMINISM: resume plan %+v of %s was not reached", p, sc.Cfg)
			}
			after2 := rtk.ReadTree(h.dir)
			run.Add("second_level_runs", 1)
			h.checkState(ci2, s.tree, after2, o2, hadManifest)
			if !o2.crashed() && o2.err == nil && o2.res.Panic == nil {
				h.checkSuccess(ci2, after2, o2, &p, revents)
			}
			x.cleanResume(after2, st2)
		}
	}
}

// Replay -----------------------------------------------------------------------------------------------------------------------

func listing(t rtk.Tree) string {
	var sb strings.Builder
	paths := t.Files()
	sort.Strings(paths)
	for _, p := range paths {
		e := t[p]
		if e.Link != "" {
			fmt.Fprintf(&sb, "    %s -> %s\n", p, e.Link)
		} else {
			fmt.Fprintf(&sb, "    %-60s %5d bytes sha256=%s\n", p, len(e.Data), rtk.SHA(e.Data)[:12])
		}
	}
	if sb.Len() == 0 {
		return "    (empty)\n"
	}
	return sb.String()
}

func replay(run *core.Run) {
	var art artefact
	core.LoadArtefact(run.Replay, &art)
	root := rtk.NewRoot("c19")
	defer os.RemoveAll(root)
	h := &harness{run: run, root: root, dir: filepath.Join(root, "out"), sc: art.Scenario, verb: true}
	h.reset(nil)
	out := h.exec(h.base(false), nil, true)
	ref := normTree(rtk.ReadTree(h.dir))
	fmt.Printf("uninterrupted dump (%s): %s, %d calls\n%s", art.Scenario.Cfg, out, out.res.Calls, listing(ref))
	h.reset(nil)
	events := out.res.Events
	var prevHadManifest bool
	for i, st := range art.Steps {
		before := rtk.ReadTree(h.dir)
		a := h.base(st.Resume)
		if st.Variant != "" {
			h.apply(st.Variant, &a)
			before = rtk.ReadTree(h.dir)
		}
		if st.Plan != nil && st.Plan.K < len(events) && !st.Resume {
			fmt.Printf("step %d: fault %s(arg %d) at call %d = %s %s\n", i+1, st.Plan.Mode, st.Plan.Arg, st.Plan.K, events[st.Plan.K].Op, events[st.Plan.K].Path)
		}
		if st.Resume && st.Plan != nil {
			// trace the clean resume from this state to name the call
			saved := rtk.ReadTree(h.dir)
			tr := h.exec(a, nil, true)
			if st.Plan.K < len(tr.res.Events) {
				fmt.Printf("step %d: fault %s(arg %d) at resume call %d = %s %s\n", i+1, st.Plan.Mode, st.Plan.Arg, st.Plan.K, tr.res.Events[st.Plan.K].Op, tr.res.Events[st.Plan.K].Path)
			}
			h.reset(saved)
		}
		o := h.exec(a, st.Plan, false)
		after := rtk.ReadTree(h.dir)
		fmt.Printf("step %d: Dump(resume=%v, variant=%q) -> %s\n  directory afterwards:\n%s", i+1, st.Resume, st.Variant, o, listing(after))
		ci := &ctxInfo{ref: ref, steps: art.Steps[:i+1], altered: st.Variant != ""}
		var b rtk.Tree
		if st.Resume {
			b = before
		}
		if !strings.HasPrefix(st.Variant, "frag:") {
			h.checkState(ci, b, after, o, prevHadManifest)
		}
		if !o.crashed() && o.err == nil {
			switch {
			case st.Variant != "" && !strings.HasPrefix(st.Variant, "src:"):
				h.report("resume-succeeds-despite:"+strings.Join(strings.SplitN(st.Variant, ":", 3)[:2], ":"), "resume succeeded although "+st.Variant, ci.steps)
			case strings.HasPrefix(st.Variant, "src:"):
				c, _, _ := readCheckpoint(before)
				g := strings.SplitN(st.Variant, ":", 3)[2]
				if c != nil && c.snapshotted()[g] && !strings.HasPrefix(st.Variant, "src:replace-node") {
					h.report("resume-succeeds-despite:"+strings.Join(strings.SplitN(st.Variant, ":", 3)[:2], ":"), "resume succeeded although "+st.Variant, ci.steps)
				}
			default:
				h.checkSuccess(ci, after, o, st.Plan, events)
			}
		}
		_, prevHadManifest = after[manifestName]
	}
	os.RemoveAll(root)
	if run.Violations() == 0 {
		fmt.Println("replay: no violation")
	}
	run.Finish()
}

func main() {
	run := core.Start("C19", "fault_enumeration")
	if run.Replay != "" {
		replay(run)
	}
	if !run.Fork(16) {
		root := rtk.NewRoot("c19")
		i, n, _ := run.Worker()
		h := &harness{run: run, root: root, dir: filepath.Join(root, "out")}
		x := &explorer{h: h, counted: i == 0}
		if i == 0 {
			x.scrubbedResumes(scenarios(run.Tier)[0])
		}
		for si, sc := range scenarios(run.Tier) {
			si := si
			x.scenario(sc, func(k int) bool { return (k+si)%n == i })
			if i == 0 {
				run.Add("scenarios", 1)
			}
		}
		os.RemoveAll(root)
		run.Finish()
	}
	run.Set("rule", "for each scenario (database of a 3-node/2-relationship graph + an empty graph, and a 3-node/3-relationship graph with shard size 1 [thorough: + empty graph first and two non-empty graphs] x codec x shard size x batch size): every intercepted call index k of Dump (file system calls incl. File.Read/Write/Close, database Count/Fetch) x {crash-before, crash-after, EIO, torn write at 0/n/2/n-1 bytes, short write then EIO, fetch dying or failing after j records}; from every distinct resulting directory state: a traced clean resume, every 'never succeeds if' alteration (10 option changes, 4 source edits per graph, 6 stray files, 4 damages per committed fragment), and every call index x mode of the resume followed by a clean resume (depth 2)")
	run.Assume("scrubbed dumps are only explored for the 'never succeeds if the options differ' clause (crash before every call of a fully scrubbed dump, resume under another salt / without scrubbing): the independent dump reader does not model pseudonymisation")
	run.Assume("a crash is modelled as: the faulted call has the stated (partial) effect, every later call has none (dead shim) - process crash, not power loss; fsync ordering is out of scope")
	run.Assume("directory states are identified modulo the generated_at timestamp; depth 2 is explored once per distinct state after the first fault (resume is a function of directory, source and options)")
	run.Assume("'interrupted => no manifest' is read as: a manifest is present only if the dump is complete and identical to the uninterrupted one (a crash between publishing the manifest and removing the checkpoint leaves both)")
	run.Assume("'source changed' is judged for count-changing edits of graphs whose counts the checkpoint has recorded; count-preserving replacement and edits of graphs not yet read are measured (limit_* / source_change_in_unread_graph_resumed), the latter must yield a consistent dump of the changed source")
	run.Assume("an injected EIO on the removal of the checkpoint itself leaves the checkpoint beside a complete dump (counted, not judged: no program can remove a file the file system refuses to remove)")
	run.Finish()
}
