package main

import "strings"

// A shape is a query with one hole for user-controlled text and the way the text is spelled in Cypher there.
type shape struct {
	Name     string
	Position string // class of user-text position (literal, property-key, map-key, kind, variable, alias, parameter-name, parameter-value)
	Template string // Cypher text with {} where the encoded value goes ("" for parameter-value shapes: see Param)
	Enc      string // sq | dq | bt | none
	// Param: the value is supplied as parameter $prm: "string" | "list" | "map-key" | "map-value"
	Param string
	// RegisterKind: the value is a kind name that must be known to the kind mapper
	RegisterKind bool
	// Transform names how the value legitimately appears in SQL: "" identical, "like-prefix", "like-suffix", "like-infix"
	Transform string
	// Anonymous: after parsing, every parameter gets its value stored in the AST and its name removed, which is how the
	// query builders of package query hand parameters to the translator
	Anonymous bool
}

var shapes = []shape{
	// --- string literals
	{Name: "where-eq-single-quoted", Position: "string-literal", Enc: "sq", Template: "MATCH (n) WHERE n.name = '{}' RETURN n"},
	{Name: "where-eq-double-quoted", Position: "string-literal", Enc: "dq", Template: "MATCH (n) WHERE n.name = \"{}\" RETURN n"},
	{Name: "where-neq", Position: "string-literal", Enc: "sq", Template: "MATCH (n) WHERE n.name <> '{}' RETURN n"},
	{Name: "inline-map-value", Position: "string-literal", Enc: "sq", Template: "MATCH (n {name: '{}'}) RETURN n"},
	{Name: "rel-inline-map-value", Position: "string-literal", Enc: "sq", Template: "MATCH (n)-[r {name: '{}'}]->(m) RETURN m"},
	{Name: "in-list", Position: "string-literal", Enc: "sq", Template: "MATCH (n) WHERE n.name IN ['{}', 'y'] RETURN n"},
	{Name: "in-property-list", Position: "string-literal", Enc: "sq", Template: "MATCH (n) WHERE '{}' IN n.list RETURN n"},
	{Name: "starts-with", Position: "string-literal", Enc: "sq", Template: "MATCH (n) WHERE n.name STARTS WITH '{}' RETURN n", Transform: "like-prefix"},
	{Name: "ends-with", Position: "string-literal", Enc: "sq", Template: "MATCH (n) WHERE n.name ENDS WITH '{}' RETURN n", Transform: "like-suffix"},
	{Name: "contains", Position: "string-literal", Enc: "sq", Template: "MATCH (n) WHERE n.name CONTAINS '{}' RETURN n", Transform: "like-infix"},
	{Name: "not-contains", Position: "string-literal", Enc: "sq", Template: "MATCH (n) WHERE NOT n.name CONTAINS '{}' RETURN n", Transform: "like-infix"},
	{Name: "regex", Position: "string-literal", Enc: "sq", Template: "MATCH (n) WHERE n.name =~ '{}' RETURN n"},
	{Name: "return-literal", Position: "string-literal", Enc: "sq", Template: "MATCH (n) RETURN n, '{}'"},
	{Name: "function-argument", Position: "string-literal", Enc: "sq", Template: "MATCH (n) WHERE toLower(n.name) = toLower('{}') RETURN n"},
	{Name: "coalesce-argument", Position: "string-literal", Enc: "sq", Template: "MATCH (n) WHERE coalesce(n.name, '{}') = 'a' RETURN n"},
	{Name: "labels-in", Position: "string-literal", Enc: "sq", Template: "MATCH (n) WHERE '{}' IN labels(n) RETURN n"},
	{Name: "type-eq", Position: "string-literal", Enc: "sq", Template: "MATCH (n)-[r]->(m) WHERE type(r) = '{}' RETURN n", RegisterKind: true},
	{Name: "unwind-list", Position: "string-literal", Enc: "sq", Template: "UNWIND ['{}', 'y'] AS u RETURN u"},
	{Name: "with-literal", Position: "string-literal", Enc: "sq", Template: "WITH '{}' AS t MATCH (n) WHERE n.name = t RETURN n"},
	{Name: "quantifier", Position: "string-literal", Enc: "sq", Template: "MATCH (n) WHERE any(e IN n.list WHERE e = '{}') RETURN n"},
	{Name: "pattern-predicate", Position: "string-literal", Enc: "sq", Template: "MATCH (n) WHERE (n)-->({name: '{}'}) RETURN n"},
	{Name: "expansion-seed", Position: "string-literal", Enc: "sq", Template: "MATCH (n)-[*1..2]->(m) WHERE n.name = '{}' RETURN m"},
	{Name: "expansion-terminal", Position: "string-literal", Enc: "sq", Template: "MATCH (n)-[*1..2]->(m) WHERE m.name = '{}' RETURN m"},
	{Name: "optional-match", Position: "string-literal", Enc: "sq", Template: "MATCH (n) OPTIONAL MATCH (n)-->(x {name: '{}'}) RETURN n, x"},
	{Name: "set-value", Position: "string-literal", Enc: "sq", Template: "MATCH (n) SET n.name = '{}' RETURN n"},
	{Name: "create-property", Position: "string-literal", Enc: "sq", Template: "CREATE (n:NodeKind1 {name: '{}'}) RETURN n"},
	{Name: "create-rel-property", Position: "string-literal", Enc: "sq", Template: "CREATE (a:NodeKind1)-[:EdgeKind1 {name: '{}'}]->(b:NodeKind2)"},
	{Name: "order-by-literal-arg", Position: "string-literal", Enc: "sq", Template: "MATCH (n) RETURN n ORDER BY coalesce(n.name, '{}')"},
	// --- shortest paths: literals end up inside SQL text handed to the plpgsql harness
	{Name: "shortest-path-root-filter", Position: "string-literal-in-harness-sql", Enc: "sq", Template: "MATCH p = shortestPath((n)-[*1..]->(m)) WHERE n.name = '{}' RETURN p"},
	{Name: "shortest-path-terminal-filter", Position: "string-literal-in-harness-sql", Enc: "sq", Template: "MATCH p = shortestPath((n)-[*1..]->(m)) WHERE m.name = '{}' RETURN p"},
	{Name: "shortest-path-both-filters", Position: "string-literal-in-harness-sql", Enc: "sq", Template: "MATCH p = shortestPath((n {name: '{}'})-[*1..]->(m {name: 'y'})) RETURN p"},
	{Name: "all-shortest-paths-filter", Position: "string-literal-in-harness-sql", Enc: "sq", Template: "MATCH p = allShortestPaths((n:NodeKind1)-[:EdgeKind1*1..]->(m:NodeKind2)) WHERE n.name = '{}' AND m.name = 'y' RETURN p"},
	{Name: "shortest-path-bound-root-terminal-filter", Position: "string-literal-in-harness-sql", Enc: "sq", Template: "MATCH (s:NodeKind1 {name: 'a'}) MATCH p = shortestPath((s)-[:EdgeKind1*1..]->(e)) WHERE e.name = '{}' RETURN p"},
	{Name: "shortest-path-bound-root-filter", Position: "string-literal-in-harness-sql", Enc: "sq", Template: "MATCH (s:NodeKind1 {name: '{}'}) MATCH p = shortestPath((s)-[:EdgeKind1*1..]->(e:NodeKind2)) RETURN p"},
	{Name: "shortest-path-edge-filter", Position: "string-literal-in-harness-sql", Enc: "sq", Template: "MATCH p = shortestPath((n)-[r*1..]->(m)) WHERE n.name = 'a' AND all(e IN relationships(p) WHERE e.name = '{}') RETURN p"},
	// --- property keys / map keys
	{Name: "property-key-where", Position: "property-key", Enc: "bt", Template: "MATCH (n) WHERE n.`{}` = 'a' RETURN n"},
	{Name: "property-key-return", Position: "property-key", Enc: "bt", Template: "MATCH (n) RETURN n.`{}`"},
	{Name: "property-key-order-by", Position: "property-key", Enc: "bt", Template: "MATCH (n) RETURN n ORDER BY n.`{}`"},
	{Name: "property-key-is-null", Position: "property-key", Enc: "bt", Template: "MATCH (n) WHERE n.`{}` IS NOT NULL RETURN n"},
	{Name: "property-key-set", Position: "property-key", Enc: "bt", Template: "MATCH (n) SET n.`{}` = 'a' RETURN n"},
	{Name: "property-key-remove", Position: "property-key", Enc: "bt", Template: "MATCH (n) REMOVE n.`{}` RETURN n"},
	{Name: "property-key-shortest-path", Position: "property-key-in-harness-sql", Enc: "bt", Template: "MATCH p = shortestPath((n)-[*1..]->(m)) WHERE n.`{}` = 'a' RETURN p"},
	{Name: "map-key-match", Position: "map-key", Enc: "bt", Template: "MATCH (n {`{}`: 'a'}) RETURN n"},
	{Name: "map-key-create", Position: "map-key", Enc: "bt", Template: "CREATE (n:NodeKind1 {`{}`: 'a'}) RETURN n"},
	// --- names
	{Name: "kind-name-match", Position: "kind-name", Enc: "bt", Template: "MATCH (n:`{}`) RETURN n", RegisterKind: true},
	{Name: "kind-name-where", Position: "kind-name", Enc: "bt", Template: "MATCH (n) WHERE n:`{}` RETURN n", RegisterKind: true},
	{Name: "kind-name-create", Position: "kind-name", Enc: "bt", Template: "CREATE (n:`{}`) RETURN n"},
	{Name: "kind-name-set", Position: "kind-name", Enc: "bt", Template: "MATCH (n) SET n:`{}` RETURN n"},
	{Name: "edge-kind-name", Position: "kind-name", Enc: "bt", Template: "MATCH (n)-[r:`{}`]->(m) RETURN m", RegisterKind: true},
	{Name: "variable-name", Position: "variable-name", Enc: "bt", Template: "MATCH (`{}`) RETURN `{}`"},
	{Name: "variable-name-property", Position: "variable-name", Enc: "bt", Template: "MATCH (`{}`) WHERE `{}`.name = 'a' RETURN `{}`.name"},
	{Name: "projection-alias", Position: "projection-alias", Enc: "bt", Template: "MATCH (n) RETURN n AS `{}`"},
	{Name: "projection-alias-order-by", Position: "projection-alias", Enc: "bt", Template: "MATCH (n) RETURN n.name AS `{}` ORDER BY `{}`"},
	{Name: "with-alias", Position: "with-alias", Enc: "bt", Template: "MATCH (n) WITH n AS `{}` RETURN `{}`"},
	{Name: "unwind-alias", Position: "with-alias", Enc: "bt", Template: "UNWIND [1, 2] AS `{}` RETURN `{}`"},
	{Name: "projection-alias-aggregate", Position: "projection-alias", Enc: "bt", Template: "MATCH (n) RETURN n.name AS `{}`, count(n) AS c ORDER BY c"},
	{Name: "projection-alias-count-fast-path", Position: "projection-alias", Enc: "bt", Template: "MATCH (n:NodeKind1) RETURN count(n) AS `{}`"},
	{Name: "with-alias-scalar", Position: "with-alias", Enc: "bt", Template: "MATCH (n) WITH n.name AS `{}` RETURN `{}`"},
	{Name: "with-alias-collect", Position: "with-alias", Enc: "bt", Template: "MATCH (n) WITH collect(n) AS `{}` RETURN `{}`"},
	{Name: "with-alias-where", Position: "with-alias", Enc: "bt", Template: "MATCH (n) WITH n, count(n) AS `{}` WHERE `{}` > 1 RETURN n"},
	{Name: "with-alias-aggregate-traversal-count", Position: "with-alias", Enc: "bt", Template: "MATCH (n:NodeKind1) MATCH (n)-[:EdgeKind1*1..]->(c:NodeKind2) WITH DISTINCT n, count(c) AS `{}` RETURN n ORDER BY `{}` DESC LIMIT 5"},
	{Name: "with-alias-then-match", Position: "with-alias", Enc: "bt", Template: "MATCH (n) WITH n AS `{}` MATCH (`{}`)-[:EdgeKind1]->(m) RETURN m"},
	{Name: "relationship-variable-name", Position: "variable-name", Enc: "bt", Template: "MATCH (a)-[`{}`]->(b) RETURN `{}`"},
	{Name: "expansion-variable-name", Position: "variable-name", Enc: "bt", Template: "MATCH (a)-[`{}`:EdgeKind1*1..]->(b) RETURN `{}`"},
	{Name: "path-variable-name", Position: "variable-name", Enc: "bt", Template: "MATCH `{}` = (a)-[:EdgeKind1*1..]->(b) RETURN `{}`"},
	{Name: "quantifier-variable-name", Position: "variable-name", Enc: "bt", Template: "MATCH (n) WHERE any(`{}` IN n.list WHERE `{}` = 'a') RETURN n"},
	{Name: "variable-name-shortest-path", Position: "variable-name", Enc: "bt", Template: "MATCH p = shortestPath((`{}`)-[*1..]->(m)) WHERE `{}`.name = 'a' RETURN p"},
	{Name: "parameter-name", Position: "parameter-name", Enc: "bt", Template: "MATCH (n) WHERE n.name = $`{}` RETURN n"},
	// --- parameter values
	{Name: "parameter-value-string", Position: "parameter-value", Param: "string", Template: "MATCH (n) WHERE n.name = $prm RETURN n"},
	{Name: "parameter-value-list", Position: "parameter-value", Param: "list", Template: "MATCH (n) WHERE n.name IN $prm RETURN n"},
	{Name: "parameter-value-contains", Position: "parameter-value", Param: "string", Template: "MATCH (n) WHERE n.name CONTAINS $prm RETURN n"},
	{Name: "parameter-value-set", Position: "parameter-value", Param: "string", Template: "MATCH (n) SET n.name = $prm RETURN n"},
	{Name: "parameter-map-value-create", Position: "parameter-value", Param: "map-value", Template: "CREATE (n:NodeKind1 $prm) RETURN n"},
	{Name: "parameter-map-key-create", Position: "parameter-value", Param: "map-key", Template: "CREATE (n:NodeKind1 $prm) RETURN n"},
	{Name: "parameter-value-shortest-path", Position: "parameter-value-in-harness-sql", Param: "string", Template: "MATCH p = shortestPath((n)-[*1..]->(m)) WHERE n.name = $prm RETURN p"},
	{Name: "parameter-value-shortest-path-terminal", Position: "parameter-value-in-harness-sql", Param: "string", Template: "MATCH p = shortestPath((n)-[*1..]->(m)) WHERE n.name = 'a' AND m.name = $prm RETURN p"},
	{Name: "parameter-value-shortest-path-bound-root", Position: "parameter-value-in-harness-sql", Param: "string", Template: "MATCH (s:NodeKind1 {name: 'a'}) MATCH p = shortestPath((s)-[:EdgeKind1*1..]->(e)) WHERE e.name = $prm RETURN p"},
	{Name: "parameter-value-shortest-path-bound-ends", Position: "parameter-value-in-harness-sql", Param: "string", Template: "MATCH (s:NodeKind1 {name: 'a'}), (e:NodeKind2 {name: $prm}) MATCH p = shortestPath((s)-[:EdgeKind1*1..]->(e)) RETURN p"},
	{Name: "parameter-value-all-shortest-paths-bound-root", Position: "parameter-value-in-harness-sql", Param: "string", Template: "MATCH (s:NodeKind1 {name: $prm}) MATCH p = allShortestPaths((s)-[:EdgeKind1*1..]->(e:NodeKind2)) WHERE e.name = 'y' RETURN p"},
	{Name: "anonymous-parameter-first", Position: "parameter-value", Param: "string-first", Anonymous: true, Template: "MATCH (n) WHERE n.name = $prm AND n.other = $second RETURN n"},
	{Name: "anonymous-parameter-second", Position: "parameter-value", Param: "string-second", Anonymous: true, Template: "MATCH (n) WHERE n.other = $first AND n.name = $prm RETURN n"},
	{Name: "anonymous-parameter-shortest-path", Position: "parameter-value-in-harness-sql", Param: "string-second", Anonymous: true, Template: "MATCH p = allShortestPaths((s)-[:EdgeKind1*1..]->(e)) WHERE s.name = $first AND e.name = $prm RETURN p"},
	{Name: "parameter-list-shortest-path", Position: "parameter-value-in-harness-sql", Param: "list", Template: "MATCH p = allShortestPaths((n)-[*1..]->(m)) WHERE n.name IN $prm RETURN p"},
}

// encode spells value v in Cypher for the given encoding (an implementation of the Cypher escape rules that is
// independent of DAWGS' decoder: the denoted value of the produced text is v by construction).
func encode(enc, v string) string {
	switch enc {
	case "sq":
		return strings.NewReplacer(`\`, `\\`, `'`, `\'`).Replace(v)
	case "dq":
		return strings.NewReplacer(`\`, `\\`, `"`, `\"`).Replace(v)
	case "bt":
		return strings.ReplaceAll(v, "`", "``")
	}
	return v
}

func (s shape) text(v string) string {
	return strings.ReplaceAll(s.Template, "{}", encode(s.Enc, v))
}

func (s shape) params(v string) map[string]any {
	switch s.Param {
	case "string":
		return map[string]any{"prm": v}
	case "string-first":
		return map[string]any{"prm": v, "second": "other value"}
	case "string-second":
		return map[string]any{"first": "other value", "prm": v}
	case "list":
		return map[string]any{"prm": []string{v, "y"}}
	case "map-value":
		return map[string]any{"prm": map[string]any{"name": v}}
	case "map-key":
		return map[string]any{"prm": map[string]any{v: "a"}}
	}
	return nil
}

// alphabet and fixed pool of DESIGN.md 4/C04.
var alphabet = []string{"'", "\"", "\\", "`", ";", "-", "/", "*", "$", "e", "E", "x", "\n", "\r", "\u0001", "é", "\U0001F600"}

var fixedPool = []string{"' or 1=1 --", "'' or 1=1 --", "$$", "$a$", "\\'", "E'\\\\'", "/*", "*/", "'; drop table node; --", "x; drop table node; --", "\\\\'; select 1; --",
	"a\\", "a'", "a''", "%", "_", "a%b_c", "\\%", "@pi0", "@p", "$1", "x' || 'y", "U&'\\0041'", "a\"b", "\"; drop table node; --"}

func values(L int) []string {
	out := []string{""}
	level := []string{""}
	for l := 0; l < L; l++ {
		var next []string
		for _, p := range level {
			for _, a := range alphabet {
				next = append(next, p+a)
			}
		}
		out = append(out, next...)
		level = next
	}
	out = append(out, fixedPool...)
	out = append(out, strings.Repeat("a", 70000))
	return out
}
