// Command c04 decides property C04 (user-controlled text cannot change the token structure of emitted SQL).
//
// Every value of a bounded adversarial string space is placed in every user-text position of a set of query shapes;
// the emitted SQL - and, recursively, every piece of SQL text the statement hands to the plpgsql harness functions,
// whether as a bound parameter or as a string literal - is tokenised with the pglex model of PostgreSQL's lexer and
// compared with the benign twin (same shape, value `x`).
package main

import (
	"encoding/json"
	"fmt"
	"os"
	"sort"
	"strings"

	"github.com/specterops/dawgs/cypher/models/cypher"
	"github.com/specterops/dawgs/cypher/models/walk"
	"github.com/specterops/dawgs/graph"

	"verif/core"
	"verif/enum/cyq"
	"verif/pglex"
	"verif/xlate"
)

type artefact struct {
	Shape string `json:"shape"`
	Value string `json:"value"`
}

// flat is one token of the statement or of a nested SQL text, with the path of containers it sits in.
type flat struct {
	path      string
	tok       pglex.Token
	container bool // a string token / parameter whose content was lexed as SQL (its own text is not compared)
}

// flatten lexes sql and, for arguments of *_harness(...) calls that carry SQL text, the text inside them.
func flatten(sql string, params map[string]any, path string, depth int, out *[]flat) {
	toks, _ := pglex.Lex(sql)
	nested := map[int]string{}
	if depth < 4 {
		for i := 0; i+1 < len(toks); i++ {
			if toks[i].Kind == pglex.Ident && strings.HasSuffix(toks[i].Value, "_harness") && toks[i+1].Text == "(" {
				d := 0
				for j := i + 1; j < len(toks); j++ {
					switch toks[j].Text {
					case "(":
						d++
					case ")":
						d--
					}
					if d == 0 {
						break
					}
					switch toks[j].Kind {
					case pglex.NamedParam:
						if s, ok := params[toks[j].Value].(string); ok {
							nested[j] = s
						}
					case pglex.String, pglex.EString, pglex.Dollar:
						if strings.TrimSpace(toks[j].Value) != "" {
							nested[j] = toks[j].Value
						}
					}
				}
			}
		}
	}
	for i, t := range toks {
		text, isContainer := nested[i]
		*out = append(*out, flat{path: path, tok: t, container: isContainer})
		if isContainer {
			flatten(text, params, fmt.Sprintf("%s/%s#%d", path, t.Kind, i), depth+1, out)
		}
	}
}

type outcome struct {
	kind   string // ok | parse-error | error | panic
	err    string
	sql    string
	params map[string]any
	flat   []flat
}

func translate(s shape, v string, km *xlate.Mapper) outcome {
	text := s.text(v)
	if s.RegisterKind {
		// the kind must be known to the mapper under the spelling the parsed model carries
		if m, ok := km.KindMapper.(interface{ Put(graph.Kind) int16 }); ok {
			m.Put(graph.StringKind(v))
			if q, err := cyq.Parse(text); err == nil {
				_ = walk.Cypher(q, walk.NewSimpleVisitor[cypher.SyntaxNode](func(node cypher.SyntaxNode, _ walk.VisitorHandler) {
					var kinds graph.Kinds
					switch t := node.(type) {
					case *cypher.NodePattern:
						kinds = t.Kinds
					case *cypher.RelationshipPattern:
						kinds = t.Kinds
					case *cypher.KindMatcher:
						kinds = t.Kinds
					}
					for _, k := range kinds {
						m.Put(k)
					}
				}))
			}
		}
	}
	var o *xlate.Outcome
	if s.Anonymous {
		if q, err := cyq.Parse(text); err != nil {
			o = &xlate.Outcome{ParseErr: err.Error()}
		} else {
			xlate.SetParameterValues(q, s.params(v))
			_ = walk.Cypher(q, walk.NewSimpleVisitor[cypher.SyntaxNode](func(node cypher.SyntaxNode, _ walk.VisitorHandler) {
				if p, ok := node.(*cypher.Parameter); ok {
					p.Symbol = ""
				}
			}))
			o = xlate.AST(q, km.KindMapper, nil)
		}
	} else {
		o = xlate.Text(text, km.KindMapper, s.params(v))
	}
	out := outcome{kind: o.Kind(), err: o.Err + o.ParseErr + o.Panic, sql: o.SQL, params: o.Params}
	if o.OK() {
		flatten(o.SQL, o.Params, "", 0, &out.flat)
	}
	return out
}

func stringLike(k pglex.Kind) bool {
	return k == pglex.String || k == pglex.EString || k == pglex.Dollar || k == pglex.QIdent
}

// expected returns the acceptable decoded values of the token that carries value v, given what the benign twin's token
// (value "x") decodes to: identical, or - for LIKE patterns - v with the LIKE metacharacters escaped.
func expected(benign, v string) []string {
	if benign == "x" {
		return []string{v}
	}
	if strings.Count(benign, "x") != 1 {
		return nil
	}
	// the twin's token holds more than the value (x%, %x, %x%): a LIKE pattern, in which the value's own backslash,
	// percent and underscore must be escaped
	likeEsc := strings.NewReplacer(`\`, `\\`, `%`, `\%`, `_`, `\_`).Replace(v)
	return []string{strings.Replace(benign, "x", likeEsc, 1)}
}

func paramsHold(params map[string]any, v string) bool {
	var has func(x any) bool
	has = func(x any) bool {
		switch t := x.(type) {
		case string:
			return t == v
		case []string:
			for _, e := range t {
				if e == v {
					return true
				}
			}
		case []any:
			for _, e := range t {
				if has(e) {
					return true
				}
			}
		case map[string]any:
			for k, e := range t {
				if k == v || has(e) {
					return true
				}
			}
		default:
			// driver types (pgtype.JSONB, ...): look for the JSON spelling of the value in the JSON of the parameter
			if b, err := json.Marshal(x); err == nil {
				if vb, err := json.Marshal(v); err == nil {
					return strings.Contains(string(b), string(vb[1:len(vb)-1]))
				}
			}
		}
		return false
	}
	for _, x := range params {
		if has(x) {
			return true
		}
	}
	return false
}

// compare returns (verdict, detail): verdict is "" (property holds, value carried by a token), "bound" (value only in
// the parameter map), "absent" (value does not reach SQL at all), or a violation reason.
func compare(s shape, v string, benign, adv outcome) (string, string) {
	a, b := adv.flat, benign.flat
	render := func(fs []flat, i int) string {
		lo, hi := i-3, i+4
		if lo < 0 {
			lo = 0
		}
		if hi > len(fs) {
			hi = len(fs)
		}
		var parts []string
		for _, f := range fs[lo:hi] {
			t := f.tok.Text
			if len(t) > 60 {
				t = t[:60] + "..."
			}
			parts = append(parts, t)
		}
		return strings.Join(parts, " ")
	}
	// SQL text handed to a harness function is executed by plpgsql as it stands: a named parameter inside it is
	// bound by nothing (the driver only rewrites @name in the statement itself), so the value it stands for does not
	// reach PostgreSQL as a literal, an identifier or a bound parameter.
	for i, f := range a {
		if f.path != "" && f.tok.Kind == pglex.NamedParam {
			return "unbound-parameter-reference", fmt.Sprintf("token %d%s is the parameter reference %s inside SQL text handed to a harness function: ...%s...", i, f.path, f.tok.Text, render(a, i))
		}
	}
	n := len(a)
	if len(b) < n {
		n = len(b)
	}
	carried, mapped := 0, 0
	for i := 0; i < n; i++ {
		ta, tb := a[i].tok, b[i].tok
		ka, kb := pglex.Kinds([]pglex.Token{ta})[0], pglex.Kinds([]pglex.Token{tb})[0]
		if ka != kb || a[i].path != b[i].path {
			what := "token-structure-changed"
			if ta.Kind == pglex.Error {
				what = "unterminated-token"
			}
			return what, fmt.Sprintf("token %d%s is %s where the benign twin has %s: ...%s... vs benign ...%s...", i, a[i].path, ka, kb, render(a, i), render(b, i))
		}
		if a[i].container || b[i].container {
			continue // compared through its content
		}
		if ta.Text == tb.Text {
			continue
		}
		// same kind, different text: must be the one carrier of the value
		ok := false
		switch {
		case stringLike(ta.Kind):
			for _, e := range expected(tb.Value, v) {
				if ta.Value == e {
					ok = true
				}
			}
		case ta.Kind == pglex.Ident && tb.Value == "x":
			ok = ta.Value == v
		case ta.Kind == pglex.Number && (s.RegisterKind || s.Position == "kind-name"):
			mapped++ // the kind name was replaced by its numeric id: the text itself does not reach the statement
			continue
		}
		if !ok {
			return "value-altered", fmt.Sprintf("token %d%s %s decodes to %q; the Cypher text denotes %q (benign twin: %s): ...%s...", i, a[i].path, ta.Kind, trunc(ta.Value), trunc(v), tb.Text, render(a, i))
		}
		carried++
	}
	if len(a) != len(b) {
		return "token-structure-changed", fmt.Sprintf("%d tokens where the benign twin has %d: ...%s... vs benign ...%s...", len(a), len(b), render(a, n-1), render(b, n-1))
	}
	if carried > 0 || v == "x" {
		return "", ""
	}
	if mapped > 0 {
		return "absent", ""
	}
	if paramsHold(adv.params, v) {
		return "bound", ""
	}
	return "absent", ""
}

func trunc(s string) string {
	if len(s) > 80 {
		return s[:80] + "..."
	}
	return s
}

func classOf(s shape, reason string) string {
	switch s.Position {
	case "projection-alias", "with-alias", "variable-name", "parameter-name":
		// the symbol ends up as the output column alias of the final projection, written verbatim
		if s.Position != "parameter-name" {
			return "alias-emitted-unquoted"
		}
		return s.Position + "-emitted-unquoted"
	}
	if reason == "value-altered" {
		how := "plain"
		switch {
		case s.Name == "regex":
			how = "regex"
		case s.Transform != "":
			how = "like-pattern"
		}
		return s.Position + ":value-altered@" + how
	}
	return s.Position + ":" + reason
}

func main() {
	run := core.Start("C04", "exploration")
	if run.Replay != "" {
		replay(run)
		return
	}
	L := 2
	if run.Tier == core.Thorough {
		L = 3
	}
	vals := values(L)
	run.Set("max_length_L", int64(L))
	run.Set("values", int64(len(vals)))
	run.Set("shapes", int64(len(shapes)))
	run.Set("rule", fmt.Sprintf("all strings of length <= %d over a %d-character alphabet (quotes, backslash, backtick, ; - / * $ e E x, LF, CR, U+0001, U+00E9, U+1F600) + %d fixed strings + 70000 x a, in each of %d position-shapes; statement and nested harness SQL lexed with the scan.l model and compared with the benign twin (value x)", L, len(alphabet), len(fixedPool), len(shapes)))

	type job struct{ si, vi int }
	var jobs []job
	for si := range shapes {
		for vi := range vals {
			jobs = append(jobs, job{si, vi})
		}
	}
	mappers := make([]*xlate.Mapper, xlate.Workers())
	for i := range mappers {
		mappers[i] = xlate.NewMapper()
	}
	benign := make([]outcome, len(shapes))
	skipped := map[string]string{}
	for si, s := range shapes {
		benign[si] = translate(s, "x", mappers[0])
		if benign[si].kind != "ok" {
			// nothing to compare with: the translator does not support the shape at all (listed in the evidence)
			skipped[s.Name] = benign[si].err
		}
	}
	type res struct {
		verdict, detail, kind string
	}
	results := make([]res, len(jobs))
	xlate.Parallel(len(jobs), func(w, i int) {
		j := jobs[i]
		s, v := shapes[j.si], vals[j.vi]
		if benign[j.si].kind != "ok" {
			results[i] = res{kind: "shape-unsupported"}
			return
		}
		o := translate(s, v, mappers[w])
		if o.kind != "ok" {
			results[i] = res{kind: o.kind, detail: o.err}
			return
		}
		verdict, detail := compare(s, v, benign[j.si], o)
		results[i] = res{verdict: verdict, detail: detail, kind: "ok"}
	})
	var (
		outcomes = map[string]int64{}
		perPos   = map[string]map[string]int64{}
		hist     = map[string]int64{}
		nested   int64
	)
	for si := range shapes {
		for _, f := range benign[si].flat {
			if f.container {
				nested++
			}
		}
	}
	var evals, carried, bound, absent, rejected int64
	distinct := map[string]bool{}
	sampled := map[string]bool{}
	for i, r := range results {
		j := jobs[i]
		s, v := shapes[j.si], vals[j.vi]
		if perPos[s.Position] == nil {
			perPos[s.Position] = map[string]int64{}
		}
		switch {
		case r.kind == "panic":
			outcomes["panic"]++
			run.Report(core.Violation{Class: "translate-panics:" + s.Position, Summary: fmt.Sprintf("Translate panicked on shape %s with value %q: %s", s.Name, trunc(v), r.detail), Artefact: artefact{Shape: s.Name, Value: v}})
			continue
		case r.kind != "ok":
			outcomes["rejected:"+r.kind]++
			perPos[s.Position]["rejected"]++
			rejected++
			continue
		}
		evals++
		distinct[s.Name+"\x00"+v] = true
		switch r.verdict {
		case "":
			carried++
			perPos[s.Position]["value-in-one-delimited-token"]++
		case "bound":
			bound++
			perPos[s.Position]["bound-as-parameter"]++
		case "absent":
			if strings.HasPrefix(s.Position, "parameter-value") && v != "" {
				// the query reads the parameter, so its value has to reach PostgreSQL: bound, or as a literal
				class := s.Position + ":value-does-not-reach-sql"
				hist[class]++
				perPos[s.Position]["VIOLATION"]++
				run.Report(core.Violation{Class: class, Summary: fmt.Sprintf("shape %s, value %q: the parameter's value is neither bound nor written into the statement", s.Name, trunc(v)), Artefact: artefact{Shape: s.Name, Value: v}})
				break
			}
			absent++
			perPos[s.Position]["value-does-not-reach-sql"]++
		default:
			class := classOf(s, r.verdict)
			hist[class]++
			perPos[s.Position]["VIOLATION"]++
			if os.Getenv("C04_DEBUG") != "" && hist[class] <= 5 {
				fmt.Printf("DEBUG\t%s\t%s\t%q\t%s\n", class, s.Name, trunc(v), r.detail)
			}
			run.Report(core.Violation{Class: class, Summary: fmt.Sprintf("shape %s, value %q: %s", s.Name, trunc(v), r.detail), Artefact: artefact{Shape: s.Name, Value: v}})
		}
		if !sampled[s.Position+r.verdict] && len(v) > 0 && len(v) < 20 {
			sampled[s.Position+r.verdict] = true
			verdict := r.verdict
			if verdict == "" {
				verdict = "value in one delimited token"
			}
			run.Sample(map[string]any{"shape": s.Name, "position": s.Position, "value": v, "verdict": verdict, "cypher": s.text(v)})
		}
	}
	run.Add("evaluations", evals)
	run.Set("distinct_nontrivial", int64(len(distinct)))
	run.Add("value_in_one_delimited_token", carried)
	run.Add("value_bound_as_parameter_trivially_safe", bound)
	run.Add("value_does_not_reach_sql", absent)
	run.Add("rejected_by_parser_or_translator", rejected)
	run.Add("nested_harness_sql_fragments_in_benign_twins", nested)
	run.Set("per_position", perPos)
	run.Set("shapes_skipped_benign_twin_rejected", skipped)
	run.Set("rejections", outcomes)
	run.Set("violation_histogram", hist)
	keys := make([]string, 0, len(hist))
	for k := range hist {
		keys = append(keys, k)
	}
	sort.Strings(keys)
	run.Assume("pglex models PostgreSQL's lexer for standard_conforming_strings=on plus pgx's @name arguments; identifiers are compared before case folding")
	run.Assume("SQL text handed to *_harness functions is found syntactically (string literals and @parameters inside the call's parentheses) and lexed recursively; the plpgsql harness bodies themselves are not modelled")
	run.Finish()
}

func shapeByName(name string) (shape, bool) {
	for _, s := range shapes {
		if s.Name == name {
			return s, true
		}
	}
	return shape{}, false
}

func replay(run *core.Run) {
	var art artefact
	core.LoadArtefact(run.Replay, &art)
	s, ok := shapeByName(art.Shape)
	if !ok {
		core.Fatalf("unknown shape %q", art.Shape)
	}
	km := xlate.NewMapper()
	b := translate(s, "x", km)
	a := translate(s, art.Value, km)
	fmt.Printf("shape    : %s (%s)\nvalue    : %q\ncypher   : %s\n", s.Name, s.Position, trunc(art.Value), trunc(s.text(art.Value)))
	fmt.Printf("benign   : %s\n           params %s\n", trunc2(b.sql), trunc2(xlate.ParamsJSON(b.params)))
	fmt.Printf("emitted  : %s %s\n           %s\n           params %s\n", a.kind, a.err, trunc2(a.sql), trunc2(xlate.ParamsJSON(a.params)))
	if a.kind == "ok" {
		verdict, detail := compare(s, art.Value, b, a)
		fmt.Printf("verdict  : %q %s\n", verdict, detail)
		switch verdict {
		case "", "bound", "absent":
			fmt.Println("replay: no violation")
		default:
			run.Report(core.Violation{Class: classOf(s, verdict), Summary: detail, Artefact: art})
		}
	} else if a.kind == "panic" {
		run.Report(core.Violation{Class: "translate-panics:" + s.Position, Summary: a.err, Artefact: art})
	} else {
		fmt.Println("replay: rejected, no violation")
	}
	run.Finish()
}

func trunc2(s string) string {
	if len(s) > 1500 {
		return s[:1500] + "..."
	}
	return s
}
