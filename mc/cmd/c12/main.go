// Command c12 decides property C12 (entity change tracking records exactly the delta from loaded to current state).
//
// Engine E2: breadth-first search over edit histories on two real tracked entities A and B (so that Merge has a
// tracked operand that is itself reachable by edits), from every initial loaded state over a small key/kind space.
//
// Reading of the statement for Merge (DESIGN.md 4/C12): after A.Merge(B) the loaded state of A is L_A overlaid with
// L_B (A now stands for both loaded entities). The oracle demands only what the statement says under that reading:
//
//	I1  Modified ∩ Deleted = ∅ ; AddedKinds ∩ DeletedKinds = ∅
//	I2  apply(L, ModifiedProperties(), DeletedProperties()) = Map ; (L_kinds ∪ Added) \ Deleted = Kinds
//	I3  last edit wins: after Set/SetAll/Delete/AddKinds/DeleteKinds the current state equals the reference; after
//	    A.Merge(B) every key/kind B edited has B's outcome; keys B never edited keep A's value or take B's loaded value
//	    (the statement does not choose; the implementation's choice is adopted by the reference)
//	I4  an operation on one entity never changes the other (no shared mutable part after Merge / Clone)
package main

import (
	"fmt"
	"reflect"
	"sort"
	"strings"

	"github.com/specterops/dawgs/graph"

	"verif/bfs"
	"verif/core"
)

type ent struct {
	// real objects; node is nil for the bare Properties / Relationship problems
	props *graph.Properties
	node  *graph.Node
	rel   *graph.Relationship

	L     map[string]any // loaded properties
	M     map[string]any // reference current properties
	modR  map[string]bool
	delR  map[string]bool
	LK    map[string]bool // loaded kinds
	K     map[string]bool // reference current kinds
	addR  map[string]bool
	delKR map[string]bool
}

func (e *ent) merge(o *ent) { // real merge through the entity API
	switch {
	case e.node != nil:
		e.node.Merge(o.node)
	case e.rel != nil:
		e.rel.Merge(o.rel)
	default:
		e.props.Merge(o.props)
	}
}

func cloneMap(m map[string]any) map[string]any {
	o := make(map[string]any, len(m))
	for k, v := range m {
		o[k] = v
	}
	return o
}
func cloneSet(m map[string]bool) map[string]bool {
	o := make(map[string]bool, len(m))
	for k := range m {
		o[k] = true
	}
	return o
}

func fmtMap(m map[string]any) string {
	ks := make([]string, 0, len(m))
	for k := range m {
		ks = append(ks, k)
	}
	sort.Strings(ks)
	var sb strings.Builder
	sb.WriteString("{")
	for _, k := range ks {
		fmt.Fprintf(&sb, "%s:%v,", k, m[k])
	}
	sb.WriteString("}")
	return sb.String()
}
func fmtSet[T any](m map[string]T) string {
	ks := make([]string, 0, len(m))
	for k := range m {
		ks = append(ks, k)
	}
	sort.Strings(ks)
	return "[" + strings.Join(ks, ",") + "]"
}
func fmtKinds(k graph.Kinds) string {
	s := make([]string, 0, len(k))
	for _, x := range k {
		if x == nil {
			s = append(s, "<nil>")
		} else {
			s = append(s, x.String())
		}
	}
	sort.Strings(s)
	return "[" + strings.Join(s, ",") + "]"
}
func kindSet(k graph.Kinds) map[string]bool {
	o := map[string]bool{}
	for _, x := range k {
		if x != nil {
			o[x.String()] = true
		}
	}
	return o
}

// fingerprint is the full observable state of the real entity (canonical, order-insensitive where the API is).
func (e *ent) fingerprint() string {
	var sb strings.Builder
	p := e.props
	fmt.Fprintf(&sb, "Map%s nilmap=%v Mod%s Del%s", fmtMap(p.Map), p.Map == nil, fmtSet(p.Modified), fmtSet(p.Deleted))
	if e.node != nil {
		fmt.Fprintf(&sb, " K%s A%s D%s", fmtKinds(e.node.Kinds), fmtKinds(e.node.AddedKinds), fmtKinds(e.node.DeletedKinds))
	}
	return sb.String()
}

func (e *ent) model() string {
	return fmt.Sprintf("L%s M%s LK%s K%s", fmtMap(e.L), fmtMap(e.M), fmtSet(e.LK), fmtSet(e.K))
}

func (e *ent) invariants(name string) *core.Violation {
	p := e.props
	for k := range p.Modified {
		if _, both := p.Deleted[k]; both {
			return &core.Violation{Class: "property-both-modified-and-deleted", Summary: fmt.Sprintf("%s: key %q is reported both as written and as removed", name, k)}
		}
	}
	got := cloneMap(e.L)
	for k, v := range p.ModifiedProperties() {
		got[k] = v
	}
	for _, k := range p.DeletedProperties() {
		delete(got, k)
	}
	cur := p.Map
	if cur == nil {
		cur = map[string]any{}
	}
	if !reflect.DeepEqual(got, cur) {
		return &core.Violation{Class: "property-delta-does-not-reproduce-state", Summary: fmt.Sprintf("%s: loaded %s + modified %s - deleted %s = %s but current is %s",
			name, fmtMap(e.L), fmtMap(p.ModifiedProperties()), fmtSet(p.Deleted), fmtMap(got), fmtMap(cur))}
	}
	if !reflect.DeepEqual(cur, e.M) {
		return &core.Violation{Class: "property-last-edit-does-not-win", Summary: fmt.Sprintf("%s: current %s, reference (last edit wins) %s", name, fmtMap(cur), fmtMap(e.M))}
	}
	if e.node != nil {
		n := e.node
		add, del, cur := kindSet(n.AddedKinds), kindSet(n.DeletedKinds), kindSet(n.Kinds)
		for k := range add {
			if del[k] {
				return &core.Violation{Class: "kind-both-added-and-deleted", Summary: fmt.Sprintf("%s: kind %s is reported both as added and as deleted", name, k)}
			}
		}
		want := cloneSet(e.LK)
		for k := range add {
			want[k] = true
		}
		for k := range del {
			delete(want, k)
		}
		if !reflect.DeepEqual(want, cur) {
			return &core.Violation{Class: "kind-delta-does-not-reproduce-state", Summary: fmt.Sprintf("%s: loaded %s + added %s - deleted %s = %s but current kinds are %s",
				name, fmtSet(e.LK), fmtSet(add), fmtSet(del), fmtSet(want), fmtSet(cur))}
		}
		if !reflect.DeepEqual(cur, e.K) {
			return &core.Violation{Class: "kind-last-edit-does-not-win", Summary: fmt.Sprintf("%s: current kinds %s, reference %s", name, fmtSet(cur), fmtSet(e.K))}
		}
	}
	return nil
}

// ---- operations ------------------------------------------------------------------------------------------------------

type opDef struct {
	name string
	// do applies the op to entity x (y is the other entity); returns a violation detected by the op itself
	do func(x, y *ent) *core.Violation
	// kindsOnly marks ops that need a Node
	kinds bool
}

func setOp(k string, v any) opDef {
	return opDef{name: fmt.Sprintf("Set(%s,%v)", k, v), do: func(x, y *ent) *core.Violation {
		x.props.Set(k, v)
		x.M[k] = v
		x.modR[k] = true
		delete(x.delR, k)
		return nil
	}}
}
func delOp(k string) opDef {
	return opDef{name: fmt.Sprintf("Delete(%s)", k), do: func(x, y *ent) *core.Violation {
		x.props.Delete(k)
		delete(x.M, k)
		x.delR[k] = true
		delete(x.modR, k)
		return nil
	}}
}
func setAllOp(m map[string]any) opDef {
	return opDef{name: "SetAll(" + fmtMap(m) + ")", do: func(x, y *ent) *core.Violation {
		x.props.SetAll(cloneMap(m))
		for k, v := range m {
			x.M[k] = v
			x.modR[k] = true
			delete(x.delR, k)
		}
		return nil
	}}
}
func getOp(k string) opDef {
	return opDef{name: fmt.Sprintf("GetOrDefault(%s)", k), do: func(x, y *ent) *core.Violation {
		before := x.fingerprint()
		got := x.props.GetOrDefault(k, "dflt").Any()
		want := any("dflt")
		if v, ok := x.M[k]; ok && v != nil {
			want = v
		}
		if !reflect.DeepEqual(got, want) {
			return &core.Violation{Class: "get-or-default", Summary: fmt.Sprintf("GetOrDefault(%s) = %v, want %v", k, got, want)}
		}
		if x.fingerprint() != before {
			return &core.Violation{Class: "read-changes-state", Summary: "GetOrDefault changed the entity"}
		}
		return nil
	}}
}
func addKindsOp(ks ...string) opDef {
	return opDef{name: "AddKinds(" + strings.Join(ks, ",") + ")", kinds: true, do: func(x, y *ent) *core.Violation {
		x.node.AddKinds(graph.StringsToKinds(ks)...)
		for _, k := range ks {
			x.K[k] = true
			x.addR[k] = true
			delete(x.delKR, k)
		}
		return nil
	}}
}
func delKindsOp(ks ...string) opDef {
	return opDef{name: "DeleteKinds(" + strings.Join(ks, ",") + ")", kinds: true, do: func(x, y *ent) *core.Violation {
		x.node.DeleteKinds(graph.StringsToKinds(ks)...)
		for _, k := range ks {
			delete(x.K, k)
			x.delKR[k] = true
			delete(x.addR, k)
		}
		return nil
	}}
}

var cloneOp = opDef{name: "Clone", do: func(x, y *ent) *core.Violation {
	c := x.props.Clone()
	cp := &ent{props: c}
	if fmtMap(c.Map) != fmtMap(x.props.Map) || fmtSet(c.Modified) != fmtSet(x.props.Modified) || fmtSet(c.Deleted) != fmtSet(x.props.Deleted) {
		return &core.Violation{Class: "clone-differs", Summary: fmt.Sprintf("clone %s differs from original %s", cp.fingerprint(), x.fingerprint())}
	}
	// independence: every single edit of the clone must leave the original untouched, and vice versa
	before := x.fingerprint()
	for _, k := range []string{"a", "b"} {
		c2 := c.Clone()
		c2.Set(k, 99)
		c2.Delete(k)
		c.Clone().Delete(k)
		c.Clone().Set(k, 98)
	}
	probe := c.Clone()
	probe.Set("a", 97).Delete("b")
	if x.fingerprint() != before {
		return &core.Violation{Class: "clone-shares-state", Summary: "editing a clone changed the original"}
	}
	// continue on the clone
	x.props = c
	if x.node != nil {
		x.node.Properties = c
	}
	if x.rel != nil {
		x.rel.Properties = c
	}
	return nil
}}

var mergeOp = opDef{name: "Merge(other)", do: func(x, y *ent) *core.Violation {
	x.merge(y)
	// loaded state of the merged entity
	for k, v := range y.L {
		x.L[k] = v
	}
	for k := range y.LK {
		x.LK[k] = true
	}
	// reference: other's edits are later than ours
	cur := x.props.Map
	for _, k := range []string{"a", "b"} {
		switch {
		case y.modR[k]:
			x.M[k] = y.M[k]
			x.modR[k] = true
			delete(x.delR, k)
		case y.delR[k]:
			delete(x.M, k)
			x.delR[k] = true
			delete(x.modR, k)
		default:
			// other never edited k: keep ours, or take other's loaded value — adopt the implementation's choice
			yl, yHas := y.L[k]
			got, gotHas := cur[k]
			mine, mineHas := x.M[k]
			if gotHas == mineHas && reflect.DeepEqual(got, mine) {
				// kept
			} else if yHas && gotHas && reflect.DeepEqual(got, yl) {
				x.M[k] = yl
				// ours was deleted and is now revived (the deletion is superseded), or overwritten: tracking is judged by I1/I2
				delete(x.delR, k)
			}
		}
	}
	if x.node != nil {
		curK := kindSet(x.node.Kinds)
		for _, k := range []string{"K1", "K2"} {
			switch {
			case y.addR[k]:
				x.K[k] = true
				x.addR[k] = true
				delete(x.delKR, k)
			case y.delKR[k]:
				delete(x.K, k)
				x.delKR[k] = true
				delete(x.addR, k)
			default:
				if curK[k] == x.K[k] {
					// kept
				} else if y.LK[k] && curK[k] {
					x.K[k] = true
					delete(x.delKR, k)
				}
			}
		}
	}
	return nil
}}

type pairInst struct {
	kind string // props | rel | node
	ents [2]*ent
	ops  []opDef
}

func mkEnt(kind string, loaded map[string]any, loadedKinds []string, emptyVariant int) *ent {
	e := &ent{L: cloneMap(loaded), M: cloneMap(loaded), modR: map[string]bool{}, delR: map[string]bool{}, LK: map[string]bool{}, K: map[string]bool{}, addR: map[string]bool{}, delKR: map[string]bool{}}
	switch {
	case len(loaded) == 0 && emptyVariant == 1:
		e.props = graph.NewProperties()
	case len(loaded) == 0 && emptyVariant == 2:
		e.props = graph.AsProperties(map[string]any(nil))
	default:
		e.props = graph.AsProperties(cloneMap(loaded))
	}
	for _, k := range loadedKinds {
		e.LK[k] = true
		e.K[k] = true
	}
	switch kind {
	case "node":
		e.node = graph.NewNode(1, e.props, graph.StringsToKinds(loadedKinds)...)
	case "rel":
		e.rel = graph.NewRelationship(1, 2, 3, e.props, graph.StringKind("E"))
	}
	return e
}

func (p *pairInst) Apply(op int) *core.Violation {
	xi, oi := op/len(p.ops), op%len(p.ops)
	x, y := p.ents[xi], p.ents[1-xi]
	other := y.fingerprint()
	if v := p.ops[oi].do(x, y); v != nil {
		return v
	}
	if y.fingerprint() != other {
		return &core.Violation{Class: "operation-changes-other-entity", Summary: fmt.Sprintf("%s on one entity changed the other: %s -> %s", p.ops[oi].name, other, y.fingerprint())}
	}
	for i, e := range p.ents {
		if v := e.invariants([]string{"A", "B"}[i]); v != nil {
			return v
		}
	}
	return nil
}

func (p *pairInst) Canon() string {
	return p.ents[0].fingerprint() + " | " + p.ents[0].model() + " || " + p.ents[1].fingerprint() + " | " + p.ents[1].model()
}

var propOps = []opDef{
	setOp("a", 1), setOp("a", 2), setOp("a", nil), setOp("b", 2), delOp("a"), delOp("b"),
	setAllOp(map[string]any{"a": 3, "b": 3}), setAllOp(map[string]any{}), getOp("a"), cloneOp, mergeOp,
}
var nodeOps = []opDef{
	setOp("a", 2), delOp("a"), addKindsOp("K1"), addKindsOp("K2"), addKindsOp("K1", "K2"), delKindsOp("K1"), delKindsOp("K2"), delKindsOp("K1", "K2"), mergeOp,
}

type config struct {
	kind       string
	la, lb     map[string]any
	ka, kb     []string
	ev         int
	name       string
}

func (c config) problem(depth int) *bfs.Problem {
	ops := propOps
	if c.kind == "node" {
		ops = nodeOps
	}
	return &bfs.Problem{
		Name:   c.name,
		NumOps: 2 * len(ops),
		OpName: func(op int) string { return []string{"A.", "B."}[op/len(ops)] + ops[op%len(ops)].name },
		New: func() bfs.Instance {
			return &pairInst{kind: c.kind, ops: ops, ents: [2]*ent{mkEnt(c.kind, c.la, c.ka, c.ev), mkEnt(c.kind, c.lb, c.kb, 0)}}
		},
		Depth: depth,
	}
}

func configs() []config {
	var out []config
	loads := []map[string]any{{}, {"a": 1}, {"b": 1}, {"a": 1, "b": 1}}
	for _, kind := range []string{"props", "rel"} {
		for i, la := range loads {
			for j, lb := range loads {
				evs := []int{0}
				if i == 0 {
					evs = []int{0, 1, 2}
				}
				for _, ev := range evs {
					out = append(out, config{kind: kind, la: la, lb: lb, ev: ev, name: fmt.Sprintf("%s/LA=%d/LB=%d/ev=%d", kind, i, j, ev)})
				}
			}
		}
	}
	kloads := [][]string{{}, {"K1"}, {"K2"}, {"K1", "K2"}}
	for i, ka := range kloads {
		for j, kb := range kloads {
			for pl, la := range []map[string]any{{}, {"a": 1}} {
				out = append(out, config{kind: "node", la: la, lb: map[string]any{"a": 1}, ka: ka, kb: kb, name: fmt.Sprintf("node/KA=%d/KB=%d/LA=%d", i, j, pl)})
			}
		}
	}
	return out
}

func main() {
	run := core.Start("C12", "model_checking")
	cfgs := configs()
	if run.Replay != "" {
		var art struct {
			Problem string   `json:"problem"`
			Ops     []string `json:"ops"`
		}
		core.LoadArtefact(run.Replay, &art)
		for _, c := range cfgs {
			if c.name == art.Problem {
				if v := bfs.Replay(c.problem(len(art.Ops)), art.Ops); v != nil {
					v.Artefact = art
					run.Report(*v)
				} else {
					fmt.Println("replay: no violation")
				}
			}
		}
		run.Finish()
	}
	depth := 4
	if run.Tier == core.Thorough {
		depth = 6
	}
	for _, c := range cfgs {
		p := c.problem(depth)
		st := bfs.Explore(run, p)
		run.Add("states", st.States)
		run.Add("transitions", st.Transitions)
		run.Add("problems", 1)
		if c.ev == 0 && (len(c.la)+len(c.ka))%2 == 1 {
			run.Sample(map[string]any{"problem": p.Name, "depth": depth, "states": st.States, "transitions": st.Transitions, "alphabet_size": p.NumOps})
		}
	}
	run.Set("depth_bound", int64(depth))
	run.Set("traces_validated_against_impl", run.Get("transitions"))
	run.Assume("Merge reading: the merged entity's loaded state is L_A overlaid with L_B; keys/kinds the operand never edited may keep the receiver's value or take the operand's loaded value")
	run.Assume("entities with nil Properties are outside the alphabet (Node.Merge dereferences Properties)")
	run.Finish()
}
