// Command c01 decides property C01 (Cypher-to-PostgreSQL translation preserves read-query results) by translation
// validation: every enumerated query x every enumerated graph, emitted SQL evaluated by pgeval against the reference
// openCypher evaluator cyref; both models are first bound to real backends through the integration corpus.
package main

import (
	"time"

	"verif/core"
	"verif/tv"
)

func main() {
	core.ThoroughBudget = 150 * time.Minute
	run := core.Start("C01", "translation_validation")
	if run.Replay != "" {
		tv.Replay(run, tv.Backend())
		return
	}
	b := tv.BoundsFor(run.Tier)
	if run.Fork(16) {
		tv.Conformance(run, true)
		run.Set("rule", "programs = enumerated query texts (all feature sets with <= k features over MATCH (n) RETURN n) that translate; each is evaluated on every graph of its sliced domain; distinct_nontrivial = programs inside the SQL evaluator with a non-empty reference result on some graph")
		run.Set("bounds", map[string]any{"max_features": int64(b.Features), "max_nodes": int64(b.MaxNodes), "max_edges": int64(b.MaxEdges), "graphs_per_query_budget": int64(b.Budget)})
		run.Finish()
	}
	tv.RunC01(run, tv.Backend(), tv.AllQueries(string(run.Tier), b.Features), b)
	run.Finish()
}
