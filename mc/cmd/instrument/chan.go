package main

func rewriteChan(fe *fileEdit, stats map[string]int) {
	fatalf("chan rewriting not built yet")
}
