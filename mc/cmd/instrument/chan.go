package main

import (
	"fmt"
	"go/ast"
	"go/token"
	"strconv"

	"golang.org/x/tools/go/ast/astutil"
)

// rewriteChan puts goroutines, channels, select and context cancellation of one file onto verif/shim/vrt (see the
// package comment of vrt for the mapping). It works on syntax only; the type checker of the subsequent build is the
// safety net (a channel that was not rewritten does not fit a rewritten operation and the build fails = exit 2).
func rewriteChan(fe *fileEdit, stats map[string]int) {
	used := false
	vrt := func(name string) ast.Expr {
		used = true
		return &ast.SelectorExpr{X: ast.NewIdent("vrt"), Sel: ast.NewIdent(name)}
	}
	call := func(name string, args ...ast.Expr) *ast.CallExpr {
		return &ast.CallExpr{Fun: vrt(name), Args: args}
	}
	isVrtCall := func(e ast.Expr, name string) (*ast.CallExpr, bool) {
		c, ok := e.(*ast.CallExpr)
		if !ok {
			return nil, false
		}
		s, ok := c.Fun.(*ast.SelectorExpr)
		if !ok {
			return nil, false
		}
		x, ok := s.X.(*ast.Ident)
		return c, ok && x.Name == "vrt" && s.Sel.Name == name
	}
	chanElem := func(e ast.Expr) (ast.Expr, bool) { // *vrt.Chan[T] -> T
		st, ok := e.(*ast.StarExpr)
		if !ok {
			return nil, false
		}
		ix, ok := st.X.(*ast.IndexExpr)
		if !ok {
			return nil, false
		}
		s, ok := ix.X.(*ast.SelectorExpr)
		if !ok {
			return nil, false
		}
		x, ok := s.X.(*ast.Ident)
		if !ok || x.Name != "vrt" || s.Sel.Name != "Chan" {
			return nil, false
		}
		return ix.Index, true
	}
	tmp := 0
	fresh := func(prefix string) *ast.Ident {
		tmp++
		return ast.NewIdent(fmt.Sprintf("_vrt_%s%d", prefix, tmp))
	}
	// doneOperand turns X.Done() (a context's done channel used as a channel operand) into vrt.Done(X)
	doneOperand := func(e ast.Expr) ast.Expr {
		if c, ok := e.(*ast.CallExpr); ok && len(c.Args) == 0 {
			if s, ok := c.Fun.(*ast.SelectorExpr); ok && s.Sel.Name == "Done" {
				stats["ctx.Done"]++
				return call("Done", s.X)
			}
		}
		return e
	}

	post := func(c *astutil.Cursor) bool {
		switch n := c.Node().(type) {
		case *ast.ChanType:
			stats["chan-type"]++
			c.Replace(&ast.StarExpr{X: &ast.IndexExpr{X: vrt("Chan"), Index: n.Value}})

		case *ast.CallExpr:
			if id, ok := n.Fun.(*ast.Ident); ok {
				switch id.Name {
				case "make":
					if len(n.Args) >= 1 {
						if elem, ok := chanElem(n.Args[0]); ok {
							size := ast.Expr(&ast.BasicLit{Kind: token.INT, Value: "0"})
							if len(n.Args) == 2 {
								size = n.Args[1]
							}
							stats["make-chan"]++
							c.Replace(&ast.CallExpr{Fun: &ast.IndexExpr{X: vrt("MakeChan"), Index: elem}, Args: []ast.Expr{size}})
						}
					}
				case "close":
					if len(n.Args) == 1 {
						stats["close"]++
						c.Replace(call("Close", n.Args[0]))
					}
				}
			}
			if s, ok := n.Fun.(*ast.SelectorExpr); ok {
				if x, ok := s.X.(*ast.Ident); ok && x.Name == "context" && s.Sel.Name == "WithCancel" {
					stats["context.WithCancel"]++
					n.Fun = vrt("WithCancel")
				}
			}

		case *ast.SendStmt:
			stats["send"]++
			c.Replace(&ast.ExprStmt{X: call("Send", n.Chan, n.Value)})

		case *ast.UnaryExpr:
			if n.Op == token.ARROW {
				stats["recv"]++
				c.Replace(call("Recv", doneOperand(n.X)))
			}

		case *ast.AssignStmt:
			if len(n.Lhs) == 2 && len(n.Rhs) == 1 {
				if rc, ok := isVrtCall(n.Rhs[0], "Recv"); ok {
					rc.Fun = vrt("Recv2")
				}
			}

		case *ast.ValueSpec:
			if len(n.Names) == 2 && len(n.Values) == 1 {
				if rc, ok := isVrtCall(n.Values[0], "Recv"); ok {
					rc.Fun = vrt("Recv2")
				}
			}

		case *ast.GoStmt:
			stats["go"]++
			var pre []ast.Stmt
			args := make([]ast.Expr, len(n.Call.Args))
			for i, a := range n.Call.Args {
				id := fresh("ga")
				pre = append(pre, &ast.AssignStmt{Lhs: []ast.Expr{id}, Tok: token.DEFINE, Rhs: []ast.Expr{a}})
				args[i] = id
			}
			inner := &ast.CallExpr{Fun: n.Call.Fun, Args: args, Ellipsis: n.Call.Ellipsis}
			if _, isLit := n.Call.Fun.(*ast.FuncLit); isLit {
				inner.Fun = &ast.ParenExpr{X: n.Call.Fun}
			}
			body := &ast.FuncLit{Type: &ast.FuncType{Params: &ast.FieldList{}}, Body: &ast.BlockStmt{List: []ast.Stmt{&ast.ExprStmt{X: inner}}}}
			pre = append(pre, &ast.ExprStmt{X: call("Go", body)})
			c.Replace(&ast.BlockStmt{List: pre})

		case *ast.SelectStmt:
			stats["select"]++
			var (
				pre     []ast.Stmt
				cases   []ast.Expr
				clauses []ast.Stmt
				sel     = fresh("sel")
			)
			for i, cl := range n.Body.List {
				cc := cl.(*ast.CommClause)
				idx := &ast.BasicLit{Kind: token.INT, Value: strconv.Itoa(i)}
				body := cc.Body
				switch comm := cc.Comm.(type) {
				case nil:
					cases = append(cases, call("DefaultCase"))
				case *ast.ExprStmt:
					if sc, ok := isVrtCall(comm.X, "Send"); ok {
						ch, v := fresh("c"), fresh("v")
						pre = append(pre, &ast.AssignStmt{Lhs: []ast.Expr{ch, v}, Tok: token.DEFINE, Rhs: []ast.Expr{sc.Args[0], sc.Args[1]}})
						cases = append(cases, call("SendCase", ch, v))
					} else if rc, ok := isVrtCall(comm.X, "Recv"); ok {
						ch := fresh("c")
						pre = append(pre, &ast.AssignStmt{Lhs: []ast.Expr{ch}, Tok: token.DEFINE, Rhs: []ast.Expr{rc.Args[0]}})
						cases = append(cases, call("RecvCase", ch))
					} else {
						fatalf("%s: select case %d: unsupported communication", fe.path, i)
					}
				case *ast.AssignStmt:
					rc, ok := isVrtCall(comm.Rhs[0], "Recv")
					if !ok {
						rc, ok = isVrtCall(comm.Rhs[0], "Recv2")
					}
					if !ok {
						fatalf("%s: select case %d: unsupported communication", fe.path, i)
					}
					ch := fresh("c")
					pre = append(pre, &ast.AssignStmt{Lhs: []ast.Expr{ch}, Tok: token.DEFINE, Rhs: []ast.Expr{rc.Args[0]}})
					cases = append(cases, call("RecvCase", ch))
					lhs := comm.Lhs
					if len(lhs) == 1 {
						lhs = []ast.Expr{lhs[0], ast.NewIdent("_")}
					}
					body = append([]ast.Stmt{&ast.AssignStmt{Lhs: lhs, Tok: comm.Tok, Rhs: []ast.Expr{call("Got", ch, sel)}}}, body...)
				default:
					fatalf("%s: select case %d: unsupported communication %T", fe.path, i, comm)
				}
				clauses = append(clauses, &ast.CaseClause{List: []ast.Expr{idx}, Body: body})
			}
			// a select whose cases all terminate is a terminating statement; keep that property for the switch
			clauses = append(clauses, &ast.CaseClause{Body: []ast.Stmt{&ast.ExprStmt{X: &ast.CallExpr{Fun: ast.NewIdent("panic"), Args: []ast.Expr{&ast.BasicLit{Kind: token.STRING, Value: `"vrt: select returned no case"`}}}}}})
			sw := &ast.SwitchStmt{
				Init: &ast.AssignStmt{Lhs: []ast.Expr{sel}, Tok: token.DEFINE, Rhs: []ast.Expr{call("Select", cases...)}},
				Tag:  &ast.SelectorExpr{X: sel, Sel: ast.NewIdent("Index")},
				Body: &ast.BlockStmt{List: clauses},
			}
			c.Replace(&ast.BlockStmt{List: append(pre, sw)})
		}
		return true
	}
	astutil.Apply(fe.file, nil, post)

	// fail closed: nothing that should have been intercepted may remain
	ast.Inspect(fe.file, func(n ast.Node) bool {
		switch x := n.(type) {
		case *ast.ChanType, *ast.SendStmt, *ast.SelectStmt, *ast.GoStmt:
			fatalf("INSTRUMENTATION-INCOMPLETE: %s: %T left after rewriting", fe.path, n)
		case *ast.UnaryExpr:
			if x.Op == token.ARROW {
				fatalf("INSTRUMENTATION-INCOMPLETE: %s: receive left after rewriting", fe.path)
			}
		case *ast.CallExpr:
			if s, ok := x.Fun.(*ast.SelectorExpr); ok {
				if id, ok := s.X.(*ast.Ident); ok && id.Name == "context" {
					switch s.Sel.Name {
					case "WithTimeout", "WithDeadline", "WithCancelCause", "AfterFunc", "WithoutCancel":
						fatalf("INSTRUMENTATION-INCOMPLETE: %s: context.%s is not modelled", fe.path, s.Sel.Name)
					}
				}
			}
		}
		return true
	})

	if used {
		astutil.AddNamedImport(fe.fset, fe.file, "vrt", "verif/shim/vrt")
		fe.dirty = true
	}
	// imports that the rewrite made unused
	for _, imp := range []string{"context"} {
		if !astutil.UsesImport(fe.file, imp) {
			astutil.DeleteImport(fe.fset, fe.file, imp)
		}
	}
}
