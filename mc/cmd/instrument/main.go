// Command instrument generates a `go build -overlay` description from /repo's current working tree.
//
//	-add  pkg,...   add the files of /verif/mc/overlay/<pkg>/ to package /repo/<pkg> (state accessors, tag verif)
//	-sync pkg,...   rewrite imports "sync" -> verif/shim/vsync and "sync/atomic" -> verif/shim/vatomic
//	-os   pkg,...   rewrite import "os" -> verif/shim/vos
//	-chan pkg,...   rewrite goroutine / channel / select / context constructs onto verif/shim/vrt (see chan.go)
//
// Nothing under /repo is modified. The tool fails closed (exit 2) when a construct it is asked to intercept is left
// un-intercepted after rewriting.
package main

import (
	"bytes"
	"encoding/json"
	"flag"
	"fmt"
	"go/ast"
	"go/parser"
	"go/printer"
	"go/token"
	"os"
	"path/filepath"
	"strconv"
	"strings"
)

var repo = "/repo"

func fatalf(format string, a ...any) {
	fmt.Fprintf(os.Stderr, "INSTRUMENTATION-FAILURE: "+format+"\n", a...)
	os.Exit(2)
}

func split(s string) []string {
	if s == "" {
		return nil
	}
	return strings.Split(s, ",")
}

type fileEdit struct {
	fset *token.FileSet
	file *ast.File
	path string
	dirty bool
}

func main() {
	var (
		add     = flag.String("add", "", "")
		syncP   = flag.String("sync", "", "")
		osP     = flag.String("os", "", "")
		chanP   = flag.String("chan", "", "")
		chanCp  = flag.String("chancopy", "", "orig=virtual,...: instrumented copy of a package under a new (virtual) import path; -chan packages import the copy")
		out     = flag.String("out", "", "output directory")
		repoF   = flag.String("repo", "/repo", "repository working tree")
		overlay = flag.String("overlaydir", "/verif/mc/overlay", "")
	)
	flag.Parse()
	repo = *repoF
	if *out == "" {
		fatalf("-out required")
	}
	if err := os.RemoveAll(*out); err != nil {
		fatalf("%v", err)
	}
	if err := os.MkdirAll(*out, 0o755); err != nil {
		fatalf("%v", err)
	}
	replace := map[string]string{}

	for _, pkg := range split(*add) {
		files, _ := filepath.Glob(filepath.Join(*overlay, pkg, "*.go"))
		if len(files) == 0 {
			fatalf("no overlay files for %s", pkg)
		}
		for _, f := range files {
			replace[filepath.Join(repo, pkg, "zz_"+filepath.Base(f))] = f
		}
	}

	pkgs := map[string]map[string]bool{}
	mark := func(list, what string) {
		for _, p := range split(list) {
			if pkgs[p] == nil {
				pkgs[p] = map[string]bool{}
			}
			pkgs[p][what] = true
		}
	}
	mark(*syncP, "sync")
	mark(*osP, "os")
	mark(*chanP, "chan")

	copies := map[string]string{} // original pkg dir -> virtual pkg dir
	for _, kv := range split(*chanCp) {
		parts := strings.SplitN(kv, "=", 2)
		if len(parts) != 2 {
			fatalf("bad -chancopy %q", kv)
		}
		copies[parts[0]] = parts[1]
		if pkgs[parts[0]+"=>"+parts[1]] == nil {
			pkgs[parts[0]+"=>"+parts[1]] = map[string]bool{"chan": true, "copy": true}
		}
	}
	const modPath = "github.com/specterops/dawgs/"

	stats := map[string]int{}
	for pkgKey, what := range pkgs {
		pkg, virtual := pkgKey, ""
		if what["copy"] {
			parts := strings.SplitN(pkgKey, "=>", 2)
			pkg, virtual = parts[0], parts[1]
		}
		entries, err := os.ReadDir(filepath.Join(repo, pkg))
		if err != nil {
			fatalf("%v", err)
		}
		for _, e := range entries {
			name := e.Name()
			if e.IsDir() || !strings.HasSuffix(name, ".go") || strings.HasSuffix(name, "_test.go") {
				continue
			}
			src := filepath.Join(repo, pkg, name)
			fset := token.NewFileSet()
			f, err := parser.ParseFile(fset, src, nil, parser.ParseComments)
			if err != nil {
				fatalf("parse %s: %v", src, err)
			}
			fe := &fileEdit{fset: fset, file: f, path: src}
			if what["sync"] {
				fe.rewriteImport("sync", "sync", "verif/shim/vsync", stats)
				fe.rewriteImport("sync/atomic", "atomic", "verif/shim/vatomic", stats)
			}
			if what["os"] {
				fe.rewriteImport("os", "os", "verif/shim/vos", stats)
			}
			if what["chan"] {
				rewriteChan(fe, stats)
				for orig, virt := range copies {
					for _, imp := range f.Imports {
						if p, _ := strconv.Unquote(imp.Path.Value); p == modPath+orig {
							if imp.Name == nil {
								imp.Name = ast.NewIdent(f2pkgname(orig))
							}
							imp.Path.Value = strconv.Quote(modPath + virt)
							fe.dirty = true
						}
					}
				}
			}
			if !fe.dirty && virtual == "" {
				continue
			}
			var buf bytes.Buffer
			if err := printer.Fprint(&buf, fset, f); err != nil {
				fatalf("print %s: %v", src, err)
			}
			dst := filepath.Join(*out, strings.ReplaceAll(pkg, "/", "_")+"__"+name)
			if err := os.WriteFile(dst, buf.Bytes(), 0o644); err != nil {
				fatalf("%v", err)
			}
			if virtual != "" {
				replace[filepath.Join(repo, virtual, name)] = dst
			} else {
				replace[src] = dst
			}
		}
	}

	b, _ := json.MarshalIndent(map[string]any{"Replace": replace}, "", " ")
	if err := os.WriteFile(filepath.Join(*out, "overlay.json"), b, 0o644); err != nil {
		fatalf("%v", err)
	}
	sb, _ := json.Marshal(stats)
	_ = os.WriteFile(filepath.Join(*out, "instrument_stats.json"), sb, 0o644)
}

func f2pkgname(dir string) string { return filepath.Base(dir) }

// rewriteImport points an import at a shim while keeping the package identifier the code uses.
func (fe *fileEdit) rewriteImport(path, defaultName, shim string, stats map[string]int) {
	for _, imp := range fe.file.Imports {
		p, _ := strconv.Unquote(imp.Path.Value)
		if p != path {
			continue
		}
		if imp.Name == nil {
			imp.Name = ast.NewIdent(defaultName)
		}
		imp.Path.Value = strconv.Quote(shim)
		fe.dirty = true
		stats["import:"+path]++
	}
}
