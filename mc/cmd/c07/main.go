// Command c07 decides property C07 (the Cypher parser is faithful: it models what it accepts and rejects the rest).
//
// Engine E3, level "exploration". Enumerated completely:
//
//	G  every derivation of cypher/grammar/Cypher.g4 with <= k deviations of every rule in its best context and <= k-1 deviations at
//	   every other grammar position of every rule (k = 2 quick, 3 thorough; lexical rules instantiated from the fixed token pools of
//	   verif/enum/grammar), de-duplicated;
//	C  every query of the repository corpora (cypher/test/cases, pgsql translation cases, integration cases);
//	S  every map-literal position x every ordered pair of key spellings (plain / backtick-quoted / reserved word), spellingTexts;
//	M  every single-token deletion, duplication and neighbour swap of every corpus query, and every insertion of an unlexable
//	   character ("!") at a token boundary.
//
// Oracle for every text t that frontend.ParseCypher(frontend.NewContext(), t) accepts, with model m (oracle.go):
//
//	0  m != nil; t's raw parse tree uses no rule of the front end's unsupported list
//	1  emit(m) = format.RegularQuery(m, false) succeeds and parses again, to m'
//	2  m' is structurally equal to m (own reflection comparison, cross-checked with reflect.DeepEqual)
//	3  emit(m') = emit(m)
//	4  token preservation: the multiset of content tokens of t (project's CypherLexer, normalised by the documented list R1-R8) is
//	   contained in that of emit(m); the range literals of t and emit(m) denote the same hop intervals
//
// Rejected texts need no check: the property constrains what is accepted. Each failure gets a class that names the root cause
// (the grammar construct whose tokens vanish, or the model field that changes in the round trip).
package main

import (
	"fmt"
	"runtime/debug"
	"sort"
	"strings"

	"github.com/specterops/dawgs/cypher/parser"

	"verif/core"
	"verif/enum/cytext"
	"verif/enum/grammar"
)

type explorer struct {
	run     *core.Run
	seen    map[[2]uint64]struct{}
	me, n   int
	classes map[string]int64
	witness map[string]core.Violation // shortest failing text per class (of this shard)
}

func fnv2(s string) [2]uint64 {
	const p = 1099511628211
	a, b := uint64(14695981039346656037), uint64(0x9e3779b97f4a7c15)
	for i := 0; i < len(s); i++ {
		a = (a ^ uint64(s[i])) * p
		b = (b + uint64(s[i]) + 1) * 0xff51afd7ed558ccd
		b ^= b >> 29
	}
	return [2]uint64{a, b}
}

func (s *explorer) take(text string) bool {
	h := fnv2(text)
	if int(h[0]%uint64(s.n)) != s.me {
		return false
	}
	if _, dup := s.seen[h]; dup {
		return false
	}
	s.seen[h] = struct{}{}
	return true
}

func (s *explorer) eval(a artefact) {
	run := s.run
	run.Add("evaluations", 1)
	if run.Get("evaluations")%resetEvery == 0 {
		parser.VerifResetPredictionCaches() // bounds the memory of ANTLR's process-wide prediction caches
	}
	run.Add("texts_"+a.Origin, 1)
	r := check(a)
	switch {
	case r.Panic != "":
		run.Add("panics_seen(C08)", 1)
	case !r.Accepted:
		run.Add("rejected", 1)
	default:
		run.Add("accepted", 1)
		run.Add("distinct_nontrivial", 1)
		if n := run.Get("accepted"); n == 1 || n == 100 || n == 1000 || n == 10000 {
			run.Sample(map[string]any{"text": short(a.Text, 200), "origin": a.Origin, "emitted": short(r.Emit1, 200)})
		}
	}
	if r.Viol != nil {
		s.classes[r.Viol.Class]++
		if cur, ok := s.witness[r.Viol.Class]; !ok || len(a.Text) < len(cur.Artefact.(artefact).Text) {
			s.witness[r.Viol.Class] = *r.Viol
		}
	}
}

// resetEvery is the number of evaluations after which ANTLR's prediction caches are dropped (overlay accessor in cypher/parser).
const resetEvery = 2000

func main() {
	run := core.Start("C07", "exploration")
	debug.SetGCPercent(150)
	if run.Replay != "" {
		replay(run)
		return
	}
	k := 2
	if run.Tier == core.Thorough {
		k = 3
	}
	if !run.Fork(16) {
		me, n, _ := run.Worker()
		s := &explorer{run: run, seen: map[[2]uint64]struct{}{}, me: me, n: n, classes: map[string]int64{}, witness: map[string]core.Violation{}}
		explore(s, k)
		byClass := map[string]any{}
		var names []string
		for c, n := range s.classes {
			byClass[c] = n
			names = append(names, c)
		}
		sort.Strings(names)
		for _, c := range names {
			for i := int64(0); i < s.classes[c]; i++ { // keeps the framework's violating_cases counter exact
				run.Report(s.witness[c])
			}
		}
		run.Set("failing_texts_by_class", byClass)
		run.Finish()
	}
	run.Set("rule", fmt.Sprintf("all derivations of Cypher.g4 with <= %d deviations of every rule in its best context and <= %d at every other grammar position (token pools for names, strings, numbers, blanks); "+
		"every query of the repository corpora; every single-token deletion, duplication and neighbour swap of every corpus query and every insertion of an unlexable '!' at a token boundary. distinct_nontrivial counts the distinct texts (exact: sharded by hash) "+
		"that the parser accepts - the texts on which the faithfulness oracle (re-emit, re-parse, model equality, fixed point, token containment, range values) is evaluated.", k, k-1))
	run.Assume("the project's CypherLexer and the raw parse tree of its generated parser define which tokens and constructs the input contains")
	run.Assume("re-spellings regarded as meaning-preserving are exactly R1-R8 of cmd/c07/oracle.go (case, ASC/DESC synonyms, literal values, Unicode dashes/arrow heads, <-[]-> = -[]-, range literals by denoted interval, punctuation ( ) , ; :)")
	run.Assume("a range literal *n denotes exactly n hops (openCypher), *n.. denotes n or more")
	run.Finish()
}

func explore(s *explorer, k int) {
	run := s.run
	corpus, err := cytext.Corpus()
	if err != nil {
		core.Fatalf("corpus: %v", err)
	}
	for _, c := range corpus {
		if s.take(c.Text) {
			s.eval(artefact{Text: c.Text, Origin: "corpus"})
		}
	}
	for _, t := range spellingTexts() {
		if s.take(t) {
			s.eval(artefact{Text: t, Origin: "spelling"})
		}
	}
	if s.me == 0 {
		run.Add("spelling_texts", int64(len(spellingTexts())))
	}
	g, err := cytext.LoadGrammar()
	if err != nil {
		core.Fatalf("grammar: %v", err)
	}
	pools := grammar.CypherPools(run.Tier == core.Quick)
	if err := cytext.VerifyPools(pools); err != nil {
		core.Fatalf("%v", err)
	}
	gen, err := grammar.New(g, grammar.Options{Pools: pools, Penalty: grammar.CypherPenalty()})
	if err != nil {
		core.Fatalf("grammar: %v", err)
	}
	st := gen.Enumerate(grammar.Plan{Root: "oC_Cypher", K: k, OccK: k - 1, Shard: func(t string) bool { return int(fnv2(t)[0]%uint64(s.n)) == s.me }}, func(t grammar.Text) bool {
		if run.TimeUp() {
			run.Capped("deadline during grammar derivations")
			return false
		}
		if s.take(t.Text) {
			s.eval(artefact{Text: t.Text, Origin: "grammar", Edit: fmt.Sprintf("%s at %s, %d+%d deviations", t.Rule, t.Via, t.Reach, t.Cost)})
		}
		return true
	})
	if s.me == 0 {
		run.Add("grammar_derivations", st.Derivations)
		run.Add("grammar_contexts", int64(st.Contexts))
		run.Add("grammar_rules", int64(len(g.ParserRules)))
	}
	for _, c := range corpus {
		if run.TimeUp() {
			run.Capped("deadline during corpus mutations")
			return
		}
		for _, m := range append(cytext.Mutations(c.Text), cytext.JunkInsertions(c.Text, "!")...) {
			if s.take(m.Text) {
				s.eval(artefact{Text: m.Text, Origin: "mutation", Base: c.Text, Edit: m.Op})
			}
		}
	}
}

// spellingTexts is family S: every map-literal position of the grammar (expression, node and relationship properties,
// WITH) filled with every ordered pair of key spellings from a pool in which the same name occurs plain and
// backtick-quoted, next to a distinct name, a name that needs quoting and a reserved word. The grammar derivations
// draw both keys of a map from the same token pool entry or from different names, never the same name in two
// spellings, so "the same key twice" was only ever tried in one spelling.
func spellingTexts() []string {
	keys := []string{"name", "`name`", "other", "`other`", "`a b`", "end", "`end`"}
	templates := []string{
		"return {%s: 1, %s: 2}",
		"return {%s: 1, b: 3, %s: 2}",
		"with {%s: 1, %s: 2} as m return m",
		"match (n {%s: 1, %s: 2}) return n",
		"match ()-[r {%s: 1, %s: 2}]->() return r",
		"match (n) where n.x = {%s: 1, %s: 2} return n",
	}
	var out []string
	for _, t := range templates {
		for _, a := range keys {
			for _, b := range keys {
				out = append(out, fmt.Sprintf(t, a, b))
			}
		}
	}
	return out
}

func replay(run *core.Run) {
	var a artefact
	core.LoadArtefact(run.Replay, &a)
	r := check(a)
	fmt.Printf("input               : %q (%s %s)\n", a.Text, a.Origin, a.Edit)
	for _, l := range r.Detail {
		fmt.Println(l)
	}
	fmt.Println("required            : accepted => model != nil, no unsupported rule, emit parses to an equal model, emit is a fixed point, every content token and range value of the input is in the emitted text")
	if r.Viol != nil {
		run.Report(*r.Viol)
	} else {
		fmt.Println("replay: no violation")
	}
	_ = sort.Strings
	_ = strings.TrimSpace
	run.Finish()
}
