package main

import (
	"fmt"
	"math"
	"math/big"
	"reflect"
	"sort"
	"strconv"
	"strings"

	"github.com/antlr4-go/antlr/v4"
	"github.com/specterops/dawgs/cypher/frontend"
	"github.com/specterops/dawgs/cypher/models/cypher"
	"github.com/specterops/dawgs/cypher/models/cypher/format"
	"github.com/specterops/dawgs/cypher/parser"

	"verif/core"
	"verif/enum/cytext"
	"verif/enum/grammar"
)

// ---- content tokens ------------------------------------------------------------------------------------------------------
//
// Both the input text and the emitted text are tokenised by the project's CypherLexer. Every token is a content token except
// blanks/comments and the pure punctuation ( ) , ; : . A content token is compared by a normalised key; the normalisations are the
// complete list of re-spellings this oracle regards as meaning-preserving:
//
//	R1  word tokens (keywords and names alike) are compared case-insensitively, names after removing backtick escaping
//	    (the emitter lower-cases keywords and re-escapes property keys only when needed)
//	R2  ASCENDING/DESCENDING are the same as ASC/DESC
//	R3  string literals are compared by value (quote style and escapes do not matter)
//	R4  numeric literals are compared by value (.5 = 0.5, 1e3 = 1000, 1.0 = 1; the int/float kind is the business of the model
//	    comparison, not of the token comparison)
//	R5  the Unicode dashes and arrow heads of oC_Dash / oC_LeftArrowHead / oC_RightArrowHead are the same as - < >
//	R6  a relationship pattern with both arrow heads, <-[..]->, is the same as the undirected -[..]- (both heads may vanish together)
//	R7  the tokens of a range literal (oC_RangeLiteral) are compared by the hop interval they denote, not one by one
//	    (*.. = *, *1..2 stays *1..2)
//	R9  the alternatives of a relationship type list form a set: a repeated type name and its `|` may vanish (-[:A|:A]- = -[:A]-)
//	R8  parentheses, commas, semicolons and colons are not compared (redundant parentheses around a pattern element, `|:` in
//	    relationship types, the trailing `;`)
//
// The emitted text may contain more tokens than the input (-- becomes -[]-, an unordered sort item gets "asc"), never fewer.

type contentTok struct {
	key   string
	index int // token index in the lexer's output = token index in the raw parse tree
	text  string
}

func isPunct(text string) bool {
	switch text {
	case "(", ")", ",", ";", ":":
		return true
	}
	return false
}

var dashes = map[string]bool{"\u00ad": true, "\u2010": true, "\u2011": true, "\u2012": true, "\u2013": true, "\u2014": true, "\u2015": true, "\u2212": true, "\ufe58": true, "\ufe63": true, "\uff0d": true}
var leftHeads = map[string]bool{"\u27e8": true, "\u3008": true, "\ufe64": true, "\uff1c": true}
var rightHeads = map[string]bool{"\u27e9": true, "\u3009": true, "\ufe65": true, "\uff1e": true}

func unescapeName(s string) string {
	if len(s) >= 2 && s[0] == '`' && s[len(s)-1] == '`' {
		return strings.ReplaceAll(s[1:len(s)-1], "``", "`")
	}
	return s
}

func decodeString(s string) string {
	if len(s) < 2 {
		return s
	}
	body := s[1 : len(s)-1]
	var sb strings.Builder
	rs := []rune(body)
	for i := 0; i < len(rs); i++ {
		if rs[i] != '\\' || i+1 >= len(rs) {
			sb.WriteRune(rs[i])
			continue
		}
		i++
		switch rs[i] {
		case 'b', 'B':
			sb.WriteByte('\b')
		case 'f', 'F':
			sb.WriteByte('\f')
		case 'n', 'N':
			sb.WriteByte('\n')
		case 'r', 'R':
			sb.WriteByte('\r')
		case 't', 'T':
			sb.WriteByte('\t')
		case 'u', 'U':
			n := 0
			if i+8 < len(rs) && isHex(rs[i+1:i+9]) {
				n = 8
			} else if i+4 < len(rs) && isHex(rs[i+1:i+5]) {
				n = 4
			}
			if n > 0 {
				if v, err := strconv.ParseUint(string(rs[i+1:i+1+n]), 16, 32); err == nil {
					sb.WriteRune(rune(v))
					i += n
					continue
				}
			}
			sb.WriteRune(rs[i])
		default:
			sb.WriteRune(rs[i])
		}
	}
	return sb.String()
}

func isHex(rs []rune) bool {
	for _, c := range rs {
		if !(c >= '0' && c <= '9' || c >= 'a' && c <= 'f' || c >= 'A' && c <= 'F') {
			return false
		}
	}
	return len(rs) > 0
}

func numberKey(tokenType int, text string) string {
	switch tokenType {
	case parser.CypherLexerDecimalInteger, parser.CypherLexerHexInteger, parser.CypherLexerOctalInteger:
		b := new(big.Int)
		t, base := text, 10
		if strings.HasPrefix(text, "0x") {
			t, base = text[2:], 16
		} else if strings.HasPrefix(text, "0o") {
			t, base = text[2:], 8
		}
		if _, ok := b.SetString(t, base); ok {
			if b.IsInt64() {
				return "n:" + b.String()
			}
			f, _ := new(big.Float).SetInt(b).Float64()
			return "n:" + strconv.FormatFloat(f, 'g', -1, 64)
		}
	default:
		if f, err := strconv.ParseFloat(text, 64); err == nil {
			if f == math.Trunc(f) && math.Abs(f) < 1<<53 {
				return "n:" + strconv.FormatInt(int64(f), 10)
			}
			return "n:" + strconv.FormatFloat(f, 'g', -1, 64)
		}
	}
	return "n?:" + text
}

func tokenKey(t cytext.Token) (key string, content bool) {
	switch t.Type {
	case parser.CypherLexerSP:
		return "", false
	case parser.CypherLexerStringLiteral:
		return "s:" + decodeString(t.Text), true
	case parser.CypherLexerDecimalInteger, parser.CypherLexerHexInteger, parser.CypherLexerOctalInteger, parser.CypherLexerExponentDecimalReal, parser.CypherLexerRegularDecimalReal:
		return numberKey(t.Type, t.Text), true
	case parser.CypherLexerEscapedSymbolicName:
		return "w:" + strings.ToLower(unescapeName(t.Text)), true
	case parser.CypherLexerUnescapedSymbolicName, parser.CypherLexerHexLetter:
		return "w:" + strings.ToLower(t.Text), true
	case parser.CypherLexerASCENDING:
		return "w:asc", true
	case parser.CypherLexerDESCENDING:
		return "w:desc", true
	}
	if cytext.IsKeyword(t.Type) {
		return "w:" + strings.ToLower(t.Text), true
	}
	if isPunct(t.Text) {
		return "", false
	}
	switch {
	case dashes[t.Text]:
		return "o:-", true
	case leftHeads[t.Text]:
		return "o:<", true
	case rightHeads[t.Text]:
		return "o:>", true
	}
	return "o:" + t.Text, true
}

// analysed is a text with its tokens, raw parse tree and the tree-derived adjustments R6 / R7.
type analysed struct {
	text     string
	toks     []cytext.Token
	tree     *cytext.RawTree
	excluded map[int]bool                      // token indices not compared one by one (R6, R7)
	ranges   []string                          // hop intervals of the range literals, in order (R7)
	paths    map[int][]antlr.ParserRuleContext // token index -> ancestors, outermost first
	rules    map[string]int
}

func analyse(text string) *analysed {
	a := &analysed{text: text, excluded: map[int]bool{}, paths: map[int][]antlr.ParserRuleContext{}, rules: map[string]int{}}
	a.toks, _ = cytext.Lex(text)
	a.tree = cytext.RawParse(text)
	cytext.Walk(a.tree.Root, func(n antlr.Tree, path []antlr.ParserRuleContext) {
		if tn, ok := n.(antlr.TerminalNode); ok {
			if idx := tn.GetSymbol().GetTokenIndex(); idx >= 0 {
				a.paths[idx] = append([]antlr.ParserRuleContext(nil), path...)
			}
			return
		}
		rc := n.(antlr.ParserRuleContext)
		name := cytext.RuleName(rc)
		a.rules[name]++
		switch name {
		case "oC_RangeLiteral":
			a.ranges = append(a.ranges, rangeValue(rc, a.excluded))
		case "oC_RelationshipTypes":
			// R9: the alternatives of a relationship type list are a set; a repeated type (and the `|` before it) adds nothing
			have := map[string]bool{}
			prevBar := -1
			for i := 0; i < rc.GetChildCount(); i++ {
				switch c := rc.GetChild(i).(type) {
				case antlr.TerminalNode:
					if c.GetText() == "|" {
						prevBar = c.GetSymbol().GetTokenIndex()
					}
				case antlr.ParserRuleContext:
					if cytext.RuleName(c) == "oC_RelTypeName" && c.GetStart() != nil {
						if name := c.GetText(); have[name] {
							a.excluded[c.GetStart().GetTokenIndex()] = true
							if prevBar >= 0 {
								a.excluded[prevBar] = true
							}
						} else {
							have[name] = true
						}
					}
				}
			}
		case "oC_RelationshipPattern":
			var l, r antlr.ParserRuleContext
			for i := 0; i < rc.GetChildCount(); i++ {
				if c, ok := rc.GetChild(i).(antlr.ParserRuleContext); ok {
					switch cytext.RuleName(c) {
					case "oC_LeftArrowHead":
						l = c
					case "oC_RightArrowHead":
						r = c
					}
				}
			}
			if l != nil && r != nil && l.GetStart() != nil && r.GetStart() != nil {
				a.excluded[l.GetStart().GetTokenIndex()] = true
				a.excluded[r.GetStart().GetTokenIndex()] = true
			}
		}
	})
	return a
}

// rangeValue reads an oC_RangeLiteral the way the openCypher grammar defines it: * = [1,inf], *n = [n,n], *n.. = [n,inf],
// *..m = [1,m], *n..m = [n,m], *.. = [1,inf].
func rangeValue(rc antlr.ParserRuleContext, excluded map[int]bool) string {
	var lo, hi string
	dots := false
	for i := 0; i < rc.GetChildCount(); i++ {
		switch c := rc.GetChild(i).(type) {
		case antlr.TerminalNode:
			excluded[c.GetSymbol().GetTokenIndex()] = true
			if c.GetText() == ".." {
				dots = true
			}
		case antlr.ParserRuleContext:
			if cytext.RuleName(c) == "oC_IntegerLiteral" {
				if c.GetStart() != nil {
					excluded[c.GetStart().GetTokenIndex()] = true
				}
				if dots {
					hi = c.GetText()
				} else {
					lo = c.GetText()
				}
			}
		}
	}
	switch {
	case !dots && lo != "":
		hi = lo
	case !dots:
		lo, hi = "1", "inf"
	}
	if lo == "" {
		lo = "1"
	}
	if hi == "" {
		hi = "inf"
	}
	return "[" + lo + "," + hi + "]"
}

func (a *analysed) content() []contentTok {
	var out []contentTok
	for i, t := range a.toks {
		if a.excluded[i] {
			continue
		}
		if k, ok := tokenKey(t); ok {
			out = append(out, contentTok{k, i, t.Text})
		}
	}
	return out
}

var clauseKeywords = map[string]bool{"w:match": true, "w:optional": true, "w:with": true, "w:unwind": true, "w:return": true, "w:create": true,
	"w:set": true, "w:delete": true, "w:detach": true, "w:remove": true, "w:merge": true, "w:where": true, "w:order": true, "w:skip": true,
	"w:limit": true, "w:union": true, "w:distinct": true, "w:on": true}

// clauseSkeleton is the subsequence of clause keywords of a token sequence.
func clauseSkeleton(toks []contentTok) []string {
	var out []string
	for _, t := range toks {
		if clauseKeywords[t.key] {
			out = append(out, strings.TrimPrefix(t.key, "w:"))
		}
	}
	return out
}

// ---- model comparison ----------------------------------------------------------------------------------------------------

type modelDiff struct {
	Path, Parent, Field, A, B string
}

func typeOf(v reflect.Value) string {
	if !v.IsValid() {
		return "<invalid>"
	}
	if v.Kind() == reflect.Interface || v.Kind() == reflect.Ptr {
		if v.IsNil() {
			return "nil"
		}
		if v.Kind() == reflect.Interface {
			return typeOf(v.Elem())
		}
	}
	return v.Type().String()
}

// firstDiff is an independent structural comparison of two models (not reflect.DeepEqual's verdict alone: it says where).
func firstDiff(a, b reflect.Value, path, parent, field string) *modelDiff {
	mk := func(x, y string) *modelDiff { return &modelDiff{path, parent, field, x, y} }
	if a.IsValid() != b.IsValid() {
		return mk(typeOf(a), typeOf(b))
	}
	if !a.IsValid() {
		return nil
	}
	if a.Type() != b.Type() {
		return mk(a.Type().String(), b.Type().String())
	}
	switch a.Kind() {
	case reflect.Ptr, reflect.Interface:
		if a.IsNil() || b.IsNil() {
			if a.IsNil() != b.IsNil() {
				return mk(typeOf(a), typeOf(b))
			}
			return nil
		}
		if a.Kind() == reflect.Interface && a.Elem().Type() != b.Elem().Type() {
			return mk(typeOf(a), typeOf(b))
		}
		return firstDiff(a.Elem(), b.Elem(), path, parent, field)
	case reflect.Struct:
		for i := 0; i < a.NumField(); i++ {
			f := a.Type().Field(i).Name
			if d := firstDiff(a.Field(i), b.Field(i), path+"."+f, a.Type().String(), f); d != nil {
				return d
			}
		}
	case reflect.Slice, reflect.Array:
		if a.Len() != b.Len() {
			return mk(fmt.Sprintf("%d elements", a.Len()), fmt.Sprintf("%d elements", b.Len()))
		}
		for i := 0; i < a.Len(); i++ {
			if d := firstDiff(a.Index(i), b.Index(i), fmt.Sprintf("%s[%d]", path, i), parent, field); d != nil {
				return d
			}
		}
	case reflect.Map:
		if a.Len() != b.Len() {
			return mk(fmt.Sprintf("%d keys", a.Len()), fmt.Sprintf("%d keys", b.Len()))
		}
		keys := a.MapKeys()
		sort.Slice(keys, func(i, j int) bool { return fmt.Sprint(keys[i]) < fmt.Sprint(keys[j]) })
		for _, k := range keys {
			bv := b.MapIndex(k)
			if !bv.IsValid() {
				return mk(fmt.Sprintf("key %v", k), "missing")
			}
			if d := firstDiff(a.MapIndex(k), bv, fmt.Sprintf("%s[%v]", path, k), parent, field); d != nil {
				return d
			}
		}
	case reflect.String:
		if a.String() != b.String() {
			return mk(strconv.Quote(a.String()), strconv.Quote(b.String()))
		}
	case reflect.Bool:
		if a.Bool() != b.Bool() {
			return mk(fmt.Sprint(a.Bool()), fmt.Sprint(b.Bool()))
		}
	case reflect.Int, reflect.Int8, reflect.Int16, reflect.Int32, reflect.Int64:
		if a.Int() != b.Int() {
			return mk(fmt.Sprint(a.Int()), fmt.Sprint(b.Int()))
		}
	case reflect.Uint, reflect.Uint8, reflect.Uint16, reflect.Uint32, reflect.Uint64:
		if a.Uint() != b.Uint() {
			return mk(fmt.Sprint(a.Uint()), fmt.Sprint(b.Uint()))
		}
	case reflect.Float32, reflect.Float64:
		if a.Float() != b.Float() && !(math.IsNaN(a.Float()) && math.IsNaN(b.Float())) {
			return mk(fmt.Sprint(a.Float()), fmt.Sprint(b.Float()))
		}
	default:
		if a.CanInterface() && b.CanInterface() && !reflect.DeepEqual(a.Interface(), b.Interface()) {
			return mk(fmt.Sprint(a.Interface()), fmt.Sprint(b.Interface()))
		}
	}
	return nil
}

// ---- the oracle ----------------------------------------------------------------------------------------------------------

type artefact struct {
	Text   string `json:"text"`
	Origin string `json:"origin"`
	Base   string `json:"base,omitempty"`
	Edit   string `json:"edit,omitempty"`
}

type result struct {
	Panic    string
	Err      string
	Accepted bool
	Emit1    string
	Emit2    string
	Viol     *core.Violation
	Detail   []string // both sides of the oracle, for --replay
}

func parseNew(text string) (m *cypher.RegularQuery, errText, panicText string) {
	var err error
	if p := core.Try(func() { m, err = frontend.ParseCypher(frontend.NewContext(), text) }); p != nil {
		return nil, "", fmt.Sprint(p)
	}
	if err != nil {
		return m, err.Error(), ""
	}
	return m, "", ""
}

func emit(m *cypher.RegularQuery) (out, errText string) {
	var err error
	if p := core.Try(func() { out, err = format.RegularQuery(m, false) }); p != nil {
		return "", "emitter panicked: " + fmt.Sprint(p)
	}
	if err != nil {
		return "", err.Error()
	}
	return out, ""
}

func short(s string, n int) string {
	s = strings.ReplaceAll(s, "\n", " ")
	if len(s) > n {
		return s[:n] + "..."
	}
	return s
}

var unsupported = map[string]bool{}

func init() {
	for _, r := range grammar.CypherUnsupportedRules {
		unsupported[r] = true
	}
}

func hasChild(rc antlr.ParserRuleContext, rule string) antlr.ParserRuleContext {
	for i := 0; i < rc.GetChildCount(); i++ {
		if c, ok := rc.GetChild(i).(antlr.ParserRuleContext); ok && cytext.RuleName(c) == rule {
			return c
		}
	}
	return nil
}

func countText(rc antlr.ParserRuleContext, text string) int {
	n := 0
	for i := 0; i < rc.GetChildCount(); i++ {
		if t, ok := rc.GetChild(i).(antlr.TerminalNode); ok && t.GetText() == text {
			n++
		}
	}
	return n
}

func countTerminals(rc antlr.ParserRuleContext, tokenType int) int {
	n := 0
	for i := 0; i < rc.GetChildCount(); i++ {
		if t, ok := rc.GetChild(i).(antlr.TerminalNode); ok && t.GetSymbol().GetTokenType() == tokenType {
			n++
		}
	}
	return n
}

// lossClass names the root cause of a vanished token from the grammar construct it sits in (innermost known construct first).
func lossClass(path []antlr.ParserRuleContext) (class, where string) {
	for i := len(path) - 1; i >= 0; i-- {
		rc := path[i]
		switch name := cytext.RuleName(rc); name {
		case "oC_ListOperatorExpression":
			if countText(rc, "..") > 0 {
				return "range-subscript-dropped", name
			}
			return "subscript-dropped", name
		case "oC_NonArithmeticOperatorExpression":
			if c := hasChild(rc, "oC_ListOperatorExpression"); c != nil {
				if countText(c, "..") > 0 {
					return "range-subscript-dropped", name
				}
				return "subscript-dropped", name
			}
		case "oC_ListComprehension":
			return "list-comprehension-reinterpreted", name
		case "oC_PatternComprehension":
			return "pattern-comprehension-reinterpreted", name
		case "oC_Hint":
			return "hint-dropped", name
		case "oC_MapLiteral":
			keys := map[string]int{}
			dup := false
			for j := 0; j < rc.GetChildCount(); j++ {
				if c, ok := rc.GetChild(j).(antlr.ParserRuleContext); ok && cytext.RuleName(c) == "oC_PropertyKeyName" {
					k := unescapeName(c.GetText())
					keys[k]++
					dup = dup || keys[k] > 1
				}
			}
			if dup {
				return "duplicate-map-key-dropped", name
			}
		case "oC_QueryOptions", "oC_AnyCypherOption", "oC_CypherOption":
			return "query-option-dropped", name
		case "oC_NotExpression":
			if countTerminals(rc, parser.CypherLexerNOT) > 1 {
				return "repeated-not-collapsed", name
			}
		case "oC_ShortestPathPattern":
			if i > 0 && cytext.RuleName(path[i-1]) == "oC_Atom" {
				return "shortest-path-expression-dropped", name
			}
		case "oC_Atom":
			if c := hasChild(rc, "oC_ShortestPathPattern"); c != nil {
				return "shortest-path-expression-dropped", name
			}
		case "oC_InQueryCall", "oC_StandaloneCall", "oC_YieldItems":
			return "call-clause-dropped", name
		case "oC_PropertyExpression":
			n := 0
			for j := 0; j < rc.GetChildCount(); j++ {
				if c, ok := rc.GetChild(j).(antlr.ParserRuleContext); ok && cytext.RuleName(c) == "oC_PropertyLookup" {
					n++
				}
			}
			if n > 1 {
				return "property-expression-chain-truncated", name
			}
		case "oC_LoadCSV":
			return "load-csv-dropped", name
		}
	}
	for i := len(path) - 1; i >= 0; i-- {
		if path[i].GetChildCount() > 1 {
			n := strings.TrimPrefix(cytext.RuleName(path[i]), "oC_")
			return genericLoss + n, "oC_" + n
		}
	}
	return genericLoss + "unknown", ""
}

const genericLoss = "content-dropped-in-"

// knownUnmodelled names the first construct of the input (in a fixed priority order) for which the front end has no model at
// all. It classifies failures whose own symptom is not specific (an emit error, a re-parse error, an unattributable loss).
func (a *analysed) knownUnmodelled() string {
	found := ""
	pick := func(c string, prio int, best *int) {
		if *best < 0 || prio < *best {
			found, *best = c, prio
		}
	}
	best := -1
	cytext.Walk(a.tree.Root, func(n antlr.Tree, path []antlr.ParserRuleContext) {
		rc, ok := n.(antlr.ParserRuleContext)
		if !ok {
			return
		}
		switch cytext.RuleName(rc) {
		case "oC_ListOperatorExpression":
			if countText(rc, "..") > 0 {
				pick("range-subscript-dropped", 1, &best)
			} else {
				pick("subscript-dropped", 0, &best)
			}
		case "oC_ListComprehension":
			pick("list-comprehension-reinterpreted", 2, &best)
		case "oC_PatternComprehension":
			pick("pattern-comprehension-reinterpreted", 3, &best)
		case "oC_ShortestPathPattern":
			if len(path) > 0 && cytext.RuleName(path[len(path)-1]) == "oC_Atom" {
				pick("shortest-path-expression-dropped", 4, &best)
			}
		case "oC_Hint":
			pick("hint-dropped", 5, &best)
		case "oC_CypherOption":
			pick("query-option-dropped", 6, &best)
		case "oC_InQueryCall":
			pick("in-query-call-accepted-not-modelled", 7, &best)
		case "oC_LoadCSV":
			pick("load-csv-accepted-not-modelled", 8, &best)
		case "oC_CreateUnique":
			pick("create-unique-accepted-not-modelled", 9, &best)
		case "oC_StandaloneCall":
			pick("standalone-call-accepted-without-model", 10, &best)
		case "oC_PropertyExpression":
			if at := hasChild(rc, "oC_Atom"); at != nil && countTerminals(at, parser.CypherLexerCOUNT) > 0 {
				pick("count-star-dropped-in-property-expression", 11, &best)
			}
		case "oC_Namespace":
			if rc.GetChildCount() > 0 {
				pick("function-namespace-separator-dropped", 12, &best)
			}
		}
	})
	return found
}

// lcsLost returns the input tokens an optimal alignment of the two key sequences leaves unmatched, in input order.
func lcsLost(in, out []contentTok) []contentTok {
	n, m := len(in), len(out)
	dp := make([][]int32, n+1)
	for i := range dp {
		dp[i] = make([]int32, m+1)
	}
	for i := n - 1; i >= 0; i-- {
		for j := m - 1; j >= 0; j-- {
			if in[i].key == out[j].key {
				dp[i][j] = dp[i+1][j+1] + 1
			} else if dp[i+1][j] >= dp[i][j+1] {
				dp[i][j] = dp[i+1][j]
			} else {
				dp[i][j] = dp[i][j+1]
			}
		}
	}
	var lost []contentTok
	i, j := 0, 0
	for i < n {
		switch {
		case j < m && in[i].key == out[j].key:
			i, j = i+1, j+1
		case j < m && dp[i][j+1] > dp[i+1][j]:
			j++
		default:
			lost = append(lost, in[i])
			i++
		}
	}
	return lost
}

func diffClass(d *modelDiff) (specific, generic string) {
	switch {
	case d.A == "*cypher.KindMatcher" && d.B == "*cypher.Parenthetical":
		return "multi-label-any-of", ""
	case d.Parent == "cypher.Literal" && d.Field == "Value" && d.A == "float64" && d.B == "int64":
		return "float-literal-respelled", ""
	case d.Parent == "cypher.FunctionInvocation" && (d.Field == "Namespace" || d.Field == "Name"):
		return "function-namespace-separator-dropped", ""
	}
	p := strings.TrimPrefix(d.Parent, "cypher.")
	if p == "" {
		p = "root"
	}
	return "", "roundtrip-model-mismatch-" + p + "." + d.Field
}

// check runs the whole oracle on one text.
func check(a artefact) (r result) {
	text := strings.TrimSpace(a.Text)
	add := func(f string, args ...any) { r.Detail = append(r.Detail, fmt.Sprintf(f, args...)) }
	viol := func(class, f string, args ...any) {
		r.Viol = &core.Violation{Class: class, Summary: fmt.Sprintf("%q: ", short(a.Text, 100)) + fmt.Sprintf(f, args...), Artefact: a}
	}
	m, errText, panicText := parseNew(a.Text)
	r.Panic, r.Err = panicText, errText
	add("parse(input)        : panic=%q err=%q model-nil=%v", panicText, short(errText, 200), m == nil)
	if panicText != "" || errText != "" || text == "" {
		return // rejected (or C08's business): nothing was accepted, nothing can be unfaithful
	}
	r.Accepted = true
	in := analyse(text)
	if m == nil {
		cls := "accepted-without-model"
		if k := in.knownUnmodelled(); k != "" {
			cls = k
		}
		viol(cls, "accepted (no error) but no model was returned")
		return
	}
	// classify: a specific symptom first, then a construct of the input that is known to have no model, then the generic name
	classify := func(specific, generic string) string {
		if specific != "" {
			return specific
		}
		if k := in.knownUnmodelled(); k != "" {
			return k
		}
		return generic
	}
	if _, lexErrs := cytext.Lex(text); len(lexErrs) > 0 {
		viol("unrecognised-characters-accepted", "accepted although the project's lexer cannot tokenise the text (%s): those characters are represented nowhere", short(lexErrs[0], 120))
		return
	}
	var used []string
	for rname := range in.rules {
		if unsupported[rname] {
			used = append(used, rname)
		}
	}
	sort.Strings(used)
	if len(used) > 0 && len(in.tree.Errors) == 0 {
		viol("unsupported-rule-accepted-"+strings.TrimPrefix(used[0], "oC_"), "accepted although the text uses %s, which is on the front end's unsupported list", used[0])
		return
	}
	e1, eerr := emit(m)
	r.Emit1 = e1
	add("emit(model)         : %q err=%q", short(e1, 300), eerr)
	if eerr != "" {
		viol(classify("", "accepted-model-not-emittable"), "accepted, but the model cannot be emitted: %s", short(eerr, 160))
		return
	}
	m2, err2, panic2 := parseNew(e1)
	add("parse(emitted)      : panic=%q err=%q", panic2, short(err2, 200))
	if panic2 != "" || err2 != "" || m2 == nil {
		specific := ""
		if in.rules["oC_DoubleLiteral"] > 0 && strings.Contains(err2, "invalid integer literal") {
			specific = "float-literal-respelled"
		}
		if strings.Contains(err2, "unexpected token in pattern range") {
			specific = "emitted-range-literal-with-blank-rejected"
		}
		viol(classify(specific, "emitted-text-rejected"), "emitted as %q, which the parser rejects: %s%s", short(e1, 120), short(err2, 160), panic2)
		return
	}
	if d := firstDiff(reflect.ValueOf(m), reflect.ValueOf(m2), "", "", ""); d != nil {
		add("model vs re-parsed  : differ at %s (%s.%s): %s vs %s", d.Path, d.Parent, d.Field, d.A, d.B)
		specific, generic := diffClass(d)
		viol(classify(specific, generic), "emitted as %q, which parses to a different model: at %s %s became %s", short(e1, 120), d.Path, d.A, d.B)
		return
	} else if !reflect.DeepEqual(m, m2) {
		viol("roundtrip-model-mismatch", "emitted as %q, which parses to a model reflect.DeepEqual tells apart", short(e1, 120))
		return
	}
	add("model vs re-parsed  : equal")
	e2, eerr2 := emit(m2)
	r.Emit2 = e2
	if eerr2 != "" || e2 != e1 {
		add("emit(re-parsed)     : %q err=%q", short(e2, 300), eerr2)
		viol("emit-not-a-fixed-point", "emit(parse(emit(m))) = %q differs from emit(m) = %q %s", short(e2, 120), short(e1, 120), eerr2)
		return
	}
	add("emit(re-parsed)     : identical")
	// token preservation
	out := analyse(e1)
	have := map[string]int{}
	for _, t := range out.content() {
		have[t.key]++
	}
	var lost []contentTok
	for _, t := range in.content() {
		if have[t.key] > 0 {
			have[t.key]--
		} else {
			lost = append(lost, t)
		}
	}
	if len(lost) > 0 {
		// the verdict is the multiset deficit; which occurrence vanished is decided by an alignment of the two token sequences
		deficit := map[string]bool{}
		for _, t := range lost {
			deficit[t.key] = true
		}
		var located []contentTok
		for _, t := range lcsLost(in.content(), out.content()) {
			if deficit[t.key] {
				located = append(located, t)
			}
		}
		if len(located) > 0 {
			lost = located
		}
		var names []string
		for _, t := range lost {
			names = append(names, t.text)
		}
		cls, where := "", ""
		for _, t := range lost {
			if c, w := lossClass(in.paths[t.index]); !strings.HasPrefix(c, genericLoss) {
				cls, where = c, w
				break
			}
		}
		if cls == "" {
			g, w := lossClass(in.paths[lost[0].index])
			cls, where = classify("", g), w
		}
		add("content tokens      : input tokens missing from the emitted text: %v (first one inside %s)", names, where)
		viol(cls, "accepted and emitted as %q: the input's tokens %v are represented nowhere (round trip is a fixed point, so the parser drops them consistently)", short(e1, 120), names)
		return
	}
	add("content tokens      : every input token is present in the emitted text")
	// clause order: the clause keywords of the input must come in the same order in the emitted text (a clause that
	// moved to another query part keeps every token and still round-trips, but means something else)
	if ci, co := clauseSkeleton(in.content()), clauseSkeleton(out.content()); strings.Join(ci, " ") != strings.Join(co, " ") {
		add("clause order        : input %v emitted %v", ci, co)
		viol("clause-order-changed", "accepted and emitted as %q: the clauses come in the order %v, the input has %v", short(e1, 160), co, ci)
		return
	}
	if len(in.ranges) > 0 || len(out.ranges) > 0 {
		add("range literals      : input %v emitted %v", in.ranges, out.ranges)
		if strings.Join(in.ranges, " ") != strings.Join(out.ranges, " ") {
			cls := "range-literal-reinterpreted"
			for i := range in.ranges {
				if i < len(out.ranges) && in.ranges[i] != out.ranges[i] {
					lo := strings.Split(strings.Trim(in.ranges[i], "[]"), ",")
					if lo[0] == lo[1] && strings.HasSuffix(out.ranges[i], ",inf]") {
						cls = "range-exact-hops-reinterpreted-as-open"
					}
					break
				}
			}
			viol(cls, "range literals denote %v in the input but %v in the emitted text %q", in.ranges, out.ranges, short(e1, 120))
			return
		}
	}
	return
}
