// Command c02 decides property C02 (query optimisation never changes what a translated query returns): for every
// enumerated query, the SQL of every translation configuration (production, AST rewrites only, each lowering off, each
// lowering alone) is evaluated by pgeval on every enumerated graph and compared with the SQL of the unoptimised
// translation; rewritten Cypher is compared with the original by the reference evaluator.
package main

import (
	"time"

	"verif/core"
	"verif/tv"
)

func main() {
	core.ThoroughBudget = 150 * time.Minute
	run := core.Start("C02", "translation_validation")
	if run.Replay != "" {
		tv.Replay(run, tv.Backend())
		return
	}
	b := tv.BoundsFor(run.Tier)
	if run.Fork(16) {
		tv.Conformance(run, false)
		run.Set("rule", "programs = enumerated query texts that translate both optimised and unoptimised; each applicable configuration is evaluated on every graph of the query's sliced domain and compared with the unoptimised SQL; distinct_nontrivial = programs with a non-empty result on some graph")
		run.Set("bounds", map[string]any{"max_features": int64(b.Features), "max_nodes": int64(b.MaxNodes), "max_edges": int64(b.MaxEdges), "graphs_per_query_budget": int64(b.Budget)})
		run.Set("configurations", tv.ConfigNames())
		run.Finish()
	}
	tv.RunC02(run, tv.Backend(), tv.AllQueries(string(run.Tier), b.Features), b)
	run.Finish()
}
