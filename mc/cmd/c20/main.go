// Command c20 decides property C20 (corrupt, tampered or hostile dump input is rejected before it can do harm) by
// enumerating byte substitutions, truncations, extensions and structural edits of a small dump, its TAR and its encrypted
// archive, hostile TAR entries and wrong / malformed keys, against Load and every unpack entry point of package retriever.
package main

import (
	"bytes"
	"context"
	"crypto/hpke"
	"fmt"
	"os"
	"path/filepath"
	"sort"
	"strings"

	"github.com/specterops/dawgs/retriever"

	"verif/core"
	"verif/fakedb"
	"verif/rtk"
	"verif/shim/vos"
)

// Sandbox --------------------------------------------------------------------------------------------------------------------

type env struct {
	run  *core.Run
	root string // sandbox root; everything below except out/ must never change
	in   string // dump directory given to Load
	out  string // requested output directory of unpack
	tmp  string // TMPDIR of the process
	priv hpke.PrivateKey
	pub  hpke.PublicKey

	privFile, pubFile []byte
	wrongPriv         hpke.PrivateKey

	base rtk.Tree // snapshot of root without out/
	verb bool
	only *artefact // replay: evaluate only the matching case
}

// skip is the replay filter: in replay mode only the case of the artefact is evaluated.
func (e *env) skip(a artefact) bool {
	if e.only == nil {
		return false
	}
	o := e.only
	return !(o.Codec == a.Codec && o.Target == kindName[a.kind] && o.Family == a.Family && o.Detail == a.Detail && o.File == a.File && o.Pos == a.Pos && (o.Val == a.Val || strings.Contains(a.Family, "substitute")) && o.Metrics == a.metrics)
}

var canaries = map[string]string{
	"x": "canary x", "abs-target": "canary abs", "evil.txt": "canary evil", "outside/x": "canary outside x", "linktarget/keep": "canary link target",
}

func newEnv(run *core.Run) *env {
	root := rtk.NewRoot("c20")
	e := &env{run: run, root: root, in: filepath.Join(root, "in"), out: filepath.Join(root, "out"), tmp: filepath.Join(root, "tmp")}
	must(os.MkdirAll(e.tmp, 0o755))
	must(os.Setenv("TMPDIR", e.tmp))
	for p, c := range canaries {
		must(os.MkdirAll(filepath.Dir(filepath.Join(root, p)), 0o755))
		must(os.WriteFile(filepath.Join(root, p), []byte(c), 0o600))
	}
	var err error
	e.priv, e.pub, err = retriever.GenerateArchiveKeyPair()
	must(err)
	e.wrongPriv, _, err = retriever.GenerateArchiveKeyPair()
	must(err)
	var pb, qb bytes.Buffer
	must(retriever.WriteArchivePrivateKey(&pb, e.priv))
	must(retriever.WriteArchivePublicKey(&qb, e.pub))
	e.privFile, e.pubFile = pb.Bytes(), qb.Bytes()
	must(os.MkdirAll(filepath.Join(root, "keys"), 0o755))
	must(os.WriteFile(filepath.Join(root, "keys", "priv.json"), e.privFile, 0o600))
	return e
}

func must(err error) {
	if err != nil {
		core.Fatalf("c20 setup: %v", err)
	}
}

func (e *env) outside() rtk.Tree {
	t := rtk.ReadTree(e.root)
	for p := range t {
		if p == "out" || strings.HasPrefix(p, "out/") {
			delete(t, p)
		}
	}
	return t
}

// Pristine inputs ------------------------------------------------------------------------------------------------------------

func sourceSpec() fakedb.Spec {
	return fakedb.Spec{Graphs: []*fakedb.Graph{
		{Name: "g1",
			Nodes: []*fakedb.Node{
				{ID: 5, Kinds: []string{"B", "A"}, Props: map[string]any{"name": "é😀"}},
				{ID: 1 << 33, Kinds: nil},
				{ID: 1, Kinds: []string{"A"}, Props: map[string]any{"n": int64(1), "l": []any{int64(1), []any{int64(2)}}}},
			},
			Edges: []*fakedb.Edge{
				{ID: 40, Start: 1, End: 5, Kind: "R", Props: map[string]any{"w": 1.5}},
				{ID: 7, Start: 5, End: 5, Kind: "S"},
			}},
		{Name: "g 2", Nodes: []*fakedb.Node{{ID: 9, Kinds: []string{"C"}}}},
	}}
}

type pristine struct {
	codec  string
	tree   rtk.Tree // the dump directory
	tar    []byte
	enc    []byte
	refDB  fakedb.Spec // content of the target database after loading the pristine dump
	refLog int
}

func (e *env) makePristine(codec string) *pristine {
	p := &pristine{codec: codec}
	dir := filepath.Join(e.root, "pristine")
	must(os.RemoveAll(dir))
	cfg := rtk.Config{Codec: codec, Shard: 2, DumpBatch: 2}
	spec := sourceSpec()
	_, err := retriever.Dump(context.Background(), fakedb.New(spec, 1000), rtk.Driver, rtk.Targets(spec), rtk.DumpOptions(dir, cfg))
	must(err)
	if _, err := rtk.CheckDump(dir, spec, cfg); err != nil {
		core.Fatalf("pristine dump is wrong: %v", err)
	}
	p.tree = rtk.ReadTree(dir)
	var tb, eb bytes.Buffer
	must(retriever.WriteCollectionTar(&tb, dir))
	must(retriever.WriteEncryptedCollectionArchive(&eb, dir, e.pub))
	p.tar, p.enc = tb.Bytes(), eb.Bytes()
	must(os.RemoveAll(dir))
	db := fakedb.New(fakedb.Spec{}, 100000)
	must(os.RemoveAll(e.in))
	p.tree.Write(e.in)
	_, err = retriever.Load(context.Background(), db, rtk.Driver, retriever.LoadOptions{InputDir: e.in, BatchSize: 2})
	must(err)
	p.refDB = db.Snapshot()
	p.refLog = len(db.Log)
	return p
}

// Targets (entry points under test) -----------------------------------------------------------------------------------------------

type kind int

const (
	loadDir kind = iota
	loadArchive
	unpackTar
	unpackEncDirect
	unpackStaged
	unpackStagedForce // pre-existing non-empty output directory, Force=true
	unpackFile        // UnpackEncryptedCollectionArchiveFile
	unpackStagedEmpty // pre-existing empty output directory (a fresh mount point), no Force
)

var kindName = map[kind]string{loadDir: "Load(dir)", loadArchive: "Load(archive)", unpackTar: "UnpackTar", unpackEncDirect: "UnpackEncryptedCollectionArchive",
	unpackStaged: "Unpack", unpackStagedForce: "Unpack(force,existing)", unpackFile: "UnpackEncryptedCollectionArchiveFile",
	unpackStagedEmpty: "Unpack(existing empty directory)"}

type obs struct {
	err   error
	res   vos.Result
	dbLog []fakedb.Mutation
	db    fakedb.Spec
}

var existingOut = rtk.Tree{".": {Dir: true}, "old.txt": {Data: []byte("previous content")}, "graphs": {Dir: true}, "graphs/old": {Data: []byte("x")}}

// exec calls one entry point on input (a byte stream, or for loadDir the prepared directory e.in).
func (e *env) exec(k kind, input []byte, identity hpke.PrivateKey, verifyMetrics bool) obs {
	must(os.RemoveAll(e.out))
	if k == unpackStagedForce {
		existingOut.Write(e.out)
	}
	if k == unpackStagedEmpty {
		must(os.MkdirAll(e.out, 0o755))
	}
	if identity == nil {
		identity = e.priv
	}
	var o obs
	db := fakedb.New(fakedb.Spec{}, 100000)
	ctx := context.Background()
	o.res = vos.Run(vos.Options{Root: e.root}, func() {
		switch k {
		case loadDir:
			_, o.err = retriever.Load(ctx, db, rtk.Driver, retriever.LoadOptions{InputDir: e.in, BatchSize: 2, VerifyMetrics: verifyMetrics})
		case loadArchive:
			_, o.err = retriever.Load(ctx, db, rtk.Driver, retriever.LoadOptions{ArchiveReader: bytes.NewReader(input), ArchiveIdentity: identity, BatchSize: 2, VerifyMetrics: verifyMetrics})
		case unpackTar:
			o.err = retriever.UnpackTar(bytes.NewReader(input), e.out, false)
		case unpackEncDirect:
			o.err = retriever.UnpackEncryptedCollectionArchive(bytes.NewReader(input), e.out, identity)
		case unpackStaged, unpackStagedEmpty:
			o.err = retriever.Unpack(retriever.UnpackOptions{ArchiveReader: bytes.NewReader(input), ArchiveIdentity: identity, OutputDir: e.out})
		case unpackStagedForce:
			o.err = retriever.Unpack(retriever.UnpackOptions{ArchiveReader: bytes.NewReader(input), ArchiveIdentity: identity, OutputDir: e.out, Force: true})
		case unpackFile:
			path := filepath.Join(e.root, "archive.bin")
			o.err = retriever.UnpackEncryptedCollectionArchiveFile(path, e.out, false, identity)
		}
	})
	o.dbLog = db.Log
	if k == loadDir || k == loadArchive {
		o.db = db.Snapshot()
	}
	e.run.Add("evaluations", 1)
	return o
}

type artefact struct {
	Codec    string `json:"codec"`
	Target   string `json:"target"`
	Family   string `json:"family"`
	Detail   string `json:"detail"`
	File     string `json:"file,omitempty"`
	Pos      int    `json:"pos"`
	Val      int    `json:"val"`
	Note     string `json:"note,omitempty"`
	Metrics  bool   `json:"verify_metrics,omitempty"`
	kind     kind
	valid    bool // the input is a legitimately produced archive (e.g. a harmless key-file edit): acceptance is expected
	identity hpke.PrivateKey
	metrics  bool
}

func short(err error) string {
	if err == nil {
		return "success"
	}
	s := strings.ReplaceAll(err.Error(), "\n", " | ")
	if len(s) > 260 {
		s = s[:260] + "..."
	}
	return "error: " + s
}

func (e *env) report(class string, a artefact, summary string) {
	if e.verb {
		fmt.Printf("  VIOLATION %s: %s\n", class, summary)
	}
	a.Note = "key material is generated per run: a replay re-creates the archive and applies the same edit at the same position"
	e.run.Report(core.Violation{Class: class, Summary: fmt.Sprintf("[%s %s %s %s] %s", a.Codec, a.Target, a.Family, a.Detail, summary), Artefact: a})
}

// judge evaluates the three oracles on one run.
func (e *env) judge(p *pristine, a artefact, o obs) {
	t := kindName[a.kind]
	a.Target = t
	a.Metrics = a.metrics
	if e.verb {
		fmt.Printf("%s on %s/%s %s: %s\n", t, a.Family, a.Detail, a.File, short(o.err))
	}
	if o.res.Panic != nil {
		e.report("panic:"+t, a, fmt.Sprintf("panicked: %v", o.res.Panic))
		return
	}
	// (ii) confinement
	if len(o.res.Escapes) > 0 {
		e.report("writes-outside-sandbox:"+t, a, fmt.Sprintf("attempted to modify %v", o.res.Escapes))
	}
	if d := e.base.Diff(e.outside()); d != "" {
		e.report("writes-outside-output-directory:"+t, a, fmt.Sprintf("%s; file system outside the requested output directory changed: %s", short(o.err), d))
		e.rebuild(p)
	}
	switch a.kind {
	case loadDir, loadArchive:
		if o.err != nil {
			e.run.Add("rejected", 1)
			if len(o.dbLog) > 0 { // (i) no partial effects
				// with VerifyMetrics the (known) cause is that metrics are only compared after loading; any failure after
				// writes without it means the input was not fully verified first - a different defect, a different class
				class := "load-error-after-writes:" + t
				if !a.metrics {
					class += ":input-not-verified-before-writing"
				}
				e.report(class, a, fmt.Sprintf("%s, after %d write calls to the target database (first: %+v)", short(o.err), len(o.dbLog), o.dbLog[0]))
			}
		} else {
			e.run.Add("accepted_with_identical_result", 1)
			e.run.Add("accepted:"+t, 1)
			if a.kind == loadArchive && !a.valid {
				e.report("modified-encrypted-archive-accepted:"+t, a, "the edited archive was loaded without error")
			}
			if why := sameDatabase(p.refDB, o.db); why != "" { // (iii) integrity
				a.Note = why
				e.run.Add("accepted_with_identical_result", -1)
				e.report("tampered-input-loaded-differently:"+t, a, "Load succeeded and the target database differs from the one the pristine dump produces: "+why)
			}
		}
	default:
		after := rtk.ReadTree(e.out)
		if o.err != nil {
			e.run.Add("rejected", 1)
			if a.kind == unpackStagedForce {
				if d := existingOut.Diff(after); d != "" {
					e.report("unpack-error-damages-existing-output:"+t, a, fmt.Sprintf("%s, and the pre-existing output directory changed: %s", short(o.err), d))
				}
			} else if len(after) > 1 || (len(after) == 1 && !after["."].Dir) {
				e.report("unpack-error-leaves-partial-output:"+t, a, fmt.Sprintf("%s, and the output directory holds %v", short(o.err), entriesOf(after)))
			}
		} else {
			d := p.tree.Diff(after)
			switch {
			case d == "":
				e.run.Add("accepted_with_identical_result", 1)
				e.run.Add("accepted:"+t, 1)
				if a.kind != unpackTar && !a.valid {
					// every byte of an encrypted archive is under the AEAD or part of the framing: no edit may pass
					e.report("modified-encrypted-archive-accepted:"+t, a, "the edited archive was unpacked without error (result identical to the pristine dump)")
				}
			case a.kind == unpackTar && onlyManifestDiffers(p.tree, after):
				// Nothing authenticates the manifest of a plain TAR beyond its own consistency and the fragment digests it carries,
				// so no unpacker can notice an edit of e.g. its whitespace, driver or generated_at. The strongest requirement such a
				// container can meet: every fragment is byte-identical and loading the unpacked directory gives the pristine
				// database or fails before writing.
				db := fakedb.New(fakedb.Spec{}, 100000)
				_, lerr := retriever.Load(context.Background(), db, rtk.Driver, retriever.LoadOptions{InputDir: e.out, BatchSize: 2})
				e.run.Add("evaluations", 1)
				if lerr != nil && len(db.Log) > 0 {
					e.report("load-error-after-writes:Load(dir) after UnpackTar", a, fmt.Sprintf("%s after %d write calls", short(lerr), len(db.Log)))
				} else if lerr == nil {
					if why := sameDatabase(p.refDB, db.Snapshot()); why != "" {
						e.report("tampered-archive-unpacked-differently:"+t, a, "unpack succeeded with an edited manifest whose load differs from the pristine database: "+why)
					}
				}
				e.run.Add("accepted_unauthenticated_manifest_edit_same_load_result", 1)
			default:
				e.report("tampered-archive-unpacked-differently:"+t, a, fmt.Sprintf("unpack succeeded and the output differs from the pristine dump: %s", d))
			}
		}
	}
}

func entriesOf(t rtk.Tree) []string {
	var out []string
	for p, e := range t {
		if p == "." {
			continue
		}
		if e.Dir {
			p += "/"
		}
		out = append(out, p)
	}
	sort.Strings(out)
	return out
}

func onlyManifestDiffers(want, got rtk.Tree) bool {
	if len(want) != len(got) {
		return false
	}
	for p, w := range want {
		g, ok := got[p]
		if !ok || w.Dir != g.Dir || w.Link != g.Link {
			return false
		}
		if p != "manifest.json" && !bytes.Equal(w.Data, g.Data) {
			return false
		}
	}
	return true
}

// sameDatabase compares two databases graph by graph up to isomorphism (destination IDs and creation order are arbitrary).
func sameDatabase(a, b fakedb.Spec) string {
	byName := map[string]*fakedb.Graph{}
	for _, g := range b.Graphs {
		byName[g.Name] = g
	}
	for _, g := range a.Graphs {
		o := byName[g.Name]
		if o == nil {
			o = &fakedb.Graph{Name: g.Name}
		}
		if ok, why := rtk.Isomorphic(g, o); !ok {
			return fmt.Sprintf("graph %q: %s", g.Name, why)
		}
		delete(byName, g.Name)
	}
	for name, g := range byName {
		if len(g.Nodes)+len(g.Edges) > 0 {
			return fmt.Sprintf("extra graph %q", name)
		}
	}
	return ""
}

// rebuild restores the sandbox after something outside out/ changed.
func (e *env) rebuild(p *pristine) {
	cur := e.outside()
	for path := range cur {
		if _, ok := e.base[path]; !ok {
			_ = os.RemoveAll(filepath.Join(e.root, filepath.FromSlash(path)))
		}
	}
	for path, ent := range e.base {
		if !ent.Dir && ent.Link == "" {
			full := filepath.Join(e.root, filepath.FromSlash(path))
			_ = os.MkdirAll(filepath.Dir(full), 0o755)
			_ = os.WriteFile(full, ent.Data, 0o600)
		}
	}
	if d := e.base.Diff(e.outside()); d != "" {
		core.Fatalf("cannot restore sandbox: %s", d)
	}
}

// Mutation families ----------------------------------------------------------------------------------------------------------

// replayValue: key material differs between runs, so a replay applies the recorded value at the recorded position (or, when
// the fresh byte happens to equal it, its neighbour) instead of re-deriving the substitution set.
var replayValue = -1

func subsValues(tier core.Tier, orig byte) []byte {
	var out []byte
	if replayValue >= 0 {
		if byte(replayValue) == orig {
			return []byte{orig ^ 0x01}
		}
		return []byte{byte(replayValue)}
	}
	if tier == core.Thorough {
		for v := 0; v < 256; v++ {
			if byte(v) != orig {
				out = append(out, byte(v))
			}
		}
		return out
	}
	seen := map[byte]bool{orig: true}
	for _, v := range []byte{orig ^ 0x01, orig ^ 0x20, orig ^ 0x80, 0x00, 0xFF} { // ^0x20: the case of an ASCII letter
		if !seen[v] {
			seen[v] = true
			out = append(out, v)
		}
	}
	return out
}

type streamCase struct {
	kinds []kind
	data  []byte
	name  string
}

func (e *env) streams(p *pristine) []streamCase {
	return []streamCase{
		{[]kind{unpackTar}, p.tar, "tar"},
		{[]kind{unpackStaged, unpackEncDirect, loadArchive, unpackStagedForce, unpackStagedEmpty}, p.enc, "encrypted-archive"},
	}
}

type work struct {
	e    *env
	p    *pristine
	unit int
}

func (w *work) mine() bool {
	w.unit++
	return w.e.run.Mine(w.unit)
}

// byteFamilies runs substitution / truncation / extension over the streams and the dump directory files.
func (w *work) byteFamilies(tier core.Tier) {
	e, p := w.e, w.p
	for _, sc := range e.streams(p) {
		buf := append([]byte(nil), sc.data...)
		for pos := range buf {
			if !w.mine() {
				continue
			}
			orig := buf[pos]
			for ki, k := range sc.kinds {
				vals := subsValues(tier, orig)
				if tier == core.Thorough && (ki > 0 || p.codec != "none") { // all 255 values: first entry point of a stream, codec none
					vals = subsValues(core.Quick, orig)
				}
				if k == unpackStagedForce || k == unpackStagedEmpty {
					vals = vals[:1]
				}
				for _, v := range vals {
					a := artefact{Codec: p.codec, Family: "substitute", Detail: sc.name, Pos: pos, Val: int(v), kind: k}
					if e.skip(a) {
						continue
					}
					buf[pos] = v
					o := e.exec(k, buf, nil, false)
					e.judge(p, a, o)
					e.run.Add("distinct_nontrivial", 1)
				}
			}
			buf[pos] = orig
		}
		for n := 0; n < len(sc.data); n++ {
			if !w.mine() {
				continue
			}
			for _, k := range sc.kinds {
				a := artefact{Codec: p.codec, Family: "truncate", Detail: sc.name, Pos: n, kind: k}
				if e.skip(a) {
					continue
				}
				o := e.exec(k, sc.data[:n], nil, false)
				e.judge(p, a, o)
				e.run.Add("distinct_nontrivial", 1)
			}
		}
		for gi, garbage := range [][]byte{{0}, {0xFF}, make([]byte, 512), make([]byte, 1024), sc.data[len(sc.data)-21:], sc.data} {
			if !w.mine() {
				continue
			}
			for _, k := range sc.kinds {
				a := artefact{Codec: p.codec, Family: "append", Detail: sc.name, Pos: gi, kind: k}
				if e.skip(a) {
					continue
				}
				o := e.exec(k, append(append([]byte(nil), sc.data...), garbage...), nil, false)
				e.judge(p, a, o)
				e.run.Add("distinct_nontrivial", 1)
			}
		}
	}
	// dump directory: every byte of every file
	for _, f := range p.tree.Files() {
		data := p.tree[f].Data
		full := filepath.Join(e.in, filepath.FromSlash(f))
		buf := append([]byte(nil), data...)
		for pos := range buf {
			if !w.mine() {
				continue
			}
			orig := buf[pos]
			vals := subsValues(tier, orig)
			if p.codec != "none" { // all 255 values for the codec-none dump only (the other manifests differ in a few bytes)
				vals = subsValues(core.Quick, orig)
			}
			for _, v := range vals {
				a := artefact{Codec: p.codec, Family: "substitute", Detail: "dump-directory", File: f, Pos: pos, Val: int(v), kind: loadDir}
				if e.skip(a) {
					continue
				}
				buf[pos] = v
				must(os.WriteFile(full, buf, 0o600))
				e.base[relIn(f)] = rtk.TreeEntry{Data: append([]byte(nil), buf...)}
				o := e.exec(loadDir, nil, nil, false)
				e.judge(p, a, o)
				e.run.Add("distinct_nontrivial", 1)
			}
			buf[pos] = orig
		}
		for n := 0; n <= len(data)+1; n++ {
			if n == len(data) || !w.mine() {
				continue
			}
			a := artefact{Codec: p.codec, Family: "truncate-or-extend", Detail: "dump-directory", File: f, Pos: n, kind: loadDir}
			if e.skip(a) {
				continue
			}
			var mutated []byte
			if n < len(data) {
				mutated = data[:n]
			} else {
				mutated = append(append([]byte(nil), data...), '\n')
			}
			must(os.WriteFile(full, mutated, 0o600))
			e.base[relIn(f)] = rtk.TreeEntry{Data: append([]byte(nil), mutated...)}
			o := e.exec(loadDir, nil, nil, false)
			e.judge(p, a, o)
			e.run.Add("distinct_nontrivial", 1)
		}
		must(os.WriteFile(full, data, 0o600))
		e.base[relIn(f)] = rtk.TreeEntry{Data: data}
	}
}

func relIn(f string) string { return "in/" + f }

// withDir runs Load(dir) on an edited copy of the dump directory and restores it.
func (w *work) withDir(family, detail string, edit func(t rtk.Tree) bool, metrics bool) {
	e, p := w.e, w.p
	a := artefact{Codec: p.codec, Family: family, Detail: detail, kind: loadDir, metrics: metrics}
	if !w.mine() || e.skip(a) {
		return
	}
	t := rtk.Tree{}
	for k, v := range p.tree {
		t[k] = v
	}
	if !edit(t) {
		return
	}
	must(os.RemoveAll(e.in))
	t.Write(e.in)
	saved := e.base
	e.base = e.outside()
	o := e.exec(loadDir, nil, nil, metrics)
	e.judge(p, a, o)
	e.run.Add("distinct_nontrivial", 1)
	must(os.RemoveAll(e.in))
	p.tree.Write(e.in)
	e.base = saved
}

func main() {
	run := core.Start("C20", "fault_enumeration")
	if run.Replay != "" {
		replay(run)
	}
	if !run.Fork(16) {
		e := newEnv(run)
		codecs := []string{"none", "gzip", "zstd"}
		w := &work{e: e}
		for _, c := range codecs {
			p := e.makePristine(c)
			w.p = p
			e.base = e.outside()
			if i, _, _ := run.Worker(); i == 0 {
				run.Sample(map[string]any{"codec": c, "dump_files": len(p.tree.Files()), "tar_bytes": len(p.tar), "encrypted_archive_bytes": len(p.enc)})
			}
			w.byteFamilies(run.Tier)
			w.structural()
			w.hostileTar()
			w.keys()
			if run.TimeUp() {
				run.Capped("deadline")
				break
			}
		}
		os.RemoveAll(e.root)
		run.Finish()
	}
	run.Set("rule", "for a 2-graph dump (3+1 nodes, 2 relationships, shard 2) in each codec {none,gzip,zstd}: every byte position of every dump file, of its TAR and of its encrypted archive x substitutions {^0x01,^0x20,^0x80,0x00,0xFF} (quick) / all 255 values (thorough) for UnpackTar, Unpack and Load(dir) on the codec-none TAR, encrypted archive and dump files; every truncation length; appended garbage (1 byte, 1-2 TAR blocks, last frame again, whole stream again); structural edits of the manifest (each count/size +-1, each hash nibble, paths, codec, phase, graph names, entry order/duplication/deletion, metrics histograms with recomputed fingerprint), of fragments (swap, delete, empty), of TAR entries (swap, duplicate, delete) and encrypted frames (swap, duplicate, delete, retype); hostile TAR entries (absolute / parent / volume / backslash / blank / long / duplicate names, link / device / fifo / directory / GNU-long-name / PAX entries, oversize / undersize / negative / huge sizes) raw and re-encrypted to the recipient; wrong, edited, truncated and public-as-private keys. Entry points: Load(dir), Load(archive), UnpackTar, UnpackEncryptedCollectionArchive, Unpack, Unpack(force, existing output), Unpack(existing empty output directory), UnpackEncryptedCollectionArchiveFile")
	run.Assume("a write call reaching the fake target database counts as 'written' (drivers may flush at any call)")
	run.Assume("bytes nothing authenticates (manifest whitespace, generated_at, driver, unknown keys; TAR padding, mtime, uid) may be accepted only with a result identical to the pristine run; both counts are reported (rejected / accepted_with_identical_result)")
	run.Assume("time-of-check/time-of-use changes of the dump directory during Load are out of scope (the property speaks of the input as given)")
	run.Finish()
}
