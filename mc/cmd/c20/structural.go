package main

import (
	"archive/tar"
	"bytes"
	"crypto/hpke"
	"encoding/binary"
	"encoding/json"
	"fmt"
	"os"
	"path/filepath"
	"regexp"
	"sort"
	"strconv"
	"strings"

	"github.com/specterops/dawgs/retriever"

	"verif/core"
	"verif/rtk"
)

// stream evaluates one edited byte stream on the given entry points.
func (w *work) stream(family, detail string, pos int, kinds []kind, input []byte, identity hpke.PrivateKey) {
	e, p := w.e, w.p
	if !w.mine() {
		return
	}
	for _, k := range kinds {
		// a "+reencrypted" input is a freshly sealed archive of an edited TAR: it is not a modification of a produced archive
		// but one any holder of the public key can produce, so it may be accepted when the result is identical
		a := artefact{Codec: p.codec, Family: family, Detail: detail, Pos: pos, kind: k, valid: strings.HasSuffix(family, "+reencrypted")}
		if e.skip(a) {
			continue
		}
		o := e.exec(k, input, identity, false)
		e.judge(p, a, o)
		e.run.Add("distinct_nontrivial", 1)
	}
}

var encKinds = []kind{unpackStaged, unpackEncDirect, loadArchive, unpackStagedForce, unpackStagedEmpty}

// reencrypt seals an arbitrary TAR stream to the recipient's public key (anyone holding the public key can do this).
func (e *env) reencrypt(tarBytes []byte) []byte {
	var buf bytes.Buffer
	w, err := retriever.NewEncryptedArchiveWriter(&buf, e.pub)
	must(err)
	for off := 0; off < len(tarBytes); off += 512 {
		end := off + 512
		if end > len(tarBytes) {
			end = len(tarBytes)
		}
		_, err := w.Write(tarBytes[off:end])
		must(err)
	}
	must(w.Close())
	return buf.Bytes()
}

// both evaluates a TAR stream raw (UnpackTar) and re-encrypted (all encrypted entry points).
func (w *work) both(family, detail string, pos int, tarBytes []byte) {
	w.stream(family, detail, pos, []kind{unpackTar}, tarBytes, nil)
	w.stream(family+"+reencrypted", detail, pos, encKinds, w.e.reencrypt(tarBytes), nil)
}

// Manifest / fragment edits ------------------------------------------------------------------------------------------------------

var (
	reNumber = regexp.MustCompile(`"(count|compressed_bytes|uncompressed_bytes|node_count|edge_count|graph_count|compression_level)": (-?\d+)`)
	reSHA    = regexp.MustCompile(`"(sha256|fingerprint)": "(sha256:)?([0-9a-f]{64})"`)
	rePath   = regexp.MustCompile(`"path": "([^"]*)"`)
	reCodec  = regexp.MustCompile(`"compression": "([^"]*)"`)
	rePhase  = regexp.MustCompile(`"phase": "([^"]*)"`)
	reName   = regexp.MustCompile(`"name": "([^"]*)"`)
	reString = regexp.MustCompile(`"(format|id_strategy|version|mode|driver)": "([^"]*)"`)
)

func replaceSpan(b []byte, from, to int, with string) []byte {
	out := append([]byte(nil), b[:from]...)
	out = append(out, with...)
	return append(out, b[to:]...)
}

func (w *work) structural() {
	e, p := w.e, w.p
	manifest := p.tree["manifest.json"].Data
	editManifest := func(family, detail string, edited []byte, metrics bool) {
		w.withDir(family, detail, func(t rtk.Tree) bool {
			t["manifest.json"] = rtk.TreeEntry{Data: edited}
			return !bytes.Equal(edited, manifest)
		}, metrics)
	}
	for i, m := range reNumber.FindAllSubmatchIndex(manifest, -1) {
		v, _ := strconv.Atoi(string(manifest[m[4]:m[5]]))
		field := string(manifest[m[2]:m[3]])
		for _, d := range []int{1, -1} {
			editManifest("manifest-number", fmt.Sprintf("%s#%d%+d", field, i, d), replaceSpan(manifest, m[4], m[5], strconv.Itoa(v+d)), false)
		}
	}
	for i, m := range reSHA.FindAllSubmatchIndex(manifest, -1) {
		field := string(manifest[m[2]:m[3]])
		for n := m[6]; n < m[7]; n++ {
			c := manifest[n]
			r := byte('0')
			if c == '0' {
				r = 'f'
			} else if c == 'a' {
				r = '9'
			} else {
				r = c - 1
			}
			editManifest("manifest-hash-nibble", fmt.Sprintf("%s#%d@%d", field, i, n-m[6]), replaceSpan(manifest, n, n+1, string(r)), false)
		}
	}
	paths := rePath.FindAllSubmatchIndex(manifest, -1)
	for i, m := range paths {
		self := string(manifest[m[2]:m[3]])
		other := string(manifest[paths[(i+1)%len(paths)][2]:paths[(i+1)%len(paths)][3]])
		for j, np := range []string{other, "../x", "../outside/x", filepath.Join(e.root, "x"), "manifest.json", "", self + "/", "./" + self, "graphs/../" + self, strings.ToUpper(self)} {
			editManifest("manifest-path", fmt.Sprintf("path#%d>%d", i, j), replaceSpan(manifest, m[2], m[3], np), false)
		}
	}
	for i, m := range reCodec.FindAllSubmatchIndex(manifest, -1) {
		for _, c := range []string{"none", "gzip", "zstd", "", "bogus"} {
			editManifest("manifest-codec", fmt.Sprintf("compression#%d>%s", i, c), replaceSpan(manifest, m[2], m[3], c), false)
		}
	}
	for i, m := range rePhase.FindAllSubmatchIndex(manifest, -1) {
		for _, c := range []string{"nodes", "edges", "bogus"} {
			editManifest("manifest-phase", fmt.Sprintf("phase#%d>%s", i, c), replaceSpan(manifest, m[2], m[3], c), false)
		}
	}
	for i, m := range reName.FindAllSubmatchIndex(manifest, -1) {
		for _, c := range []string{"g9", "", "g 2", "g1"} {
			editManifest("manifest-graph-name", fmt.Sprintf("name#%d>%q", i, c), replaceSpan(manifest, m[2], m[3], c), false)
		}
	}
	for i, m := range reString.FindAllSubmatchIndex(manifest, -1) {
		editManifest("manifest-string", fmt.Sprintf("%s#%d", manifest[m[2]:m[3]], i), replaceSpan(manifest, m[4], m[5], "x"), false)
	}

	// edits of the manifest's structure (re-marshalled)
	structEdit := func(detail string, metrics bool, f func(m *retriever.Manifest) bool) {
		var m retriever.Manifest
		must(json.Unmarshal(manifest, &m))
		if !f(&m) {
			return
		}
		b, err := json.MarshalIndent(m, "", "  ")
		must(err)
		editManifest("manifest-structure", detail, append(b, '\n'), metrics)
	}
	var m0 retriever.Manifest
	must(json.Unmarshal(manifest, &m0))
	for gi := range m0.Graphs {
		gi := gi
		nf := len(m0.Graphs[gi].Files)
		for fi := 0; fi < nf; fi++ {
			fi := fi
			structEdit(fmt.Sprintf("g%d:delete-file#%d", gi, fi), false, func(m *retriever.Manifest) bool {
				fs := m.Graphs[gi].Files
				m.Graphs[gi].Files = append(append([]retriever.FileManifest(nil), fs[:fi]...), fs[fi+1:]...)
				return true
			})
			structEdit(fmt.Sprintf("g%d:duplicate-file#%d", gi, fi), false, func(m *retriever.Manifest) bool {
				m.Graphs[gi].Files = append(m.Graphs[gi].Files, m.Graphs[gi].Files[fi])
				return true
			})
			structEdit(fmt.Sprintf("g%d:duplicate-file-fix-counts#%d", gi, fi), false, func(m *retriever.Manifest) bool {
				f := m.Graphs[gi].Files[fi]
				m.Graphs[gi].Files = append(m.Graphs[gi].Files, f)
				if f.Phase == retriever.PhaseNodes {
					m.Graphs[gi].NodeCount += int64(f.Count)
				} else {
					m.Graphs[gi].EdgeCount += int64(f.Count)
				}
				return f.Phase == retriever.PhaseEdges // node files must precede edge files
			})
			if fi+1 < nf {
				structEdit(fmt.Sprintf("g%d:swap-files#%d", gi, fi), false, func(m *retriever.Manifest) bool {
					fs := m.Graphs[gi].Files
					fs[fi], fs[fi+1] = fs[fi+1], fs[fi]
					return true
				})
			}
		}
	}
	structEdit("swap-graphs", false, func(m *retriever.Manifest) bool {
		if len(m.Graphs) < 2 {
			return false
		}
		m.Graphs[0], m.Graphs[1] = m.Graphs[1], m.Graphs[0]
		return true
	})
	structEdit("move-files-to-other-graph", false, func(m *retriever.Manifest) bool {
		if len(m.Graphs) < 2 {
			return false
		}
		m.Graphs[0].Files, m.Graphs[1].Files = m.Graphs[1].Files, m.Graphs[0].Files
		m.Graphs[0].NodeCount, m.Graphs[1].NodeCount = m.Graphs[1].NodeCount, m.Graphs[0].NodeCount
		m.Graphs[0].EdgeCount, m.Graphs[1].EdgeCount = m.Graphs[1].EdgeCount, m.Graphs[0].EdgeCount
		return true
	})
	structEdit("drop-schema", false, func(m *retriever.Manifest) bool { m.Schema.Graphs = nil; return true })
	for _, vm := range []bool{false, true} {
		vm := vm
		structEdit("drop-metrics", vm, func(m *retriever.Manifest) bool { m.Metrics = nil; return true })
		// internally consistent metrics that do not describe the fragments (fingerprint recomputed)
		for hi, name := range []string{"node-kind", "edge-kind", "in-degree", "out-degree", "total-degree", "endpoint-kind"} {
			hi := hi
			structEdit("metrics-rekey:"+name, vm, func(m *retriever.Manifest) bool {
				g := &m.Metrics.Graphs[0]
				h := []map[string]int64{g.NodeKindHistogram, g.EdgeKindHistogram, g.InDegreeHistogram, g.OutDegreeHistogram, g.TotalDegreeHistogram, g.EndpointKindHistogram}[hi]
				var ks []string
				for k, v := range h {
					if v > 0 {
						ks = append(ks, k)
					}
				}
				if len(ks) == 0 {
					return false
				}
				sort.Strings(ks)
				h[ks[0]]--
				h["9:tampered!"]++
				g.Fingerprint = retriever.FingerprintGraphMetrics(*g)
				return true
			})
		}
	}

	// fragment files
	var frags []string
	for _, f := range p.tree.Files() {
		if f != "manifest.json" {
			frags = append(frags, f)
		}
	}
	for i, f := range frags {
		f := f
		g := frags[(i+1)%len(frags)]
		w.withDir("fragment", "delete:"+f, func(t rtk.Tree) bool { delete(t, f); return true }, false)
		w.withDir("fragment", "empty:"+f, func(t rtk.Tree) bool { t[f] = rtk.TreeEntry{Data: []byte{}}; return true }, false)
		w.withDir("fragment", "swap-with-next:"+f, func(t rtk.Tree) bool { t[f], t[g] = t[g], t[f]; return f != g }, false)
		w.withDir("fragment", "replace-by-next:"+f, func(t rtk.Tree) bool { t[f] = t[g]; return f != g }, false)
		w.withDir("fragment", "directory-instead:"+f, func(t rtk.Tree) bool { t[f] = rtk.TreeEntry{Dir: true}; return true }, false)
		w.withDir("fragment", "symlink-to-copy:"+f, func(t rtk.Tree) bool {
			t[f+".real"] = t[f]
			t[f] = rtk.TreeEntry{Link: filepath.Base(f) + ".real"}
			return true
		}, false)
	}
	w.withDir("fragment", "extra-unlisted-file", func(t rtk.Tree) bool {
		t["graphs/g1/nodes-000009.jsonl"] = rtk.TreeEntry{Data: []byte("{}\n")}
		return true
	}, false)
	w.withDir("manifest", "deleted", func(t rtk.Tree) bool { delete(t, "manifest.json"); return true }, false)
	w.withDir("manifest", "empty", func(t rtk.Tree) bool { t["manifest.json"] = rtk.TreeEntry{Data: []byte{}}; return true }, false)
	w.withDir("manifest", "json-null", func(t rtk.Tree) bool { t["manifest.json"] = rtk.TreeEntry{Data: []byte("null\n")}; return true }, false)
	w.withDir("manifest", "twice", func(t rtk.Tree) bool {
		t["manifest.json"] = rtk.TreeEntry{Data: append(append([]byte(nil), manifest...), manifest...)}
		return true
	}, false)

	// TAR entries: swap, duplicate, delete
	entries, tail := splitTar(p.tar)
	join := func(es [][]byte) []byte { return append(bytes.Join(es, nil), tail...) }
	for i := range entries {
		for j := i + 1; j < len(entries); j++ {
			es := append([][]byte(nil), entries...)
			es[i], es[j] = es[j], es[i]
			w.both("tar-entry-swap", fmt.Sprintf("%d<->%d", i, j), i*100+j, join(es))
		}
		w.both("tar-entry-duplicate", fmt.Sprintf("%d", i), i, join(append(append([][]byte(nil), entries...), entries[i])))
		if size := tarEntrySize(entries[i]); size > 0 { // one byte of the entry's data changed (its manifest digest no longer matches), header intact
			for _, off := range []int64{0, size / 2, size - 1} {
				es := append([][]byte(nil), entries...)
				es[i] = append([]byte(nil), entries[i]...)
				es[i][512+off] ^= 0x20
				w.both("tar-entry-data-flip", fmt.Sprintf("%d@%d", i, off), i*100000+int(off), join(es))
			}
		}
		w.both("tar-entry-delete", fmt.Sprintf("%d", i), i, join(append(append([][]byte(nil), entries[:i]...), entries[i+1:]...)))
	}
	w.both("tar-entry-delete", "all", -1, tail)
	w.both("tar-no-end-marker", "", 0, bytes.Join(entries, nil))

	// encrypted frames: swap, duplicate, delete, retype
	head, frames := splitFrames(p.enc)
	joinF := func(fs [][]byte) []byte { return append(append([]byte(nil), head...), bytes.Join(fs, nil)...) }
	for i := range frames {
		if i+1 < len(frames) {
			fs := append([][]byte(nil), frames...)
			fs[i], fs[i+1] = fs[i+1], fs[i]
			w.stream("frame-swap", fmt.Sprintf("%d<->%d", i, i+1), i, encKinds, joinF(fs), nil)
		}
		dup := append(append(append([][]byte(nil), frames[:i+1]...), frames[i]), frames[i+1:]...)
		w.stream("frame-duplicate", fmt.Sprintf("%d", i), i, encKinds, joinF(dup), nil)
		w.stream("frame-delete", fmt.Sprintf("%d", i), i, encKinds, joinF(append(append([][]byte(nil), frames[:i]...), frames[i+1:]...)), nil)
		re := append([][]byte(nil), frames...)
		re[i] = append([]byte{frames[i][0] ^ 1}, frames[i][1:]...)
		w.stream("frame-retype", fmt.Sprintf("%d", i), i, encKinds, joinF(re), nil)
	}
	w.stream("frame-delete", "all", -1, encKinds, head, nil)
	// frames of another archive (same key, different header) spliced under this header
	other := e.reencrypt(p.tar)
	_, oframes := splitFrames(other)
	w.stream("frames-from-other-archive", "", 0, encKinds, joinF(oframes), nil)

	// the file-based entry point on a few representative inputs
	for i, in := range [][]byte{p.enc[:len(p.enc)/2], p.enc[:len(p.enc)-1], joinF(frames[:len(frames)-1]), e.reencrypt(tail)} {
		a := artefact{Codec: p.codec, Family: "archive-file", Detail: fmt.Sprintf("case%d", i), Pos: i, kind: unpackFile}
		if !w.mine() || e.skip(a) {
			continue
		}
		must(os.WriteFile(filepath.Join(e.root, "archive.bin"), in, 0o600))
		saved := e.base
		e.base = e.outside()
		o := e.exec(unpackFile, nil, nil, false)
		e.judge(p, a, o)
		e.run.Add("distinct_nontrivial", 1)
		must(os.Remove(filepath.Join(e.root, "archive.bin")))
		e.base = saved
	}
}

// splitTar cuts a TAR stream into entries (header block + data blocks) and the trailing end-of-archive blocks.
func splitTar(b []byte) (entries [][]byte, tail []byte) {
	off := 0
	for off+512 <= len(b) {
		h := b[off : off+512]
		if bytes.Equal(h, make([]byte, 512)) {
			break
		}
		size, err := strconv.ParseInt(strings.TrimRight(strings.TrimSpace(string(h[124:136])), "\x00"), 8, 64)
		if err != nil {
			core.Fatalf("splitTar: %v", err)
		}
		n := 512 + int((size+511)/512*512)
		entries = append(entries, b[off:off+n])
		off += n
	}
	return entries, b[off:]
}

func tarEntrySize(entry []byte) int64 {
	size, err := strconv.ParseInt(strings.TrimRight(strings.TrimSpace(string(entry[124:136])), "\x00"), 8, 64)
	if err != nil {
		core.Fatalf("tarEntrySize: %v", err)
	}
	return size
}

// splitFrames cuts an encrypted archive into its header part and its frames.
func splitFrames(b []byte) (head []byte, frames [][]byte) {
	const magic = len("RTRV-PQ-ARCHIVE-v1")
	hl := int(binary.BigEndian.Uint32(b[magic : magic+4]))
	off := magic + 4 + hl
	head = b[:off]
	for off < len(b) {
		n := 5 + int(binary.BigEndian.Uint32(b[off+1:off+5]))
		frames = append(frames, b[off:off+n])
		off += n
	}
	return head, frames
}

// Hostile TAR entries --------------------------------------------------------------------------------------------------------

// rawHeader builds a 512-byte USTAR header by hand so that fields archive/tar's writer refuses can be produced.
func rawHeader(name string, typeflag byte, size int64, linkname string, sizeField []byte) []byte {
	h := make([]byte, 512)
	n := name
	prefix := ""
	if len(n) > 100 {
		for cut := 0; cut < len(n); cut++ {
			if n[cut] == '/' && cut <= 155 && len(n)-cut-1 <= 100 {
				prefix, n = n[:cut], n[cut+1:]
				break
			}
		}
	}
	copy(h[0:100], n)
	copy(h[100:108], "0000600\x00")
	copy(h[108:116], "0000000\x00")
	copy(h[116:124], "0000000\x00")
	if sizeField != nil {
		copy(h[124:136], sizeField)
	} else {
		copy(h[124:136], fmt.Sprintf("%011o\x00", size))
	}
	copy(h[136:148], "00000000000\x00")
	h[156] = typeflag
	copy(h[157:257], linkname)
	copy(h[257:263], "ustar\x00")
	copy(h[263:265], "00")
	copy(h[345:500], prefix)
	copy(h[148:156], "        ")
	var sum int
	for _, c := range h {
		sum += int(c)
	}
	copy(h[148:156], fmt.Sprintf("%06o\x00 ", sum))
	return h
}

func pad(data []byte) []byte {
	if r := len(data) % 512; r != 0 {
		data = append(append([]byte(nil), data...), make([]byte, 512-r)...)
	}
	return data
}

func entry(name string, typeflag byte, data []byte, linkname string) []byte {
	return append(rawHeader(name, typeflag, int64(len(data)), linkname, nil), pad(data)...)
}

func base256(v int64) []byte {
	b := make([]byte, 12)
	u := uint64(v)
	for i := 11; i >= 4; i-- {
		b[i] = byte(u)
		u >>= 8
	}
	fill := byte(0)
	if v < 0 {
		fill = 0xFF
	}
	for i := 1; i < 4; i++ {
		b[i] = fill
	}
	b[0] = 0x80 | (fill & 0x7F)
	return b
}

func paxEntry(records map[string]string, name string, data []byte) []byte {
	var buf bytes.Buffer
	tw := tar.NewWriter(&buf)
	must(tw.WriteHeader(&tar.Header{Typeflag: tar.TypeReg, Name: name, Size: int64(len(data)), Mode: 0o600, PAXRecords: records, Format: tar.FormatPAX}))
	_, err := tw.Write(data)
	must(err)
	must(tw.Flush())
	return buf.Bytes()
}

func (w *work) hostileTar() {
	e, p := w.e, w.p
	entries, tail := splitTar(p.tar)
	payload := []byte("hostile payload\n")
	long := strings.Repeat("d/", 70) + strings.Repeat("n", 95)
	type hostile struct {
		name string
		raw  []byte
	}
	var hs []hostile
	add := func(name string, raw ...[]byte) { hs = append(hs, hostile{name, bytes.Join(raw, nil)}) }
	for _, n := range []string{"/verif-c20-abs-escape", filepath.Join(e.root, "abs-target"), "../x", "a/../../x", "a/./../..", "graphs/../../x", "C:\\x", "C:/x", "a\\b", "..\\x", " ../x", "../x ", "x/", "", ".", "..", "./", "//x", "../created-outside", "a/../../created-outside", "graphs/g1/../../../created-outside", filepath.Join(e.root, "created-outside"), "evil.txt", "./manifest.json", "graphs/../manifest.json", "manifest.json", "manifest.json/x", "graphs", "graphs/g1", long, "\x00hidden", "nul\x00", ".out.unpack-1.tmp/x"} {
		add(fmt.Sprintf("regular:%q", n), entry(n, tar.TypeReg, payload, ""))
	}
	for _, l := range []string{"../x", filepath.Join(e.root, "x"), "manifest.json", "../linktarget"} {
		add(fmt.Sprintf("symlink->%q", l), entry("link", tar.TypeSymlink, nil, l))
		add(fmt.Sprintf("symlink->%q+file-through-it", l), entry("link", tar.TypeSymlink, nil, l), entry("link/keep", tar.TypeReg, payload, ""))
		add(fmt.Sprintf("hardlink->%q", l), entry("hard", tar.TypeLink, nil, l))
		add(fmt.Sprintf("symlink-named-manifest->%q", l), entry("graphs/g1/extra", tar.TypeSymlink, nil, l))
	}
	for _, t := range []byte{tar.TypeDir, tar.TypeChar, tar.TypeBlock, tar.TypeFifo, tar.TypeCont, tar.TypeXGlobalHeader, tar.TypeGNUSparse, 'Z', 0} {
		add(fmt.Sprintf("type:%q", string(t)), entry("special", t, nil, ""))
		add(fmt.Sprintf("type:%q+data", string(t)), entry("special2", t, payload, ""))
	}
	add("dir-then-file-inside", entry("newdir/", tar.TypeDir, nil, ""), entry("newdir/f", tar.TypeReg, payload, ""))
	add("gnu-long-name:../x", entry("././@LongLink", tar.TypeGNULongName, []byte("../x\x00"), ""), entry("short", tar.TypeReg, payload, ""))
	add("gnu-long-name:abs", entry("././@LongLink", tar.TypeGNULongName, []byte(filepath.Join(e.root, "x")+"\x00"), ""), entry("short", tar.TypeReg, payload, ""))
	add("gnu-long-link", entry("././@LongLink", tar.TypeGNULongLink, []byte("../x\x00"), ""), entry("l2", tar.TypeSymlink, nil, "short"))
	add("pax-path:../x", paxEntry(map[string]string{"path": "../x"}, "ok.txt", payload))
	add("pax-path:abs", paxEntry(map[string]string{"path": filepath.Join(e.root, "x")}, "ok.txt", payload))
	add("pax-path:evil.txt", paxEntry(map[string]string{"path": "evil.txt"}, "manifest.json", payload))
	add("pax-linkpath", paxEntry(map[string]string{"linkpath": "../x"}, "ok.txt", payload))
	add("pax-size-larger", paxEntry(map[string]string{"size": "99999"}, "ok.txt", payload))
	add("size-declared-larger", append(rawHeader("big", tar.TypeReg, 4096, "", nil), pad(payload)...))
	add("size-declared-smaller", append(rawHeader("small", tar.TypeReg, 4, "", nil), pad(payload)...))
	add("size-negative", append(rawHeader("neg", tar.TypeReg, 0, "", base256(-1)), pad(payload)...))
	add("size-huge", append(rawHeader("huge", tar.TypeReg, 0, "", base256(1<<63-1)), pad(payload)...))
	add("size-octal-garbage", append(rawHeader("garb", tar.TypeReg, 0, "", []byte("zzzzzzzzzzz\x00")), pad(payload)...))
	add("bad-checksum", func() []byte { b := entry("sum", tar.TypeReg, payload, ""); b[148] ^= 1; return b }())

	valid := bytes.Join(entries, nil)
	for i, h := range hs {
		// alone, before the collection, in the middle, after it
		w.both("hostile-entry:alone", h.name, i, append(append([]byte(nil), h.raw...), tail...))
		w.both("hostile-entry:first", h.name, i, append(append(append([]byte(nil), h.raw...), valid...), tail...))
		mid := append(bytes.Join(entries[:len(entries)/2], nil), h.raw...)
		mid = append(append(mid, bytes.Join(entries[len(entries)/2:], nil)...), tail...)
		w.both("hostile-entry:middle", h.name, i, mid)
		w.both("hostile-entry:last", h.name, i, append(append(append([]byte(nil), valid...), h.raw...), tail...))
	}
}

// Keys -----------------------------------------------------------------------------------------------------------------------

func (w *work) keys() {
	e, p := w.e, w.p
	if e.only != nil && !strings.Contains(e.only.Family, "key") {
		return
	}
	kinds := []kind{unpackStaged, unpackEncDirect, loadArchive}
	tryKeyFile := func(family, detail string, pos, val int, file []byte) {
		if !w.mine() {
			return
		}
		key, err := retriever.ReadArchivePrivateKey(bytes.NewReader(file))
		e.run.Add("key_files_tried", 1)
		if err != nil {
			e.run.Add("key_files_rejected_on_read", 1)
			return
		}
		// "the matching private key" = any private key of the recipient's key pair. An ML-KEM private key is the seed d||z;
		// z only feeds implicit rejection, so seeds that differ in z alone have the same public key and decapsulate alike.
		same := bytes.Equal(key.PublicKey().Bytes(), e.pub.Bytes())
		for _, k := range kinds {
			a := artefact{Codec: p.codec, Family: family, Detail: detail, Pos: pos, Val: val, kind: k}
			if e.skip(a) {
				continue
			}
			o := e.exec(k, p.enc, key, false)
			e.run.Add("distinct_nontrivial", 1)
			a.valid = same
			if !same && o.err == nil {
				a.Target = kindName[k]
				e.report("archive-opens-with-non-matching-key:"+kindName[k], a, "the archive was opened with a private key that does not belong to the recipient public key")
				continue
			}
			e.judge(p, a, o)
		}
	}
	if p.codec != "none" {
		// key handling does not depend on the dump codec: exhaustive key-file edits once, wrong-key runs for every codec
		w.stream("wrong-key", "fresh-unrelated-key", 0, kinds, p.enc, e.wrongPriv)
		return
	}
	for _, k := range kinds {
		a := artefact{Codec: p.codec, Family: "wrong-key", Detail: "fresh-unrelated-key", kind: k}
		if !w.mine() || e.skip(a) {
			continue
		}
		o := e.exec(k, p.enc, e.wrongPriv, false)
		e.run.Add("distinct_nontrivial", 1)
		if o.err == nil {
			a.Target = kindName[k]
			e.report("archive-opens-with-non-matching-key:"+kindName[k], a, "the archive was opened with an unrelated private key")
		}
		e.judge(p, a, o)
	}
	buf := append([]byte(nil), e.privFile...)
	for pos := range buf {
		orig := buf[pos]
		for _, v := range subsValues(e.run.Tier, orig) {
			buf[pos] = v
			tryKeyFile("key-file-substitute", "private", pos, int(v), buf)
		}
		buf[pos] = orig
	}
	for n := 0; n < len(e.privFile); n++ {
		tryKeyFile("key-file-truncate", "private", n, 0, e.privFile[:n])
	}
	tryKeyFile("key-file", "public-key-as-private", 0, 0, e.pubFile)
	tryKeyFile("key-file", "public-key-relabelled-private", 0, 0, bytes.Replace(e.pubFile, []byte(`"public"`), []byte(`"private"`), 1))
	tryKeyFile("key-file", "two-envelopes", 0, 0, append(append([]byte(nil), e.privFile...), e.privFile...))
	var env retriever.ArchiveKeyEnvelope
	must(json.Unmarshal(e.privFile, &env))
	for i, f := range []func(*retriever.ArchiveKeyEnvelope){
		func(v *retriever.ArchiveKeyEnvelope) { v.Key = "" },
		func(v *retriever.ArchiveKeyEnvelope) { v.Key = v.Key[:len(v.Key)-4] },
		func(v *retriever.ArchiveKeyEnvelope) { v.Key = v.Key + v.Key },
		func(v *retriever.ArchiveKeyEnvelope) { v.Key = "!!!!" },
		func(v *retriever.ArchiveKeyEnvelope) { v.Crypto.KEM = "X25519" },
		func(v *retriever.ArchiveKeyEnvelope) { v.Crypto.AEAD = "ChaCha20Poly1305" },
		func(v *retriever.ArchiveKeyEnvelope) { v.Format = "retriever-hpke-key-v2" },
		func(v *retriever.ArchiveKeyEnvelope) { v.Type = "public" },
	} {
		v := env
		f(&v)
		b, _ := json.Marshal(v)
		tryKeyFile("key-envelope-field", fmt.Sprintf("edit%d", i), i, 0, b)
	}
}

// Replay ---------------------------------------------------------------------------------------------------------------------

func replay(run *core.Run) {
	var art artefact
	core.LoadArtefact(run.Replay, &art)
	e := newEnv(run)
	defer os.RemoveAll(e.root)
	e.verb = true
	e.only = &art
	if strings.Contains(art.Family, "substitute") {
		replayValue = art.Val
	}
	fmt.Printf("replay: codec=%s target=%s family=%s detail=%s file=%s pos=%d val=%d\n", art.Codec, art.Target, art.Family, art.Detail, art.File, art.Pos, art.Val)
	p := e.makePristine(art.Codec)
	e.base = e.outside()
	// the pristine input on the same entry point, for comparison
	for k, n := range kindName {
		if n == art.Target && k != unpackFile {
			input := p.enc
			if k == unpackTar {
				input = p.tar
			}
			o := e.exec(k, input, nil, art.Metrics)
			fmt.Printf("pristine input on %s: %s\n", n, short(o.err))
		}
	}
	w := &work{e: e, p: p}
	w.byteFamilies(run.Tier)
	w.structural()
	w.hostileTar()
	w.keys()
	os.RemoveAll(e.root)
	if run.Violations() == 0 {
		fmt.Println("replay: no violation")
	}
	run.Finish()
}
