// Command c14 decides property C14 (all directed-graph containers present the same graph).
//
// Engine E3: every directed multigraph inside the tier's bounds (labelled nodes 0..n-1, every multiset of ordered
// pairs including self loops, parallel and antiparallel edges; nodes without edges are isolated nodes) is generated
// by enum/graphs, given node and edge ids from each id profile, and built into every container:
//
//	adjacency map (AddNode/AddEdge and BuildAdjacencyMapGraph), CSR (builder, nodes first and edges first),
//	CSR through FetchDirectedGraph over a fake database, triple store,
//	every Projection(deletedNodes, deletedEdges) of the triple store (all subsets x all subsets) and
//	two-step projections Projection(a).Projection(b) of the same deletion sets
//
// Oracle: the naive model of model.go (edge list) - node count, node set, adjacent-node *sets* for every node x
// {out, in, both}; Reach, BFSTree distances, Normalize, TSBFS/TSDFS terminal segments (depth bounds 1..3, and unbounded
// on acyclic graphs), MarshalSegment/UnmarshalSegment and SerializedSegment.ToSegment round trips of every maximal
// walk, WriteZoneBFSTree -> BFSTreeFile.ReadEach for every zone subset.
//
// Derived computations are generic over the container interfaces, so they are compared only for a container and
// direction whose primitive answers (EachAdjacentNode, EachAdjacentEdge) already agree with the model; a failure is
// therefore attributed to the place that causes it and gets a class of its own.
package main

import (
	"bytes"
	"context"
	"fmt"
	"os"
	"sort"
	"strings"
	"sync"

	"github.com/specterops/dawgs/cardinality"
	"github.com/specterops/dawgs/container"
	"github.com/specterops/dawgs/graph"

	"verif/core"
	"verif/enum/graphs"
)

// ---------------------------------------------------------------------------------------------------------------
// cases

type profile struct {
	name  string
	nodes []uint64 // node index -> id
	edges []uint64 // edge index (position in the sorted edge list) -> id
}

var profiles = map[string]profile{
	// small ids; node and edge ids in disjoint ranges
	"A": {"A", []uint64{1, 2, 3, 4}, []uint64{101, 102, 103, 104, 105}},
	// 0, an id with byte 0x0A, ids in different 32-bit high words, the top bit; not in index order
	"B": {"B", []uint64{1<<32 | 3, 10, 1 << 63, 0}, []uint64{10, 0, 1<<33 | 1, 1<<63 | 5, 266}},
	// node ids and edge ids drawn from the same numbers (a projection that mixes the two deletion sets up shows)
	"C": {"C", []uint64{2, 1, 4, 3}, []uint64{1, 2, 3, 4, 5}},
}

type spec struct {
	g    graphs.Graph
	prof profile
	m    *model
}

func newSpec(g graphs.Graph, prof profile) *spec {
	if g.N > len(prof.nodes) || len(g.Edges) > len(prof.edges) {
		core.Fatalf("profile %s too small for %s", prof.name, g)
	}
	s := &spec{g: g, prof: prof, m: &model{}}
	s.m.nodes = sortedSet(prof.nodes[:g.N])
	for k, e := range g.Edges {
		s.m.edges = append(s.m.edges, edge{id: prof.edges[k], start: prof.nodes[e.U], end: prof.nodes[e.V]})
	}
	return s
}

// absentID is an id that no profile uses, to probe the answers for an unknown node.
const absentID = uint64(999_999)

// ---------------------------------------------------------------------------------------------------------------
// evaluation context: comparison, attribution, artefacts

type counters struct {
	evaluations, comparisons, nontrivial, skippedDerived, files int64
}

type evalCtx struct {
	sp      *spec
	verbose bool
	scope   map[string]any // what is being looked at, for the replay artefact
	report  func(v core.Violation)
	n       *counters
}

func (c *evalCtx) with(kv ...any) *evalCtx {
	cp := *c
	cp.scope = map[string]any{}
	for k, v := range c.scope {
		cp.scope[k] = v
	}
	for i := 0; i+1 < len(kv); i += 2 {
		cp.scope[kv[i].(string)] = kv[i+1]
	}
	return &cp
}

func (c *evalCtx) expect(class, what string, got, want any) bool {
	c.n.comparisons++
	g, w := fmt.Sprint(got), fmt.Sprint(want)
	if c.verbose {
		mark := "ok  "
		if g != w {
			mark = "FAIL"
		}
		fmt.Printf("  %s %-34s %s: impl=%s naive=%s\n", mark, class, what, g, w)
	}
	if g == w {
		return true
	}
	c.fail(class, fmt.Sprintf("%s = %s, naive %s", what, g, w))
	return false
}

func (c *evalCtx) fail(class, msg string) {
	art := map[string]any{"graph": c.sp.g.String(), "profile": c.sp.prof.name}
	for k, v := range c.scope {
		art[k] = v
	}
	c.report(core.Violation{
		Class:    class,
		Summary:  fmt.Sprintf("[%s ids=%s %s | %s] %s", c.sp.g, c.sp.prof.name, c.sp.m, c.scopeText(), msg),
		Artefact: art,
	})
}

func (c *evalCtx) scopeText() string {
	keys := make([]string, 0, len(c.scope))
	for k := range c.scope {
		keys = append(keys, k)
	}
	sort.Strings(keys)
	var parts []string
	for _, k := range keys {
		parts = append(parts, fmt.Sprintf("%s=%v", k, c.scope[k]))
	}
	return strings.Join(parts, " ")
}

// guard runs f and turns a panic inside the code under test into a violation of the given class.
func (c *evalCtx) guard(class, what string, f func()) bool {
	if p := core.Try(f); p != nil {
		if c.verbose {
			fmt.Printf("  FAIL %-34s %s: PANIC %v\n", class, what, p)
		}
		c.fail(class, fmt.Sprintf("%s panics: %v", what, p))
		return false
	}
	return true
}

// ---------------------------------------------------------------------------------------------------------------
// builders of the real containers

func buildAdjacency(m *model) container.DirectedGraph {
	d := container.NewAdjacencyMapGraph()
	for _, n := range m.nodes {
		d.AddNode(n)
	}
	for _, e := range m.edges {
		d.AddEdge(e.start, e.end)
	}
	return d
}

func buildAdjacencyFromMap(m *model) container.DirectedGraph {
	adj := map[uint64][]uint64{}
	for _, n := range m.nodes {
		adj[n] = nil
	}
	for _, e := range m.edges {
		adj[e.start] = append(adj[e.start], e.end)
	}
	return container.BuildAdjacencyMapGraph(adj)
}

func buildCSR(m *model, edgesFirst bool) container.DirectedGraph {
	b := container.NewCSRDigraphBuilder()
	if !edgesFirst {
		for _, n := range m.nodes {
			b.AddNode(n)
		}
	}
	for _, e := range m.edges {
		b.AddEdge(e.start, e.end)
	}
	if edgesFirst {
		for i := len(m.nodes) - 1; i >= 0; i-- {
			b.AddNode(m.nodes[i])
		}
	}
	return b.Build()
}

func buildTriplestore(m *model) container.MutableTriplestore {
	ts := container.NewTriplestore()
	adder, ok := ts.(interface{ AddNode(node uint64) })
	if !ok {
		core.Fatalf("the triple store has no AddNode method any more: isolated nodes cannot be built")
	}
	for _, n := range m.nodes {
		adder.AddNode(n)
	}
	for _, e := range m.edges {
		ts.AddTriple(e.id, e.start, e.end)
	}
	return ts
}

// fake database: exactly the calls FetchDirectedGraph makes (everything else panics on the nil embedded interface)

type fakeDB struct {
	graph.Database
	m *model
}

func (s fakeDB) ReadTransaction(ctx context.Context, txDelegate graph.TransactionDelegate, _ ...graph.TransactionOption) error {
	return txDelegate(fakeTx{m: s.m})
}

type fakeTx struct {
	graph.Transaction
	m *model
}

func (s fakeTx) Relationships() graph.RelationshipQuery { return fakeRelQuery{m: s.m} }

type fakeRelQuery struct {
	graph.RelationshipQuery
	m *model
}

func (s fakeRelQuery) Filter(graph.Criteria) graph.RelationshipQuery { return s }
func (s fakeRelQuery) Query(delegate func(results graph.Result) error, _ ...graph.Criteria) error {
	return delegate(&fakeResult{m: s.m, next: -1})
}

type fakeResult struct {
	graph.Result
	m    *model
	next int
}

func (s *fakeResult) Next() bool { s.next++; return s.next < len(s.m.edges) }
func (s *fakeResult) Scan(targets ...any) error {
	if len(targets) != 2 {
		return fmt.Errorf("fake result: %d scan targets", len(targets))
	}
	e := s.m.edges[s.next]
	for i, v := range []uint64{e.start, e.end} {
		id, ok := targets[i].(*graph.ID)
		if !ok {
			return fmt.Errorf("fake result: target %d is a %T", i, targets[i])
		}
		*id = graph.ID(v)
	}
	return nil
}
func (s *fakeResult) Error() error { return nil }
func (s *fakeResult) Close()       {}

// ---------------------------------------------------------------------------------------------------------------
// checks

func collectNodes(d container.DirectedGraph) []uint64 {
	var out []uint64
	d.EachNode(func(n uint64) bool { out = append(out, n); return true })
	sort.Slice(out, func(i, j int) bool { return out[i] < out[j] })
	return out
}

func adjacentSet(d container.DirectedGraph, node uint64, dir graph.Direction) []uint64 {
	var out []uint64
	d.EachAdjacentNode(node, dir, func(a uint64) bool { out = append(out, a); return true })
	return sortedSet(out)
}

// checkDigraph compares the DirectedGraph view of one container with the model. kind names the implementation in the
// violation class. extraProbes are ids that are not nodes of the model (absent or deleted): they must have no neighbours.
//
// skip lists directions whose node adjacency is not compared because a more basic answer of the same container
// (EachAdjacentEdge of a triple store) is already wrong there. The result says whether every primitive answer agreed.
func (c *evalCtx) checkDigraph(kind string, d container.DirectedGraph, m *model, extraProbes []uint64, derived bool, skip map[graph.Direction]bool) bool {
	c.n.evaluations++
	if len(m.edges) > 0 {
		c.n.nontrivial++
	}
	allOK := true
	if !c.guard("panic-"+kind, "node enumeration", func() {
		allOK = c.expect("node-count-"+kind, "NumNodes()", d.NumNodes(), len(m.nodes)) && allOK
		allOK = c.expect("node-set-"+kind, "EachNode", collectNodes(d), m.nodes) && allOK
	}) {
		return false
	}
	adjOK := map[graph.Direction]bool{}
	for _, dir := range directions {
		if skip[dir] {
			c.n.skippedDerived++
			allOK = false
			continue
		}
		ok := true
		class := fmt.Sprintf("adjacency-%s-%s", kind, dirName(dir))
		c.guard("panic-"+kind, "EachAdjacentNode "+dirName(dir), func() {
			for _, n := range m.nodes {
				ok = c.expect(class, fmt.Sprintf("adjacent(%d,%s)", n, dirName(dir)), adjacentSet(d, n, dir), m.adjacent(n, dir)) && ok
			}
			for _, n := range extraProbes {
				ok = c.expect(class, fmt.Sprintf("adjacent(%d,%s) of a node that is not in the graph", n, dirName(dir)), adjacentSet(d, n, dir), []uint64{}) && ok
			}
		})
		adjOK[dir] = ok
		allOK = allOK && ok
	}
	if !derived {
		return allOK
	}
	for _, dir := range directions {
		if !adjOK[dir] {
			c.n.skippedDerived++
			continue
		}
		c.guard("panic-reach-"+kind, "Reach/BFSTree "+dirName(dir), func() {
			for _, n := range m.nodes {
				c.expect(fmt.Sprintf("reach-%s-%s", kind, dirName(dir)), fmt.Sprintf("Reach(%d,%s)", n, dirName(dir)),
					container.Reach(d, n, dir).Slice(), m.reach(n, dir))

				var (
					want = m.bfs(n, dir)
					got  = map[uint64]int{}
					dup  []uint64
				)
				for _, t := range container.BFSTree(d, n, dir) {
					if _, twice := got[t.Node]; twice {
						dup = append(dup, t.Node)
					}
					got[t.Node] = t.Distance
				}
				c.expect(fmt.Sprintf("bfstree-%s-%s", kind, dirName(dir)), fmt.Sprintf("BFSTree(%d,%s) node->distance (terminals listed twice: %v)", n, dirName(dir), dup), got, want)
			}
		})
	}
	return allOK
}

type normalizer interface {
	Normalize() ([]uint64, container.DirectedGraph)
}

func (c *evalCtx) checkNormalize(kind string, d container.DirectedGraph, m *model) {
	nz, ok := d.(normalizer)
	if !ok {
		core.Fatalf("%s container has no Normalize method any more", kind)
	}
	class := "normalize-" + kind
	c.guard("panic-"+class, "Normalize", func() {
		rev, ng := nz.Normalize()
		if !c.expect(class, "sorted reverse index", sortedSet(rev), m.nodes) || !c.expect(class, "len(reverse index)", len(rev), len(m.nodes)) {
			return
		}
		dense := make([]uint64, len(rev))
		index := map[uint64]uint64{}
		for i, id := range rev {
			dense[i] = uint64(i)
			index[id] = uint64(i)
		}
		c.expect(class, "normalised NumNodes()", ng.NumNodes(), len(rev))
		c.expect(class, "normalised node set", collectNodes(ng), dense)
		for i, id := range rev {
			for _, dir := range directions {
				var want []uint64
				for _, a := range m.adjacent(id, dir) {
					want = append(want, index[a])
				}
				c.expect(class, fmt.Sprintf("normalised adjacent(%d = node %d, %s)", i, id, dirName(dir)), adjacentSet(ng, uint64(i), dir), sortedSet(want))
			}
		}
	})
}

func renderEdges(es []edge) []string {
	out := make([]string, len(es))
	for i, e := range es {
		out[i] = fmt.Sprintf("%d:%d>%d", e.id, e.start, e.end)
	}
	sort.Strings(out)
	return out
}

func segmentPath(s *container.Segment) path {
	var (
		nodes = s.Nodes() // terminal first
		edges = s.Edges()
		p     path
	)
	for i := len(nodes) - 1; i >= 0; i-- {
		p.nodes = append(p.nodes, nodes[i])
	}
	for i := len(edges) - 1; i >= 0; i-- {
		p.edges = append(p.edges, edges[i])
	}
	return p
}

func pathSegment(p path) *container.Segment {
	var seg *container.Segment
	for i, n := range p.nodes {
		seg = &container.Segment{Node: n, Previous: seg}
		if i > 0 {
			seg.Edge = p.edges[i-1]
		}
	}
	return seg
}

var depthBounds = []int{1, 2, 3}

// checkTriplestore compares the Triplestore view (base store or a projection) with the model.
// The result says whether the inbound traversals (what the zone tree file is written from) agreed with the model.
func (c *evalCtx) checkTriplestore(kind string, ts container.Triplestore, m *model, extraProbes []uint64, derived bool) (inboundTraversalOK bool) {
	edgesOK := map[graph.Direction]bool{}
	edgesWrong := map[graph.Direction]bool{}
	for _, dir := range directions {
		ok := true
		class := fmt.Sprintf("adjacent-edges-%s-%s", kind, dirName(dir))
		c.guard("panic-"+kind, "EachAdjacentEdge "+dirName(dir), func() {
			probe := func(n uint64, want []edge) {
				var got []edge
				ts.EachAdjacentEdge(n, dir, func(e container.Edge) bool {
					got = append(got, edge{e.ID, e.Start, e.End})
					return true
				})
				ok = c.expect(class, fmt.Sprintf("adjacentEdges(%d,%s)", n, dirName(dir)), renderEdges(got), renderEdges(want)) && ok
			}
			for _, n := range m.nodes {
				probe(n, m.incident(n, dir))
			}
			for _, n := range extraProbes {
				probe(n, nil)
			}
		})
		edgesOK[dir] = ok
		edgesWrong[dir] = !ok
	}
	c.checkDigraph(kind, ts, m, extraProbes, derived, edgesWrong)
	if !derived {
		return false
	}
	for _, dir := range directions {
		if !edgesOK[dir] {
			c.n.skippedDerived++
			continue
		}
		bounds := depthBounds
		if !m.cyclic(dir) {
			bounds = append([]int{0}, bounds...) // unbounded traversal terminates only without cycles
		}
		class := "traversal-" + dirName(dir)
		dirOK := true
		noPanic := c.guard("panic-traversal", "TSBFS/TSDFS "+dirName(dir), func() {
			for _, root := range m.nodes {
				for _, depth := range bounds {
					want := renderPaths(m.walks(root, dir, depth, nil))
					for _, alg := range []string{"TSBFS", "TSDFS"} {
						var got []path
						collect := func(s *container.Segment) bool { got = append(got, segmentPath(s)); return true }
						all := func(container.Edge) bool { return true }
						if alg == "TSBFS" {
							container.TSBFS(ts, root, dir, depth, all, collect)
						} else {
							container.TSDFS(ts, root, dir, depth, all, collect)
						}
						dirOK = c.expect(class, fmt.Sprintf("%s(%s, root %d, %s, maxDepth %d) terminal segments", alg, kind, root, dirName(dir), depth), renderPaths(got), want) && dirOK
					}
				}
			}
		})
		if dir == graph.DirectionInbound {
			inboundTraversalOK = dirOK && noPanic
		}
	}
	return inboundTraversalOK
}

// checkSegments round-trips every maximal walk of the model through both serialised forms.
func (c *evalCtx) checkSegments(m *model) {
	seen := map[string]bool{}
	try := func(p path) {
		key := p.String()
		if seen[key] {
			return
		}
		seen[key] = true
		c.n.evaluations++
		seg := pathSegment(p)
		c.guard("panic-segment-marshal", "MarshalSegment/UnmarshalSegment of "+key, func() {
			var buf bytes.Buffer
			if err := container.MarshalSegment(seg, &buf); err != nil {
				c.fail("segment-marshal-roundtrip", fmt.Sprintf("MarshalSegment(%s): %v", key, err))
				return
			}
			c.expect("segment-marshal-roundtrip", "len(MarshalSegment("+key+")) in bytes", buf.Len(), 8*(len(p.nodes)+len(p.edges)))
			c.expect("segment-marshal-roundtrip", "UnmarshalSegment(MarshalSegment("+key+"))", segmentPath(container.UnmarshalSegment(buf.Bytes())), key)
		})
		// SerializedSegment lists nodes and edges root first (the only order its loop can rebuild: the first node
		// ends up deepest in the Previous chain)
		c.guard("serialized-segment-tosegment-panic", "SerializedSegment.ToSegment of "+key, func() {
			back := container.SerializedSegment{Nodes: p.nodes, Edges: p.edges}.ToSegment()
			c.expect("serialized-segment-tosegment-wrong", "SerializedSegment{"+key+"}.ToSegment()", segmentPath(back), key)
		})
	}
	for _, n := range m.nodes {
		try(path{nodes: []uint64{n}})
		for _, dir := range directions {
			for _, p := range m.walks(n, dir, 3, nil) {
				try(p)
			}
		}
	}
}

func containsNewline(vals ...uint64) bool {
	for _, v := range vals {
		for s := 0; s < 64; s += 8 {
			if byte(v>>uint(s)) == '\n' {
				return true
			}
		}
	}
	return false
}

// checkBFSTreeFile writes the zone tree of every non-empty zone subset and reads it back.
func (c *evalCtx) checkBFSTreeFile(ts container.Triplestore, m *model, scratch string, depths []int) {
	for mask := uint(1); mask < 1<<uint(len(m.nodes)); mask++ {
		var (
			zone    = graph.NewNodeSet()
			inZone  = map[uint64]bool{}
			zoneIDs []uint64
		)
		for i, n := range m.nodes {
			if mask&(1<<uint(i)) != 0 {
				zone.Add(graph.NewNode(graph.ID(n), graph.NewProperties()))
				inZone[n] = true
				zoneIDs = append(zoneIDs, n)
			}
		}
		for _, depth := range depths {
			var (
				want    []path
				newline bool
			)
			for _, z := range zoneIDs {
				want = append(want, m.walks(z, graph.DirectionInbound, depth, func(e edge) bool { return !inZone[e.start] })...)
			}
			for _, p := range want {
				newline = newline || containsNewline(p.nodes...) || containsNewline(p.edges...)
			}
			cc := c.with("scope", "bfstree", "zone", zoneIDs, "max_depth", depth)
			c.n.evaluations++
			c.n.files++
			cc.guard("panic-bfstree-file", "WriteZoneBFSTree/ReadEach", func() {
				file, err := container.WriteZoneBFSTree(zone, ts, scratch, depth)
				if err != nil {
					core.Fatalf("WriteZoneBFSTree: %v", err) // the scratch directory is ours: an I/O error is a machinery failure
				}
				defer file.Remove()
				cc.expect("bfstree-file-numpaths", "BFSTreeFile.NumPaths", file.NumPaths, len(want))

				var got []path
				err = file.ReadEach(context.Background(), func(s *container.Segment) (bool, error) {
					got = append(got, segmentPath(s))
					return true, nil
				})
				// Two different input domains, two classes: records whose bytes contain 0x0A (the record separator)
				// and records that do not.
				class := "bfstree-file-readeach"
				if newline {
					class = "bfstree-file-readeach-newline-byte-in-id"
				}
				if err != nil {
					cc.fail(class, fmt.Sprintf("ReadEach of a file WriteZoneBFSTree just wrote (%d segments) fails: %v", len(want), err))
					return
				}
				cc.expect(class, fmt.Sprintf("segments read back by ReadEach (zone %v, maxDepth %d)", zoneIDs, depth), renderPaths(got), renderPaths(want))
			})
		}
	}
}

func bitmapOf(ids []uint64) cardinality.Duplex[uint64] {
	return cardinality.NewBitmap64With(ids...)
}

func pick[T any](all []T, mask uint) []T {
	var out []T
	for i, v := range all {
		if mask&(1<<uint(i)) != 0 {
			out = append(out, v)
		}
	}
	return out
}

func idSet(ids []uint64) map[uint64]bool {
	s := map[uint64]bool{}
	for _, id := range ids {
		s[id] = true
	}
	return s
}

func (sp *spec) edgeIDs() []uint64 {
	out := make([]uint64, len(sp.m.edges))
	for i, e := range sp.m.edges {
		out[i] = e.id
	}
	return out
}

// ---------------------------------------------------------------------------------------------------------------
// what is evaluated for one graph x id profile

type plan struct {
	derivedMaxDeletions int   // derived computations on a projection only up to this many deleted elements (-1: all)
	chains              bool  // two-step projections
	treeDepths          []int // maxDepth values for the zone tree files (nil: none)
}

func (c *evalCtx) evalBase(scratch string, pl plan) {
	m := c.sp.m
	probes := []uint64{absentID}
	// Normalize and FetchDirectedGraph are looked at only when the plain container they rest on answers correctly, so
	// that one defect is not reported under several names.
	adjOK := c.with("scope", "base", "container", "adjacency map").checkDigraph("adjacencymap", buildAdjacency(m), m, probes, true, nil)
	c.with("scope", "base", "container", "adjacency map via BuildAdjacencyMapGraph").checkDigraph("adjacencymap", buildAdjacencyFromMap(m), m, probes, true, nil)
	if adjOK {
		c.with("scope", "base", "container", "adjacency map").checkNormalize("adjacencymap", buildAdjacency(m), m)
	}
	csrOK := c.with("scope", "base", "container", "csr (nodes first)").checkDigraph("csr", buildCSR(m, false), m, probes, true, nil)
	csrOK = c.with("scope", "base", "container", "csr (edges first)").checkDigraph("csr", buildCSR(m, true), m, probes, true, nil) && csrOK
	if csrOK {
		c.with("scope", "base", "container", "csr (nodes first)").checkNormalize("csr", buildCSR(m, false), m)
		c.with("scope", "base", "container", "csr (edges first)").checkNormalize("csr", buildCSR(m, true), m)

		fc := c.with("scope", "base", "container", "csr via FetchDirectedGraph")
		fc.guard("panic-fetch", "FetchDirectedGraph", func() {
			d, err := container.FetchDirectedGraph(context.Background(), fakeDB{m: m}, nil)
			if err != nil {
				core.Fatalf("FetchDirectedGraph over the fake database: %v", err)
			}
			fc.checkDigraph("fetch", d, m.withoutIsolated(), probes, true, nil)
		})
	} else {
		c.n.skippedDerived++
	}

	ts := buildTriplestore(m)
	inboundOK := c.with("scope", "base", "container", "triplestore").checkTriplestore("triplestore", ts, m, probes, true)
	c.with("scope", "segments").checkSegments(m)
	if len(pl.treeDepths) > 0 {
		if inboundOK {
			c.checkBFSTreeFile(ts, m, scratch, pl.treeDepths)
		} else {
			c.n.skippedDerived++
		}
	}
}

func popcount(x uint) int {
	n := 0
	for ; x != 0; x &= x - 1 {
		n++
	}
	return n
}

// evalProjection checks Projection(delNodes, delEdges) of the triple store, and its two-step constructions.
func (c *evalCtx) evalProjection(ts container.Triplestore, nodeMask, edgeMask uint, pl plan) {
	var (
		m        = c.sp.m
		delNodes = pick(m.nodes, nodeMask)
		delEdges = pick(c.sp.edgeIDs(), edgeMask)
		want     = m.project(idSet(delNodes), idSet(delEdges))
		probes   = append([]uint64{absentID}, delNodes...)
		derived  = pl.derivedMaxDeletions < 0 || popcount(nodeMask)+popcount(edgeMask) <= pl.derivedMaxDeletions
	)
	pc := c.with("scope", "projection", "deleted_nodes", delNodes, "deleted_edges", delEdges, "node_mask", nodeMask, "edge_mask", edgeMask)
	pc.guard("panic-projection", "Projection", func() {
		pc.checkTriplestore("projection", ts.Projection(bitmapOf(delNodes), bitmapOf(delEdges)), want, probes, derived)
	})
	// the same deletion sets plus an id the store does not hold (a set computed on a larger graph): the same projection
	fc := c.with("scope", "projection-with-foreign-ids", "deleted_nodes", delNodes, "deleted_edges", delEdges, "node_mask", nodeMask, "edge_mask", edgeMask)
	fc.guard("panic-projection", "Projection with ids that are not in the store", func() {
		foreignNodes := append(append([]uint64{}, delNodes...), absentID, absentID+1)
		foreignEdges := append(append([]uint64{}, delEdges...), absentID)
		fc.checkTriplestore("projection", ts.Projection(bitmapOf(foreignNodes), bitmapOf(foreignEdges)), want, probes, false)
	})
	if !pl.chains {
		return
	}
	// two-step projections of the same deletion sets: nothing first, everything first, and each single element first
	type split struct{ n1, e1 uint }
	splits := []split{{0, 0}, {nodeMask, edgeMask}}
	for i := 0; i < len(m.nodes); i++ {
		if nodeMask&(1<<uint(i)) != 0 {
			splits = append(splits, split{1 << uint(i), 0})
		}
	}
	for i := 0; i < len(m.edges); i++ {
		if edgeMask&(1<<uint(i)) != 0 {
			splits = append(splits, split{0, 1 << uint(i)})
		}
	}
	done := map[split]bool{}
	for _, sp := range splits {
		if done[sp] {
			continue // e.g. nothing deleted at all, or a single deleted element: the same construction twice
		}
		done[sp] = true
		var (
			n1, e1 = pick(m.nodes, sp.n1), pick(c.sp.edgeIDs(), sp.e1)
			n2, e2 = pick(m.nodes, nodeMask&^sp.n1), pick(c.sp.edgeIDs(), edgeMask&^sp.e1)
		)
		cc := c.with("scope", "chain", "deleted_nodes", delNodes, "deleted_edges", delEdges, "node_mask", nodeMask, "edge_mask", edgeMask,
			"first_nodes", n1, "first_edges", e1, "first_node_mask", sp.n1, "first_edge_mask", sp.e1)
		cc.guard("panic-projection", "Projection(..).Projection(..)", func() {
			chained := ts.Projection(bitmapOf(n1), bitmapOf(e1)).Projection(bitmapOf(n2), bitmapOf(e2))
			cc.checkTriplestore("projection", chained, want, probes, false)
		})
	}
}

func (c *evalCtx) evalAll(scratch string, pl plan) {
	c.evalBase(scratch, pl)
	ts := buildTriplestore(c.sp.m)
	for nodeMask := uint(0); nodeMask < 1<<uint(len(c.sp.m.nodes)); nodeMask++ {
		for edgeMask := uint(0); edgeMask < 1<<uint(len(c.sp.m.edges)); edgeMask++ {
			c.evalProjection(ts, nodeMask, edgeMask, pl)
		}
	}
}

// ---------------------------------------------------------------------------------------------------------------
// bounds

type family struct {
	Graphs   graphs.Options
	Profiles []string
	plan     plan
	Plan     string // the plan in words, for the evidence file
}

func tierFamilies(t core.Tier) []family {
	multi := func(minN, maxN, maxE int) graphs.Options {
		return graphs.Options{MinNodes: minN, MaxNodes: maxN, MaxEdges: maxE, SelfLoops: true, Parallel: true}
	}
	if t == core.Quick {
		return []family{
			{Graphs: multi(0, 3, 4), Profiles: []string{"A", "B", "C"},
				plan: plan{derivedMaxDeletions: -1, chains: true, treeDepths: []int{1, 3}},
				Plan: "all projections with derived computations; two-step projections; zone tree files with maxDepth 1 and 3"},
		}
	}
	return []family{
		{Graphs: multi(0, 3, 5), Profiles: []string{"A", "B", "C"},
			plan: plan{derivedMaxDeletions: -1, chains: true, treeDepths: []int{1, 2, 3}},
			Plan: "all projections with derived computations; two-step projections; zone tree files with maxDepth 1, 2, 3"},
		{Graphs: multi(4, 4, 5), Profiles: []string{"A", "B"},
			plan: plan{derivedMaxDeletions: 2, chains: false, treeDepths: []int{2}},
			Plan: "all projections (primitive answers); derived computations on projections with <= 2 deletions; zone tree files with maxDepth 2"},
	}
}

// ---------------------------------------------------------------------------------------------------------------

type firstCase struct {
	seq   int
	v     core.Violation
	count int64
}

type collector struct {
	mu    sync.Mutex
	first map[string]*firstCase
}

func (k *collector) keep(seq int, v core.Violation) {
	k.mu.Lock()
	defer k.mu.Unlock()
	if cur, ok := k.first[v.Class]; !ok {
		k.first[v.Class] = &firstCase{seq: seq, v: v, count: 1}
	} else {
		cur.count++
		if seq < cur.seq {
			cur.seq, cur.v = seq, v
		}
	}
}

func replay(run *core.Run) {
	var art struct {
		Graph         string `json:"graph"`
		Profile       string `json:"profile"`
		Scope         string `json:"scope"`
		NodeMask      uint   `json:"node_mask"`
		EdgeMask      uint   `json:"edge_mask"`
		FirstNodeMask uint   `json:"first_node_mask"`
		FirstEdgeMask uint   `json:"first_edge_mask"`
	}
	class := core.LoadArtefact(run.Replay, &art)
	g, err := graphs.Parse(art.Graph)
	if err != nil {
		core.Fatalf("replay: %v", err)
	}
	prof, ok := profiles[art.Profile]
	if !ok {
		core.Fatalf("replay: unknown id profile %q", art.Profile)
	}
	scratch, err := os.MkdirTemp("", "c14-replay-")
	if err != nil {
		core.Fatalf("scratch: %v", err)
	}
	defer os.RemoveAll(scratch)
	sp := newSpec(g, prof)
	fmt.Printf("replay: class %s, scope %s, graph %s, ids %s: %s\n", class, art.Scope, g, prof.name, sp.m)
	c := &evalCtx{sp: sp, verbose: true, scope: map[string]any{}, n: &counters{}, report: func(v core.Violation) {
		if v.Class == class || class == "" {
			run.Report(v)
		}
	}}
	full := plan{derivedMaxDeletions: -1, chains: art.Scope == "chain", treeDepths: depthBounds}
	switch art.Scope {
	case "projection", "chain":
		c.evalProjection(buildTriplestore(sp.m), art.NodeMask, art.EdgeMask, full)
	default:
		c.evalBase(scratch, full)
	}
	if run.Violations() == 0 {
		fmt.Println("replay: no violation of class", class)
	}
	os.RemoveAll(scratch) // Finish exits the process, deferred calls do not run
	run.Finish()
}

func main() {
	run := core.Start("C14", "exploration")
	if run.Replay != "" {
		replay(run)
		return
	}
	scratch, err := os.MkdirTemp("", "c14-")
	if err != nil {
		core.Fatalf("scratch: %v", err)
	}
	defer os.RemoveAll(scratch)

	var (
		families = tierFamilies(run.Tier)
		keep     = &collector{first: map[string]*firstCase{}}
		wg       sync.WaitGroup
		sem      = make(chan struct{}, 16)
		seqBase  int
	)
	for fi, fam := range families {
		if os.Getenv("C14_FAMILY") != "" && os.Getenv("C14_FAMILY") != fmt.Sprint(fi) { // measurement aid only
			run.Capped("C14_FAMILY measurement run")
			continue
		}
		var batch []graphs.Graph
		flush := func(base int) {
			if len(batch) == 0 {
				return
			}
			work := batch
			batch = nil
			wg.Add(1)
			sem <- struct{}{}
			go func() {
				defer wg.Done()
				defer func() { <-sem }()
				var n counters
				for k, g := range work {
					for pi, pname := range fam.Profiles {
						seq := (base+k)*8 + pi
						c := &evalCtx{sp: newSpec(g, profiles[pname]), scope: map[string]any{}, n: &n, report: func(v core.Violation) { keep.keep(seq, v) }}
						c.evalAll(scratch, fam.plan)
						if (base+k)%97 == 5 && pi == 0 {
							run.Sample(map[string]any{"graph": g.String(), "profile": pname, "model": c.sp.m.String(), "projections": 1 << uint(len(c.sp.m.nodes)+len(c.sp.m.edges))})
						}
					}
				}
				run.Add("graphs", int64(len(work)))
				run.Add("evaluations", n.evaluations)
				run.Add("comparisons", n.comparisons)
				run.Add("distinct_nontrivial", n.nontrivial)
				run.Add("derived_checks_skipped_because_primitive_failed", n.skippedDerived)
				run.Add("zone_tree_files", n.files)
			}()
		}
		enumerated := 0
		graphs.Each(fam.Graphs, func(_ int, g graphs.Graph) bool {
			if run.TimeUp() {
				run.Capped("deadline before every graph was evaluated")
				return false
			}
			batch = append(batch, g)
			enumerated++
			if len(batch) == 32 {
				flush(seqBase + enumerated - 32)
			}
			return true
		})
		flush(seqBase + enumerated - len(batch))
		seqBase += enumerated
	}
	wg.Wait()
	os.RemoveAll(scratch)

	classes := make([]string, 0, len(keep.first))
	for cl := range keep.first {
		classes = append(classes, cl)
	}
	sort.Strings(classes)
	perClass := map[string]any{}
	for _, cl := range classes {
		run.Report(keep.first[cl].v)
		perClass[cl] = keep.first[cl].count
	}
	if len(perClass) > 0 {
		run.Set("failing_comparisons_by_class", perClass)
	}
	run.Set("rule", "every directed multigraph (self loops, parallel and antiparallel edges, isolated nodes; labelled nodes) inside the bounds x id profile x "+
		"container (adjacency map x2 constructors, CSR x2 insertion orders, CSR via FetchDirectedGraph, triple store, every Projection(deleted nodes subset, deleted edges subset), "+
		"two-step projections) is one evaluation; evaluations also count one per serialised segment and per zone tree file. distinct_nontrivial counts the distinct "+
		"(graph, ids, container or projection) views whose expected graph has at least one edge (each is generated exactly once)")
	run.Set("bounds", families)
	run.Assume("the reference model is the edge list with naive set/BFS/walk computations (cmd/c14/model.go); adjacency is compared as a set, as the statement says")
	run.Assume("derived computations (Reach, BFSTree, TSBFS, TSDFS) are compared only where the primitive answers they are built on already agree with the model, so that each failure is attributed once; skipped ones are counted")
	run.Assume("SerializedSegment is taken to list nodes and edges root first, the only order its ToSegment loop can rebuild")
	run.Assume("FetchDirectedGraph is driven through a fake graph.Database that returns exactly the (start,end) rows of the edge list; it knows no isolated nodes, so it is compared with the model without them")
	run.Finish()
}
