package main

import (
	"fmt"
	"sort"
	"strings"

	"github.com/specterops/dawgs/graph"
)

// The reference model of C14: a node list and an edge list, and naive computations over them. Nothing here is shared
// with the code under test.

type edge struct{ id, start, end uint64 }

type model struct {
	nodes []uint64 // sorted, distinct
	edges []edge   // insertion order
}

var directions = []graph.Direction{graph.DirectionOutbound, graph.DirectionInbound, graph.DirectionBoth}

func dirName(d graph.Direction) string {
	switch d {
	case graph.DirectionOutbound:
		return "out"
	case graph.DirectionInbound:
		return "in"
	}
	return "both"
}

func sortedSet(vals []uint64) []uint64 {
	out := append([]uint64{}, vals...)
	sort.Slice(out, func(i, j int) bool { return out[i] < out[j] })
	w := 0
	for i, v := range out {
		if i == 0 || v != out[i-1] {
			out[w] = v
			w++
		}
	}
	return out[:w]
}

func (m *model) has(node uint64) bool {
	for _, n := range m.nodes {
		if n == node {
			return true
		}
	}
	return false
}

// incident lists the edges that leave (out), enter (in) or touch (both, each edge once) the node.
func (m *model) incident(node uint64, d graph.Direction) []edge {
	var out []edge
	for _, e := range m.edges {
		switch d {
		case graph.DirectionOutbound:
			if e.start == node {
				out = append(out, e)
			}
		case graph.DirectionInbound:
			if e.end == node {
				out = append(out, e)
			}
		default:
			if e.start == node || e.end == node {
				out = append(out, e)
			}
		}
	}
	return out
}

// far is the endpoint reached by following e from node in direction d.
func far(e edge, node uint64, d graph.Direction) uint64 {
	switch d {
	case graph.DirectionOutbound:
		return e.end
	case graph.DirectionInbound:
		return e.start
	}
	if e.start == node {
		return e.end // also right for a self loop
	}
	return e.start
}

// adjacent: out-neighbours, in-neighbours, or their union; contains the node itself only through a self loop.
func (m *model) adjacent(node uint64, d graph.Direction) []uint64 {
	var out []uint64
	for _, e := range m.incident(node, d) {
		out = append(out, far(e, node, d))
	}
	return sortedSet(out)
}

// bfs returns the distance (>= 1) of every node reachable from start by at least one step.
func (m *model) bfs(start uint64, d graph.Direction) map[uint64]int {
	type item struct {
		node uint64
		dist int
	}
	var (
		dist  = map[uint64]int{}
		queue = []item{{start, 0}}
	)
	for len(queue) > 0 {
		u := queue[0]
		queue = queue[1:]
		for _, v := range m.adjacent(u.node, d) {
			if _, seen := dist[v]; !seen {
				dist[v] = u.dist + 1
				queue = append(queue, item{v, u.dist + 1})
			}
		}
	}
	return dist
}

func (m *model) reach(start uint64, d graph.Direction) []uint64 {
	var out []uint64
	for n := range m.bfs(start, d) {
		out = append(out, n)
	}
	return sortedSet(out)
}

// path is a walk written root first.
type path struct {
	nodes []uint64
	edges []uint64
}

func (p path) String() string {
	var sb strings.Builder
	for i, n := range p.nodes {
		if i > 0 {
			fmt.Fprintf(&sb, "-[%d]-", p.edges[i-1])
		}
		fmt.Fprintf(&sb, "(%d)", n)
	}
	return sb.String()
}

func renderPaths(ps []path) []string {
	out := make([]string, len(ps))
	for i, p := range ps {
		out[i] = p.String()
	}
	sort.Strings(out)
	return out
}

// walks enumerates the maximal walks from root: every walk of at least one edge that follows direction d through
// edges accepted by filter and either cannot be extended or has maxDepth edges (maxDepth <= 0: no bound; the caller
// only asks that for acyclic graphs).
func (m *model) walks(root uint64, d graph.Direction, maxDepth int, filter func(e edge) bool) []path {
	var (
		out []path
		rec func(node uint64, nodes, edges []uint64)
	)
	rec = func(node uint64, nodes, edges []uint64) {
		var next []edge
		if maxDepth <= 0 || len(edges) < maxDepth {
			for _, e := range m.incident(node, d) {
				if filter == nil || filter(e) {
					next = append(next, e)
				}
			}
		}
		if len(next) == 0 {
			if len(edges) > 0 {
				out = append(out, path{nodes: append([]uint64{}, nodes...), edges: append([]uint64{}, edges...)})
			}
			return
		}
		for _, e := range next {
			n := far(e, node, d)
			rec(n, append(nodes, n), append(edges, e.id))
		}
	}
	rec(root, []uint64{root}, nil)
	return out
}

// cyclic says whether some walk in direction d can go on for ever.
func (m *model) cyclic(d graph.Direction) bool {
	if d == graph.DirectionBoth {
		return len(m.edges) > 0
	}
	for _, n := range m.nodes {
		if _, back := m.bfs(n, d)[n]; back {
			return true
		}
	}
	return false
}

// project removes the deleted nodes, the deleted edges and every edge that touches a deleted node.
func (m *model) project(delNodes, delEdges map[uint64]bool) *model {
	p := &model{}
	for _, n := range m.nodes {
		if !delNodes[n] {
			p.nodes = append(p.nodes, n)
		}
	}
	for _, e := range m.edges {
		if !delEdges[e.id] && !delNodes[e.start] && !delNodes[e.end] {
			p.edges = append(p.edges, e)
		}
	}
	return p
}

// withoutIsolated keeps only the nodes that are an endpoint of some edge (what a container built from an edge result
// set alone can know).
func (m *model) withoutIsolated() *model {
	p := &model{edges: m.edges}
	for _, n := range m.nodes {
		if len(m.incident(n, graph.DirectionBoth)) > 0 {
			p.nodes = append(p.nodes, n)
		}
	}
	return p
}

func (m *model) String() string {
	var sb strings.Builder
	fmt.Fprintf(&sb, "nodes=%v edges=[", m.nodes)
	for i, e := range m.edges {
		if i > 0 {
			sb.WriteString(" ")
		}
		fmt.Fprintf(&sb, "%d:%d>%d", e.id, e.start, e.end)
	}
	sb.WriteString("]")
	return sb.String()
}
