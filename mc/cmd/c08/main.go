// Command c08 decides property C08 (parsing is total and bounded on arbitrary input).
//
// Engine E3, level "exploration". Enumerated completely, each text under both frontend.NewContext() and
// frontend.DefaultCypherContext():
//
//	A  every sequence of length <= n over a fixed 30-atom lexical alphabet (n = 3 quick, 4 thorough)
//	W  every sequence of length <= 3 over the grammar's blank atoms (whitespace-only inputs)
//	T  every prefix and every suffix of every query of the repository corpora (token boundaries in the quick tier, every
//	   rune offset in the thorough tier)
//	G  every grammar derivation with <= k deviations (k = 1 quick, 2 thorough) from verif/enum/grammar
//	N  nesting / length families at n = 1, 2, 4, ..., 4096, each in a fresh child process (a Go stack overflow is fatal, not a
//	   panic, and must not take the checker down)
//
// Oracle, per (text, context): no panic; exactly one of (model != nil, err == nil) and (err != nil); an accepted model is
// complete, i.e. the project's own emitter can write it and writes something (a model the emitter refuses, or writes as the empty
// text, is "partially built"); blank-only texts are rejected. Boundedness: for each family the ratios t(2n)/t(n) and alloc(2n)/alloc(n) of the three largest sizes stay below 16
// (polynomial of degree < 4); time is processor time of the parsing process (not wall clock), its ratio is only looked at when t(n) > 50 ms and is the minimum over 5 repetitions; the
// allocation ratio is deterministic. A family that runs into the per-input deadline makes the run non-exhaustive, not failing.
package main

import (
	"encoding/json"
	"fmt"
	"os"
	"os/exec"
	"runtime"
	"runtime/debug"
	"strings"
	"sync"
	"syscall"
	"time"

	"github.com/specterops/dawgs/cypher/frontend"
	"github.com/specterops/dawgs/cypher/models/cypher"
	"github.com/specterops/dawgs/cypher/models/cypher/format"
	"github.com/specterops/dawgs/cypher/parser"

	"verif/core"
	"verif/enum/cytext"
	"verif/enum/grammar"
)

type artefact struct {
	Text    string `json:"text"`
	Context string `json:"context"` // "new" | "default"
	Origin  string `json:"origin,omitempty"`
	Family  string `json:"family,omitempty"`
	N       int    `json:"n,omitempty"`
}

func newCtx(name string) *frontend.Context {
	if name == "default" {
		return frontend.DefaultCypherContext()
	}
	return frontend.NewContext()
}

type outcome struct {
	Panic    string
	ModelNil bool
	Err      string
	EmitErr  string
	Emitted  string
}

func parseOnce(ctxName, text string) (o outcome) {
	var m *cypher.RegularQuery
	var err error
	if p := core.Try(func() { m, err = frontend.ParseCypher(newCtx(ctxName), text) }); p != nil {
		o.Panic = fmt.Sprint(p)
		return
	}
	o.ModelNil = m == nil
	if err != nil {
		o.Err = err.Error()
		if o.Err == "" {
			o.Err = "(error with empty message)"
		}
		return
	}
	if m != nil {
		if p := core.Try(func() {
			out, ferr := format.RegularQuery(m, false)
			o.Emitted = out
			if ferr != nil {
				o.EmitErr = ferr.Error()
			}
		}); p != nil {
			o.EmitErr = "emitter panicked: " + fmt.Sprint(p)
		}
	}
	return
}

func short(s string, n int) string {
	s = strings.ReplaceAll(s, "\n", " ")
	if len(s) > n {
		return s[:n] + "..."
	}
	return s
}

// judge applies the per-input oracle.
func judge(a artefact, o outcome, blankOnly bool) *core.Violation {
	q := fmt.Sprintf("%q", short(a.Text, 120))
	switch {
	case o.Panic != "":
		cls := "panic"
		switch {
		case strings.Contains(o.Panic, "Depth of visitor"):
			cls = "panic-visitor-depth"
		case strings.Contains(o.Panic, "interface conversion"):
			cls = "panic-visitor-type-assertion"
		case strings.Contains(o.Panic, "nil pointer"):
			cls = "panic-nil-dereference"
		case strings.Contains(o.Panic, "index out of range"):
			cls = "panic-index-out-of-range"
		}
		return &core.Violation{Class: cls, Summary: fmt.Sprintf("ParseCypher(%s, %s) panicked: %s", a.Context, q, short(o.Panic, 200)), Artefact: a}
	case o.Err == "" && blankOnly:
		return &core.Violation{Class: "blank-input-accepted", Summary: fmt.Sprintf("ParseCypher(%s, %s): blank-only input was not rejected (model nil: %v)", a.Context, q, o.ModelNil), Artefact: a}
	case o.Err == "" && o.ModelNil:
		return &core.Violation{Class: "nil-model-and-nil-error", Summary: fmt.Sprintf("ParseCypher(%s, %s) returned (nil, nil)", a.Context, q), Artefact: a}
	case o.Err == "" && o.EmitErr == "" && strings.TrimSpace(o.Emitted) == "":
		return &core.Violation{Class: "partial-model-emits-nothing", Summary: fmt.Sprintf("ParseCypher(%s, %s) returned a model and no error, but the model is empty: the project's emitter writes it as \"\"", a.Context, q), Artefact: a}
	case o.Err == "" && o.EmitErr != "":
		cls := "partial-model-without-error"
		switch {
		case strings.Contains(o.EmitErr, "reading clause has no match or unwind"):
			cls = "partial-model-empty-reading-clause"
		case strings.Contains(o.EmitErr, "unsupported updating clause type"):
			cls = "partial-model-empty-updating-clause"
		case strings.Contains(o.EmitErr, "<nil>"):
			cls = "partial-model-nil-expression"
		case strings.Contains(o.EmitErr, "emitter panicked"):
			cls = "partial-model-emitter-panics"
		}
		return &core.Violation{Class: cls, Summary: fmt.Sprintf("ParseCypher(%s, %s) returned a model and no error, but the model is incomplete: the project's emitter refuses it (%s)", a.Context, q, short(o.EmitErr, 160)), Artefact: a}
	}
	return nil
}

var alphabet = []string{
	"MATCH ", "RETURN ", "WHERE ", "NOT ", "AND ", "(", ")", "[", "]", "{", "}", "-", ">", "<", "'s'", "'", "1", "9223372036854775808",
	"1e999", "n", "`", "$p", "=", "*", ":", ".", ",", "\x00", "\xff", " ",
}

var blanks = []string{" ", "\t", "\n", "\r", "\f", "\v", "\x1c", "\x1f", "\u00a0", "\u180e", "\u2003", "\u3000", "/**/", "//c\n"}

func isBlankOnly(text string) bool {
	toks, errs := cytext.Lex(text)
	if len(errs) > 0 {
		return false
	}
	for _, t := range toks {
		if t.Type != parser.CypherLexerSP {
			return false
		}
	}
	return true
}

type stream struct {
	run   *core.Run
	seen  map[[2]uint64]struct{}
	me, n int
}

func fnv2(s string) [2]uint64 {
	const p = 1099511628211
	a, b := uint64(14695981039346656037), uint64(0x9e3779b97f4a7c15)
	for i := 0; i < len(s); i++ {
		a = (a ^ uint64(s[i])) * p
		b = (b + uint64(s[i]) + 1) * 0xff51afd7ed558ccd
		b ^= b >> 29
	}
	return [2]uint64{a, b}
}

// take says whether this worker owns the text and sees it for the first time.
func (s *stream) take(text string) bool {
	h := fnv2(text)
	if int(h[0]%uint64(s.n)) != s.me {
		return false
	}
	if _, dup := s.seen[h]; dup {
		return false
	}
	s.seen[h] = struct{}{}
	return true
}

func (s *stream) eval(text, origin string) {
	if !s.take(text) {
		return
	}
	run := s.run
	blank := isBlankOnly(text)
	toks, _ := cytext.Lex(text)
	nonBlank := 0
	for _, t := range toks {
		if t.Type != parser.CypherLexerSP {
			nonBlank++
		}
	}
	run.Add("distinct_texts", 1)
	if run.Get("evaluations")%resetEvery == 0 {
		parser.VerifResetPredictionCaches() // bounds the memory of ANTLR's process-wide prediction caches
	}
	if nonBlank >= 2 {
		run.Add("distinct_nontrivial", 1)
	}
	run.Add("texts_"+origin, 1)
	for _, c := range []string{"new", "default"} {
		a := artefact{Text: text, Context: c, Origin: origin}
		o := parseOnce(c, text)
		run.Add("evaluations", 1)
		switch {
		case o.Panic != "":
		case o.Err != "":
			run.Add("rejected", 1)
		default:
			run.Add("accepted", 1)
		}
		if v := judge(a, o, blank); v != nil {
			run.Report(*v)
		}
	}
	if n := run.Get("distinct_texts"); n == 1 || n == 2000 || n == 20000 {
		o := parseOnce("new", text)
		run.Sample(map[string]any{"text": short(text, 200), "origin": origin, "error": short(o.Err, 120), "emitted": short(o.Emitted, 200)})
	}
}

func seqs(alpha []string, maxLen int, f func(string)) {
	var rec func(prefix string, depth int)
	rec = func(prefix string, depth int) {
		if depth > 0 {
			f(prefix)
		}
		if depth == maxLen {
			return
		}
		for _, a := range alpha {
			rec(prefix+a, depth+1)
		}
	}
	rec("", 0)
}

// resetEvery is the number of evaluations after which ANTLR's prediction caches are dropped (overlay accessor in cypher/parser).
const resetEvery = 2000

func main() {
	if spec := os.Getenv("VERIF_C08_FAMILY"); spec != "" {
		familyChild(spec)
		return
	}
	run := core.Start("C08", "exploration")
	debug.SetGCPercent(150)
	if run.Replay != "" {
		replay(run)
		return
	}
	alphaLen, gk := 3, 1
	if run.Tier == core.Thorough {
		alphaLen, gk = 4, 2
	}
	if !run.Fork(16) {
		me, n, _ := run.Worker()
		s := &stream{run: run, seen: map[[2]uint64]struct{}{}, me: me, n: n}
		explore(s, alphaLen, gk)
		run.Finish()
	}
	families(run)
	run.Set("rule", fmt.Sprintf("every text is parsed under NewContext() and DefaultCypherContext(). Texts: all sequences of length <= %d over a %d-atom lexical alphabet; "+
		"all sequences of length <= 3 over %d blank atoms; every prefix and suffix of every corpus query (%s); all grammar derivations of Cypher.g4 with <= %d deviations; "+
		"nesting/length families at n = 1..4096. distinct_nontrivial counts distinct texts (exact: texts are sharded by hash) that the project's lexer splits into at least two non-blank tokens.",
		alphaLen, len(alphabet), len(blanks), map[bool]string{false: "token boundaries", true: "every rune offset"}[run.Tier == core.Thorough], gk))
	run.Assume("a model is called complete when the project's own emitter (format.RegularQuery) can write it; this is the reading of 'never returns a partially built model without an error'")
	run.Assume("polynomial boundedness is decided on doubling families by ratios < 16 of allocation (deterministic) and of processor time of the parsing process (only above 50 ms, minimum of 5 repetitions)")
	run.Finish()
}

func explore(s *stream, alphaLen, gk int) {
	run := s.run
	seqs(blanks, 3, func(t string) { s.eval(t, "blank") })
	s.eval("", "blank")
	corpus, err := cytext.Corpus()
	if err != nil {
		core.Fatalf("corpus: %v", err)
	}
	for _, c := range corpus {
		if run.TimeUp() {
			run.Capped("deadline during corpus truncations")
			return
		}
		s.eval(c.Text, "corpus")
		rs := []rune(c.Text)
		if run.Tier == core.Thorough {
			for i := 1; i < len(rs); i++ {
				s.eval(string(rs[:i]), "prefix")
				s.eval(string(rs[i:]), "suffix")
			}
		} else {
			toks, _ := cytext.Lex(c.Text)
			for _, t := range toks {
				if t.Start > 0 && t.Start < len(rs) {
					s.eval(string(rs[:t.Start]), "prefix")
					s.eval(string(rs[t.Start:]), "suffix")
				}
			}
		}
	}
	g, err := cytext.LoadGrammar()
	if err != nil {
		core.Fatalf("grammar: %v", err)
	}
	pools := grammar.CypherPools(true)
	if err := cytext.VerifyPools(pools); err != nil {
		core.Fatalf("%v", err)
	}
	gen, err := grammar.New(g, grammar.Options{Pools: pools, Penalty: grammar.CypherPenalty()})
	if err != nil {
		core.Fatalf("grammar: %v", err)
	}
	st := gen.Enumerate(grammar.Plan{Root: "oC_Cypher", K: gk, OccK: gk - 1}, func(t grammar.Text) bool {
		if run.TimeUp() {
			run.Capped("deadline during grammar derivations")
			return false
		}
		s.eval(t.Text, "grammar")
		return true
	})
	if s.me == 0 {
		run.Add("grammar_derivations", st.Derivations)
		run.Add("grammar_contexts", int64(st.Contexts))
	}
	stop := false
	seqs(alphabet, alphaLen, func(t string) {
		if stop {
			return
		}
		if run.TimeUp() {
			run.Capped("deadline during alphabet sequences")
			stop = true
			return
		}
		s.eval(t, "alphabet")
	})
}

// ---- nesting / length families -------------------------------------------------------------------------------------------

type family struct {
	name string
	gen  func(n int) string
}

var familyList = []family{
	{"parens", func(n int) string { return "RETURN " + strings.Repeat("(", n) + "1" + strings.Repeat(")", n) }},
	{"lists", func(n int) string { return "RETURN " + strings.Repeat("[", n) + strings.Repeat("]", n) }},
	{"not-chain", func(n int) string { return "RETURN " + strings.Repeat("NOT ", n) + "true" }},
	{"and-chain", func(n int) string { return "RETURN 1" + strings.Repeat(" AND 1", n) }},
	{"plus-chain", func(n int) string { return "RETURN 1" + strings.Repeat(" + 1", n) }},
	{"maps", func(n int) string { return "RETURN " + strings.Repeat("{a:", n) + "1" + strings.Repeat("}", n) }},
	{"pattern-chain", func(n int) string { return "MATCH (a)" + strings.Repeat("-[:R]->()", n) + " RETURN a" }},
	{"match-clauses", func(n int) string { return strings.Repeat("MATCH (n) ", n) + "RETURN n" }},
	{"with-parts", func(n int) string { return "MATCH (n) " + strings.Repeat("WITH n ", n) + "RETURN n" }},
	{"long-string", func(n int) string { return "RETURN '" + strings.Repeat("a", n) + "'" }},
	{"long-name", func(n int) string { return "RETURN " + strings.Repeat("a", n) }},
	{"long-number", func(n int) string { return "RETURN 1" + strings.Repeat("0", n) }},
	{"list-elements", func(n int) string { return "RETURN [1" + strings.Repeat(",1", n) + "]" }},
	{"open-parens", func(n int) string { return "RETURN " + strings.Repeat("(", n) }},
	{"open-brackets", func(n int) string { return "RETURN " + strings.Repeat("[", n) }},
	{"close-parens", func(n int) string { return "RETURN 1" + strings.Repeat(")", n) }},
	{"quotes", func(n int) string { return "RETURN " + strings.Repeat("'", n) }},
	{"garbage", func(n int) string { return strings.Repeat("\xff(", n) }},
}

type famResult struct {
	NS      int64  `json:"ns"`    // minimum over the repetitions
	Alloc   uint64 `json:"alloc"` // bytes allocated by one parse
	Outcome outcome
}

// familyChild runs one (family, n, context) in this process and prints the measurement.
func familyChild(spec string) {
	var name, ctxName string
	var n, reps int
	if _, err := fmt.Sscanf(spec, "%s %d %s %d", &name, &n, &ctxName, &reps); err != nil {
		fmt.Println("bad spec", err)
		os.Exit(2)
	}
	var text string
	for _, f := range familyList {
		if f.name == name {
			text = f.gen(n)
		}
	}
	debug.SetMaxStack(1 << 30)
	for _, f := range familyList { // warm the prediction caches with a small instance of every family
		parseOnce(ctxName, f.gen(3))
	}
	var res famResult
	for i := 0; i < reps; i++ {
		runtime.GC()
		var m0, m1 runtime.MemStats
		runtime.ReadMemStats(&m0)
		t0 := cpuTime()
		o := parseOnce(ctxName, text)
		d := cpuTime() - t0
		runtime.ReadMemStats(&m1)
		if i == 0 || d < res.NS {
			res.NS = d
		}
		if a := m1.TotalAlloc - m0.TotalAlloc; i == 0 || a < res.Alloc {
			res.Alloc = a
		}
		o.Emitted = short(o.Emitted, 40)
		res.Outcome = o
	}
	b, _ := json.Marshal(res)
	fmt.Println("RESULT " + string(b))
}

// cpuTime is the processor time (user + system, nanoseconds) this process has consumed: unlike the wall clock it does
// not depend on what else the machine is running, so the growth ratios do not either.
func cpuTime() int64 {
	var ru syscall.Rusage
	if err := syscall.Getrusage(syscall.RUSAGE_SELF, &ru); err != nil {
		return time.Now().UnixNano()
	}
	return ru.Utime.Nano() + ru.Stime.Nano()
}

func measure(name string, n int, ctxName string, reps int, deadline time.Duration) (res famResult, status string) {
	cmd := exec.Command(os.Args[0])
	cmd.Env = append(os.Environ(), fmt.Sprintf("VERIF_C08_FAMILY=%s %d %s %d", name, n, ctxName, reps))
	done := make(chan struct{})
	var out []byte
	var err error
	go func() { out, err = cmd.CombinedOutput(); close(done) }()
	select {
	case <-done:
	case <-time.After(deadline):
		_ = cmd.Process.Kill()
		<-done
		return res, "deadline"
	}
	for _, line := range strings.Split(string(out), "\n") {
		if strings.HasPrefix(line, "RESULT ") {
			if e := json.Unmarshal([]byte(line[7:]), &res); e == nil {
				return res, "ok"
			}
		}
	}
	tail := string(out)
	if len(tail) > 400 {
		tail = tail[:400]
	}
	return res, fmt.Sprintf("crash: %v: %s", err, tail)
}

func families(run *core.Run) {
	minN, maxN := 1, 4096
	if run.Tier == core.Quick {
		minN = 128 // the quick tier measures the five largest sizes only; small sizes are covered by the other enumerations
	}
	report := map[string]any{}
	var mu sync.Mutex
	var wg sync.WaitGroup
	sem := make(chan struct{}, 4) // four families at a time: time ratios are re-measured alone before they count
	for _, f := range familyList {
		for _, ctxName := range []string{"new", "default"} {
			f, ctxName := f, ctxName
			wg.Add(1)
			sem <- struct{}{}
			go func() {
				defer func() { <-sem; wg.Done() }()
				familyOne(run, f, ctxName, minN, maxN, report, &mu)
			}()
		}
	}
	wg.Wait()
	run.Set("families", report)
}

func familyOne(run *core.Run, f family, ctxName string, minN, maxN int, report map[string]any, mu *sync.Mutex) {
	{
		{
			var ns []int64
			var allocs []uint64
			var sizes []int
			for n := minN; n <= maxN; n *= 2 {
				if run.TimeUp() {
					run.Capped("deadline during nesting families")
					return
				}
				a := artefact{Text: "", Context: ctxName, Family: f.name, N: n, Origin: "family"}
				res, status := measure(f.name, n, ctxName, 1, 60*time.Second)
				run.Add("evaluations", 1)
				run.Add("family_inputs", 1)
				if status == "deadline" {
					run.Capped(fmt.Sprintf("family %s/%s n=%d exceeded the 60 s per-input deadline", f.name, ctxName, n))
					break
				}
				if status != "ok" {
					run.Report(core.Violation{Class: "process-crash", Summary: fmt.Sprintf("ParseCypher(%s, family %s n=%d) killed the process: %s", ctxName, f.name, n, short(status, 300)), Artefact: a})
					break
				}
				text := f.gen(n)
				if v := judge(artefact{Text: short(text, 60), Context: ctxName, Family: f.name, N: n, Origin: "family"}, res.Outcome, false); v != nil {
					v.Artefact = a
					run.Report(*v)
				}
				ns, allocs, sizes = append(ns, res.NS), append(allocs, res.Alloc), append(sizes, n)
			}
			// growth over the three largest doublings
			worstT, worstA := 0.0, 0.0
			for i := len(sizes) - 3; i < len(sizes); i++ {
				if i < 1 {
					continue
				}
				a := artefact{Context: ctxName, Family: f.name, N: sizes[i], Origin: "family-growth"}
				if allocs[i-1] > 1<<16 {
					r := float64(allocs[i]) / float64(allocs[i-1])
					if r > worstA {
						worstA = r
					}
					if r >= 16 {
						run.Report(core.Violation{Class: "superpolynomial-allocation", Summary: fmt.Sprintf("family %s/%s: bytes allocated grow by x%.1f from n=%d (%d B) to n=%d (%d B)", f.name, ctxName, r, sizes[i-1], allocs[i-1], sizes[i], allocs[i]), Artefact: a})
					}
				}
				if ns[i-1] > int64(50*time.Millisecond) {
					r := float64(ns[i]) / float64(ns[i-1])
					if r >= 16 {
						// reproduce: minimum of 5 repetitions at both sizes
						lo, s1 := measure(f.name, sizes[i-1], ctxName, 5, 5*time.Minute)
						hi, s2 := measure(f.name, sizes[i], ctxName, 5, 5*time.Minute)
						if s1 != "ok" || s2 != "ok" {
							run.Capped(fmt.Sprintf("family %s/%s growth re-measurement did not finish", f.name, ctxName))
							continue
						}
						r = float64(hi.NS) / float64(lo.NS)
						if r >= 16 {
							run.Report(core.Violation{Class: "superpolynomial-time", Summary: fmt.Sprintf("family %s/%s: time grows by x%.1f from n=%d (%.0f ms) to n=%d (%.0f ms), minimum of 5 runs each", f.name, ctxName, r, sizes[i-1], float64(lo.NS)/1e6, sizes[i], float64(hi.NS)/1e6), Artefact: a})
						}
					}
					if r > worstT {
						worstT = r
					}
				}
			}
			if len(sizes) > 0 {
				last := len(sizes) - 1
				mu.Lock()
				defer mu.Unlock()
				report[f.name+"/"+ctxName] = fmt.Sprintf("n<=%d: %.1f ms, %d KiB at the largest; worst doubling ratio time x%.2f alloc x%.2f", sizes[last], float64(ns[last])/1e6, allocs[last]/1024, worstT, worstA)
			}
		}
	}
}

func replay(run *core.Run) {
	var a artefact
	core.LoadArtefact(run.Replay, &a)
	if a.Family != "" {
		for _, reps := range []int{1} {
			res, status := measure(a.Family, a.N, a.Context, reps, 5*time.Minute)
			fmt.Printf("family %s n=%d context=%s: status=%s time=%.1f ms alloc=%d B outcome=%+v\n", a.Family, a.N, a.Context, status, float64(res.NS)/1e6, res.Alloc, res.Outcome)
			if status != "ok" && status != "deadline" {
				run.Report(core.Violation{Class: "process-crash", Summary: short(status, 300), Artefact: a})
			} else if v := judge(a, res.Outcome, false); v != nil {
				run.Report(*v)
			}
			if a.Origin == "family-growth" && a.N > 1 {
				lo, _ := measure(a.Family, a.N/2, a.Context, 5, 5*time.Minute)
				hi, _ := measure(a.Family, a.N, a.Context, 5, 5*time.Minute)
				fmt.Printf("growth n=%d -> n=%d: time x%.2f (%.1f ms -> %.1f ms), alloc x%.2f (%d B -> %d B)\n", a.N/2, a.N, float64(hi.NS)/float64(lo.NS), float64(lo.NS)/1e6, float64(hi.NS)/1e6, float64(hi.Alloc)/float64(lo.Alloc), lo.Alloc, hi.Alloc)
				if float64(hi.Alloc)/float64(lo.Alloc) >= 16 {
					run.Report(core.Violation{Class: "superpolynomial-allocation", Summary: "allocation ratio >= 16", Artefact: a})
				}
				if lo.NS > int64(50*time.Millisecond) && float64(hi.NS)/float64(lo.NS) >= 16 {
					run.Report(core.Violation{Class: "superpolynomial-time", Summary: "time ratio >= 16 (minimum of 5 runs)", Artefact: a})
				}
			}
		}
		run.Finish()
	}
	blank := isBlankOnly(a.Text)
	o := parseOnce(a.Context, a.Text)
	fmt.Printf("input    : %q\ncontext  : %s\nblank    : %v\n", a.Text, a.Context, blank)
	fmt.Printf("observed : panic=%q model-nil=%v err=%q emit-error=%q emitted=%q\n", o.Panic, o.ModelNil, short(o.Err, 300), o.EmitErr, short(o.Emitted, 300))
	fmt.Printf("required : no panic; (model != nil and err == nil) xor (err != nil); accepted model writable by the emitter; blank input rejected\n")
	if v := judge(a, o, blank); v != nil {
		run.Report(*v)
	} else {
		fmt.Println("replay: no violation")
	}
	run.Finish()
}
